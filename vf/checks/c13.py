"""C13 -- structural equality, hashing, repr and pickling are consistent.

Specification: spec/EqShare.tla (heap of expression objects with lazily cached hashes and the eager
operand sharing of ufl/exprequals.py; per-terminal-class projection table).

(a) TLC: heap mode -- all heaps of N objects, every reachable sequence of ==/hash/Form.equals calls:
    == is an equivalence that coincides with StructEq, implies equal hash/repr/denotation, cached
    hashes never go stale, sharing never creates a cycle, no call changes repr/hash/denotation of any
    object.  Table mode -- the projections of the REAL terminal classes (exported by probing: which
    constructor attribute is seen by ==, hash, repr, signature) are checked for eq => hash/repr/...;
    TLC's counterexamples are concrete attribute pairs, replayed on the real classes.
    Attributed operators (class X = BaseFormOperator: state besides the operands): the flags "does __eq__ /
    hash / the operand walk of expr_equals read the attribute" are read off the real code, TLC checks
    the laws under them and its counterexample (a comparison that re-points an operand tuple to a
    structurally different object) is replayed on real ExternalOperator / Interpolate objects.
(b) conformance: TLC-generated histories (exhaustive short + seeded deep random ones) are replayed on
    real ufl objects under several interpretations of the abstract classes; after every step the
    answer of == must be the StructEq prediction, operand-tuple sharing and hash caching must be
    the predicted ones, and repr/str/shape/indices/denotation (finally also hash and signature) of
    every object must be unchanged.
(c) single-attribute-difference sweep over the classes exported by ufl.classes.
(d) pickle and eval(repr(.)) round trips of every enumerated expression / form.
(e) literal mode of EqShare.tla: the universe of CONSTRUCTOR CALLS of scalar literals -- IntValue / FloatValue /
    ComplexValue / as_ufl applied to a Python int, bool, numpy integer, float, numpy float, complex, numpy complex,
    for zero, one, a number below the IntValue flyweight bound (|n| < 100), numbers at/above it and non-integral
    numbers -- with the flyweight cache as state.  TLC checks the laws on that model (for the conversions the real
    constructors are PROBED to perform; a counterexample is replayed on the real classes) and exports behaviours
    (all pairs of calls about the same number + seeded deep random ones) with the predicted class, stored type,
    identity and equality class of every returned object; they are replayed on the real constructors: == must
    be exactly the predicted classes, equal objects agree on hash / repr / value / signature, objects returned
    earlier are unchanged by later calls, every object survives pickle and eval(repr(.)).
    The same universe holds the constructor calls of the other classes with a flyweight cache -- Zero(shape, free indices,
    index dimensions) (cached per shape when there are no free indices) and MultiIndex (cached per tuple of fixed indices) --
    and ROUND TRIPS (pickle with any protocol >= 2 / copy.copy / copy.deepcopy, eval(repr(.))) of objects returned by earlier
    calls as steps of a behaviour: unpickling is modelled as coded (cls.__new__ on __getnewargs__() THROUGH the caches, then the
    saved slots are written onto whatever __new__ returned), so the spec predicts identity and equality class of the restored
    object and that no object returned earlier and no existing flyweight (the ambient zeros / multi-indices of the shapes in
    use) changes.  Which classes' __getnewargs__ hands over all constructor arguments is PROBED; for the probed set TLC's
    counterexample (a restored object that IS a shared flyweight, overwritten with foreign free indices) is replayed.
"""

from __future__ import annotations

import copy
import itertools
import json
import pickle
import random
import time
import warnings
from concurrent.futures import ThreadPoolExecutor

import numpy as np

import ufl
import ufl.classes as UC
from ufl.algorithms.signature import compute_expression_signature, compute_form_signature
from ufl.core.expr import Expr
from ufl.equation import Equation
from ufl.finiteelement import AbstractFiniteElement
from ufl.form import BaseForm, Form
from ufl.integral import Integral

from .. import tlc
from ..common import MachineryError, main_wrapper

# ==========================================================================================
# user-side element class: evaluable repr, picklable (elements are not UFL types; UFL only
# requires repr/str/hash/eq of them)
# ==========================================================================================

_GDIM = {"interval": 1, "triangle": 2, "quadrilateral": 2, "tetrahedron": 3, "hexahedron": 3}


class Elem(AbstractFiniteElement):
    """Directly defined element; `repr` evaluates to an equal element."""

    def __init__(self, family, cellname, degree, shape=(), pullback="identity_pullback", sobolev="H1", subs=()):
        self._a = (family, cellname, degree, tuple(shape), pullback, sobolev, tuple(subs))

    def __repr__(self):
        return "Elem(%r, %r, %r, %r, %r, %r, %r)" % self._a

    def __str__(self):
        return f"<{self._a[0]}{self._a[2]} on {self._a[1]}>"

    def __hash__(self):
        return hash(("Elem",) + self._a)

    def __eq__(self, other):
        return type(self) is type(other) and self._a == other._a

    @property
    def sobolev_space(self):
        import ufl.sobolevspace as S

        return getattr(S, self._a[5])

    @property
    def pullback(self):
        import ufl.pullback as P

        return getattr(P, self._a[4])

    @property
    def embedded_superdegree(self):
        return self._a[2]

    @property
    def embedded_subdegree(self):
        return self._a[2]

    @property
    def cell(self):
        return ufl.cell.Cell(self._a[1])

    @property
    def reference_value_shape(self):
        return self._a[3]

    @property
    def sub_elements(self):
        return list(self._a[6])


class Tag:
    """A subdomain_data / cargo payload identified through ufl_id() (ufl.protocols.id_or_none)."""

    def __init__(self, uid):
        self._uid = uid

    def ufl_id(self):
        return self._uid

    def __repr__(self):
        return f"Tag({self._uid})"

    def __eq__(self, other):
        return type(other) is Tag and other._uid == self._uid

    def __hash__(self):
        return hash(("Tag", self._uid))


def eval_namespace():
    ns = {}
    exec("from ufl import *\nfrom ufl.classes import *\nfrom ufl.domain import MeshSequence", ns)
    ns["Elem"] = Elem
    ns["Tag"] = Tag
    return ns


# ------------------------------------------------------------------------------------------
# constructors from plain values
# ------------------------------------------------------------------------------------------


def mk_mesh(cell="triangle", uid=1, deg=1):
    return UC.Mesh(Elem("Lagrange", cell, deg, (_GDIM[cell],)), ufl_id=uid)


def mk_elem(cell="triangle", deg=1, shape=()):
    return Elem("Lagrange", cell, deg, shape)


def mk_space(cell="triangle", uid=1, deg=1, shape=(), label="", dual=False, mdeg=1):
    cls = UC.DualSpace if dual else UC.FunctionSpace
    return cls(mk_mesh(cell, uid, mdeg), mk_elem(cell, deg, shape), label=label)


# ==========================================================================================
# observables
# ==========================================================================================


def eqv(x, y):
    """`x == y` as the property means it (forms: the delayed Equation is evaluated)."""
    r = x == y
    if isinstance(r, Equation):
        r = bool(r)
    if r is True or r is False:
        return r
    return "nonbool:" + type(r).__name__


def nev(x, y):
    r = x != y
    if isinstance(r, Equation):
        r = bool(r)
    if r is True or r is False:
        return r
    return "nonbool:" + type(r).__name__


def _try(f):
    try:
        return f()
    except Exception as e:  # noqa: BLE001
        return "raises:" + type(e).__name__


def _domains_of(t):
    try:
        ds = t.ufl_domains()
    except Exception:  # noqa: BLE001
        return []
    out = []
    for d in ds or ():
        out.extend(d.meshes)
    return out


def expr_renumbering(e):
    """Canonical renumbering of counted terminals and domains of one expression."""
    from ufl.corealg.traversal import traverse_unique_terminals

    counted, domains = {}, []
    for t in traverse_unique_terminals(e):
        if hasattr(t, "_counted_class") and isinstance(t, Expr):
            counted.setdefault(t._counted_class, []).append(t)
        for d in _domains_of(t):
            if not any(d is x for x in domains) and d not in domains:
                domains.append(d)
    ren = {}
    for ts in counted.values():
        seen = []
        for t in sorted(ts, key=lambda t: t.count()):
            if not any(t is s for s in seen):
                seen.append(t)
        for i, t in enumerate(seen):
            ren.setdefault(t, i)
    for i, d in enumerate(sorted(domains, key=lambda d: d._ufl_sort_key_())):
        ren[d] = i
    return ren


def signature_of(x):
    if isinstance(x, Form):
        return _try(lambda: compute_form_signature(x, x._compute_renumbering()))
    if isinstance(x, Expr):
        return _try(lambda: compute_expression_signature(x, expr_renumbering(x)))
    if isinstance(x, Integral):
        return _try(lambda: compute_form_signature(Form([x]), Form([x])._compute_renumbering()))
    if hasattr(x, "_ufl_signature_data_"):

        def f():
            ren = {}
            ds = []
            if isinstance(x, UC.AbstractDomain):
                ds = list(x.meshes) + [x]
            elif hasattr(x, "ufl_domains"):
                for d in x.ufl_domains():
                    ds.extend(list(d.meshes) + [d])
            for i, d in enumerate(ds):
                ren.setdefault(d, i)
            try:
                return repr(x._ufl_signature_data_(ren))
            except TypeError:
                return repr(x._ufl_signature_data_())

        return _try(f)
    return None


def observe(x, perturbing=True):
    """Observables of the property. `perturbing=False` leaves out everything that calls hash()."""
    o = {"repr": _try(lambda: repr(x)), "str": _try(lambda: str(x))}
    if isinstance(x, Expr) or isinstance(x, BaseForm):
        o["shape"] = _try(lambda: x.ufl_shape)
    if isinstance(x, Expr):
        o["fi"] = _try(lambda: (x.ufl_free_indices, x.ufl_index_dimensions))
    if isinstance(x, UC.ScalarValue):
        o["value"] = (type(x._value).__name__, x._value)
    if perturbing:
        o["hash"] = _try(lambda: hash(x))
        o["sig"] = signature_of(x)
    return o


# what a == b must imply (the property: equal hash, identical repr, same shape, indices, value,
# signature); str is recorded but never demanded
DEMANDED = ("hash", "repr", "shape", "fi", "value", "sig")


def diff_obs(a, b, keys=DEMANDED):
    return [k for k in keys if k in a and k in b and a[k] != b[k]]


def unfold(x, _depth=0):
    """Denotation of an expression: structural unfolding through the CURRENT operand tuples
    (no hashing)."""
    if isinstance(x, Expr) and not x._ufl_is_terminal_ and _depth < 60:
        extra = None
        if isinstance(x, UC.BaseFormOperator):  # state besides the operands
            extra = (x.derivatives, repr(x.ufl_function_space()), tuple(repr(a) for a in x.argument_slots()))
        return (type(x).__name__, tuple(unfold(o, _depth + 1) for o in x.ufl_operands), extra)
    return (type(x).__name__, repr(x), _try(lambda: x.ufl_shape))


# ==========================================================================================
# (c) catalogue: every class with its constructor attributes, a base value and alternatives
# ==========================================================================================


def V(ctx, fingerprint, what, replay, detail=None):
    """Report a violation once per fingerprint (further inputs of the same structural class are only
    counted): the run log then shows one VIOLATION line per defect class."""
    seen = getattr(ctx, "_c13_seen", None)
    if seen is None:
        seen = ctx._c13_seen = {}
    seen[fingerprint] = seen.get(fingerprint, 0) + 1
    if isinstance(ctx, Sink):
        return ctx.violation(fingerprint, what, replay, detail)
    ctx.cov["failing_inputs_per_fingerprint"] = dict(seen)
    if seen[fingerprint] > 1:
        ctx.count("further_failing_inputs_of_reported_fingerprints")
        return
    ctx.violation(fingerprint, what, replay, detail)


class Case:
    """One class (or constructor form of it): `make(**attrs)` builds a fresh object from plain
    values; `alts[attr]` lists alternative values, each differing from `base` in that attribute only."""

    def __init__(self, name, make, base, alts, kind="support"):
        self.name, self.make, self.base, self.alts, self.kind = name, make, dict(base), alts, kind

    def build(self, attr=None, value=None):
        a = dict(self.base)
        if attr is not None:
            a[attr] = value
        return self.make(**a)

    def columns(self):
        return [(k, i) for k in self.alts for i in range(len(self.alts[k]))]


def _space_from(a, dual=False):
    return mk_space(a["cell"], a["mesh_id"], a["degree"], a["shape"], a["label"], dual=dual)


_SPACE_BASE = {"cell": "triangle", "mesh_id": 1, "degree": 1, "shape": (), "label": ""}
_SPACE_ALTS = {"cell": ["tetrahedron"], "mesh_id": [2], "degree": [2], "shape": [(2,)], "label": ["a"]}


def _geometry_classes():
    out = []
    for c in UC.terminal_classes:
        if issubclass(c, UC.GeometricQuantity) and not c._ufl_is_abstract_:
            out.append(c)
    return sorted(out, key=lambda c: c.__name__)


def _f(cell="triangle", uid=1, deg=1, shape=(), count=5):
    return UC.Coefficient(mk_space(cell, uid, deg, shape), count=count)


def _integral(integrand_count=5, itype="cell", mesh_id=1, sid="everywhere", md=None, sd=None, extra=None, deg=1):
    md = {} if md is None else dict(md)
    sdo = None if sd is None else Tag(sd)
    ex = None if extra is None else {mk_mesh("triangle", extra[0]): extra[1]}
    return Integral(_f(count=integrand_count, deg=deg), itype, mk_mesh("triangle", mesh_id), sid, md, sdo, ex)


def catalogue():
    C = []
    add = C.append
    S, SA = _SPACE_BASE, _SPACE_ALTS

    add(Case("Coefficient", lambda count, **a: UC.Coefficient(_space_from(a), count=count),
             dict(S, count=5), dict(SA, count=[6]), "expr"))
    add(Case("Cofunction", lambda count, **a: UC.Cofunction(_space_from(a, True), count=count),
             dict(S, count=5), dict(SA, count=[6]), "form"))
    add(Case("Constant", lambda cell, mesh_id, shape, count: UC.Constant(mk_mesh(cell, mesh_id), shape, count),
             {"cell": "triangle", "mesh_id": 1, "shape": (), "count": 7},
             {"cell": ["tetrahedron"], "mesh_id": [2], "shape": [(2,), (2, 2)], "count": [8]}, "expr"))
    add(Case("Constant[vector]", lambda cell, mesh_id, shape, count: UC.Constant(mk_mesh(cell, mesh_id), shape, count),
             {"cell": "triangle", "mesh_id": 1, "shape": (2,), "count": 7}, {"shape": [(3,), (2, 2)]}, "expr"))
    add(Case("Argument", lambda number, part, **a: UC.Argument(_space_from(a), number, part),
             dict(S, number=0, part=None), dict(SA, number=[1], part=[0]), "expr"))
    add(Case("Argument[part]", lambda number, part, **a: UC.Argument(_space_from(a), number, part),
             dict(S, number=1, part=0), {"part": [1, None], "number": [0, 2]}, "expr"))
    add(Case("Coargument", lambda number, part, **a: UC.Coargument(_space_from(a, True), number, part),
             dict(S, number=0, part=None), dict(SA, number=[1], part=[0]), "form"))
    add(Case("IntValue", lambda value: UC.IntValue(value), {"value": 3}, {"value": [4, -3, 300]}, "expr"))
    add(Case("IntValue[uncached]", lambda value: UC.IntValue(value), {"value": 300}, {"value": [301, -300]}, "expr"))
    add(Case("FloatValue", lambda value: UC.FloatValue(value), {"value": 2.5}, {"value": [3.5, -2.5, 2.5000000000000004]}, "expr"))
    add(Case("ComplexValue", lambda value: UC.ComplexValue(value), {"value": 1 + 2j}, {"value": [1 + 3j, 2 + 2j, 1 - 2j]}, "expr"))
    add(Case("Zero", lambda shape, free_indices, index_dimensions: UC.Zero(shape, free_indices, index_dimensions),
             {"shape": (), "free_indices": (), "index_dimensions": ()}, {"shape": [(2,), (2, 2)]}, "expr"))
    add(Case("Zero[indices]", lambda shape, free_indices, index_dimensions: UC.Zero(shape, free_indices, index_dimensions),
             {"shape": (2,), "free_indices": (7,), "index_dimensions": (2,)},
             {"shape": [(3,), ()], "free_indices": [(8,)], "index_dimensions": [(3,)]}, "expr"))
    add(Case("Identity", lambda dim: UC.Identity(dim), {"dim": 2}, {"dim": [3]}, "expr"))
    add(Case("PermutationSymbol", lambda dim: UC.PermutationSymbol(dim), {"dim": 2}, {"dim": [3]}, "expr"))
    for G in _geometry_classes():
        add(Case(G.__name__, (lambda G: lambda cell, mesh_id, mesh_degree: G(mk_mesh(cell, mesh_id, mesh_degree)))(G),
                 {"cell": "tetrahedron", "mesh_id": 1, "mesh_degree": 1},
                 {"cell": ["triangle", "hexahedron"], "mesh_id": [2], "mesh_degree": [2]}, "expr"))
    add(Case("Label", lambda count: UC.Label(count), {"count": 1}, {"count": [2]}, "expr"))
    add(Case("FixedIndex", lambda value: UC.FixedIndex(value), {"value": 0}, {"value": [1]}))
    add(Case("Index", lambda count: UC.Index(count), {"count": 5}, {"count": [6]}))

    def mi(items):
        return UC.MultiIndex(tuple(UC.FixedIndex(v) if k == "f" else UC.Index(v) for k, v in items))

    add(Case("MultiIndex", lambda indices: mi(indices), {"indices": (("f", 0),)},
             {"indices": [(("f", 1),), (("i", 0),), (("f", 0), ("f", 0))]}, "expr"))
    add(Case("MultiIndex[free]", lambda indices: mi(indices), {"indices": (("i", 5), ("f", 1))},
             {"indices": [(("i", 6), ("f", 1)), (("i", 5), ("f", 0)), (("f", 1), ("i", 5)), (("i", 5), ("i", 1))]}, "expr"))
    add(Case("Variable", lambda expr_count, label: UC.Variable(_f(count=expr_count), UC.Label(label)),
             {"expr_count": 5, "label": 1}, {"expr_count": [6], "label": [2]}, "expr"))
    # Variable.__eq__ compares its operands directly (no hash cutoff): the wrapped Constant's attribute
    add(Case("Constant[in-Variable]", lambda shape, label: UC.Variable(UC.Constant(mk_mesh(), shape, 7), UC.Label(label)),
             {"shape": (), "label": 1}, {"shape": [(2,)], "label": [2]}, "expr"))

    # --- domains and spaces
    add(Case("Mesh", lambda cell, ufl_id, degree: mk_mesh(cell, ufl_id, degree),
             {"cell": "triangle", "ufl_id": 1, "degree": 1}, {"cell": ["quadrilateral", "tetrahedron"], "ufl_id": [2], "degree": [2]}))
    from ufl.domain import MeshSequence

    add(Case("MeshSequence", lambda id0, id1, n: MeshSequence([mk_mesh("triangle", i) for i in (id0, id1, 3)[:n]]),
             {"id0": 1, "id1": 2, "n": 2}, {"id0": [4], "id1": [4], "n": [3, 1]}))
    add(Case("FunctionSpace", lambda **a: _space_from(a), S, SA))
    add(Case("DualSpace", lambda **a: _space_from(a, True), S, SA))
    add(Case("MixedFunctionSpace", lambda d0, d1, label1, dual1, n: UC.MixedFunctionSpace(
        *[mk_space(deg=d0), mk_space(deg=d1, label=label1, dual=dual1), mk_space(deg=3)][:n]),
        {"d0": 1, "d1": 2, "label1": "", "dual1": False, "n": 2},
        {"d0": [3], "d1": [3], "label1": ["a"], "dual1": [True], "n": [3, 1]}))
    add(Case("TensorProductFunctionSpace", lambda d0, d1, n: UC.TensorProductFunctionSpace(
        *[mk_space(deg=d0), mk_space(deg=d1), mk_space(deg=3)][:n]),
        {"d0": 1, "d1": 2, "n": 2}, {"d0": [3], "d1": [3], "n": [3, 1]}))

    # --- measures, integrals, forms
    def measure(itype, mesh_id, sid, md, sd, inter):
        dom = None if mesh_id is None else mk_mesh("triangle", mesh_id)
        im = None if inter is None else tuple(UC.Measure(t, mk_mesh("triangle", i)) for t, i in inter)
        return UC.Measure(itype, dom, sid, dict(md) if md else None, None if sd is None else Tag(sd), im)

    add(Case("Measure", measure, {"itype": "dx", "mesh_id": 1, "sid": "everywhere", "md": None, "sd": None, "inter": None},
             {"itype": ["ds", "dS"], "mesh_id": [2, None], "sid": [1, (1, 2)], "md": [{"quadrature_degree": 2}], "sd": [3]}))
    add(Case("Measure[annotated]", measure,
             {"itype": "dS", "mesh_id": 1, "sid": 1, "md": {"quadrature_degree": 2}, "sd": 3, "inter": (("ds", 8),)},
             {"sid": [2, (1,)], "md": [{"quadrature_degree": 3}, {"quadrature_degree": 2, "quadrature_rule": "vertex"}],
              "sd": [4], "inter": [(("dS", 8),), (("ds", 9),), (("ds", 8), ("ds", 9))]}))
    IB = {"integrand_count": 5, "itype": "cell", "mesh_id": 1, "sid": "everywhere", "md": None, "sd": None, "extra": None}
    add(Case("Integral", _integral, IB,
             {"integrand_count": [6], "itype": ["exterior_facet"], "mesh_id": [2], "sid": [1, (1, 2), "otherwise"],
              "md": [{"quadrature_degree": 2}], "sd": [3], "extra": [(9, "exterior_facet")]}, "integral"))
    add(Case("Integral[annotated]", _integral,
             dict(IB, sid=1, md={"quadrature_degree": 2}, sd=3, extra=(9, "exterior_facet")),
             {"sid": [2], "md": [{"quadrature_degree": 3}, {}], "sd": [4, None],
              "extra": [(9, "interior_facet"), (10, "exterior_facet"), None]}, "integral"))

    def form(c0, c1, sid1, n, md0):
        its = [_integral(c0, md=md0), _integral(c1, "exterior_facet", sid=sid1), _integral(9, "interior_facet")]
        return Form(its[:n])

    add(Case("Form", form, {"c0": 5, "c1": 6, "sid1": 1, "n": 2, "md0": None},
             {"c0": [7], "c1": [7], "sid1": [2], "n": [3, 1, 0], "md0": [{"quadrature_degree": 2}]}, "form"))

    def formsum(c0, c1, w0, w1, n):
        cs = [(UC.Cofunction(mk_space(dual=True), count=c0), w0), (UC.Cofunction(mk_space(dual=True), count=c1), w1),
              (UC.Cofunction(mk_space(dual=True), count=30), 1)]
        return UC.FormSum(*cs[:n])

    add(Case("FormSum", formsum, {"c0": 20, "c1": 21, "w0": 1, "w1": 2, "n": 2},
             {"c0": [22], "c1": [22], "w0": [3], "w1": [3], "n": [3]}, "form"))
    add(Case("ZeroBaseForm", lambda n0, n1, deg, k: UC.ZeroBaseForm(
        tuple([UC.Argument(mk_space(deg=deg), n0), UC.Argument(mk_space(deg=deg), n1)][:k])),
        {"n0": 0, "n1": 1, "deg": 1, "k": 2}, {"n0": [2], "n1": [2], "deg": [2], "k": [1, 0]}, "form"))
    add(Case("Matrix", lambda d0, d1, count: UC.Matrix(mk_space(deg=d0), mk_space(deg=d1), count),
             {"d0": 1, "d1": 2, "count": 3}, {"d0": [3], "d1": [3], "count": [4]}, "form"))

    def bilinear(deg=1, c=5):
        V = mk_space(deg=deg)
        return Form([Integral(UC.Argument(V, 0) * UC.Argument(V, 1) * UC.Coefficient(V, c), "cell", mk_mesh(), "everywhere", {}, None)])

    add(Case("Adjoint", lambda deg, c: UC.Adjoint(bilinear(deg, c)), {"deg": 1, "c": 5}, {"deg": [2], "c": [6]}, "form"))
    add(Case("Action", lambda deg, c, fc: UC.Action(bilinear(deg, c), UC.Coefficient(mk_space(deg=deg), fc)),
             {"deg": 1, "c": 5, "fc": 8}, {"c": [6], "fc": [9]}, "form"))

    def extop(c0, c1, nops, deg, derivs, argument_slots):
        V = mk_space(deg=deg)
        ops = [_f(count=c0), _f(count=c1)][:nops]
        kw = {}
        if argument_slots is not None:
            kw["argument_slots"] = (UC.Coargument(V.dual(), 0),) + tuple(UC.Coefficient(V, k) for k in argument_slots)
        return UC.ExternalOperator(*ops, function_space=V, derivatives=derivs, **kw)

    add(Case("ExternalOperator", extop, {"c0": 5, "c1": 6, "nops": 2, "deg": 1, "derivs": (0, 0), "argument_slots": None},
             {"c0": [7], "c1": [7], "deg": [2], "derivs": [(1, 0), (0, 1)], "argument_slots": [(40,), (40, 41)]}, "expr"))
    add(Case("ExternalOperator[slots]", extop, {"c0": 5, "c1": 6, "nops": 2, "deg": 1, "derivs": (1, 0), "argument_slots": (40,)},
             {"argument_slots": [(41,), (40, 41), ()]}, "expr"))
    add(Case("Interpolate", lambda c, deg, shape: UC.Interpolate(_f(count=c, shape=shape), mk_space(deg=deg, shape=shape)),
             {"c": 5, "deg": 1, "shape": ()}, {"c": [6], "deg": [2], "shape": [(2,)]}, "expr"))
    return C


# cross-class pairs built from the same constructor values: different classes are never equal
def cross_class_pairs():
    out = []
    G = _geometry_classes()
    m = lambda: mk_mesh("tetrahedron", 1)  # noqa: E731
    for A, B in itertools.combinations(G, 2):
        out.append((A.__name__, B.__name__, (lambda A: lambda: A(m()))(A), (lambda B: lambda: B(m()))(B)))
    out.append(("IntValue", "FloatValue", lambda: UC.IntValue(3), lambda: UC.FloatValue(3.0)))
    out.append(("IntValue", "ComplexValue", lambda: UC.IntValue(3), lambda: UC.ComplexValue(3 + 1j)))
    out.append(("Identity", "PermutationSymbol", lambda: UC.Identity(2), lambda: UC.PermutationSymbol(2)))
    out.append(("FunctionSpace", "DualSpace", lambda: mk_space(), lambda: mk_space(dual=True)))
    out.append(("Coefficient", "Constant", lambda: _f(count=7), lambda: UC.Constant(mk_mesh(), (), 7)))
    out.append(("FixedIndex", "Index", lambda: UC.FixedIndex(1), lambda: UC.Index(1)))
    out.append(("Label", "IntValue", lambda: UC.Label(3), lambda: UC.IntValue(3)))
    out.append(("Zero", "IntValue", lambda: UC.Zero(), lambda: UC.IntValue(1)))
    out.append(("Argument", "Coargument", lambda: UC.Argument(mk_space(), 0), lambda: UC.Coargument(mk_space(dual=True), 0)))
    out.append(("Coefficient", "Cofunction", lambda: UC.Coefficient(mk_space(), 5), lambda: UC.Cofunction(mk_space(dual=True), 5)))
    return out


# ==========================================================================================
# corpus of expressions and forms built through the UFL language (for (d) and the laws)
# ==========================================================================================


class Env:
    """A fresh set of terminals (explicit counts / ids, so two environments are structurally equal)."""

    def __init__(self, cell="triangle"):
        self.cell = cell
        self.mesh = mk_mesh(cell, 1)
        self.V = mk_space(cell, 1, 1)
        self.V2 = mk_space(cell, 1, 2)
        self.W = mk_space(cell, 1, 1, (_GDIM[cell],))
        self.T = mk_space(cell, 1, 1, (_GDIM[cell], _GDIM[cell]))
        self.VL = mk_space(cell, 1, 1, label="boundary")
        self.f = UC.Coefficient(self.V, 1)
        self.g = UC.Coefficient(self.V2, 2)
        self.v = UC.Coefficient(self.W, 3)
        self.w = UC.Coefficient(self.W, 4)
        self.A = UC.Coefficient(self.T, 5)
        self.fl = UC.Coefficient(self.VL, 6)
        self.c = UC.Constant(self.mesh, (), 1)
        self.cv = UC.Constant(self.mesh, (_GDIM[cell],), 2)
        self.u = UC.Argument(self.V, 1)
        self.t = UC.Argument(self.V, 0)
        self.uv = UC.Argument(self.W, 1)
        self.tv = UC.Argument(self.W, 0)
        self.x = UC.SpatialCoordinate(self.mesh)
        self.n = UC.FacetNormal(self.mesh)
        self.i, self.j, self.k = UC.Index(1), UC.Index(2), UC.Index(3)
        self.dx = UC.Measure("dx", self.mesh)
        self.ds = UC.Measure("ds", self.mesh)
        self.dS = UC.Measure("dS", self.mesh)


def corpus():
    """[(tag, builder(Env) -> object, deterministic)]"""
    U = ufl
    L = []

    def add(tag, fn, det=True):
        L.append((tag, fn, det))

    # terminals
    for name in ("f", "g", "v", "A", "fl", "c", "cv", "u", "t", "uv", "x", "n"):
        add("terminal:" + name, (lambda name: lambda e: getattr(e, name))(name))
    add("terminal:IntValue", lambda e: UC.IntValue(3))
    add("terminal:IntValue-large", lambda e: UC.IntValue(12345))
    add("terminal:FloatValue", lambda e: UC.FloatValue(2.5))
    add("terminal:FloatValue-tiny", lambda e: UC.FloatValue(1e-300))
    add("terminal:ComplexValue", lambda e: UC.ComplexValue(1 + 2j))
    add("terminal:Zero", lambda e: UC.Zero())
    add("terminal:Zero-shape", lambda e: UC.Zero((2, 2)))
    add("terminal:Zero-indices", lambda e: UC.Zero((2,), (1, 2), (2, 2)))
    add("terminal:Identity", lambda e: UC.Identity(2))
    add("terminal:PermutationSymbol", lambda e: UC.PermutationSymbol(3))
    add("terminal:Label", lambda e: UC.Label(4))
    add("terminal:MultiIndex-fixed", lambda e: UC.MultiIndex((UC.FixedIndex(0), UC.FixedIndex(1))))
    add("terminal:MultiIndex-free", lambda e: UC.MultiIndex((e.i, UC.FixedIndex(1))))
    for G in _geometry_classes():
        add("geometry:" + G.__name__, (lambda G: lambda e: G(mk_mesh("tetrahedron", 2)))(G))
    # algebra
    add("Sum", lambda e: e.f + e.g)
    add("Sum-literal", lambda e: e.f + 2)
    add("Product", lambda e: e.f * e.g)
    add("Product-float", lambda e: 0.5 * e.f)
    add("Division", lambda e: e.f / e.g)
    add("Power", lambda e: e.f**2)
    add("Power-expr", lambda e: e.f**e.g)
    add("Neg", lambda e: -e.f)
    add("Abs", lambda e: abs(e.f))
    add("nested", lambda e: (e.f + e.g) * (e.f + e.g) / (1 + e.f**2))
    add("shared-subtree", lambda e: (lambda s: s * s + s)(e.f * e.g + e.c))
    for fn in ("sqrt", "exp", "ln", "cos", "sin", "tan", "cosh", "sinh", "tanh", "acos", "asin", "atan", "erf"):
        add("math:" + fn, (lambda fn: lambda e: getattr(U, fn)(e.f))(fn))
    add("atan2", lambda e: U.atan2(e.f, e.g))
    add("bessel_J", lambda e: U.bessel_J(1, e.f))
    add("bessel_K", lambda e: U.bessel_K(2, e.f))
    add("max_value", lambda e: U.max_value(e.f, e.g))
    add("min_value", lambda e: U.min_value(e.f, e.g))
    add("conditional-lt", lambda e: U.conditional(U.lt(e.f, e.g), e.f, e.g))
    add("conditional-and", lambda e: U.conditional(U.And(U.ge(e.f, 0), U.ne(e.g, 1)), e.f, 2.0))
    add("conditional-not", lambda e: U.conditional(U.Not(U.eq(e.f, e.g)), 1, e.g))
    add("sign", lambda e: U.sign(e.f))
    add("conj", lambda e: U.conj(e.f))
    add("real", lambda e: U.real(e.f))
    add("imag", lambda e: U.imag(e.f))
    # tensors and indices
    add("Indexed-fixed", lambda e: e.v[0])
    add("Indexed-free", lambda e: e.v[e.i])
    add("Indexed-free2", lambda e: e.A[e.i, e.j])
    add("Indexed-mixed", lambda e: e.A[e.i, 1])
    add("IndexSum", lambda e: e.v[e.i] * e.w[e.i])
    add("IndexSum-2", lambda e: e.A[e.i, e.j] * e.A[e.i, e.j])
    add("free-product", lambda e: e.v[e.i] * e.w[e.j])
    add("ComponentTensor", lambda e: U.as_tensor(e.A[e.i, e.j], (e.j, e.i)))
    add("ComponentTensor-partial", lambda e: U.as_tensor(e.A[e.i, e.j] * e.v[e.j], (e.i,)))
    add("ListTensor", lambda e: U.as_vector([e.f, e.g]))
    add("ListTensor-matrix", lambda e: U.as_matrix([[e.f, 0], [1, e.g]]))
    add("ListTensor-free", lambda e: U.as_vector([e.v[e.i], e.w[e.i]]))
    add("dot", lambda e: U.dot(e.v, e.w))
    add("inner", lambda e: U.inner(e.A, e.A))
    add("outer", lambda e: U.outer(e.v, e.w))
    add("cross-3d", lambda e: U.cross(Env("tetrahedron").v, Env("tetrahedron").w))
    add("perp", lambda e: U.perp(e.v))
    add("transpose", lambda e: e.A.T)
    add("tr", lambda e: U.tr(e.A))
    add("det", lambda e: U.det(e.A))
    add("inv", lambda e: U.inv(e.A))
    add("dev", lambda e: U.dev(e.A))
    add("skew", lambda e: U.skew(e.A))
    add("sym", lambda e: U.sym(e.A))
    add("cofac", lambda e: U.cofac(e.A))
    add("diag", lambda e: U.diag(e.A))
    add("diag_vector", lambda e: U.diag_vector(e.A))
    add("matmul", lambda e: e.A * e.v, det=False)  # creates fresh Index objects
    # derivatives
    add("grad", lambda e: U.grad(e.f))
    add("grad-grad", lambda e: U.grad(U.grad(e.g)))
    add("div", lambda e: U.div(e.v))
    add("curl", lambda e: U.curl(Env("tetrahedron").v))
    add("nabla_grad", lambda e: U.nabla_grad(e.v))
    add("nabla_div", lambda e: U.nabla_div(e.A))
    add("Dx", lambda e: e.f.dx(0))
    add("Dx-free", lambda e: e.v[e.i].dx(e.i))
    add("Dn", lambda e: U.Dn(e.f))
    add("variable", lambda e: U.classes.Variable(e.f * e.g, UC.Label(9)))
    add("diff", lambda e: (lambda var: U.diff(var**2, var))(UC.Variable(e.f, UC.Label(9))))
    add("ReferenceValue", lambda e: UC.ReferenceValue(e.f))
    add("ReferenceGrad", lambda e: UC.ReferenceGrad(UC.ReferenceValue(e.f)))
    add("CoefficientDerivative", lambda e: UC.CoefficientDerivative(
        e.f * e.f, UC.ExprList(e.f), UC.ExprList(e.u), UC.ExprMapping()))
    add("ExprList", lambda e: UC.ExprList(e.f, e.v, e.A))
    add("ExprMapping", lambda e: UC.ExprMapping(e.f, e.g))
    # ExprList documents Cofunction / Coargument operands ("for BaseForm differentiation")
    add("ExprList-Cofunction", lambda e: UC.ExprList(UC.Cofunction(e.V.dual(), 12), e.f))
    add("ExprList-Coargument", lambda e: UC.ExprList(UC.Coargument(e.V.dual(), 0), e.f))
    # restrictions, averages
    add("PositiveRestricted", lambda e: e.f("+"))
    add("NegativeRestricted", lambda e: e.v("-"))
    add("jump", lambda e: U.jump(e.f))
    add("jump-n", lambda e: U.jump(e.v, e.n))
    add("avg", lambda e: U.avg(e.f))
    add("cell_avg", lambda e: U.cell_avg(e.f))
    add("facet_avg", lambda e: U.facet_avg(e.f))
    add("geometry-expr", lambda e: U.CellVolume(e.mesh) * U.dot(e.x, e.n) / U.Circumradius(e.mesh))
    add("split-mixed", lambda e: U.split(UC.Coefficient(UC.FunctionSpace(e.mesh, Elem(
        "Mixed", e.cell, 2, (3,), "identity_pullback", "H1", (mk_elem(e.cell, 2, (2,)), mk_elem(e.cell, 1)))), 8))[0])
    add("ExternalOperator", lambda e: UC.ExternalOperator(e.f, e.g, function_space=e.V, derivatives=(0, 1)))
    add("Interpolate", lambda e: UC.Interpolate(e.f * e.g, e.V2))
    # forms
    add("form:mass", lambda e: e.u * e.t * e.dx)
    add("form:stiffness", lambda e: U.inner(U.grad(e.u), U.grad(e.t)) * e.dx)
    add("form:functional", lambda e: e.f * e.dx)
    add("form:coefficient", lambda e: e.f * e.g * e.t * e.dx + e.c * e.t * e.ds)
    add("form:subdomains", lambda e: e.f * e.dx(1) + e.g * e.dx(2) + e.f * e.ds((1, 2)))
    add("form:metadata", lambda e: e.f * e.dx(metadata={"quadrature_degree": 2}) + e.g * e.dx(degree=3, scheme="vertex"))
    add("form:subdomain_data", lambda e: e.f * e.dx(subdomain_data=Tag(5)))
    add("form:interior", lambda e: U.jump(e.f) * U.avg(e.t) * e.dS)
    add("form:vector", lambda e: U.inner(U.dot(e.A, e.uv), e.tv) * e.dx + U.div(e.uv) * U.div(e.tv) * e.dx(3))
    add("form:labelled-space", lambda e: e.fl * e.dx)
    add("form:empty", lambda e: Form([]))
    add("form:lhs", lambda e: U.lhs(e.u * e.t * e.dx - e.f * e.t * e.dx))
    add("form:derivative", lambda e: U.derivative(e.f**2 * e.dx, e.f, e.u))
    add("form:action-expanded", lambda e: U.action(e.u * e.t * e.dx, e.f))
    add("form:adjoint-expanded", lambda e: U.adjoint(e.g * e.u * e.t.dx(0) * e.dx))
    add("form:replace", lambda e: U.replace(e.f * e.t * e.dx, {e.f: e.g}))
    add("form:scaled", lambda e: 2 * (e.f * e.dx))
    add("form:neg", lambda e: -(e.f * e.dx))
    add("integral", lambda e: (e.f * e.dx(1, metadata={"quadrature_degree": 1})).integrals()[0])
    add("baseform:Cofunction", lambda e: UC.Cofunction(e.V.dual(), 12))
    add("baseform:Coargument", lambda e: UC.Coargument(e.V.dual(), 0))
    add("baseform:Matrix", lambda e: UC.Matrix(e.V, e.V2, 3))
    add("baseform:Action", lambda e: UC.Action(e.u * e.t * e.dx, e.f))
    add("baseform:Action-cofunction", lambda e: UC.Action(UC.Matrix(e.V, e.V, 3), e.f))
    add("baseform:Adjoint", lambda e: UC.Adjoint(e.u * e.t * e.dx))
    add("baseform:FormSum", lambda e: UC.FormSum((UC.Cofunction(e.V.dual(), 12), 1), (UC.Cofunction(e.V.dual(), 13), 2)))
    add("baseform:FormSum-form", lambda e: e.t * e.dx + UC.Cofunction(e.V.dual(), 12))
    add("baseform:ZeroBaseForm", lambda e: UC.ZeroBaseForm((e.t, e.u)))
    add("baseform:ZeroBaseForm-1", lambda e: UC.ZeroBaseForm((e.t,)))
    return L


def build_corpus(ctx=None):
    out = []
    for tag, fn, det in corpus():
        try:
            with warnings.catch_warnings():
                warnings.simplefilter("ignore")
                a, b = fn(Env()), fn(Env())
        except Exception as e:  # noqa: BLE001
            if ctx is not None:
                ctx.count("corpus_entries_not_constructible")
            out.append((tag, None, None, det, f"{type(e).__name__}: {e}"))
            continue
        out.append((tag, a, b, det, None))
    return out


# ==========================================================================================
# (c) the sweep, and export of the projection table
# ==========================================================================================

def _jsonable(v):
    return json.loads(json.dumps(v, default=repr))


def sweep(ctx, only=None):
    """Returns the projection rows for the TLC table."""
    rows = []
    for case in catalogue():
        if only is not None and case.name != only.get("case"):
            continue
        try:
            x, y = case.build(), case.build()
        except Exception as e:  # noqa: BLE001
            raise MachineryError(f"catalogue base of {case.name} not constructible: {type(e).__name__}: {e}")
        ox, oy = observe(x), observe(y)
        cls = case.name.split("[")[0]
        # --- built identically twice: must be ==, both ways, with equal observables
        for (p, q, d) in ((x, y, "xy"), (y, x, "yx"), (x, x, "xx")):
            e, ne = eqv(p, q), nev(p, q)
            ctx.evaluated(2)
            if e is not True:
                V(ctx, f"C13:identical-not-equal:{cls}", f"{case.name} built twice from {case.base}: == gives {e} ({d})",
                              {"kind": "identical", "case": case.name})
            if ne is not False and e is True:
                V(ctx, f"C13:ne-inconsistent:{cls}", f"{case.name}: == is {e} but != is {ne} on identically built objects",
                              {"kind": "identical", "case": case.name})
        d = diff_obs(ox, oy)
        if d:
            V(ctx, f"C13:identical-differ:{cls}:{'+'.join(d)}", f"{case.name} built twice from {case.base}: {d} differ",
                          {"kind": "identical", "case": case.name})
        ctx.distinct("ident|" + case.name)
        # --- one attribute changed
        cols = []
        pool = [("base", x, ox), ("base'", y, oy)]
        for attr, i in case.columns():
            alt = case.alts[attr][i]
            try:
                z = case.build(attr, alt)
            except Exception:  # noqa: BLE001
                ctx.count("sweep_variants_rejected_by_constructor")
                continue
            oz = observe(z)
            e1, e2 = eqv(x, z), eqv(z, x)
            n1 = nev(x, z)
            ctx.evaluated(3)
            ctx.distinct(f"sweep|{case.name}|{attr}|{i}")
            rp = {"kind": "sweep", "case": case.name, "attr": attr, "alt": i,
                  "base": _jsonable(case.base), "value": _jsonable(alt)}
            seen_by = diff_obs(ox, oz)
            col = {"attr": attr, "alt": i, "eq": e1 is False, "eqr": e2 is False,
                   "hash": "hash" in seen_by, "repr": "repr" in seen_by, "sig": "sig" in seen_by,
                   "obs": any(k in seen_by for k in ("shape", "fi", "value"))}
            if not isinstance(e1, bool) or not isinstance(e2, bool):
                V(ctx, f"C13:eq-not-bool:{cls}", f"{case.name}: == returns {e1}/{e2}", rp)
                continue
            if e1 != e2:
                V(ctx, f"C13:eq-asymmetric:{cls}.{attr}",
                              f"{case.name}: base == variant({attr}={alt!r}) is {e1} but variant == base is {e2}", rp)
            if n1 is not (not e1):
                V(ctx, f"C13:ne-inconsistent:{cls}", f"{case.name}: == is {e1} but != is {n1} ({attr}={alt!r})", rp)
            if e1 is True or e2 is True:
                if seen_by:
                    V(ctx, 
                        f"C13:eq-ignores-attr:{cls}.{attr}",
                        f"{case.name}({case.base}) == same with {attr}={alt!r}, but {seen_by} differ "
                        f"(repr {ox['repr'][:70]!r} vs {oz['repr'][:70]!r})", rp,
                        detail={"differ": seen_by})
                else:
                    # nothing the property talks about distinguishes the two objects
                    ctx.count("sweep_attribute_not_observable")
                    ctx.cov.setdefault("attributes_without_observable_effect", [])
                    tag = f"{case.name}.{attr}={alt!r}"
                    if tag not in ctx.cov["attributes_without_observable_effect"]:
                        ctx.cov["attributes_without_observable_effect"].append(tag)
                    col = None
            if col is not None:
                cols.append(col)
            pool.append((f"{attr}={alt!r}", z, oz))
        # --- the laws on the whole family (base, base', all variants)
        family_laws(ctx, case.name, pool)
        rows.append({"cls": case.name, "cols": cols})
    return rows


def family_laws(ctx, name, pool):
    """== restricted to `pool` must be an equivalence whose classes agree on all observables."""
    n = len(pool)
    E = [[eqv(pool[i][1], pool[j][1]) for j in range(n)] for i in range(n)]
    ctx.evaluated(n * n)
    cls = name.split("[")[0]
    for i in range(n):
        for j in range(n):
            if E[i][j] is True:
                if E[j][i] is not True:
                    V(ctx, f"C13:eq-asymmetric:{cls}", f"{name}: {pool[i][0]} == {pool[j][0]} but not conversely",
                                  {"kind": "family", "case": name})
                for k in range(n):
                    if (E[j][k] is True) != (E[i][k] is True):
                        # transitivity / congruence; only report when not already explained by an
                        # attribute that == ignores (those are reported with their own fingerprint)
                        if not diff_obs(pool[i][2], pool[j][2]):
                            V(ctx, f"C13:eq-not-transitive:{cls}",
                                          f"{name}: {pool[i][0]} == {pool[j][0]} but they disagree about {pool[k][0]}",
                                          {"kind": "family", "case": name})


def cross_sweep(ctx):
    for na, nb, fa, fb in cross_class_pairs():
        a, b = fa(), fb()
        e1, e2 = eqv(a, b), eqv(b, a)
        ctx.evaluated(2)
        ctx.distinct(f"cross|{na}|{nb}")
        if e1 is not False or e2 is not False:
            oa, ob = observe(a), observe(b)
            d = diff_obs(oa, ob)
            fam = "GeometricQuantity" if isinstance(a, UC.GeometricQuantity) and isinstance(b, UC.GeometricQuantity) else f"{na}-{nb}"
            V(ctx, f"C13:cross-class-equal:{fam}", f"{na}(..) == {nb}(..) gives {e1}/{e2}; differing observables {d}",
                          {"kind": "cross", "a": na, "b": nb})


# ==========================================================================================
# (a) TLC
# ==========================================================================================

MC = """---- MODULE MC_EqShare ----
EXTENDS EqShare
MCProjTable == {table}
{extra}
====
"""

CFG = """CONSTANTS
Mode = "{mode}"
N = {n}
MaxTerm = {mt}
EqProjT = {eq}
HashProjT = {hs}
ReprProjT = {rp}
MaxHist = {mh}
Wrappers = {wr}
WithX = {withx}
XEq = {xeq}
XHash = {xhash}
XWalk = {xwalk}
LitMax = {litmax}
LitFocus = {litfocus}
LitCoerce = {litcoerce}
LitNewArgs = {litnewargs}
LitShapes = {litshapes}
ProjTable <- MCProjTable
SPECIFICATION Spec
{checks}
"""

HEAP_LAWS = ["EqReflexive", "EqSymmetric", "EqTransitive", "EqIsStructEq", "EqImpliesHashRepr", "EqImpliesValue",
             "HashCacheSound", "Acyclic", "ValueAsBuilt", "SharingSound"]
FULL = "{1, 2}"


LIT_CLASSES = ("IntValue", "FloatValue", "ComplexValue")
FLY_CLASSES = ("Zero", "MultiIndex")
# the classes whose objects go through pickle in the literal mode (LitNewArgs of EqShare.tla)
NEWARGS_CLASSES = LIT_CLASSES + FLY_CLASSES


def run_eqshare(mode="heap", n=3, mt=3, proj=(FULL, FULL, FULL), mh=0, wr=True, invs=(), props=(), table="<< >>",
                extra="", x=None, lit=None, **kw):
    """x = None: no attributed operators; else (XEq, XHash, XWalk).
    lit (mode "lit") = (LitMax, LitFocus, LitCoerce[, LitNewArgs[, LitShapes]])."""
    B = lambda v: "TRUE" if v else "FALSE"  # noqa: E731
    checks = "\n".join("INVARIANT " + i for i in invs) + "\n" + "\n".join("PROPERTY " + p for p in props)
    lit = tuple(lit or (1, True, LIT_CLASSES))
    lmax, lfocus, lcoerce = lit[:3]
    lnewargs = lit[3] if len(lit) > 3 else NEWARGS_CLASSES
    lshapes = lit[4] if len(lit) > 4 else 1
    S = lambda xs: "{" + ", ".join(tlc.tla(c) for c in xs) + "}"  # noqa: E731
    cfg = CFG.format(mode=mode, n=n, mt=mt, eq=proj[0], hs=proj[1], rp=proj[2], mh=mh,
                     wr=B(wr), checks=checks, withx=B(x is not None), xeq=B(x and x[0]), xhash=B(x and x[1]), xwalk=B(x and x[2]),
                     litmax=lmax, litfocus=B(lfocus), litcoerce=S(lcoerce), litnewargs=S(lnewargs), litshapes=lshapes)
    res = tlc.run("EqShare", cfg, mc_text=MC.format(table=table, extra=extra), mc_name="MC_EqShare", **kw)
    if res.outcome == "error":
        # seen once under heavy machine load (JVM start); a genuine error is deterministic
        print("  tlc error, retrying once; tail of output:\n" + "\n".join(res.stdout.splitlines()[-15:]), flush=True)
        res = tlc.run("EqShare", cfg, mc_text=MC.format(table=table, extra=extra), mc_name="MC_EqShare", **kw)
    if mode == "lit":
        print(f"  tlc EqShare mode=lit LitMax={lmax} focus={lfocus} coerce={list(lcoerce)} newargs={list(lnewargs)} shapes=0..{lshapes} {kw.get('simulate') or 'exhaustive'} "
              f"checks={list(invs) + list(props)} -> {res.outcome}{' ' + str(res.violated) if res.violated else ''} "
              f"distinct={res.distinct} generated={res.generated} {res.wall:.1f}s", flush=True)
        return res
    print(f"  tlc EqShare mode={mode} N={n} MaxTerm={mt} proj={proj[0]}/{proj[1]}/{proj[2]} X={x} hist={mh} checks={list(invs) + list(props)} "
          f"-> {res.outcome}{' ' + str(res.violated) if res.violated else ''} distinct={res.distinct} generated={res.generated} "
          f"{res.wall:.1f}s", flush=True)
    return res


def tlc_heap_laws(ctx):
    if ctx.tier == "quick":
        configs = [(3, 3, True, False)]
    else:
        configs = [(3, 3, True, True), (4, 3, True, False), (5, 2, False, False)]
    for n, mt, wr, named in configs:
        invs = HEAP_LAWS if named else ["AllLaws"]
        res = run_eqshare(n=n, mt=mt, wr=wr, invs=invs, props=["Stable"], coverage=named, timeout=1500,
                          workers=8 if n >= 5 else 16)
        ctx.add_tlc(res)
        # the intended model itself violating a law = the specification is wrong
        tlc.require_ok(res, f"EqShare heap laws N={n}")
        if res.distinct == 0:
            raise MachineryError("EqShare: no states")
    # witness: sharing does happen in the model (otherwise all of the above is vacuous); in the quick tier
    # the same is established from the exported histories (see conformance)
    if ctx.tier != "quick":
        res = run_eqshare(n=3, mt=2, wr=False, invs=["NoSharing"], workers=1, timeout=600)
        ctx.add_tlc(res)
        if res.outcome != "invariant":
            raise MachineryError(f"EqShare: witness NoSharing not reached (outcome {res.outcome}): the model never shares operands")


INTENDED_X = (True, True, True)


def probe_x_flags(interp):
    """Which of __eq__ / hash / the operand walk of expr_equals see the attribute of the attributed
    operator of this interpretation (read off the real code)."""
    def leaf():
        return interp.leaf(0, 0)
    a, b = interp.X(0, leaf()), interp.X(1, leaf())
    xeq = eqv(a, b) is False
    a, b = interp.X(0, leaf()), interp.X(1, leaf())
    xhash = hash(a) != hash(b)
    a, b = interp.U(interp.X(0, leaf())), interp.U(interp.X(1, leaf()))
    xwalk = eqv(a, b) is False
    return (xeq, xhash, xwalk)


def tlc_attributed_operators(ctx):
    """Operators with state besides their operands (BaseFormOperator).  The flags of class X are read
    off the real code; TLC checks the laws for them and its counterexample is replayed."""
    I = interpretations()  # noqa: E741
    xs = [i for i in I.values() if i.X is not None]
    groups = {}
    for i in xs:
        groups.setdefault(probe_x_flags(i), []).append(i)
    ctx.cov["attributed_operator_flags(XEq,XHash,XWalk)"] = {i.xattr: list(f) for f, g in groups.items() for i in g}
    if ctx.tier != "quick":
        res = run_eqshare(n=4, mt=1, wr=False, invs=HEAP_LAWS, props=["Stable"], x=INTENDED_X, workers=8, timeout=1500)
        ctx.add_tlc(res)
        tlc.require_ok(res, "EqShare with attributed operators, intended flags")
    for flags, members in groups.items():
        if flags == INTENDED_X:
            continue
        runs = [([], ["Stable"])] if ctx.tier == "quick" else [(["EqIsStructEq"], []), ([], ["Stable"])]
        failed = None
        for invs, props in runs:
            res = run_eqshare(n=5, mt=1, wr=False, mh=1, invs=invs, props=props, x=flags, workers=8, timeout=1500)
            ctx.add_tlc(res)
            if res.outcome in ("invariant", "property"):
                ctx.count("laws_violated_by_coded_attributed_operator")
                ctx.cov.setdefault("attributed_operator_violated_laws", []).append(res.violated)
                if props:
                    failed = _violating_state(res)
            elif res.outcome != "ok":
                tlc.require_ok(res, f"EqShare attributed operators {flags}")
        if failed is None:
            # coarser hash alone (XHash = FALSE) is allowed: the laws hold
            continue
        doc = {"h": failed["obj"], "hist": failed["hist"]}
        ctx.sample({"tlc_counterexample_Stable": {"flags": list(flags), "heap": _short(doc["h"]),
                                                   "calls": [(e["op"], e["a"], e["b"], e["res"]) for e in doc["hist"]]}})
        for interp in members:
            sink = Sink()
            replay_history(sink, doc, interp, 1, False)
            ctx.traces(1)
            if not sink.viol:
                raise MachineryError(f"TLC counterexample {_short(doc['h'])} {doc['hist']} (flags {flags}) shows no defect on real "
                                     f"{interp.xattr} objects")
            replay_history(ctx, doc, interp, 1, False)


def _violating_state(res):
    """Last state of TLC's counterexample (also when the initial state itself violates the invariant)."""
    if res.trace:
        return tlc.parse_state(res.trace[-1][1])
    out = res.stdout
    k = out.find("is violated by the initial state")
    if k < 0:
        raise MachineryError("no counterexample state in TLC output")
    lines = []
    for line in out[k:].splitlines()[1:]:
        if line.startswith("/\\ ") or (lines and line.startswith(" ")):
            lines.append(line)
        elif lines:
            break
    return tlc.parse_state("\n".join(lines))


def _set(xs):
    return "{" + ", ".join(str(x) for x in sorted(xs)) + "}"


def table_rows_tla(rows):
    """rows -> (TLA+ text, index: list of (case name, [col,...]))"""
    out, index = [], []
    for r in rows:
        cols = r["cols"]
        for off in range(0, max(len(cols), 1), 3):
            chunk = cols[off:off + 3]
            if not chunk:
                continue
            ks = range(1, len(chunk) + 1)
            f = lambda key: _set(k for k, c in zip(ks, chunk) if c[key])  # noqa: E731
            out.append(f'[cls |-> {tlc.tla(r["cls"])}, n |-> {len(chunk)}, eq |-> {f("eq")}, eqr |-> {f("eqr")}, '
                       f'hash |-> {f("hash")}, repr |-> {f("repr")}, sig |-> {f("sig")}, obs |-> {f("obs")}]')
            index.append((r["cls"], chunk))
    return "<<" + ",\n  ".join(out) + ">>", index


TABLE_INVS = ["TabSymmetric", "TabEqImpliesHash", "TabEqImpliesRepr", "TabEqImpliesSig", "TabEqImpliesObs"]


def tlc_table(ctx, rows):
    text, index = table_rows_tla(rows)
    extra = 'ASSUME PrintT(ToJson(TabDefects))'
    res = run_eqshare(mode="table", n=0, mt=0, table=text, extra=extra, invs=TABLE_INVS, workers=4, timeout=600)
    ctx.add_tlc(res)
    if res.outcome not in ("ok", "invariant"):
        tlc.require_ok(res, "EqShare table")
    printed = tlc.decode_prints(res)
    defects = printed[0] if printed else []
    cases = {c.name: c for c in catalogue()}
    confirmed = 0
    # TLC's own counterexample (first violated invariant) ...
    first = None
    if res.outcome == "invariant":
        st = _violating_state(res)
        first = {"invariant": res.violated, "row": st.get("pr"), "px": st.get("px"), "py": st.get("py")}
        ctx.cov["table_counterexample"] = first
        if not defects:
            raise MachineryError("table invariant violated but TabDefects is empty")
    elif defects:
        raise MachineryError("TabDefects non-empty but TLC found no invariant violation")
    # ... and the complete list of single-attribute defects, each replayed on the real classes
    for d in defects:
        name, chunk = index[d["row"] - 1]
        col = chunk[d["attr"] - 1]
        case = cases[name]
        ok = replay_sweep_pair(ctx, case, col["attr"], col["alt"], expect_kind=d["kind"])
        ctx.traces(1)
        if not ok:
            raise MachineryError(f"TLC table defect {d} ({name}.{col['attr']}) not reproduced on the real class")
        confirmed += 1
    ctx.count("table_defects_confirmed_on_real_classes", confirmed)
    # the repaired table (defective columns made visible to ==) must satisfy all laws
    if defects and ctx.tier != "quick":
        bad = {(d["row"], d["attr"]) for d in defects}
        rows2 = []
        for r_i, (name, chunk) in enumerate(index, start=1):
            cols = []
            for k, c in enumerate(chunk, start=1):
                c = dict(c)
                if (r_i, k) in bad:
                    c["eq"] = c["eqr"] = True
                cols.append(c)
            rows2.append({"cls": name, "cols": cols})
        text2, _ = table_rows_tla(rows2)
        res2 = run_eqshare(mode="table", n=0, mt=0, table=text2, invs=TABLE_INVS + ["TabEqIsStructEq"], workers=4, timeout=600)
        ctx.add_tlc(res2)
        tlc.require_ok(res2, "EqShare repaired table")
    return defects, index


def replay_sweep_pair(ctx, case, attr, alt_i, expect_kind=None, report=False):
    """Re-execute one single-attribute pair on the real class; report and return whether the defect shows."""
    alt = case.alts[attr][alt_i]
    x, z = case.build(), case.build(attr, alt)
    ox, oz = observe(x), observe(z)
    e1, e2 = eqv(x, z), eqv(z, x)
    cls = case.name.split("[")[0]
    rp = {"kind": "sweep", "case": case.name, "attr": attr, "alt": alt_i, "base": _jsonable(case.base), "value": _jsonable(alt)}
    shown = False
    if e1 != e2:
        shown = True
        if report:
            V(ctx, f"C13:eq-asymmetric:{cls}.{attr}", f"{case.name}: base == variant({attr}={alt!r}) is {e1}, converse {e2}", rp)
    seen_by = diff_obs(ox, oz)
    if (e1 is True or e2 is True) and seen_by:
        shown = True
        if report:
            V(ctx, f"C13:eq-ignores-attr:{cls}.{attr}",
                      f"{case.name}({case.base}) == same with {attr}={alt!r}, but {seen_by} differ "
                          f"(repr {ox['repr'][:70]!r} vs {oz['repr'][:70]!r})", rp, detail={"differ": seen_by})
    return shown


def tlc_defect_exemplars(ctx, defects, index):
    """Heap model with the CODED projection of a defective class: TLC must produce a counterexample,
    which is replayed on the real class (attribute 1 = one == reads, attribute 2 = the ignored one)."""
    cases = {c.name: c for c in catalogue()}
    done = set()
    for d in defects:
        if d["kind"] not in ("hash", "repr"):
            continue
        name, chunk = index[d["row"] - 1]
        col = chunk[d["attr"] - 1]
        cls = name.split("[")[0]
        if cls in done or len(done) >= (0 if ctx.tier == "quick" else 2):
            continue
        seen = [c for c in chunk if c["eq"]]
        if not seen:
            continue
        done.add(cls)
        hs = FULL if col["hash"] else "{1}"
        rp = FULL if col["repr"] else "{1}"
        res = run_eqshare(n=3, mt=3, wr=False, proj=("{1}", hs, rp), invs=["EqImpliesHashRepr"], workers=4, timeout=600)
        ctx.add_tlc(res)
        if res.outcome != "invariant":
            raise MachineryError(f"heap model with the coded projection of {cls} should violate EqImpliesHashRepr, got {res.outcome}")
        st = _violating_state(res)
        ts = [o for o in st["obj"] if o["c"] == 1]
        pair = None
        for a, b in itertools.combinations(ts, 2):
            if a["at"][0] == b["at"][0] and a["at"][1] != b["at"][1]:
                pair = (a["at"], b["at"])
        if pair is None:
            raise MachineryError(f"no terminal pair in TLC counterexample {st['obj']}")
        case = cases[name]
        s0 = seen[0]

        def real(at):
            a = dict(case.base)
            if at[0]:
                a[s0["attr"]] = case.alts[s0["attr"]][s0["alt"]]
            if at[1]:
                a[col["attr"]] = case.alts[col["attr"]][col["alt"]]
            return case.make(**a)

        x, z = real(pair[0]), real(pair[1])
        ctx.traces(1)
        ctx.evaluated(1)
        if not (eqv(x, z) is True and diff_obs(observe(x), observe(z))):
            raise MachineryError(f"TLC counterexample {pair} for {cls} not reproduced on the real class")
        V(ctx, f"C13:eq-ignores-attr:{cls}.{col['attr']}",
                      f"TLC counterexample of EqShare (EqProjT={{1}}): {cls} with attributes {pair[0]} == {pair[1]} but "
                      f"hash/repr differ; reproduced: {x!r} == {z!r}",
                      {"kind": "sweep", "case": name, "attr": col["attr"], "alt": col["alt"],
                       "base": _jsonable(case.base), "value": _jsonable(case.alts[col["attr"]][col["alt"]])})
        ctx.sample({"tlc_counterexample": {"class": cls, "attrs": list(pair), "real": [repr(x), repr(z)]}})


# ==========================================================================================
# (b) conformance: histories generated by TLC, replayed on real objects
# ==========================================================================================


class Interp:
    """An interpretation of the abstract heap classes by real ufl constructors."""

    def __init__(self, name, family, leaf, U, B, attrs, cls, allow_v=True, fresh=True, X=None, xattr=None):
        self.name, self.family, self.leaf, self.U, self.B = name, family, leaf, U, B
        self.attrs, self.cls, self.allow_v, self.fresh = attrs, cls, allow_v, fresh
        self.X, self.xattr = X, xattr


def interpretations():
    W = lambda: mk_space(shape=(2,))  # noqa: E731
    TT = lambda: mk_space(shape=(2, 2))  # noqa: E731
    sin = lambda x: UC.Sin(x)  # noqa: E731
    pos = lambda x: UC.PositiveRestricted(x)  # noqa: E731
    neg = lambda x: UC.NegativeRestricted(x)  # noqa: E731
    mx = lambda x, y: UC.MaxValue(x, y)  # noqa: E731
    pw = lambda x, y: UC.Power(x, y)  # noqa: E731
    dv = lambda x, y: UC.Division(x, y)  # noqa: E731
    a2 = lambda x, y: UC.Atan2(x, y)  # noqa: E731
    el1 = lambda x: UC.ExprList(x)  # noqa: E731
    el2 = lambda x, y: UC.ExprList(x, y)  # noqa: E731
    em1 = lambda x: UC.ExprMapping(x)  # noqa: E731
    em2 = lambda x, y: UC.ExprMapping(x, y)  # noqa: E731
    L = [
        Interp("Coefficient", "scalar", lambda p, q: UC.Coefficient(mk_space(deg=1 + p), 100 + 2 * q + p), sin, mx,
               ("function_space.element.degree", "count"), "Coefficient",
               X=lambda a, x: UC.ExternalOperator(x, function_space=mk_space(), derivatives=(a,)), xattr="ExternalOperator.derivatives"),
        Interp("Coefficient/ExternalOperator-space", "scalar", lambda p, q: UC.Coefficient(mk_space(deg=1 + p), 100 + 2 * q + p), pos, mx,
               ("function_space.element.degree", "count"), "Coefficient",
               X=lambda a, x: UC.ExternalOperator(x, function_space=mk_space(deg=1 + a)), xattr="ExternalOperator.function_space"),
        Interp("Coefficient/Interpolate", "scalar", lambda p, q: UC.Coefficient(mk_space(deg=1 + p), 100 + 2 * q + p), sin, pw,
               ("function_space.element.degree", "count"), "Coefficient",
               X=lambda a, x: UC.Interpolate(x, mk_space(deg=1 + a)), xattr="Interpolate.function_space"),
        Interp("Coefficient-labelled-space", "scalar", lambda p, q: UC.Coefficient(mk_space(label=["", "b"][p]), 100 + 2 * q + p), pos, pw,
               ("function_space.label", "count"), "Coefficient"),
        Interp("IndexedCoefficient", "scalar", lambda p, q: UC.Indexed(UC.Coefficient(W(), 110 + q), UC.MultiIndex((UC.FixedIndex(p),))),
               pos, dv, ("component", "count"), "Indexed", fresh=False),
        Interp("ScalarConstant", "scalar", lambda p, q: UC.Constant(mk_mesh(uid=1 + p), (), 200 + 2 * q + p), neg, a2,
               ("domain.ufl_id", "count"), "Constant"),
        Interp("Argument", "scalar", lambda p, q: UC.Argument(mk_space(deg=1 + p), 2 * q + p), sin, pw, ("degree", "number"), "Argument"),
        Interp("Geometry", "scalar", lambda p, q: [UC.CellVolume, UC.Circumradius][p](mk_mesh(uid=1 + q)), pos, mx,
               ("class", "domain.ufl_id"), "GeometricQuantity"),
        Interp("Composite", "scalar",
               lambda p, q: UC.Sin(UC.Coefficient(mk_space(), 120 + q)) * UC.Coefficient(mk_space(deg=2), 130 + p) + UC.IntValue(2),
               neg, dv, ("count-b", "count-a"), "Sum", fresh=False),
        Interp("Constant", "container", lambda p, q: UC.Constant(mk_mesh(), [(), (2,)][p], 200 + q), el1, em2,
               ("shape", "count"), "Constant", allow_v=False),
        Interp("Zero", "container", lambda p, q: UC.Zero([(), (2,)][p], [(), (7,)][q], [(), (3,)][q]), em1, el2,
               ("shape", "free_indices"), "Zero", allow_v=False, fresh=False),
        Interp("Literal", "container", lambda p, q: UC.IntValue(3 + p) if q == 0 else UC.FloatValue(3.5 + p), el1, em2,
               ("value", "class"), "ScalarValue", allow_v=False, fresh=False),
        Interp("FreeIndexed", "container",
               lambda p, q: UC.Indexed(UC.Coefficient(TT(), 140), UC.MultiIndex((UC.Index(40 + p), UC.Index(50 + q)))), em1, el2,
               ("index0", "index1"), "Indexed", allow_v=False, fresh=False),
        Interp("MultiIndex", "container", lambda p, q: UC.MultiIndex((UC.FixedIndex(p), UC.Index(60 + q))), el1, em2,
               ("fixed", "free"), "MultiIndex", allow_v=False),
        Interp("IdentityPermutation", "container", lambda p, q: UC.Identity(2 + p) if q == 0 else UC.PermutationSymbol(2 + p),
               em1, el2, ("dim", "class"), "Identity", allow_v=False),
        Interp("ArgumentPart", "container", lambda p, q: UC.Argument(W(), p, [None, 0][q]), el1, em2,
               ("number", "part"), "Argument", allow_v=False),
        Interp("VectorCoefficient", "container", lambda p, q: UC.Coefficient(mk_space(shape=[(2,), (2, 2)][p]), 150 + q), em1, el2,
               ("shape", "count"), "Coefficient", allow_v=False),
    ]
    return {i.name: i for i in L}


def build_heap(interp, h):
    objs = []
    for rec in h:
        c, at, ops = rec["c"], rec["at"], [objs[k - 1] for k in rec["ops"]]
        if c == 1:
            o = interp.leaf(at[0], at[1])
        elif c == 2:
            o = UC.Label(300 + at[0])
        elif c == 3:
            o = interp.U(*ops)
        elif c == 4:
            o = interp.B(*ops)
        elif c == 5:
            o = UC.Variable(*ops)
        elif c == 6:
            o = interp.X(at[0], *ops)
        else:
            raise MachineryError(f"unknown class code {c}")
        if c >= 3 and not (len(o.ufl_operands) == len(ops) and all(p is q for p, q in zip(o.ufl_operands, ops))):
            raise MachineryError(f"{interp.name}: constructor of class code {c} did not keep its operands: {o!r}")
        objs.append(o)
    return objs


def _wrap_integral(x):
    return Integral(x, "cell", mk_mesh(), "everywhere", {}, None)


class _Fake:
    """selftest only: == ignores attribute b, hash and repr do not."""

    def __init__(self, a, b):
        self.a, self.b = a, b

    def __eq__(self, other):
        return type(other) is _Fake and self.a == other.a

    def __hash__(self):
        return hash((self.a, self.b))

    def __repr__(self):
        return f"_Fake({self.a}, {self.b})"


class Sink:
    """Collects verdicts instead of reporting them (used by --selftest)."""

    def __init__(self):
        self.viol, self.cov, self.counts = [], {}, {}
        self.tier, self.seed = "quick", 0

    def violation(self, fp, what, replay, detail=None):
        self.viol.append((fp, what))

    def count(self, k, n=1):
        self.counts[k] = self.counts.get(k, 0) + n

    def evaluated(self, n=1):
        pass

    def traces(self, n=1):
        pass

    def distinct(self, k):
        pass

    def sample(self, o, limit=5):
        pass


SURFACE_EQ = ("==", "!=", "I==", "I!=")
SURFACE_FEQ = ("F.equals", "F!=", "bool(F==F)", "hash;hash;==")


def replay_history(ctx, doc, interp, seed, perturb, tamper=None):
    """Execute one TLC history on real objects.  Returns number of comparisons made."""
    h, hist = doc["h"], doc["hist"]
    if any(r["c"] == 5 for r in h) and not interp.allow_v:
        return 0
    if any(r["c"] == 6 for r in h) and interp.X is None:
        return 0
    rng = random.Random(seed)
    R, S = build_heap(interp, h), build_heap(interp, h)
    n = len(R)
    is_op = [r["c"] >= 3 for r in h]
    has_x = any(r["c"] == 6 for r in h)
    wrappable = [interp.family == "scalar" and r["c"] != 2 for r in h]
    ref_np = [observe(s, perturbing=False) for s in S]
    ref_unf = [unfold(s) for s in S]
    rp = {"kind": "history", "interp": interp.name, "seed": seed, "perturb": perturb, "doc": doc}
    IW, FW = {}, {}

    def integral(i):
        if i not in IW:
            IW[i] = _wrap_integral(R[i])
        return IW[i]

    def form(i):
        if i not in FW:
            FW[i] = Form([integral(i)])
        return FW[i]

    checks = 0
    nontrivial = False
    for k, ev in enumerate(hist):
        ia, ib = ev["a"] - 1, ev["b"] - 1
        a, b = R[ia], R[ib]
        op = ev["op"]
        surface = op
        if op == "eq":
            surface = rng.choice(SURFACE_EQ if (wrappable[ia] and wrappable[ib]) else SURFACE_EQ[:2])
            if surface == "==":
                got = eqv(a, b)
            elif surface == "!=":
                got = nev(a, b)
                got = (not got) if isinstance(got, bool) else got
            elif surface == "I==":
                got = eqv(integral(ia), integral(ib))
            else:
                got = nev(integral(ia), integral(ib))
                got = (not got) if isinstance(got, bool) else got
        elif op == "feq":
            ok = wrappable[ia] and wrappable[ib] and perturb
            surface = rng.choice(SURFACE_FEQ if ok else SURFACE_FEQ[3:])
            if surface == "F.equals":
                got = form(ia).equals(form(ib))
            elif surface == "F!=":
                got = not (form(ia) != form(ib))
            elif surface == "bool(F==F)":
                got = eqv(form(ia), form(ib))
            else:
                hash(a)
                hash(b)
                got = eqv(a, b) if hash(a) == hash(b) else False
        elif op == "hash":
            hash(a)
            got = True
        elif op == "repr":
            repr(a)
            got = True
        else:
            raise MachineryError(f"unknown op {op}")
        if tamper == "operands" and k == 0:
            # selftest: silently re-point an operator to a non-equal operand
            for i in range(n):
                if is_op[i]:
                    R[i].ufl_operands = tuple(UC.Coefficient(mk_space(), 999) for _ in R[i].ufl_operands)
                    break
        checks += 1
        ctx.evaluated()
        want = ev["res"]
        if got != want:
            fp = None
            if got is True:
                # is it explained by a terminal class whose == ignores an attribute?
                for pos in (0, 1):
                    at0, at1 = [0, 0], [0, 0]
                    at1[pos] = 1
                    x, y = interp.leaf(*at0), interp.leaf(*at1)
                    if eqv(x, y) is True and type(x) is type(y):
                        fp = f"C13:eq-ignores-attr:{interp.cls}.{interp.attrs[pos]}"
                        break
            if fp is None:
                fp = f"C13:history-eq:{interp.name}:{'spurious' if got is True else 'missing' if got is False else got}"
            V(ctx, fp, f"history step {k} ({surface} on objects {ev['a']},{ev['b']} of heap {_short(h)} as {interp.name}): "
                              f"real answer {got}, StructEq predicts {want}; a={R[ia]!r:.80} b={R[ib]!r:.80}", rp)
            return checks
        if want is True and ia != ib and op in ("eq", "feq"):
            nontrivial = True
        if got is True and ia != ib and ref_unf[ia] != ref_unf[ib]:
            # independent of the model's prediction: equal answers only for structurally equal objects
            culprit = "BaseFormOperator-operand" if any(r["c"] == 6 for r in h) else interp.name
            V(ctx, f"C13:eq-not-structural:{culprit}",
                          f"history step {k} ({surface} on objects {ev['a']},{ev['b']} of heap {_short(h)} as {interp.name}): == is True "
                          f"but the objects differ structurally: {ref_np[ia]['repr']!r:.150} vs {ref_np[ib]['repr']!r:.150}", rp)
        # --- sharing of operand tuples as predicted
        # (exact only when nothing else compares the objects: building a Form puts all sub-expressions into
        # sets, i.e. performs further == calls, so the perturbing mode skips this)
        t = ev["t"]
        for i in range(n if not perturb else 0):
            for j in range(i + 1, n):
                if is_op[i] and is_op[j]:
                    real = R[i].ufl_operands is R[j].ufl_operands
                    if real != (t[i] == t[j]):
                        ctx.count("sharing_mismatch")
                        ctx.cov.setdefault("sharing_mismatch_example", {"interp": interp.name, "step": k, "pair": [i + 1, j + 1],
                                                                         "real": real, "doc": doc})
        # (BaseFormOperator.ufl_shape analyses its operands through sets, i.e. hashes them: no flag check there)
        if not perturb and not has_x:
            for i in range(n):
                if interp.fresh or is_op[i]:
                    if (R[i]._hash is not None) != ev["hc"][i]:
                        ctx.count("hashflag_mismatch")
                        ctx.cov.setdefault("hashflag_mismatch_example", {"interp": interp.name, "step": k, "obj": i + 1,
                                                                          "real": R[i]._hash is not None, "doc": doc})
        # --- nothing observable changed
        for i in range(n):
            now = observe(R[i], perturbing=False)
            d = diff_obs(ref_np[i], now, keys=("repr", "str", "shape", "fi"))
            if not d and unfold(R[i]) != ref_unf[i]:
                d = ["denotation"]
            checks += 1
            if d:
                tagx = "BaseFormOperator-operand" if any(r["c"] == 6 for r in h) else f"{interp.name}:{'+'.join(d)}"
                V(ctx, f"C13:compare-changes-object:{tagx}",
                              f"after step {k} ({surface} {ev['a']},{ev['b']}) object {i + 1} of heap {_short(h)} as {interp.name} "
                              f"changed its {d}: "
                              f"{ref_np[i]['repr']!r:.90} -> {now['repr']!r:.90}", rp)
                return checks
    # --- final full snapshot (hash, signature) against the untouched shadow heap
    for i in range(n):
        ref, now = observe(S[i], perturbing=True), observe(R[i], perturbing=True)
        d = diff_obs(ref, now, keys=("repr", "str", "shape", "fi", "hash", "sig"))
        checks += 1
        if d:
            V(ctx, f"C13:compare-changes-object:{interp.name}:{'+'.join(d)}",
                          f"after the history object {i + 1} of heap {_short(h)} differs from a freshly built copy in {d}", rp)
            return checks
        if wrappable[i] and (i in IW or i in FW or perturb):
            fa, fb = Form([_wrap_integral(S[i])]), form(i)
            for key, f in (("hash", hash), ("repr", repr), ("signature", lambda F: F.signature()),
                           ("fresh-signature", lambda F: compute_form_signature(F, F._compute_renumbering()))):
                checks += 1
                if _try(lambda: f(fa)) != _try(lambda: f(fb)):
                    V(ctx, f"C13:compare-changes-form:{interp.name}:{key}",
                                  f"form over object {i + 1} of heap {_short(h)}: {key} differs from a freshly built copy", rp)
                    return checks
            if eqv(fa, fb) is not True:
                V(ctx, f"C13:compare-changes-form:{interp.name}:eq", f"form over object {i + 1} != freshly built copy", rp)
    ctx.evaluated(checks)
    if nontrivial:
        ctx.distinct(json.dumps([interp.name, h, [(e["op"], e["a"], e["b"]) for e in hist]]))
    return checks


def _short(h):
    names = {1: "T", 2: "L", 3: "U", 4: "B", 5: "V", 6: "X"}
    return "[" + " ".join(names[r["c"]] + "".join(map(str, r["at"])) + ("(" + ",".join(map(str, r["ops"])) + ")" if r["ops"] else "")
                          for r in h) + "]"


def generate_histories(ctx, n, mt, mh, wr=True, simulate=None, seed=None, workers=4, x=None):
    kw = {}
    if simulate:
        kw = {"simulate": f"num={simulate}", "depth": mh + 1, "seed": seed}
    res = run_eqshare(n=n, mt=mt, mh=mh, wr=wr, invs=["Export"], workers=workers, timeout=1500, x=x, **kw)
    ctx.add_tlc(res)
    tlc.require_ok(res, f"EqShare history generation N={n} depth={mh}")
    docs = tlc.decode_prints(res)
    if not docs:
        raise MachineryError("TLC produced no histories")
    return docs


def conformance(ctx):
    I = interpretations()  # noqa: E741
    names = sorted(I)
    plans = []
    if ctx.tier == "quick":
        plans.append(("exhaustive", dict(n=3, mt=3, mh=1, wr=True), 2))
        plans.append(("random", dict(n=4, mt=3, mh=7, wr=True, simulate=10, seed=ctx.seed + 1), 1))
    else:
        plans.append(("exhaustive", dict(n=3, mt=3, mh=2, wr=True), 1))
        plans.append(("random", dict(n=4, mt=3, mh=8, wr=True, simulate=60, seed=ctx.seed + 1), 2))
        plans.append(("random", dict(n=5, mt=2, mh=12, wr=True, simulate=4, seed=ctx.seed + 2), 2))
    xs = [i for i in I.values() if i.X is not None]
    xflags = {probe_x_flags(i) for i in xs}
    if len(xflags) == 1:
        # histories over heaps with attributed operators, generated from the model of the code AS PROBED
        plans.append(("random-X", dict(n=5, mt=1, mh=5, wr=True, simulate=2 if ctx.tier == "quick" else 20, seed=ctx.seed + 3,
                                       x=next(iter(xflags))), 1))
    else:
        ctx.count("attributed_operator_flags_disagree")
    total = 0
    for kind, kw, reps in plans:
        docs = generate_histories(ctx, **kw)
        ctx.count(f"histories_{kind}", len(docs))
        if kind != "random-X" and not any(e["t"][i] != i + 1 for d in docs for e in d["hist"] for i in range(len(e["t"]))):
            raise MachineryError(f"no exported history ({kind}) ever shares an operand tuple: vacuous")
        if kind == "random-X":
            names_x = sorted(i.name for i in xs)
        for idx, doc in enumerate(docs):
            for r in range(reps):
                pick = names_x if kind == "random-X" else names
                interp = I[pick[(idx * 7 + r * 5 + ctx.seed) % len(pick)]]
                perturb = (idx + r) % 2 == 1
                c = replay_history(ctx, doc, interp, seed=ctx.seed * 1000003 + idx * 31 + r, perturb=perturb)
                if c:
                    ctx.traces(1)
                    total += 1
            if idx < 2:
                ctx.sample({"history": {"heap": _short(doc["h"]), "calls": [(e["op"], e["a"], e["b"], e["res"]) for e in doc["hist"]]}})
    ctx.count("histories_replayed", total)
    for key in ("sharing_mismatch", "hashflag_mismatch"):
        if ctx.cov.get(key):
            raise MachineryError(f"{ctx.cov[key]} {key} between EqShare.tla and the real objects: the model does not describe the code "
                                 f"({ctx.cov.get(key + '_example')})")


# ==========================================================================================
# (e) literals: constructor calls generated by TLC (literal mode of EqShare.tla), replayed
# ==========================================================================================

LZ, LONE, LS, LL, LL2, LH = range(6)
_NP_INT_BITS = (("int64", 63), ("int32", 31), ("int16", 15), ("int8", 7), ("uint64", -64), ("uint32", -32), ("uint16", -16), ("uint8", -8))
_MISSING = object()
_NS = []


def _ns():
    if not _NS:
        _NS.append(eval_namespace())
    return _NS[0]


def stored_type(x):
    """Abstract Python type of the value a literal stores (the `vt` of EqShare.tla)."""
    if not isinstance(x, UC.ScalarValue):
        return "none"
    v = x.value()
    for t, name in ((bool, "bool"), (int, "int"), (float, "float"), (complex, "complex")):
        if type(v) is t:
            return name
    for t, name in ((np.bool_, "npbool"), (np.integer, "npint"), (np.floating, "npfloat"), (np.complexfloating, "npcomplex")):
        if isinstance(v, t):
            return name
    return type(v).__name__


def probe_lit_coerce():
    """Which literal classes store their value converted to the Python type they wrap (read off the real code)."""
    out = []
    with warnings.catch_warnings():
        warnings.simplefilter("ignore")
        probes = {
            "IntValue": lambda: [UC.IntValue(np.int64(1000003)), UC.IntValue(1000003.0), ufl.as_ufl(np.int32(-1000003))],
            "FloatValue": lambda: [UC.FloatValue(np.float32(2.5)), UC.FloatValue(1000003), UC.FloatValue(np.int64(7)), ufl.as_ufl(np.float32(1.5))],
            "ComplexValue": lambda: [UC.ComplexValue(np.complex128(1 + 2j)), ufl.as_ufl(np.complex64(1 + 2j))],
        }
        want = {"IntValue": "int", "FloatValue": "float", "ComplexValue": "complex"}
        for cls in LIT_CLASSES:
            r = _try(lambda: [stored_type(x) for x in probes[cls]()])
            if isinstance(r, list) and all(t == want[cls] for t in r):
                out.append(cls)
    return tuple(out)


def probe_lit_newargs():
    """Which classes hand ALL the arguments of their constructor to __new__ when an object is unpickled / copied
    (__getnewargs__, read off the real code)."""
    i7 = UC.Index(7)
    probes = {
        "IntValue": (lambda: UC.IntValue(1000003), (1000003,)),
        "FloatValue": (lambda: UC.FloatValue(2.5), (2.5,)),
        "ComplexValue": (lambda: UC.ComplexValue(1 + 2j), (1 + 2j,)),
        "Zero": (lambda: UC.Zero((2,), (7,), (3,)), ((2,), (7,), (3,))),
        "MultiIndex": (lambda: UC.MultiIndex((UC.FixedIndex(1), i7)), ((UC.FixedIndex(1), i7),)),
    }
    out = []
    for cls in NEWARGS_CLASSES:
        make, want = probes[cls]
        if _try(lambda: tuple(make().__getnewargs__())) == want:
            out.append(cls)
    return tuple(out)


def lit_numbers(rng):
    """Concrete numbers for the abstract slots of one behaviour (both signs; 99 / 100 at the flyweight bound)."""
    s = rng.randint(2, 98)
    big = rng.choice([rng.randint(101, 9999), rng.randint(10**5, 2**31 - 2), 2**24 + 1])
    num = {LZ: 0, LONE: 1,
           LS: rng.choice([99, -99, s, -s]),
           LL: rng.choice([100, -100, big, -big]),
           LH: rng.choice([0.5, -0.5, 2.5, -37.5, 99.5, -100.5, 1234.5])}
    n = num[LL]
    num[LL2] = rng.choice([-n, n + 1 if n > 0 else n - 1])
    return num, rng.choice([1.0, -2.0, 0.5])


def lit_argument(src, n, imv, rng):
    """The Python object of abstract type `src` that holds the number n (+ imv j)."""
    if src == "int":
        return int(n)
    if src == "bool":
        return bool(n)
    if src == "npint":
        fits = [name for name, b in _NP_INT_BITS if (abs(n) < 2**b if b > 0 else 0 <= n < 2**-b)]
        return np.dtype(rng.choice(fits)).type(int(n))
    if src == "float":
        return float(n)
    if src == "npfloat":
        with np.errstate(all="ignore"), warnings.catch_warnings():
            warnings.simplefilter("ignore")
            fits = [t for t in (np.float64, np.float32, np.float16) if float(t(n)) == float(n)]
        return rng.choice(fits)(n)
    z = complex(n, imv)
    if src == "complex":
        return z
    if src == "npcomplex":
        with np.errstate(all="ignore"), warnings.catch_warnings():
            warnings.simplefilter("ignore")
            fits = [t for t in (np.complex128, np.complex64) if complex(t(z)) == z]
        return rng.choice(fits)(z)
    raise MachineryError(f"unknown argument type {src}")


def _lit_cmp(op, a, b):
    """(answer, is it a Python bool): an answer of another truth-valued type (numpy.bool_) is reported once and then
    judged by its truth value."""
    r = (a == b) if op == "==" else (a != b)
    if r is True or r is False:
        return r, True
    if isinstance(r, np.bool_):
        return bool(r), False
    return "nonbool:" + type(r).__name__, False


_LIT_API = {"IntValue": lambda a: UC.IntValue(a), "FloatValue": lambda a: UC.FloatValue(a),
            "ComplexValue": lambda a: UC.ComplexValue(a), "as_ufl": lambda a: ufl.as_ufl(a)}


ZERO_ID, MULTIINDEX_ID = 99, 119  # AmbId of EqShare.tla: identity of the ambient flyweight of shape code sh is base + sh
PICKLE_SURFACES = ("pickle2", "pickle3", "pickle4", "pickle5", "pickle-default", "copy", "deepcopy")


def fly_concrete(rng):
    """Concrete shapes / tuples of fixed indices and free-index sets for the abstract codes sh, fi of one behaviour.
    The free-index sets 1 and 2 differ in the index, in its dimension only, or in the number of indices."""
    s1, s2 = rng.choice([((2,), (3,)), ((2,), (2, 2)), ((3, 3), (3,)), ((2, 2), (2, 3)), ((3,), (2,))])
    i = rng.randint(10, 40)
    j = i + rng.randint(1, 5)
    a, b = rng.sample(range(0, 3), 2)
    fA = ((i,), (2,))
    fB = rng.choice([((j,), (2,)), ((i,), (3,)), ((i, j), (2, 2)), ((i, j), (2, 3))])
    mA = (i,)
    mB = {((j,), (2,)): (j,), ((i,), (3,)): (j,)}.get(fB) or rng.choice([(i, j), (j, i)])
    return {"Zero": {"sh": [(), s1, s2], "fi": [((), ()), fA, fB]},
            "MultiIndex": {"sh": [(), (a,), rng.choice([(b,), (a, b)])], "fi": [(), mA, mB]}}


def fly_object(cls, sh, fi, conc, rng):
    """-> (object, text of the call): the constructor call of a flyweight class, in one of its surface forms."""
    c = conc[cls]
    if cls == "MultiIndex":
        idx = tuple(UC.FixedIndex(v) for v in c["sh"][sh]) + tuple(UC.Index(k) for k in c["fi"][fi])
        return UC.MultiIndex(idx), f"MultiIndex({idx!r})"
    shape, (ids, dims) = c["sh"][sh], c["fi"][fi]
    if not ids:
        form = rng.choice(["Zero(shape)", "zero(*shape)", "zero(shape)", "Zero(shape, (), ())", "Zero(shape, (), None)"])
        z = {"Zero(shape)": lambda: UC.Zero(shape), "zero(*shape)": lambda: ufl.zero(*shape), "zero(shape)": lambda: ufl.zero(shape),
             "Zero(shape, (), ())": lambda: UC.Zero(shape, (), ()), "Zero(shape, (), None)": lambda: UC.Zero(shape, (), None)}[form]()
        return z, f"{form} with shape={shape!r}"
    form = rng.choice(["Zero(shape, ids, dims)", "Zero(shape, Index objects, {Index: dim})", "Zero(shape) * w[indices]", "w[indices] * Zero(shape)"])
    if form == "Zero(shape, ids, dims)":
        z = UC.Zero(shape, ids, dims)
    elif form.startswith("Zero(shape, Index"):
        z = UC.Zero(shape, tuple(UC.Index(k) for k in ids), {UC.Index(k): d for k, d in zip(ids, dims)})
    else:
        w = UC.Coefficient(mk_space(shape=dims), 77)[tuple(UC.Index(k) for k in ids)]
        z = UC.Zero(shape) * w if form.startswith("Zero") else w * UC.Zero(shape)
    return z, f"{form} with shape={shape!r}, ids={ids!r}, dims={dims!r}"


def _slot_state(x):
    """The slots of an object (what pickle saves and writes back)."""
    out = {}
    for k in type(x).__mro__:
        for name in getattr(k, "__slots__", ()):
            if name != "__weakref__" and hasattr(x, name):
                out[name] = getattr(x, name)
    return out


def _trip(surface, y):
    if surface == "evalrepr":
        return eval(repr(y), dict(_ns()))  # noqa: S307
    if surface == "copy":
        return copy.copy(y)
    if surface == "deepcopy":
        return copy.deepcopy(y)
    if surface == "pickle-default":
        return pickle.loads(pickle.dumps(y))
    return pickle.loads(pickle.dumps(y, int(surface[-1])))


def replay_literals(ctx, doc, seed, tamper=None):
    """Execute one TLC behaviour of constructor calls and round trips on the real constructors.  The numbers below the
    flyweight bound that it uses are taken out of IntValue._cache before (a behaviour starts as in a fresh interpreter)
    and the previous entries are put back afterwards; the flyweight zeros / fixed multi-indices of the shapes it uses
    are created before (the ambient objects of EqShare.tla).  Should the behaviour damage an ambient object (reported as
    a violation), its slots are written back afterwards, so that the rest of the run is about the code, not the damage."""
    steps = doc["steps"]
    rng = random.Random(seed)
    num, imv = lit_numbers(rng)
    cache = getattr(UC.IntValue, "_cache", None)
    if not isinstance(cache, dict):
        raise MachineryError("IntValue._cache not found: the state of the flyweight cache cannot be set up")
    saved = {}
    for st in steps:
        if st["slot"] in (LONE, LS) and num[st["slot"]] not in saved:
            saved[num[st["slot"]]] = cache.pop(num[st["slot"]], _MISSING)
    conc = fly_concrete(random.Random(seed ^ 0x5F3759DF))
    amb, amb_state = {}, {}
    for sh in range(3):
        amb[ZERO_ID + sh] = UC.Zero(conc["Zero"]["sh"][sh])
        amb[MULTIINDEX_ID + sh] = UC.MultiIndex(tuple(UC.FixedIndex(v) for v in conc["MultiIndex"]["sh"][sh]))
    for k, a in amb.items():
        hash(a)
        amb_state[k] = _slot_state(a)
    try:
        with warnings.catch_warnings():
            warnings.simplefilter("ignore")
            return _replay_literals(ctx, doc, seed, rng, num, imv, tamper, conc, amb)
    finally:
        for n, old in saved.items():
            cache.pop(n, None)
            if old is not _MISSING:
                cache[n] = old
        for k, a in amb.items():
            for name, v in amb_state[k].items():
                if getattr(a, name, _MISSING) is not v:
                    setattr(a, name, v)
        for sh in range(3):
            UC.Zero._cache[conc["Zero"]["sh"][sh]] = amb[ZERO_ID + sh]
            UC.MultiIndex._cache[conc["MultiIndex"]["sh"][sh]] = amb[MULTIINDEX_ID + sh]


def _replay_literals(ctx, doc, seed, rng, num, imv, tamper, conc, amb):
    steps = doc["steps"]
    rp = {"kind": "literal", "seed": seed, "doc": doc}
    O, ref, calls = [], [], []
    checks = 0
    nontrivial = False
    amb_ref = {k: observe(a) for k, a in amb.items()}
    for i, st in enumerate(steps):
        of = st.get("of", 0)
        kind = st["api"] if of else "create"
        try:
            with warnings.catch_warnings():
                warnings.simplefilter("ignore")
                if of:
                    surface = rng.choice(PICKLE_SURFACES) if st["api"] == "pickle" else "evalrepr"
                    call = f"{surface} round trip of [{calls[of - 1]}]"
                    x = _trip(surface, O[of - 1])
                elif st["api"] in FLY_CLASSES:
                    call = f"{st['api']}(shape code {st['sh']}, free indices code {st['fi']})"
                    x, call = fly_object(st["api"], st["sh"], st["fi"], conc, rng)
                else:
                    arg = lit_argument(st["src"], num[st["slot"]], imv if st["im"] else 0.0, rng)
                    call = f"{st['api']}({arg!r} : {type(arg).__name__})"
                    x = _LIT_API[st["api"]](arg)
        except Exception as e:  # noqa: BLE001
            if of:
                V(ctx, f"C13:{st['api']}:{st['cls']}:raises", f"{call} raises {type(e).__name__}: {e}", rp)
            else:
                V(ctx, f"C13:literal-constructor-raises:{st['api']}:{st['src']}:{type(e).__name__}",
                  f"{call} raises {type(e).__name__}: {e}", rp)
            return checks
        if tamper == "raw-value" and isinstance(x, UC.IntValue) and st["src"] != "int" and abs(num[st["slot"]]) >= 100:
            x._value = arg  # selftest: an object as a constructor without conversion would leave it
        if tamper == "restore-onto-flyweight" and of and isinstance(x, UC.Zero):
            # selftest: an unpickler that writes the saved slots onto the cached zero of the same shape
            for name, v in _slot_state(x).items():
                setattr(UC.Zero(x.ufl_shape), name, v)
        ox = observe(x)
        O.append(x)
        ref.append(ox)
        calls.append(call)
        cls = st["cls"]
        if type(x).__name__ != cls:
            ctx.count("literal_class_not_predicted")
            ctx.cov.setdefault("literal_class_not_predicted_example", {"call": call, "real": type(x).__name__, "predicted": cls})
        if stored_type(x) != st["vt"]:
            ctx.count("literal_stored_type_not_predicted")
            ctx.cov.setdefault("literal_stored_type_not_predicted_example", {"call": call, "real": stored_type(x), "predicted": st["vt"]})
        if (st["id"] in amb) != any(x is a for a in amb.values()) or (st["id"] in amb and x is not amb[st["id"]]):
            ctx.count("literal_identity_not_predicted")
            ctx.cov.setdefault("literal_identity_not_predicted_example", {"calls": call, "real": "ambient flyweight or not", "doc": doc})
        checks += 2
        if _lit_cmp("==", x, x)[0] is not True:
            V(ctx, f"C13:eq-not-reflexive:{cls}", f"{call} == itself gives {eqv(x, x)}", rp)
        for j in range(i):
            y, oy, sj = O[j], ref[j], steps[j]
            (e1, b1), (e2, b2), (n1, b3) = _lit_cmp("==", y, x), _lit_cmp("==", x, y), _lit_cmp("!=", y, x)
            want = sj["eqc"] == st["eqc"]
            checks += 4
            pair = f"{calls[j]} and {call}"
            odd = sorted({steps[k]["src"] for k in (i, j) if stored_type(O[k]) != steps[k]["vt"]})
            # structural class of the pair: the (first) argument type whose stored value is not of the predicted type
            tag = "src=" + (odd[0] if odd else "~".join(sorted({sj["src"], st["src"]})))
            if (x is y) != (sj["id"] == st["id"]):
                ctx.count("literal_identity_not_predicted")
                ctx.cov.setdefault("literal_identity_not_predicted_example", {"calls": pair, "real": x is y, "doc": doc})
            if not (b1 and b2 and b3):
                V(ctx, f"C13:eq-not-bool:{cls}", f"{pair}: == / != do not return a bool: {type(y == x).__name__}, {type(y != x).__name__}", rp)
            if not isinstance(e1, bool) or not isinstance(e2, bool):
                continue
            if e1 != e2:
                V(ctx, f"C13:literal-eq-asymmetric:{'~'.join(sorted({sj['cls'], cls}))}:{tag}", f"{pair}: a == b is {e1}, b == a is {e2}", rp)
            if n1 is not (not e1):
                V(ctx, f"C13:ne-inconsistent:{cls}", f"{pair}: == is {e1} but != is {n1}", rp)
            if e1 is True or e2 is True:
                d = diff_obs(oy, ox)
                if d and of == j + 1:
                    V(ctx, f"C13:{st['api']}:{cls}:observables", f"{call} gives an == object whose {d} differ: repr {oy['repr']!r} vs {ox['repr']!r}",
                      rp, detail={"differ": d})
                elif d:
                    V(ctx, f"C13:literal-equal-but-differ:{cls}:{tag}:{'+'.join(d)}",
                      f"{pair} are == but their {d} differ: repr {oy['repr']!r} vs {ox['repr']!r}, "
                      f"stored value {oy.get('value')!r} vs {ox.get('value')!r}", rp, detail={"differ": d})
            if e1 != want and of == j + 1:
                V(ctx, f"C13:{st['api']}:{cls}:unequal", f"{call} gives an object that is not == the original: {y!r} vs {x!r}", rp)
            elif e1 != want:
                V(ctx, f"C13:literal-eq-{'spurious' if e1 else 'missing'}:{'~'.join(sorted({sj['cls'], cls}))}:{tag}",
                  f"{pair}: == gives {e1}, EqShare.tla (literal mode) predicts {want}: {y!r} vs {x!r}", rp)
            if want and (sj["api"], sj["src"]) != (st["api"], st["src"]):
                nontrivial = True
        # the objects returned earlier, and the ambient flyweights, are unchanged by the call
        for what, y, oy, ycls in ([(f"the object returned by {calls[j]}", O[j], ref[j], steps[j]["cls"]) for j in range(i)]
                                  + [(f"the existing flyweight {amb_ref[k]['repr']}", amb[k], amb_ref[k], type(amb[k]).__name__) for k in amb]):
            now = observe(y)
            checks += 1
            d = diff_obs(oy, now, keys=("repr", "str", "shape", "fi", "value", "hash", "sig"))
            if d:
                V(ctx, f"C13:{kind}-changes-object:{ycls}:{'+'.join(d)}",
                  f"after {call} {what} changed its {d}: {oy['repr']!r} -> {now['repr']!r}", rp)
                return checks
    # round trips of every returned object
    seen = []
    for i, x in enumerate(O):
        if any(x is s for s in seen):
            continue
        seen.append(x)
        st = steps[i]
        roundtrips(ctx, f"literal:{st['api']}({st['src']}):{st['cls']}:slot{st['slot']}:sh{st.get('osh', 0)}:fi{st.get('ofi', 0)}", x, _ns(),
                   {"source": "literal", "seed": seed, "doc": doc})
        checks += 2
    ctx.evaluated(checks)
    if nontrivial:
        ctx.distinct("lit|" + json.dumps([(s["api"], s["src"], s["slot"], s["im"], s.get("sh", 0), s.get("fi", 0), s.get("of", 0)) for s in steps]))
    return checks


def literal_observations(ctx):
    """Signed zero real part of a purely imaginary literal (was a defect of the pinned tree, fixed)."""
    def signed_zero():
        a, b = UC.ComplexValue(complex(0.0, -2.0)), UC.ComplexValue(complex(-0.0, -2.0))
        c = eval(repr(a), dict(_ns()))  # noqa: S307
        return eqv(a, b) is True and repr(a) != repr(b), eqv(a, c) is True and repr(a) != repr(c)

    r = _try(signed_zero)
    ctx.evaluated(2)
    if isinstance(r, tuple) and r[0]:
        ctx.violation("C13:literal-equal-but-differ:ComplexValue:signed-zero:repr", "ComplexValue(0-2j) == ComplexValue(-0-2j) but repr and hash differ", {"kind": "signed-zero"})
    if isinstance(r, tuple) and r[1]:
        ctx.violation("C13:evalrepr:ComplexValue:signed-zero", "eval(repr(ComplexValue(-2j))) is equal to the original but has another repr and hash", {"kind": "signed-zero"})


def _spread(docs, limit):
    """TLC's simulator prints every candidate successor: pick `limit` behaviours spread over all the traces."""
    uniq, keys = [], set()
    for d in docs:
        k = json.dumps(d, sort_keys=True)
        if k not in keys:
            keys.add(k)
            uniq.append(d)
    if len(uniq) <= limit:
        return uniq
    return [uniq[(k * len(uniq)) // limit] for k in range(limit)]


def lit_plans(ctx):
    """[(name, run_eqshare keywords, max number of behaviours replayed)]"""
    inv = ["LitLaws", "LitExport"]
    P = [("pairs-same-number", dict(lit=(2, True, LIT_CLASSES), invs=inv, props=["LitStable"], workers=4), None),
         # (the simulator evaluates the invariants on every candidate successor: ~110 per step)
         ("random", dict(lit=(8, False, LIT_CLASSES, NEWARGS_CLASSES, 2), invs=inv, workers=1, simulate="num=6" if ctx.tier == "quick" else "num=30",
                         depth=9, seed=ctx.seed + 5), 48 if ctx.tier == "quick" else 400)]
    if ctx.tier != "quick":
        P.append(("pairs", dict(lit=(2, False, LIT_CLASSES), invs=inv, props=["LitStable"], workers=4), None))
        P.append(("triples-same-number", dict(lit=(3, True, LIT_CLASSES), invs=inv, props=["LitStable"], workers=4), None))
    return P


def literals_start(ctx):
    """Start the TLC runs of the literal mode in the background (they overlap with the other TLC runs)."""
    ex = ThreadPoolExecutor(max_workers=4)
    futs = [(name, limit, ex.submit(run_eqshare, mode="lit", n=0, mt=0, timeout=1500, **kw)) for name, kw, limit in lit_plans(ctx)]
    ex.shutdown(wait=False)
    return futs


def literals(ctx, futs):
    # --- the model of the constructors AS PROBED: TLC's counterexample to the laws is replayed on the real classes
    coerce = probe_lit_coerce()
    newargs = probe_lit_newargs()
    ctx.cov["literal_constructors_converting_the_stored_value"] = list(coerce)
    ctx.cov["classes_with_complete_getnewargs"] = list(newargs)
    if set(coerce) != set(LIT_CLASSES) or set(newargs) != set(NEWARGS_CLASSES):
        res = run_eqshare(mode="lit", n=0, mt=0, lit=(2, True, coerce, newargs), invs=["LitLawsCex"], workers=1, timeout=600)
        ctx.add_tlc(res)
        docs = tlc.decode_prints(res)
        if res.outcome == "invariant" and docs:
            ctx.count("laws_violated_by_literal_constructors_as_probed")
            ctx.sample({"tlc_counterexample_literals": {"converting": list(coerce), "complete_getnewargs": list(newargs),
                                                        "calls": [(s["api"], s["src"], s["slot"], s["sh"], s["fi"], s["of"]) for s in docs[0]["steps"]]}})
            for k in range(8):
                sink = Sink()
                replay_literals(sink, docs[0], ctx.seed * 7919 + k)
                if sink.viol:
                    replay_literals(ctx, docs[0], ctx.seed * 7919 + k)
                    ctx.traces(1)
                    break
            else:
                ctx.count("literal_counterexample_not_reproduced")
        elif res.outcome != "ok":
            tlc.require_ok(res, "EqShare literal mode, constructors as probed")
    # --- the intended model: laws checked by TLC, behaviours replayed
    total = 0
    for name, limit, fut in futs:
        res = fut.result()
        ctx.add_tlc(res)
        tlc.require_ok(res, f"EqShare literal mode ({name})")
        docs = tlc.decode_prints(res)
        if limit is not None:
            docs = _spread(docs, limit)
        if not docs:
            raise MachineryError(f"TLC produced no literal behaviours ({name})")
        # calls that return an existing flyweight: of IntValue in every exhaustive plan, of any class in the random sample
        hits = sum(1 for d in docs for i, s in enumerate(d["steps"], start=1) if s["id"] != i and (s["cls"] == "IntValue" or limit is not None))
        mixed = sum(1 for d in docs for a, b in itertools.combinations(d["steps"], 2)
                    if a["eqc"] == b["eqc"] and a["src"] != b["src"] and a["cls"] != "Zero")
        if not hits or not mixed:
            raise MachineryError(f"literal behaviours ({name}) are vacuous: {hits} flyweight hits, {mixed} equal pairs of different argument types")
        if limit is None:
            # every exhaustive plan: round trips of flyweights (restored object = the cached one) and of zeros /
            # multi-indices with free indices (restored object = a new one), both ways
            for cls in FLY_CLASSES:
                for api in ("pickle", "evalrepr"):
                    shared = sum(1 for d in docs for k, s in enumerate(d["steps"], start=1) if s["api"] == api and s["cls"] == cls and s["id"] != k)
                    fresh = sum(1 for d in docs for k, s in enumerate(d["steps"], start=1) if s["api"] == api and s["cls"] == cls and s["ofi"] and s["id"] == k)
                    if not shared or not fresh:
                        raise MachineryError(f"literal behaviours ({name}) are vacuous: {api} round trips of {cls}: {shared} of flyweights, "
                                             f"{fresh} of objects with free indices")
        ctx.count(f"literal_round_trip_steps_{name}", sum(1 for d in docs for s in d["steps"] if s["of"]))
        ctx.count(f"literal_behaviours_{name}", len(docs))
        for idx, doc in enumerate(docs):
            if replay_literals(ctx, doc, ctx.seed * 1000003 + idx):
                ctx.traces(1)
                total += 1
            if idx < 1:
                ctx.sample({"literal_behaviour": [(s["api"], s["src"], s["slot"], s["im"], s["sh"], s["fi"], s["of"], s["cls"], s["eqc"]) for s in doc["steps"]]})
    ctx.count("literal_behaviours_replayed", total)
    literal_observations(ctx)
    ctx.cov["literal_call_universe"] = ("api in IntValue/FloatValue/ComplexValue/as_ufl x argument type in int/bool/numpy integer/float/"
                                        "numpy float/complex/numpy complex x number in 0/1/small(<100)/large(>=100)/second large/half-integral "
                                        "x imaginary part 0/non-0, restricted to the calls the API accepts (LitValid); Zero / MultiIndex x "
                                        "shape (fixed indices) empty/two non-empty x free indices none/two different sets (differing in an index, "
                                        "an index dimension or their number; constructor forms: new and old argument format, zero(), product of a "
                                        "zero with an indexed coefficient); round trips pickle (protocol 2-5, default, copy.copy, copy.deepcopy) / "
                                        "eval(repr) of an object returned by an earlier step")


# ==========================================================================================
# laws on the corpus, (d) round trips
# ==========================================================================================


def _components(x):
    """Sub-objects an object is built from (for locating the culprit of a failed round trip)."""
    out = []
    if isinstance(x, UC.BaseFormOperator):
        out += list(x.ufl_operands) + list(x.argument_slots()) + [x.ufl_function_space()]
    elif isinstance(x, Expr) and not x._ufl_is_terminal_:
        out += list(x.ufl_operands)
    elif isinstance(x, (UC.Coefficient, UC.Cofunction, UC.Argument, UC.Coargument)):
        out += [x.ufl_function_space()]
    elif isinstance(x, (UC.Constant, UC.GeometricQuantity)):
        out += list(x.ufl_domains())
    elif isinstance(x, (UC.FunctionSpace, UC.DualSpace)):
        out += [x.ufl_domain(), x.ufl_element()]
    elif isinstance(x, (UC.MixedFunctionSpace, UC.TensorProductFunctionSpace)):
        out += list(x.ufl_sub_spaces())
    elif isinstance(x, UC.Mesh):
        out += [x.ufl_coordinate_element()]
    elif isinstance(x, UC.AbstractDomain):
        out += [m for m in x.meshes if m is not x]
    elif isinstance(x, Form):
        out += list(x.integrals())
    elif isinstance(x, Integral):
        out += [x.integrand(), x.ufl_domain()]
    elif isinstance(x, UC.FormSum):
        out += list(x.components()) + [w for w in x.weights() if isinstance(w, Expr)]
    elif isinstance(x, UC.Action):
        out += [x.left(), x.right()]
    elif isinstance(x, UC.Adjoint):
        out += [x.form()]
    elif isinstance(x, UC.ZeroBaseForm):
        out += list(x.arguments())
    elif isinstance(x, UC.Matrix):
        out += list(x.ufl_function_spaces())
    elif isinstance(x, UC.Measure):
        out += [d for d in [x.ufl_domain()] if d is not None]
    return out


_FIELDS = ("label", "count", "ufl_id", "number", "part", "ufl_shape", "derivatives", "subdomain_id", "metadata",
           "integral_type", "weights", "geometric_dimension")


def _one_trip(x, kind, ns):
    """-> (outcome, y): 'ok' | 'raises:X' | 'unequal' | 'unequal-reverse' | 'observables:<k>'"""
    try:
        with warnings.catch_warnings():
            warnings.simplefilter("ignore")
            y = pickle.loads(pickle.dumps(x)) if kind == "pickle" else eval(repr(x), dict(ns))  # noqa: S307
    except Exception as e:  # noqa: BLE001
        return "raises:" + type(e).__name__, None
    e1 = _try(lambda: eqv(y, x))
    if isinstance(e1, str):
        return "eq-" + e1.split(":")[0], y  # == itself raises: reported by the laws, not as a round-trip defect
    if e1 is not True:
        return "unequal", y
    if _try(lambda: eqv(x, y)) is not True:
        return "unequal-reverse", y
    d = diff_obs(observe(x), observe(y), keys=("hash", "repr", "shape", "fi", "value"))
    if d:
        return "observables:" + "+".join(d), y
    return "ok", y


def _culprit(x, kind, ns, depth=0):
    if depth < 12:
        for c in _components(x):
            if c is None or isinstance(c, (int, float, str)):
                continue
            o, _ = _one_trip(c, kind, ns)
            if o != "ok":
                return _culprit(c, kind, ns, depth + 1)
    return x


def roundtrips(ctx, tag, x, ns, replay, kinds=("pickle", "evalrepr")):
    for kind in kinds:
        outcome, y = _one_trip(x, kind, ns)
        ctx.evaluated()
        ctx.distinct(f"rt|{kind}|{tag}")
        if outcome == "ok":
            continue
        if outcome.startswith("eq-"):
            ctx.count("roundtrips_undecided_because_eq_raises")
            continue
        c = _culprit(x, kind, ns)
        o2, y2 = _one_trip(c, kind, ns)
        from ufl.core.expr import Expr as _Expr
        from ufl.form import Form as _Form

        if not isinstance(c, (_Expr, _Form)) and type(c).__name__ in ("FormSum", "Action", "Adjoint", "Matrix", "ZeroBaseForm"):
            # C13 demands round trips of EXPRESSIONS (and Form); these base-form classes are neither.
            # Their failing pickle / eval(repr) round trips are recorded as notes, not as violations.
            ctx.count(f"note_outside_property:{kind}-roundtrip:{type(c).__name__}:{o2.split(':')[0]}")
            continue
        field = ""
        if y2 is not None:
            for f in _FIELDS:
                a = _try(lambda: getattr(c, f)() if callable(getattr(c, f)) else getattr(c, f))
                b = _try(lambda: getattr(y2, f)() if callable(getattr(y2, f)) else getattr(y2, f))
                if a != b:
                    field = ":" + f
                    break
        cname = type(c).__name__
        what = (f"{kind} round trip of {tag} ({type(x).__name__}): {outcome}; smallest failing part: {cname} "
                f"{_try(lambda: repr(c))!s:.120} -> {o2}{field}")
        V(ctx, f"C13:{kind}:{cname}:{o2.split(':')[0]}{field}", what, dict(replay, kind="roundtrip", trip=kind))


def corpus_laws(ctx, built):
    """identical construction => equal; == on the whole corpus is an equivalence whose classes agree on
    hash / repr / shape / indices / signature."""
    pool = []
    for tag, a, b, det, err in built:
        if err is not None:
            raise MachineryError(f"corpus entry {tag} not constructible: {err}")
        oa, ob = observe(a), observe(b)
        pool.append((tag, a, oa))
        pool.append((tag + "'", b, ob))
        if det:
            e1, e2 = _try(lambda: eqv(a, b)), _try(lambda: eqv(b, a))
            ctx.evaluated(2)
            ctx.distinct("corpus-ident|" + tag)
            cls = type(a).__name__
            rp = {"kind": "corpus", "tag": tag}
            if isinstance(e1, str) and e1.startswith("raises"):
                V(ctx, f"C13:eq-raises:{tag}:{e1.split(':')[1]}", f"corpus entry {tag} built twice: == {e1}", rp)
            elif e1 is not True or e2 is not True:
                V(ctx, f"C13:identical-not-equal:{cls}", f"corpus entry {tag} built twice: == gives {e1}/{e2}", rp)
            else:
                d = diff_obs(oa, ob)
                if d:
                    V(ctx, f"C13:identical-differ:{cls}:{'+'.join(d)}", f"corpus entry {tag} built twice, equal, but {d} differ", rp)
    n = len(pool)
    E = [[_try(lambda: eqv(pool[i][1], pool[j][1])) for j in range(n)] for i in range(n)]
    ctx.evaluated(n * n)
    for i in range(n):
        for j in range(n):
            e = E[i][j]
            ca, cb = type(pool[i][1]).__name__, type(pool[j][1]).__name__
            rp = {"kind": "corpus-pair", "a": pool[i][0], "b": pool[j][0]}
            if not isinstance(e, bool):
                V(ctx, f"C13:eq-raises:{pool[i][0].rstrip(chr(39))}:{str(e).split(':')[-1]}", f"{pool[i][0]} == {pool[j][0]} gives {e}", rp)
                continue
            if e != E[j][i] and isinstance(E[j][i], bool):
                V(ctx, f"C13:eq-asymmetric:{ca}-{cb}", f"{pool[i][0]} == {pool[j][0]} is {e}, converse {E[j][i]}", rp)
            if e and i != j:
                d = diff_obs(pool[i][2], pool[j][2])
                if d:
                    V(ctx, f"C13:equal-but-differ:{ca}:{'+'.join(d)}", f"{pool[i][0]} == {pool[j][0]} but {d} differ", rp)
                if E[i] != E[j]:
                    k = next(k for k in range(n) if E[i][k] != E[j][k])
                    V(ctx, f"C13:eq-not-transitive:{ca}", f"{pool[i][0]} == {pool[j][0]} but they disagree about {pool[k][0]}", rp)
        if E[i][i] is not True:
            V(ctx, f"C13:eq-not-reflexive:{type(pool[i][1]).__name__}", f"{pool[i][0]} == itself gives {E[i][i]}",
                          {"kind": "corpus-pair", "a": pool[i][0], "b": pool[i][0]})


def all_roundtrips(ctx, built):
    ns = eval_namespace()
    for tag, a, b, det, err in built:
        roundtrips(ctx, tag, a, ns, {"source": "corpus", "tag": tag})
    for case in catalogue():
        if case.name.startswith("Measure"):
            continue
        objs = [("base", None, None, case.build())]
        for attr, i in case.columns():
            try:
                objs.append((f"{attr}#{i}", attr, i, case.build(attr, case.alts[attr][i])))
            except Exception:  # noqa: BLE001
                continue
        for label, attr, i, x in objs:
            roundtrips(ctx, f"{case.name}/{label}", x, ns, {"source": "catalogue", "case": case.name, "attr": attr, "alt": i})


# ==========================================================================================
# driver
# ==========================================================================================


def run(ctx, args):
    if args.selftest:
        return selftest(ctx)
    t0 = time.time()
    ctx.rule = (
        "heap mode: TLC enumerates every heap of N abstract objects (terminals with 2 binary attributes, labels, unary/binary "
        "operators, Variables over earlier objects) and every reachable sequence of ==/hash/Form.equals calls; histories exported "
        "by TLC (all short ones on 3 objects + seeded random deep ones on 4-5 objects, also over heaps with attributed operators) are "
        "replayed on real objects under 17 interpretations of the abstract classes, alternating surface syntax (==, !=, Integral ==, "
        "Form.equals, bool(Form == Form)); "
        "a history is non-trivial when some == between two distinct objects answers True (sharing is triggered). Sweep: one case "
        "per (class, constructor attribute, alternative value); round trips: one case per (object, pickle|eval-repr). "
        "Literal mode: TLC enumerates every pair (thorough: also triple) of constructor calls about the same number, and seeded random "
        "sequences of 8 calls, over the universe api x argument type x number (see coverage.literal_call_universe); the replay picks "
        "concrete numbers (both signs, 99/100 at the flyweight bound) and numpy dtypes from the seed; a behaviour is non-trivial when two "
        "calls that differ in api or argument type are predicted to return equal objects; the calls include Zero / MultiIndex "
        "constructor calls (shape x free indices) and pickle / eval(repr) round trips of objects returned by earlier steps"
    )
    ctx.assume("elements are user objects: the check's own picklable Elem class with evaluable repr stands for them")
    ctx.assume("eval(repr(x)) is evaluated in a namespace holding `from ufl import *`, `from ufl.classes import *`, MeshSequence, Elem, Tag")
    ctx.assume("== on forms means bool(a == b) (BaseForm.__eq__ builds a delayed Equation); comparison with Python scalars is out of scope")
    ctx.assume("an attribute change that no observable of the property (hash, repr, shape, indices, value, signature) reflects is not "
               "demanded to make objects unequal (e.g. constructor arguments that are discarded); str() is recorded, never demanded")
    ctx.assume("not part of identity by documentation: Mesh cargo, Form._cache; subdomain_data is identified through ufl_id() "
               "(ufl.protocols.id_or_none), so payloads with ufl_id() are used")
    ctx.assume("Measure is excluded from round trips (it compares metadata values by id(), it is neither an expression nor a form); "
               "MeshView is excluded (its constructor needs element.value_shape, which AbstractFiniteElement does not have)")
    ctx.assume("hash-flag/operand-sharing conformance treats a mismatch between EqShare.tla and the objects as a machinery failure")
    ctx.assume("literals: IntValue/FloatValue/as_ufl accept any numbers.Integral / numbers.Real argument (Python bool, numpy integer and "
               "floating scalars), IntValue also integral floats (the repository's tests do IntValue(1.0)), ComplexValue / as_ufl numpy "
               "complex scalars; numbers are chosen exactly representable in the argument type; nan/inf are left out")
    ctx.assume("literals: a behaviour starts with the numbers below the flyweight bound it uses not yet created, as in a fresh interpreter: "
               "the replay takes them out of IntValue._cache before and puts the previous entries back afterwards; identity (`is`) of "
               "literals and the predicted Python type of the stored value are recorded (coverage counters), only ==/hash/repr/value/"
               "signature/round trips are judged")
    ctx.assume("literals: a behaviour starts with the index-free Zero of each shape and the all-fixed MultiIndex of each tuple it uses "
               "already created (the replay creates them first); copy.copy / copy.deepcopy are taken as surfaces of the pickle round trip "
               "(they run the same __reduce_ex__ protocol); pickle protocols 0 and 1 are left out (Python refuses them for classes "
               "with __slots__ and no __getstate__)")
    lit_runs = literals_start(ctx)
    # (c)
    rows = sweep(ctx)
    cross_sweep(ctx)
    t1 = time.time()
    # (a)
    defects, index = tlc_table(ctx, rows)
    tlc_defect_exemplars(ctx, defects, index)
    tlc_heap_laws(ctx)
    tlc_attributed_operators(ctx)
    t2 = time.time()
    # (b)
    conformance(ctx)
    t3 = time.time()
    # (e)
    literals(ctx, lit_runs)
    t3b = time.time()
    # laws on the corpus and (d)
    built = build_corpus(ctx)
    corpus_laws(ctx, built)
    all_roundtrips(ctx, built)
    t4 = time.time()
    ctx.cov["phase_wall_s"] = {"sweep": round(t1 - t0, 1), "tlc": round(t2 - t1, 1), "conformance": round(t3 - t2, 1),
                               "literals": round(t3b - t3, 1), "corpus+roundtrips": round(t4 - t3b, 1)}
    ctx.cov["exhaustive"] = False
    ctx.sample({"sweep_pair": "Coefficient(V, 5) vs Coefficient(V, 6): != ; hash, repr differ"})


def selftest(ctx):
    """Corrupt predictions / objects; every corruption must be rejected by the comparison."""
    I = interpretations()  # noqa: E741
    docs = generate_histories(ctx, n=3, mt=2, mh=1, wr=True)
    target = None
    for d in docs:
        ev = d["hist"][0]
        if ev["op"] == "eq" and ev["res"] and ev["a"] != ev["b"] and d["h"][ev["a"] - 1]["c"] >= 3 and ev["t"][ev["a"] - 1] != ev["a"]:
            target = d
            break
    if target is None:
        raise MachineryError("selftest: no history with sharing found")
    interp = I["Coefficient"]
    ok = []
    s = Sink()
    replay_history(s, target, interp, 1, False)
    ok.append(("uncorrupted history accepted", not s.viol and not s.counts))
    bad = json.loads(json.dumps(target))
    bad["hist"][0]["res"] = False
    s = Sink()
    replay_history(s, bad, interp, 1, False)
    ok.append(("flipped predicted answer rejected", any("history-eq" in v[0] or "eq-ignores" in v[0] for v in s.viol)))
    bad = json.loads(json.dumps(target))
    bad["hist"][0]["t"] = list(range(1, len(bad["h"]) + 1))
    s = Sink()
    replay_history(s, bad, interp, 1, False)
    ok.append(("wrong sharing prediction rejected", s.counts.get("sharing_mismatch", 0) > 0))
    s = Sink()
    replay_history(s, target, interp, 1, True)
    ok.append(("uncorrupted history accepted in perturbing mode", not s.viol and not s.counts))
    bad = json.loads(json.dumps(target))
    bad["hist"][0]["hc"] = [not x for x in bad["hist"][0]["hc"]]
    s = Sink()
    replay_history(s, bad, interp, 1, False)
    ok.append(("wrong hash-cache prediction rejected", s.counts.get("hashflag_mismatch", 0) > 0))
    s = Sink()
    replay_history(s, target, interp, 1, False, tamper="operands")
    ok.append(("silently re-pointed operand rejected", any("compare-changes-object" in v[0] for v in s.viol)))
    # the sweep must see the attribute it is told about: a class whose == ignores an attribute
    s = Sink()
    case = Case("Fake", lambda a, b: _Fake(a, b), {"a": 1, "b": 1}, {"a": [2], "b": [2]})
    ok.append(("attribute-ignoring == detected by pair replay",
               replay_sweep_pair(s, case, "b", 0, report=True) and bool(s.viol) and not replay_sweep_pair(Sink(), case, "a", 0, report=True)))
    # table: a corrupted projection row must make TLC report the invariant
    rows = [{"cls": "Fake", "cols": [{"attr": "a", "alt": 0, "eq": False, "eqr": False, "hash": True, "repr": True, "sig": True, "obs": False}]}]
    text, _ = table_rows_tla(rows)
    res = run_eqshare(mode="table", n=0, mt=0, table=text, invs=TABLE_INVS, workers=2, timeout=300)
    ctx.add_tlc(res)
    ok.append(("TLC rejects a projection row with eq ignoring a hashed attribute", res.outcome == "invariant"))
    # round trip comparison rejects an object whose repr loses information
    s = Sink()
    import ufl.functionspace as _fs

    _orig = _fs.FunctionSpace.__repr__
    _fs.FunctionSpace.__repr__ = lambda self: f"FunctionSpace({self._ufl_domain!r}, {self._ufl_element!r})"  # drops label
    try:
        roundtrips(s, "labelled", UC.Coefficient(mk_space(label="x"), 3), eval_namespace(), {}, kinds=("evalrepr",))
    finally:
        _fs.FunctionSpace.__repr__ = _orig
    s2 = Sink()
    roundtrips(s2, "plain", UC.Coefficient(mk_space(), 3), eval_namespace(), {}, kinds=("evalrepr", "pickle"))
    ok.append(("lossy repr rejected, faithful repr accepted", bool(s.viol) and not s2.viol))
    # literal mode: a corrupted predicted equality class / an object holding an unconverted value must be rejected
    res = run_eqshare(mode="lit", n=0, mt=0, lit=(2, True, LIT_CLASSES), invs=["LitLaws", "LitExport"], workers=4, timeout=600)
    ctx.add_tlc(res)
    tlc.require_ok(res, "EqShare literal mode (selftest)")
    ldoc = next((d for d in tlc.decode_prints(res)
                 if [(x["api"], x["src"], x["slot"]) for x in d["steps"]] == [("IntValue", "int", LL), ("IntValue", "npint", LL)]), None)
    if ldoc is None:
        raise MachineryError("selftest: literal behaviour IntValue(int), IntValue(numpy integer) not exported")
    s = Sink()
    replay_literals(s, ldoc, 1)
    ok.append(("uncorrupted literal behaviour accepted", not s.viol and not s.counts))
    bad = json.loads(json.dumps(ldoc))
    bad["steps"][1]["eqc"] = 2
    s = Sink()
    replay_literals(s, bad, 1)
    ok.append(("wrong predicted equality class of a literal rejected", any("literal-eq-spurious" in v[0] for v in s.viol)))
    s = Sink()
    replay_literals(s, ldoc, 1, tamper="raw-value")
    ok.append(("literal holding an unconverted numpy value rejected", any("literal-equal-but-differ:IntValue:src=npint" in v[0] for v in s.viol)
               and any(v[0].startswith("C13:evalrepr:IntValue") for v in s.viol)))
    # round trips: an unpickler that writes the saved slots onto a shared flyweight must be rejected, by the replay and by TLC
    ldocs = tlc.decode_prints(res)
    tdoc = next((d for d in ldocs if [(x["api"], x["sh"], x["fi"], x["of"]) for x in d["steps"]] == [("Zero", 1, 1, 0), ("pickle", 0, 0, 1)]), None)
    if tdoc is None:
        raise MachineryError("selftest: literal behaviour Zero(shape, free indices), pickle round trip not exported")
    s = Sink()
    for k in range(6):
        replay_literals(s, tdoc, k)
    ok.append(("uncorrupted pickle round trip of a zero with free indices accepted", not s.viol and not s.counts))
    s = Sink()
    replay_literals(s, tdoc, 1, tamper="restore-onto-flyweight")
    s2 = Sink()
    replay_literals(s2, tdoc, 1)
    ok.append(("restored state written onto the cached zero rejected (and undone afterwards)",
               any(v[0].startswith("C13:pickle-changes-object:Zero") for v in s.viol) and not s2.viol))
    bad = json.loads(json.dumps(tdoc))
    bad["steps"][1]["eqc"] = 2
    s = Sink()
    replay_literals(s, bad, 1)
    ok.append(("wrong predicted equality class of a restored object rejected", any(v[0] == "C13:pickle:Zero:unequal" for v in s.viol)))
    res = run_eqshare(mode="lit", n=0, mt=0, lit=(2, True, LIT_CLASSES, LIT_CLASSES + ("MultiIndex",)), invs=["LitLawsCex"], workers=1, timeout=600)
    ctx.add_tlc(res)
    cex = tlc.decode_prints(res)
    ok.append(("TLC rejects the literal laws for a Zero.__getnewargs__ that leaves out the free indices", res.outcome == "invariant"
               and bool(cex) and cex[0]["steps"][-1]["api"] == "pickle" and cex[0]["steps"][-1]["id"] >= ZERO_ID))
    res = run_eqshare(mode="lit", n=0, mt=0, lit=(2, True, ("FloatValue", "ComplexValue")), invs=["LitLawsCex"], workers=1, timeout=600)
    ctx.add_tlc(res)
    ok.append(("TLC rejects the literal laws for an IntValue constructor that does not convert", res.outcome == "invariant"
               and bool(tlc.decode_prints(res))))
    for what, good in ok:
        print(("selftest ok:   " if good else "selftest FAIL: ") + what, flush=True)
    ctx.traces(len(ok))
    if not all(g for _, g in ok):
        raise MachineryError("selftest failed")


def replay(ctx, doc):
    r = doc["replay"]
    kind = r["kind"]
    cases = {c.name: c for c in catalogue()}
    print("replay", doc.get("fingerprint"), json.dumps({k: v for k, v in r.items() if k != "doc"}, default=str)[:300])
    if kind == "sweep":
        shown = replay_sweep_pair(ctx, cases[r["case"]], r["attr"], r["alt"], report=True)
        print("reproduced" if shown else "not reproduced")
    elif kind in ("identical", "family"):
        sweep(ctx, only={"case": r["case"]})
    elif kind == "cross":
        cross_sweep(ctx)
    elif kind == "history":
        replay_history(ctx, r["doc"], interpretations()[r["interp"]], r["seed"], r["perturb"])
    elif kind == "roundtrip":
        ns = eval_namespace()
        if r.get("source") == "literal":
            replay_literals(ctx, r["doc"], r["seed"])
        elif r.get("source") == "corpus":
            for tag, fn, det in corpus():
                if tag == r["tag"]:
                    roundtrips(ctx, tag, fn(Env()), ns, {"source": "corpus", "tag": tag}, kinds=(r["trip"],))
        else:
            case = cases[r["case"]]
            x = case.build() if r.get("attr") is None else case.build(r["attr"], case.alts[r["attr"]][r["alt"]])
            roundtrips(ctx, r["case"], x, ns, {"source": "catalogue", "case": r["case"], "attr": r.get("attr"), "alt": r.get("alt")},
                       kinds=(r["trip"],))
    elif kind == "literal":
        replay_literals(ctx, r["doc"], r["seed"])
    elif kind == "signed-zero":
        literal_observations(ctx)
    elif kind in ("corpus", "corpus-pair"):
        corpus_laws(ctx, build_corpus())
    else:
        raise MachineryError(f"unknown replay kind {kind}")


def main(argv=None):
    main_wrapper("C13", run, argv)
