"""C18 -- the estimated polynomial degree never underestimates the true degree.

Specification: spec/Degree.tla.

(a) TLC builds every term of a bounded algebra of polynomial integrands step by step (one action per
    constructor: Coefficient / Argument on an element of the pool, SpatialCoordinate, CellCoordinate,
    literal, +, *, ** n, A[ii] with fixed and free indices, as_tensor, list tensors, grad, inner, dot,
    outer, transposed; implicit index sums; and, on a finished scalar integrand t, the FORM OPERATIONS
    derivative(t*dx, tuple of Coefficients) -- whose direction is an Argument on the mixed element that
    derivative() builds from the coefficients' elements -- and the shape derivative
    derivative(t*dx, SpatialCoordinate, V), with the degree of the Gateaux / material derivative defined
    compositionally in the spec: DG, DS) and checks on every term
      EstSafe    Est(t) >= TrueDeg(t)            -- with the INTENDED component walk of `indexed`
      PolyRules  the compositional degree rules against brute-force polynomial arithmetic over CQ
    With the AS-CODED walk (reference value sizes) TLC must produce the underestimate counterexample
    on pools where physical and reference sizes differ, and must NOT on the others.
    The element universe (one description rendered to TLA+ records AND to real ufl elements): P, vector P,
    Piola mapped (RT / N1curl like), mixed and symmetric elements, nesting freely; the sub-elements of a
    symmetric element may be vector valued, Piola mapped or mixed, with any block shape / symmetry map.
(b) Conformance: every enumerated term is built on real ufl (real elements, meshes incl. immersed
    manifolds) through the public API; the real DAG is read back node by node into the term
    language (constructor simplifications!) -- where it differs from the term TLC built, TLC is run
    again on the read-back terms -- and
      binding   estimate_total_polynomial_degree(expr) == Est(actual DAG) of the as-coded model (or,
                consistently on all discriminating terms, of the intended model: a fixed code base)
      property  real estimate >= true degree, the true degree being the degree of an actual exact
                polynomial: the real DAG is evaluated bottom-up in an exact polynomial ring with every
                form argument replaced by a member of its space (full polynomials with distinct
                prime coefficients on the reference cell, pushed forward with the Piola map of a
                concrete affine cell); cross-checked with TLC's TrueDeg
      forms     the same through compute_form_data(...).integral_data[*].integrals[*].metadata()
    Form operations: the estimate is the one compute_form_data attaches to the derivative form; the DAG it
    was made on (preprocess_form: Gateaux derivative expanded, shape derivative still a CoordinateDerivative
    node, handler coordinate_derivative) is read back and evaluated by TLC (Est, TrueDeg, EstSafe), and
    the truth is the exact degree of the integrand finally delivered -- for a shape derivative on the
    reference cell, after pull back, integral scaling, geometry lowering and apply_coordinate_derivatives.
"""

from __future__ import annotations

import itertools
import json
import multiprocessing
import os
import time
from fractions import Fraction

from .. import tlc
from ..common import MachineryError, main_wrapper

# --------------------------------------------------------------------------------------------
# configurations (the single description of a universe: rendered to TLA+ constants AND to real
# ufl objects)
# --------------------------------------------------------------------------------------------

ALL_OPS = ("indexed", "ctensor", "pow", "grad", "transposed", "prod", "sum", "list", "inner", "dot", "outer")  # (+ "variable", "gderiv", "cderiv")
TDIM = {"interval": 1, "triangle": 2, "tetrahedron": 3}

P1, P2, P3 = ["P", 1], ["P", 2], ["P", 3]


def mk(name, cell, gdim, elems, coef, args, *, coords=("x",), lits=(2,), pows=(2,), ops=ALL_OPS, depth=2, right=1, idx=(10, 11), poly=False, polymax=6, ascoded="holds", derivs=(), dirs=()):
    """ascoded: what TLC must find for the as-coded rule on this pool: 'holds' / 'fails'.
    derivs: tuples of coefficient numbers offered to derivative(form, tuple) (op "gderiv");
    dirs: elements (vecP, gdim components) offered as direction space of a shape derivative (op "cderiv")."""
    if len({k for _, k in args}) != len(list(args)):
        raise MachineryError("one Argument per number (a form cannot combine two test functions)")
    return dict(name=name, cell=cell, gdim=gdim, elems=elems, coef=list(coef), args=[list(a) for a in args], coords=list(coords), lits=list(lits), pows=list(pows), ops=list(ops), depth=depth, right=right, idx=list(idx), poly=poly, polymax=polymax, ascoded=ascoded, derivs=[list(w) for w in derivs], dirs=list(dirs))


def configs(tier):
    small = ("indexed", "pow", "grad", "prod", "sum", "list", "inner")
    no_outer = [o for o in ALL_OPS if o != "outer"]
    # mixed [vecP2, P1] and P2 on a triangle in R^2
    flat = mk("flat-mixed", "triangle", 2, [["mixed", [["vecP", 2, 2], P1]], P2], (1, 2), [(1, 0)])
    # [RT3-like (contravariant Piola, reference size 2 / physical size 3), P1] on an immersed triangle
    imm = mk("immersed-rt", "triangle", 3, [["mixed", [["RT", 3], P1]], P2], (1, 2), [(1, 0)], ascoded="fails")
    # symmetric 2x2 tensor element (equal sub-elements) and a nested mixed element
    symn = mk("sym-nested", "triangle", 2, [["sym", [P2, P2, P2]], ["mixed", [["mixed", [["vecP", 2, 2], P1]], P3]]], (1, 2), [(2, 0)], ops=no_outer)
    # symmetric element whose sub-elements have different degrees
    symh = mk("sym-hetero", "triangle", 2, [["sym", [P1, P3, P2]], P1], (1, 2), [(1, 0)], ops=("indexed", "pow", "grad", "prod", "sum", "list"), ascoded="fails")
    # the degree rules against polynomial arithmetic (CQ's range: low degrees, depth 2)
    poly = mk("flat-poly", "triangle", 2, [["mixed", [["vecP", 1, 2], P2]]], (1,), [(1, 0)], poly=True, polymax=5, idx=(10,), ops=small)
    # symmetric elements whose sub-elements are VECTOR valued and of different degrees: physical shape
    # (2, 2, 2), component (i, j, c) = component c of sub-element symmetry[(i, j)]; the reference value
    # is the concatenation of the sub-elements' (size 2 each), so a sub-element INDEX and an offset into
    # the reference value are different things
    V1, V2, V3 = ["vecP", 1, 2], ["vecP", 2, 2], ["vecP", 3, 2]
    symv = mk("sym-vector-subs", "triangle", 2, [["sym", [V1, V3, V2]], P1], (1,), [(2, 0)], coords=(), idx=(10,), ops=("indexed", "pow", "grad", "prod", "sum"), ascoded="fails")
    # FORM OPERATIONS on every finished scalar integrand: derivative(t*dx, tuple of coefficients) -- the
    # direction is an Argument on the mixed element that derivative() builds from the coefficients'
    # elements (different degrees, scalar next to vector valued, both orders) -- and the shape derivative
    # derivative(t*dx, x, V) with V in a vector space of degree 3 (the coordinate element has degree 1)
    dq = mk("derivatives", "triangle", 2, [P1, P3, V2, V3], (1, 2, 3), [(1, 0)], idx=(10,), ops=("indexed", "pow", "grad", "prod", "gderiv", "cderiv"), derivs=[(1, 2), (2,), (3, 2)], dirs=(4,))
    # (quick: scalar coefficients P1, P3 in both orders)
    dquick = mk("derivatives", "triangle", 2, [P1, P3, V3], (1, 2), [(1, 0)], idx=(10,), ops=("indexed", "pow", "grad", "prod", "gderiv", "cderiv"), derivs=[(1, 2), (2, 1)], dirs=(3,))
    if tier == "quick":
        # (few, small TLC runs: on the shared machine a JVM start costs seconds)
        return [
            imm,
            symv,
            dquick,
            # symmetric element with different sub-element degrees + nested mixed element, low degrees:
            # also validates the degree rules by polynomial arithmetic (CQ's range)
            mk("sym-nested-poly", "triangle", 2, [["sym", [P1, P2, P1]], ["mixed", [["mixed", [["vecP", 1, 2], P1]], P2]]], (1, 2), [(1, 0), (2, 1)], coords=(), idx=(10,), ops=("indexed", "pow", "grad", "prod", "sum", "list", "inner"), poly=True, polymax=5, ascoded="fails"),
        ]
    return [
        dict(flat, depth=3),
        dict(imm, depth=3),
        dict(symn, depth=3, ops=list(small) + ["transposed"]),
        symh,
        dict(flat, name="flat-mixed-poly", poly=True),
        mk("flat-poly-sym", "triangle", 2, [["sym", [P1, P2, P1]], ["vecP", 1, 2]], (1, 2), [(2, 0)], coords=("x", "X"), poly=True, ascoded="fails", ops=no_outer),
        # covariant Piola (N1curl-like) next to a nested mixed element on the immersed triangle, trial and test
        mk("immersed-n1-nested", "triangle", 3, [["mixed", [P1, ["N1", 2], ["mixed", [["vecP", 1, 2], P1]]]]], (1,), [(1, 0), (1, 1)], coords=("x", "X"), ops=small + ("dot",), ascoded="fails"),
        # interval in R and in R^2, tetrahedron
        mk("interval", "interval", 1, [["mixed", [["RT", 2], P1, ["vecP", 3, 2]]], P2], (1, 2), [(1, 0)], coords=("x", "X", "const"), ops=ALL_OPS + ("variable",)),
        mk("interval-immersed", "interval", 2, [["mixed", [["RT", 3], P1]], ["mixed", [P2, ["N1", 1]]]], (1, 2), [(2, 0)], ascoded="fails"),
        # symmetric elements with vector valued sub-elements, as coefficient and as argument, with a
        # permuted symmetry map next to the usual one
        dict(symv, elems=[["sym", [V1, V3, V2]], ["sym", [V2, V1, V3], [2, 2], [2, 0, 0, 1]]], coef=[1, 2], args=[[1, 0]], ops=list(small) + ["dot"]),
        # ... with Piola mapped sub-elements on the immersed triangle (physical shape (2, 2, 3), reference sizes 2)
        mk("sym-piola-subs-immersed", "triangle", 3, [["sym", [["RT", 1], ["RT", 3], ["N1", 2]]], P1], (1,), [(2, 0)], coords=(), idx=(10,), ops=("indexed", "pow", "grad", "prod", "sum", "list"), ascoded="fails"),
        # a symmetric element INSIDE a mixed element (4 physical / 3 reference components on a flat mesh) and
        # mixed elements inside a symmetric element; a block of rank 1 without any symmetry
        mk("sym-in-mixed-in-sym", "triangle", 2, [["mixed", [["sym", [P2, P3, P2]], P1]], ["sym", [["mixed", [P1, P2]], ["mixed", [P3, P1]], ["mixed", [P2, P2]]]], ["sym", [V2, V1], [2], [0, 1]]], (1, 2, 3), [(1, 0)], coords=(), idx=(10,), ops=("indexed", "pow", "grad", "prod", "sum", "list"), ascoded="fails"),
        mk("tetrahedron", "tetrahedron", 3, [["mixed", [["RT", 2], P1, ["N1", 3]]], ["sym", [P2, P2, P2]]], (1, 2), [(1, 0)], ops=small + ("ctensor", "dot")),
        # form operations (see dq): with sums (the maximum over the terms of a sum masks an underestimated term),
        # a Constant and labelled sub-expressions (ufl.variable) in the integrands
        dict(dq, ops=["indexed", "pow", "grad", "prod", "sum", "variable", "gderiv", "cderiv"], coords=["x", "const"]),
        # tuples with Piola mapped and mixed members on the immersed triangle (the built element then has a
        # MixedPullback; physical sizes 3, reference sizes 2),
        mk("derivatives-immersed", "triangle", 3, [["RT", 3], P1, ["mixed", [["N1", 3], P2]]], (1, 2, 3), [(2, 0)], idx=(10,), ops=("indexed", "pow", "grad", "prod", "sum", "gderiv"), derivs=[(2, 1), (1, 3), (3, 2, 1)], ascoded="fails"),
        # with symmetric and mixed members; shape derivatives of integrands with symmetric / mixed coefficients,
        mk("derivatives-sym", "triangle", 2, [["sym", [P1, P3, P2]], P1, ["mixed", [V2, P3]], V3], (1, 2, 3), [(2, 0)], idx=(10,), ops=("indexed", "pow", "grad", "prod", "sum", "gderiv", "cderiv"), derivs=[(2, 1), (1, 3), (3, 2)], dirs=(4,), ascoded="fails"),
        # on an interval (directions of degree 3 and 2; the model's degree of a shape derivative is only a bound there)
        mk("derivatives-interval", "interval", 1, [P1, P3, ["vecP", 3, 1], ["vecP", 2, 1]], (1, 2), [(1, 0)], coords=("x", "X"), idx=(10,), ops=("indexed", "pow", "grad", "prod", "sum", "gderiv", "cderiv"), derivs=[(1, 2), (2, 1)], dirs=(3, 4)),
        # and on a tetrahedron with a Piola mapped coefficient in the shape derivative
        mk("derivatives-tetrahedron", "tetrahedron", 3, [P1, ["RT", 2], ["vecP", 3, 3]], (1, 2), [(1, 0)], idx=(10,), ops=("indexed", "pow", "grad", "prod", "gderiv", "cderiv"), derivs=[(1, 2)], dirs=(3,)),
    ]


def tla_elem(s):
    k = s[0]
    if k == "P":
        return f"P({s[1]})"
    if k == "vecP":
        return f"VecP({s[1]}, {s[2]})"
    if k in ("RT", "N1"):
        return f"RT({s[1]})"
    if k == "mixed":
        return "Mixed(<<" + ", ".join(tla_elem(x) for x in s[1]) + ">>)"
    if k == "sym":
        subs, bshape, smap = sym_parts(s)
        return "SymG(<<" + ", ".join(map(str, bshape)) + ">>, <<" + ", ".join(str(m + 1) for m in smap) + ">>, <<" + ", ".join(tla_elem(x) for x in subs) + ">>)"
    raise MachineryError(f"element spec {s}")


def sym_parts(s):
    """["sym", subs] (the symmetric 2x2 tensor of three sub-elements) or ["sym", subs, block shape,
    row-major list of 0-based sub-element indices] -> (subs, block shape, map)."""
    if len(s) == 2:
        return s[1], [2, 2], [0, 1, 1, 2]
    return s[1], s[2], s[3]


def flat_of(comp, shape):
    f = 0
    for c, n in zip(comp, shape):
        f = f * n + c
    return f


def phys_shape(s, gdim):
    """Physical value shape of an element spec (compared with ufl_shape of the real terminals)."""
    k = s[0]
    if k == "P":
        return []
    if k == "vecP":
        return [s[2]]
    if k in ("RT", "N1"):
        return [gdim]
    if k == "mixed":
        return [len(comp_degrees(s, gdim))]
    if k == "sym":
        subs, bshape, _ = sym_parts(s)
        return list(bshape) + phys_shape(subs[0], gdim)
    raise MachineryError(f"element spec {s}")


MC = """---- MODULE MC_Degree ----
EXTENDS Degree
c_Elems == <<{elems}>>
c_CoefElems == {coef}
c_ArgSlots == {args}
c_Seeds == {seeds}
c_DerivTuples == <<{derivs}>>
c_DirSlots == {dirs}
====
"""
CFG = """CONSTANTS
GDim = {gdim}
TDim = {tdim}
Elems <- c_Elems
CoefElems <- c_CoefElems
ArgSlots <- c_ArgSlots
Seeds <- c_Seeds
DerivTuples <- c_DerivTuples
DirSlots <- c_DirSlots
Coords = {coords}
Lits = {lits}
Pows = {pows}
Ops = {ops}
MaxDepth = {depth}
RightDepth = {right}
IdxNames = {idx}
IndexedRule = "{rule}"
WithPoly = {poly}
PolyMax = {polymax}
AsCodedHolds = {holds}
DumpOn = {dump}
SPECIFICATION Spec
{invs}
"""
SEEDS_ALL = "{<< >>}"
SEEDS_FILE = 'LET s == JsonDeserialize("seeds.json") IN {<<s[i]>> : i \\in DOMAIN s}'
JAVA = "-DTLA-Library=" + os.path.join(os.path.dirname(os.path.dirname(os.path.dirname(os.path.abspath(__file__)))), "spec") + " -Xmx4g -XX:ParallelGCThreads=2"
JAVA_SHORT = JAVA + " -XX:TieredStopAtLevel=1"  # runs of a few seconds: skip the optimising JIT


def _set(xs, q=False):
    return "{" + ", ".join(('"%s"' % x) if q else str(x) for x in xs) + "}"


class Job:
    """One TLC run of spec/Degree.tla."""

    def __init__(self, key, cfg, rule="physical", dump=True, invs=("TypeOK",), seeds=None, workers=3):
        """dump=True: invariant Checked (EstSafe under `rule`, AsCodedSafe where expected,
        RulesAgreeOnPlainPools, PolyRules -- one evaluation per term -- and the JSON line)."""
        self.key, self.cfg, self.rule, self.dump, self.invs, self.seeds, self.workers = key, cfg, rule, dump, tuple(invs), seeds, workers
        self.res = None

    def run(self):
        c = self.cfg
        given = self.seeds is not None
        mc = MC.format(elems=", ".join(tla_elem(e) for e in c["elems"]), coef=_set(c["coef"]), args="{" + ", ".join(f"<<{a}, {b}>>" for a, b in c["args"]) + "}", seeds=SEEDS_FILE if given else SEEDS_ALL, derivs=", ".join("<<" + ", ".join(map(str, w)) + ">>" for w in c.get("derivs", ())), dirs=_set(c.get("dirs", ())))
        invs = list(self.invs)
        poly = c["poly"] and not given and self.dump
        if self.dump:
            invs.append("Checked")
        cfg = CFG.format(gdim=c["gdim"], tdim=TDIM[c["cell"]], coords=_set(c["coords"], True), lits=_set(c["lits"]), pows=_set(c["pows"]), ops=_set(c["ops"], True), depth=0 if given else c["depth"], right=c["right"], idx=_set(c["idx"]), rule=self.rule, poly="TRUE" if poly else "FALSE", polymax=c["polymax"], holds="TRUE" if (self.dump and not given and c["ascoded"] == "holds") else "FALSE", dump="TRUE" if self.dump else "FALSE", invs="\n".join("INVARIANT " + i for i in invs))
        kw = dict(mc_text=mc, mc_name="MC_Degree", timeout=1500, workers=self.workers, env={"JAVA_TOOL_OPTIONS": JAVA if (c["depth"] >= 3 and not given) else JAVA_SHORT})
        if given:
            kw["extra_files"] = {"seeds.json": json.dumps([rec_of(t) for t in self.seeds])}
        res = tlc.run("Degree", cfg, **kw)
        if res.outcome == "error" and res.distinct == 0:
            res = tlc.run("Degree", cfg, **kw)  # a JVM that could not start under memory pressure: one retry
        res.cfg_name = f"MC_Degree[{c['name']},depth={0 if given else c['depth']},rule={self.rule}{',given terms' if given else ''}].cfg"
        self.res = res
        return self


def run_jobs(ctx, jobs, par=2):
    from concurrent.futures import ThreadPoolExecutor

    with ThreadPoolExecutor(max_workers=par) as ex:
        list(ex.map(lambda j: j.run(), jobs))
    for j in jobs:
        ctx.add_tlc(j.res)
    return {j.key: j for j in jobs}


def lines_of(job):
    out = []
    for s in job.res.prints:
        try:
            out.append(json.loads(json.loads(s)))
        except Exception as e:  # noqa: BLE001
            raise MachineryError(f"Degree[{job.cfg['name']}]: undecodable dump line {s[:120]!r}: {e}")
    if not out:
        raise MachineryError(f"Degree[{job.cfg['name']}]: no dump lines")
    return out


# --------------------------------------------------------------------------------------------
# terms: positional [op, n, mi, [operands]]
# --------------------------------------------------------------------------------------------


def rec_of(t):
    return {"op": t[0], "n": t[1], "mi": t[2], "args": [rec_of(a) for a in t[3]]}


def pos_of(r):
    """A term record as printed in a TLC state (tlc.parse_state) -> positional."""
    return [r["op"], r["n"], list(r["mi"]), [pos_of(a) for a in r["args"]]]


def key_of(t):
    return json.dumps(t, separators=(",", ":"))


def canon(t):
    """Operand order of commutative nodes is not part of a term (ufl sorts them)."""
    args = [canon(a) for a in t[3]]
    if t[0] in ("sum", "prod"):
        args.sort(key=key_of)
    return [t[0], t[1], list(t[2]), args]


def walk(t):
    yield t
    for a in t[3]:
        yield from walk(a)


def walk_spec(specs):
    for s in specs:
        yield s
        if s[0] in ("mixed", "sym"):
            yield from walk_spec(s[1])


def depth_of(t):
    if not t[3]:
        return 0
    d = max(depth_of(a) for a in t[3])
    return d if t[0] in ("isum", "gderiv", "cderiv") else d + 1


def has_coord(t):
    return any(n[0] in ("x", "X") for n in walk(t))


def fmt(t, cfg=None):
    """Readable rendering of a term."""
    op, n, mi, a = t
    ix = lambda k: str(k) if k < 10 else "ijklmnpq"[k - 10]  # noqa: E731
    if op == "coef":
        return f"f{n}"
    if op == "arg":
        return ("v" if mi[0] == 0 else "u") + str(n)
    if op in ("x", "X"):
        return op
    if op == "lit":
        return str(n)
    if op == "zero":
        return "0"
    if op in ("sum", "prod"):
        return "(" + (" + " if op == "sum" else "*").join(fmt(x) for x in a) + ")"
    if op == "pow":
        return f"{fmt(a[0])}**{n}"
    if op == "indexed":
        return f"{fmt(a[0])}[{','.join(ix(k) for k in mi)}]"
    if op == "ctensor":
        return f"as_tensor({fmt(a[0])}, ({','.join(ix(k) for k in mi)},))"
    if op == "isum":
        return f"sum_{ix(mi[0])} {fmt(a[0])}"
    if op == "list":
        return "[" + ", ".join(fmt(x) for x in a) + "]"
    if op == "ident":
        return "I"
    if op == "const":
        return "c"
    if op == "gderiv":
        W = cfg["derivs"][mi[0] - 1] if cfg else None
        return f"derivative({fmt(a[0])}*dx, {'(' + ', '.join('f%d' % n for n in W) + ')' if W else 'tuple #%d' % mi[0]})"
    if op == "cderiv":
        return f"derivative({fmt(a[0])}*dx, x, V on element {mi[0]})"
    return f"{op}({', '.join(fmt(x) for x in a)})"


# --------------------------------------------------------------------------------------------
# exact polynomial ring: {exponent tuple: int | Fraction}, zero coefficients never stored
# --------------------------------------------------------------------------------------------


def p_add(a, b):
    if not a:
        return b
    if not b:
        return a
    r = dict(a)
    for m, c in b.items():
        v = r.get(m, 0) + c
        if v:
            r[m] = v
        elif m in r:
            del r[m]
    return r


def p_mul(a, b):
    r = {}
    for ma, ca in a.items():
        for mb, cb in b.items():
            m = tuple(map(sum, zip(ma, mb)))
            r[m] = r.get(m, 0) + ca * cb
    return {m: c for m, c in r.items() if c}


def p_scale(a, s):
    return {m: c * s for m, c in a.items()} if s else {}


def p_pow(a, n, nv):
    r = {(0,) * nv: 1}
    for _ in range(n):
        r = p_mul(r, a)
    return r


def p_diff(a, k):
    r = {}
    for m, c in a.items():
        if m[k]:
            m2 = m[:k] + (m[k] - 1,) + m[k + 1 :]
            r[m2] = r.get(m2, 0) + c * m[k]
    return r


def p_deg(a):
    """Total degree; -1 for the zero polynomial."""
    return max((sum(m) for m in a), default=-1)


def _primes():
    sieve = bytearray([1]) * 200000
    for i in range(2, 200000):
        if sieve[i]:
            yield i
            for j in range(i * i, 200000, i):
                sieve[j] = 0
    raise MachineryError("out of primes")


def _monomials(nv, d):
    return [m for m in itertools.product(range(d + 1), repeat=nv) if sum(m) <= d]


# concrete affine cells x = x0 + J X (J: gdim x tdim, full rank), K = (J^T J)^-1 J^T
GEOMETRY = {
    ("interval", 1): ([[2]], [1]),
    ("interval", 2): ([[1], [2]], [1, 3]),
    ("triangle", 2): ([[2, 1], [1, 1]], [1, 2]),
    ("triangle", 3): ([[1, 0], [0, 1], [1, 1]], [1, 2, 3]),
    ("tetrahedron", 3): ([[1, 1, 0], [0, 1, 1], [0, 0, 1]], [1, 2, 3]),
}


def _inv(M):
    n = len(M)
    A = [[Fraction(x) for x in row] + [Fraction(int(i == j)) for j in range(n)] for i, row in enumerate(M)]
    for c in range(n):
        p = next(r for r in range(c, n) if A[r][c] != 0)
        A[c], A[p] = A[p], A[c]
        A[c] = [x / A[c][c] for x in A[c]]
        for r in range(n):
            if r != c and A[r][c] != 0:
                A[r] = [x - A[r][c] * y for x, y in zip(A[r], A[c])]
    return [row[n:] for row in A]


def _num(q):
    return int(q) if q.denominator == 1 else q


def pseudo_inverse(J):
    g, t = len(J), len(J[0])
    JtJ = [[sum(J[k][a] * J[k][b] for k in range(g)) for b in range(t)] for a in range(t)]
    G = _inv(JtJ)
    return [[_num(sum(G[a][b] * J[i][b] for b in range(t))) for i in range(g)] for a in range(t)]  # t x g


def comp_degrees(s, gdim):
    """TRUE degree of every flat PHYSICAL component of an element, from first principles."""
    k = s[0]
    if k == "P":
        return [s[1]]
    if k == "vecP":
        return [s[1]] * s[2]
    if k in ("RT", "N1"):
        return [s[1]] * gdim  # a Piola map on an affine cell is a constant matrix
    if k == "mixed":
        return [d for x in s[1] for d in comp_degrees(x, gdim)]  # physical components are concatenated
    if k == "sym":
        subs, _, smap = sym_parts(s)  # block b IS sub-element smap[b]
        return [d for m in smap for d in comp_degrees(subs[m], gdim)]
    raise MachineryError(f"element spec {s}")


# --------------------------------------------------------------------------------------------
# real ufl objects of a configuration
# --------------------------------------------------------------------------------------------


class Unsupported(Exception):
    pass


class Env:
    def __init__(self, cfg):
        import ufl
        from ufl.classes import CellCoordinate, Index
        from ufl.pullback import contravariant_piola, covariant_piola
        from ufl.sobolevspace import HCurl, HDiv

        from ..elements import FiniteElement, LagrangeElement, MixedElement, SymmetricElement

        self.cfg = cfg
        self.ufl = ufl
        cell = getattr(ufl, cfg["cell"])
        self.cell = cell
        self.gdim, self.tdim = cfg["gdim"], TDIM[cfg["cell"]]
        self.mesh = ufl.Mesh(LagrangeElement(cell, 1, (self.gdim,)))
        if self.mesh.ufl_coordinate_element().embedded_superdegree != 1:
            raise MachineryError("coordinate element is not affine")

        def make(s):
            k = s[0]
            if k == "P":
                return LagrangeElement(cell, s[1])
            if k == "vecP":
                return LagrangeElement(cell, s[1], (s[2],))
            if k == "RT":
                return FiniteElement("RT", cell, s[1], (self.tdim,), contravariant_piola, HDiv)
            if k == "N1":
                return FiniteElement("N1curl", cell, s[1], (self.tdim,), covariant_piola, HCurl)
            if k == "mixed":
                return MixedElement([make(x) for x in s[1]])
            if k == "sym":
                subs, bshape, smap = sym_parts(s)
                blocks = itertools.product(*[range(n) for n in bshape])
                return SymmetricElement(dict(zip(blocks, smap)), [make(x) for x in subs])
            raise MachineryError(f"element spec {s}")

        self.elems = [make(s) for s in cfg["elems"]]
        self.spaces = [ufl.FunctionSpace(self.mesh, e) for e in self.elems]
        self.coef = {n: ufl.Coefficient(self.spaces[n - 1]) for n in cfg["coef"]}
        self.arg = {(n, k): ufl.Argument(self.spaces[n - 1], k) for n, k in cfg["args"]}
        self.coef_of = {f: n for n, f in self.coef.items()}
        self.arg_of = {a: k for k, a in self.arg.items()}
        self.x = ufl.SpatialCoordinate(self.mesh)
        self.X = CellCoordinate(self.mesh)
        self.const = ufl.Constant(self.mesh)
        self.idx = {k: Index() for k in range(10, 18)}
        self.name_of = {i.count(): k for k, i in self.idx.items()}
        self._built = {}
        self._poly = {}
        # geometry and terminal polynomials (in the reference coordinates X of one affine cell)
        J, x0 = GEOMETRY[(cfg["cell"], self.gdim)]
        self.J, self.K = J, pseudo_inverse(J)
        nv = self.tdim
        self.nv = nv
        var = [{tuple(int(i == k) for i in range(nv)): 1} for k in range(nv)]
        self.Xp = var
        self.xp = []
        for i in range(self.gdim):
            p = {(0,) * nv: x0[i]}
            for k in range(nv):
                p = p_add(p, p_scale(var[k], J[i][k]))
            self.xp.append(p)
        self._primes = _primes()
        self.tpoly, self.tref, self.tdeg = {}, {}, {}
        for obj, n in list(self.coef_of.items()) + [(a, k[0]) for a, k in self.arg_of.items()]:
            self._register(obj, cfg["elems"][n - 1])

    def _register(self, obj, spec):
        """A generic member of the space of the form argument `obj` (element description `spec`)."""
        cfg = self.cfg
        ref, polys = self._member(spec, self._primes)
        degs = comp_degrees(spec, self.gdim)
        shape = obj.ufl_shape
        size = 1
        for s in shape:
            size *= s
        if len(polys) != size or len(degs) != size or list(shape) != phys_shape(spec, self.gdim):
            raise MachineryError(f"{cfg['name']}: element {spec} has physical shape {shape} on the real space but shape {phys_shape(spec, self.gdim)} / {len(degs)} components in the model")
        if len(ref) != obj.ufl_element().reference_value_size:
            raise MachineryError(f"{cfg['name']}: element {spec} has reference value size {obj.ufl_element().reference_value_size} on the real space but {len(ref)} in the model")
        if [p_deg(p) for p in polys] != degs:
            raise MachineryError(f"{cfg['name']}: the member of {spec} is not generic: degrees {[p_deg(p) for p in polys]} expected {degs}")
        self.tpoly[obj], self.tref[obj], self.tdeg[obj] = polys, ref, degs

    def derived_spec(self, k):
        """(element number, element description) of the direction of derivative(form, tuple number k)."""
        W = self.cfg["derivs"][k - 1]
        if len(W) == 1:
            return W[0], self.cfg["elems"][W[0] - 1]
        return len(self.cfg["elems"]) + k, ["mixed", [self.cfg["elems"][n - 1] for n in W]]

    def bind_argument(self, a, n, spec):
        """An Argument created on the way (by derivative() or as the direction of a shape derivative)."""
        k = self.arg_of.get(a)
        if k is None:
            self.arg_of[a] = (n, a.number())
            self._register(a, spec)
        elif k != (n, a.number()):
            raise MachineryError(f"{self.cfg['name']}: Argument {a!r} is bound to {k}, now met as {(n, a.number())}")

    def direction(self, n, number):
        V = self.ufl.Argument(self.spaces[n - 1], number)
        self.bind_argument(V, n, self.cfg["elems"][n - 1])
        return V

    def _full(self, d, primes):
        return {m: next(primes) for m in _monomials(self.nv, d)}

    def _member(self, s, primes):
        """(flat reference components, flat physical components) of a member of the space: generic
        reference components and their push forward."""
        k = s[0]
        if k == "P":
            r = [self._full(s[1], primes)]
            return r, r
        if k == "vecP":
            r = [self._full(s[1], primes) for _ in range(s[2])]
            return r, r
        if k in ("RT", "N1"):
            ref = [self._full(s[1], primes) for _ in range(self.tdim)]
            out = []
            for i in range(self.gdim):
                p = {}
                for a in range(self.tdim):
                    # contravariant: J ref / detJ (the constant 1/detJ is dropped); covariant: K^T ref
                    p = p_add(p, p_scale(ref[a], self.J[i][a] if k == "RT" else self.K[a][i]))
                out.append(p)
            return ref, out
        if k == "mixed":
            q = [self._member(x, primes) for x in s[1]]
            return [p for r, _ in q for p in r], [p for _, f in q for p in f]
        if k == "sym":
            subs, _, smap = sym_parts(s)
            q = [self._member(x, primes) for x in subs]  # ONE member per sub-element, shared by its blocks
            return [p for r, _ in q for p in r], [p for m in smap for p in q[m][1]]
        raise MachineryError(f"element spec {s}")

    # ---- term -> real expression through the public API ----
    def build(self, t):
        key = key_of(t)
        r = self._built.get(key)
        if r is None:
            r = self._built[key] = self._build(t)
        return r

    def _build(self, t):
        ufl = self.ufl
        from ufl.classes import IntValue

        op, n, mi, a = t
        if op == "coef":
            return self.coef[n]
        if op == "arg":
            return self.arg[(n, mi[0])]
        if op == "x":
            return self.x
        if op == "X":
            return self.X
        if op == "const":
            return self.const
        if op == "lit":
            return IntValue(n)
        if op == "isum":
            # created implicitly by the product of two scalars sharing a free index
            inner = t
            while inner[0] == "isum":
                inner = inner[3][0]
            if inner[0] != "prod":
                raise MachineryError("explicit index sum in a built term")
            return self.build(inner)
        o = [self.build(x) for x in a]
        if op == "sum":
            return o[0] + o[1]
        if op == "prod":
            return o[0] * o[1]
        if op == "pow":
            return o[0] ** n
        if op == "indexed":
            return o[0][tuple(k if k < 10 else self.idx[k] for k in mi)]
        if op == "ctensor":
            return ufl.as_tensor(o[0], tuple(self.idx[k] for k in mi))
        if op == "list":
            return ufl.as_tensor(o)
        if op == "grad":
            return ufl.grad(o[0])
        if op == "inner":
            return ufl.inner(o[0], o[1])
        if op == "dot":
            return ufl.dot(o[0], o[1])
        if op == "outer":
            return ufl.outer(o[0], o[1])
        if op == "transposed":
            return ufl.transpose(o[0])
        if op == "variable":
            return ufl.variable(o[0])
        raise MachineryError(f"no builder for {op}")

    # ---- real expression -> term (one node per real node) ----
    def readback(self, e):
        from ufl.classes import Argument, CellCoordinate, Coefficient, ComponentTensor, Dot, FixedIndex, Grad, Indexed, IndexSum, Inner, IntValue, ListTensor, Outer, Power, Product, SpatialCoordinate, Sum, Transposed, Zero

        from ufl.classes import Conj, CoordinateDerivative, Identity, Index, MultiIndex, Variable
        from ufl.corealg.traversal import unique_pre_traversal

        # indices made by the builder keep their names; indices made by ufl itself get unused names
        counts = []
        for node in unique_pre_traversal(e):
            if isinstance(node, MultiIndex):
                counts += [i.count() for i in node if isinstance(i, Index) and i.count() not in counts]
        names = {c: self.name_of[c] for c in counts if c in self.name_of}
        spare = [k for k in range(10, 18) if k not in names.values()]
        for c in counts:
            if c not in names:
                if not spare:
                    raise Unsupported("more than 8 index names")
                names[c] = spare.pop(0)

        def nm(i):
            return names[i.count()]

        def rb(e):
            if isinstance(e, Coefficient):
                return ["coef", self.coef_of[e], [], []]
            if isinstance(e, Argument):
                k = self.arg_of[e]
                return ["arg", k[0], [k[1]], []]
            if isinstance(e, SpatialCoordinate):
                return ["x", 0, [], []]
            if isinstance(e, CellCoordinate):
                return ["X", 0, [], []]
            if e is self.const:
                return ["const", 0, [], []]
            if isinstance(e, Variable):
                return ["variable", 0, [], [rb(e.ufl_operands[0])]]
            if isinstance(e, IntValue):
                if e.value() < 0:
                    raise Unsupported("negative literal")
                return ["lit", int(e.value()), [], []]
            if isinstance(e, Zero):
                if e.ufl_free_indices:
                    raise Unsupported("Zero with free indices")
                return ["zero", 0, list(e.ufl_shape), []]
            if isinstance(e, Identity):
                return ["ident", int(e.ufl_shape[0]), [], []]
            o = e.ufl_operands
            if isinstance(e, CoordinateDerivative):
                # d/dx integrand in the direction V: operands (integrand, ExprList(x), ExprList(V), ExprMapping())
                w, v, cd = o[1].ufl_operands, o[2].ufl_operands, o[3].ufl_operands
                if len(w) != 1 or not isinstance(w[0], SpatialCoordinate) or len(v) != 1 or not isinstance(v[0], Argument) or cd:
                    raise Unsupported("CoordinateDerivative operands")
                k = self.arg_of[v[0]]
                return ["cderiv", 0, [k[0], k[1]], [rb(o[0])]]
            if isinstance(e, Sum):
                return ["sum", 0, [], [rb(o[0]), rb(o[1])]]
            if isinstance(e, Product):
                return ["prod", 0, [], [rb(o[0]), rb(o[1])]]
            if isinstance(e, Power):
                if not isinstance(o[1], IntValue) or o[1].value() < 0:
                    raise Unsupported("exponent")
                return ["pow", int(o[1].value()), [], [rb(o[0])]]
            if isinstance(e, Indexed):
                return ["indexed", 0, [int(i) if isinstance(i, FixedIndex) else nm(i) for i in o[1]], [rb(o[0])]]
            if isinstance(e, ComponentTensor):
                return ["ctensor", 0, [nm(i) for i in o[1]], [rb(o[0])]]
            if isinstance(e, IndexSum):
                return ["isum", 0, [nm(o[1][0]), int(e.dimension())], [rb(o[0])]]
            if isinstance(e, ListTensor):
                return ["list", 0, [], [rb(x) for x in o]]
            for cls, name in ((Grad, "grad"), (Inner, "inner"), (Dot, "dot"), (Outer, "outer"), (Transposed, "transposed"), (Conj, "conj")):
                if isinstance(e, cls):
                    return [name, 0, [], [rb(x) for x in o]]
            raise Unsupported(type(e).__name__)

        return rb(e)

    # ---- exact evaluation of the REAL expression DAG ----
    def poly(self, e, comp=(), env=()):
        """Polynomial (in the reference coordinates) of scalar component `comp` of `e` under the
        free-index values env (sorted tuple of (index count, value))."""
        fi = e.ufl_free_indices
        d = dict(env)
        key = (e, comp, tuple((i, d[i]) for i in fi))
        r = self._poly.get(key)
        if r is None:
            r = self._poly[key] = self._eval(e, comp, d)
        return r

    def _eval(self, e, comp, env):
        from ufl.classes import EQ, GE, GT, LE, LT, NE, Abs, Argument, CellCoordinate, Coefficient, ComponentTensor, Conditional, Conj, Division, Dot, FixedIndex, Grad, Identity, Imag, Indexed, IndexSum, Inner, IntValue, ListTensor, Outer, Power, Product, QuadratureWeight, Real, ReferenceGrad, ReferenceValue, ScalarValue, SpatialCoordinate, Sum, Transposed, Variable, Zero

        P = lambda x, c=(): self.poly(x, c, tuple(sorted(env.items())))  # noqa: E731
        nv = self.nv
        if isinstance(e, (Coefficient, Argument)):
            flat = 0
            for c, s in zip(comp, e.ufl_shape):
                flat = flat * s + c
            return self.tpoly[e][flat]
        if isinstance(e, SpatialCoordinate):
            return self.xp[comp[0]]
        if isinstance(e, CellCoordinate):
            return self.Xp[comp[0]]
        if e is self.const:
            return {(0,) * nv: 7919}
        if isinstance(e, IntValue):
            return {(0,) * nv: int(e.value())} if e.value() else {}
        if isinstance(e, Zero):
            return {}
        if isinstance(e, Identity):
            return {(0,) * nv: 1} if comp[0] == comp[1] else {}
        if isinstance(e, ScalarValue):
            # (a float literal made by the preprocessing, e.g. a reference cell volume)
            q = Fraction(e.value()).limit_denominator(10**6)
            if float(q) != float(e.value()):
                raise Unsupported("float literal")
            return {(0,) * nv: _num(q)} if q else {}
        if isinstance(e, QuadratureWeight):
            return {(0,) * nv: 1}  # a number per quadrature point: not a function of the coordinates
        o = e.ufl_operands
        # --- the reference frame (integrands after pull back, integral scaling and geometry lowering)
        if isinstance(e, ReferenceValue):
            flat = 0
            for c, s in zip(comp, e.ufl_shape):
                flat = flat * s + c
            return self.tref[o[0]][flat]
        if isinstance(e, ReferenceGrad):
            return p_diff(P(o[0], comp[:-1]), comp[-1])  # d / d X_k
        if isinstance(e, (Division, Abs, Conditional)):
            # geometry of an affine cell: the denominator / the argument / the condition are numbers

            def number(x):
                p = P(x)
                if p_deg(p) > 0:
                    raise Unsupported(f"{type(e).__name__} of a non-constant")
                return Fraction(p.get((0,) * nv, 0))

            if isinstance(e, Division):
                d = number(o[1])
                if not d:
                    raise Unsupported("division by zero")
                return {m: _num(Fraction(c) / d) for m, c in P(o[0]).items()}
            if isinstance(e, Abs):
                d = abs(number(o[0]))
                return {(0,) * nv: _num(d)} if d else {}
            cond = o[0]
            a, b = (number(x) for x in cond.ufl_operands)
            for cls, f in ((EQ, a == b), (NE, a != b), (LT, a < b), (LE, a <= b), (GT, a > b), (GE, a >= b)):
                if isinstance(cond, cls):
                    return P(o[1] if f else o[2], comp)
            raise Unsupported(type(cond).__name__)
        if isinstance(e, Sum):
            return p_add(P(o[0], comp), P(o[1], comp))
        if isinstance(e, Product):
            return p_mul(P(o[0]), P(o[1]))
        if isinstance(e, Power):
            if not isinstance(o[1], IntValue) or o[1].value() < 0:
                raise Unsupported("not a non-negative integer literal exponent")
            return p_pow(P(o[0]), int(o[1].value()), nv)
        if isinstance(e, Indexed):
            return P(o[0], tuple(int(i) if isinstance(i, FixedIndex) else env[i.count()] for i in o[1]))
        if isinstance(e, ComponentTensor):
            env2 = dict(env)
            for i, c in zip(o[1], comp):
                env2[i.count()] = c
            return self.poly(o[0], (), tuple(sorted(env2.items())))
        if isinstance(e, IndexSum):
            i = o[1][0].count()
            r = {}
            for v in range(e.dimension()):
                env2 = dict(env)
                env2[i] = v
                r = p_add(r, self.poly(o[0], comp, tuple(sorted(env2.items()))))
            return r
        if isinstance(e, ListTensor):
            return P(o[comp[0]], comp[1:])
        if isinstance(e, Grad):
            # grad(f)[.., j] = sum_k d f / d X_k  K[k][j]
            f = P(o[0], comp[:-1])
            r = {}
            for k in range(nv):
                r = p_add(r, p_scale(p_diff(f, k), self.K[k][comp[-1]]))
            return r
        if isinstance(e, Inner):
            r = {}
            for c in itertools.product(*[range(s) for s in o[0].ufl_shape]):
                r = p_add(r, p_mul(P(o[0], c), P(o[1], c)))
            return r
        if isinstance(e, Dot):
            ra = len(o[0].ufl_shape)
            ca, cb = comp[: ra - 1], comp[ra - 1 :]
            r = {}
            for k in range(o[1].ufl_shape[0]):
                r = p_add(r, p_mul(P(o[0], ca + (k,)), P(o[1], (k,) + cb)))
            return r
        if isinstance(e, Outer):
            ra = len(o[0].ufl_shape)
            return p_mul(P(o[0], comp[:ra]), P(o[1], comp[ra:]))
        if isinstance(e, Transposed):
            return P(o[0], comp[::-1])
        if isinstance(e, (Conj, Real, Variable)):
            return P(o[0], comp)
        if isinstance(e, Imag):
            return {}
        raise Unsupported(type(e).__name__)

    def true_degree(self, e):
        """Degree of the exact polynomial denoted by e (max over components and free-index values)."""
        dims = dict(zip(e.ufl_free_indices, e.ufl_index_dimensions))
        best = 0
        for vals in itertools.product(*[range(dims[i]) for i in e.ufl_free_indices]):
            env = tuple(zip(e.ufl_free_indices, vals))
            for comp in itertools.product(*[range(s) for s in e.ufl_shape]):
                best = max(best, p_deg(self.poly(e, comp, env)))
        return best


_ENVS = {}


def env_of(cfg):
    k = json.dumps(cfg, sort_keys=True)
    if k not in _ENVS:
        _ENVS[k] = Env(cfg)
    return _ENVS[k]


# --------------------------------------------------------------------------------------------
# one term on the real code
# --------------------------------------------------------------------------------------------


def real_estimate(expr):
    from ufl.algorithms.estimate_degrees import estimate_total_polynomial_degree

    return estimate_total_polynomial_degree(expr)


def form_estimates(e, expr):
    """[(estimated degree attached by compute_form_data, processed integrand)] for expr*dx."""
    from ufl.algorithms import compute_form_data

    fd = compute_form_data(expr * e.ufl.dx(e.mesh))
    return [(itg.metadata()["estimated_polynomial_degree"], itg.integrand()) for itd in fd.integral_data for itg in itd.integrals]


def culprit(e, expr):
    """Deepest node whose own estimate is below its own true degree -> (fingerprint, description)."""
    from ufl.classes import Argument, Coefficient, Indexed
    from ufl.corealg.traversal import unique_post_traversal
    from ufl.pullback import SymmetricPullback

    for node in unique_post_traversal(expr):
        if node._ufl_is_terminal_ and not isinstance(node, (Coefficient, Argument)):
            continue
        if type(node).__name__ == "MultiIndex":
            continue
        try:
            est, true = real_estimate(node), e.true_degree(node)
        except Unsupported:
            continue
        if est < true:
            handler = node._ufl_handler_name_
            what = f"{handler} node `{node}`: estimate {est} < degree {true}"
            if isinstance(node, Indexed) and isinstance(node.ufl_operands[0], (Coefficient, Argument)):
                op = node.ufl_operands[0]
                el = op.ufl_element()
                if isinstance(el.pullback, SymmetricPullback):
                    if any(s.reference_value_size != 1 for s in el.sub_elements):
                        sizes = [s.reference_value_size for s in el.sub_elements]
                        return "C18:underestimate:indexed-symmetric-nonscalar-sub-elements", what + f" (symmetric element whose sub-elements are vector / tensor valued, reference value sizes {sizes}: the block part of the component is a sub-element index, not an offset into the reference value)"
                    return "C18:underestimate:indexed-symmetric-flattened-component", what + " (symmetric element: flattened physical component used as sub-element position)"
                sizes = [(s.reference_value_size, e.ufl.FunctionSpace(e.mesh, s).value_size) for s in el.sub_elements]
                if any(r != p for r, p in sizes):
                    return "C18:underestimate:indexed-mixed-physical-vs-reference-size", what + f" (sub-element (reference, physical) sizes {sizes})"
                return "C18:underestimate:indexed-mixed", what
            if isinstance(node, (Coefficient, Argument)) and type(node.ufl_element()).__name__ == "_MixedElement":
                subs = [s.embedded_superdegree for s in node.ufl_element().sub_elements]
                return f"C18:underestimate:{handler}:mixed-element-built-by-derivative", what + f" (the mixed element derivative() builds for a tuple of coefficients: embedded_superdegree {node.ufl_element().embedded_superdegree}, sub-elements {subs})"
            return f"C18:underestimate:{handler}", what
    return "C18:underestimate:unlocated", "no single node underestimates on its own"


ROOTS = ("gderiv", "cderiv")
ROOT_ROUTE = "compute_form_data(derivative(form, ...))"
SHAPE_KW = dict(do_apply_function_pullbacks=True, do_apply_integral_scaling=True, do_apply_geometry_lowering=True)


def derived_form(e, t):
    """The real form of a form operation term: derivative(base*dx, ...) through the public API, and the
    options compute_form_data needs for it."""
    ufl = e.ufl
    op, _, mi, a = t
    form = e.build(a[0]) * ufl.dx(e.mesh)
    if op == "gderiv":
        W = e.cfg["derivs"][mi[0] - 1]
        fs = tuple(e.coef[n] for n in W)
        dform = ufl.derivative(form, fs if len(fs) > 1 else fs[0])
        new = [x for x in dform.arguments() if x.number() == mi[1]]
        if len(new) != 1:
            raise MachineryError(f"derivative() made arguments {dform.arguments()}, expected one with number {mi[1]}")
        e.bind_argument(new[0], *e.derived_spec(mi[0]))
        return dform, {}
    V = e.direction(mi[0], mi[1])
    return ufl.derivative(form, e.x, V), SHAPE_KW


def examine_root(e, line):
    """A form operation: the estimate is the one compute_form_data attaches (made on the preprocessed
    integrand: algebra lowered, Gateaux derivatives applied, a shape derivative still a
    CoordinateDerivative node -- that DAG is read back for the binding); the truth is the exact degree
    of the integrand compute_form_data finally delivers (for a shape derivative: in the reference frame,
    after pull back, scaling, geometry lowering and apply_coordinate_derivatives)."""
    from ufl.algorithms import compute_form_data
    from ufl.algorithms.compute_form_data import preprocess_form

    t = line[0]
    try:
        dform, kw = derived_form(e, t)
    except ValueError as ex:
        if "Cannot determine geometric dimension" in str(ex):
            return {"skip": "grad of a domain-free expression after simplification"}
        raise
    pre = preprocess_form(dform, False).integrals()
    fd = compute_form_data(dform, **kw)
    final = [itg for itd in fd.integral_data for itg in itd.integrals]
    if not pre or not final:
        if pre or final:
            raise MachineryError(f"{fmt(t)}: preprocess_form has {len(pre)} integrals, compute_form_data {len(final)}")
        return {"skip": "the derivative vanishes identically", "vanished": True}
    if len(pre) != 1 or len(final) != 1:
        raise MachineryError(f"{fmt(t)}: {len(pre)} / {len(final)} integrals for one integrand")
    seen, integrand = pre[0].integrand(), final[0].integrand()
    r = {"real": final[0].metadata()["estimated_polynomial_degree"], "root": True}
    r["seen"] = real_estimate(seen)  # must be the attached one
    try:
        r["rb"] = canon(e.readback(seen))
    except Unsupported as ex:
        r["rb"] = "unsupported:" + str(ex)
    r["true"] = e.true_degree(integrand)
    if t[0] == "gderiv":
        # no pull back: what was estimated and what is delivered denote the same polynomial
        r["true_seen"] = e.true_degree(seen)
    if r["real"] < r["true"]:
        from ufl.classes import CoordinateDerivative

        r["fp"], r["why"] = culprit(e, seen.ufl_operands[0] if isinstance(seen, CoordinateDerivative) else seen)
        if r["fp"].endswith(":unlocated") and isinstance(seen, CoordinateDerivative):
            o = seen.ufl_operands
            r["fp"] = "C18:underestimate:coordinate_derivative"
            r["why"] = f"coordinate_derivative node: estimate {r['seen']} (operands: integrand {real_estimate(o[0])}, coordinates {real_estimate(o[1])}, direction {real_estimate(o[2])}) < degree {r['true']} of the shape derivative integrand on the reference cell"
        r["why"] += f" [estimated integrand: {seen}]"
    return r


def examine(e, line, do_form):
    """Everything observed for one dump line [term, est as coded, est intended, TrueDeg, PolyDeg]."""
    t = line[0]
    if t[0] in ROOTS:
        return examine_root(e, line)
    try:
        expr = e.build(t)
    except ValueError as ex:
        # a constructor simplification (e.g. [f, 2][1] -> 2) left a literal under grad: ufl cannot
        # build grad of an expression without a domain; such a term does not exist on the real side
        if "Cannot determine geometric dimension" in str(ex):
            return {"skip": "grad of a domain-free expression after simplification"}
        raise
    r = {"real": real_estimate(expr)}
    try:
        rb = canon(e.readback(expr))
        r["rb"] = None if rb == canon(t) else rb
    except Unsupported as ex:
        r["rb"] = "unsupported:" + str(ex)
    r["true"] = e.true_degree(expr)
    if r["real"] < r["true"]:
        r["fp"], r["why"] = culprit(e, expr)
    if do_form and expr.ufl_shape == () and not expr.ufl_free_indices:
        # what is integrated is the processed integrand (algebra lowered, derivatives applied):
        # its own exact degree is the truth for the attached estimate
        r["form"] = []
        for d, integrand in form_estimates(e, expr):
            try:
                ft = e.true_degree(integrand)
            except Unsupported:
                ft = None
            r["form"].append([d, ft])
            if d < (r["true"] if ft is None else ft) and "form_fp" not in r:
                r["form_fp"], r["form_why"] = culprit(e, integrand)
                r["form_why"] += f" [processed integrand: {integrand}]"
    return r


def _work(task):
    cfg, lines, form_every = task
    e = env_of(cfg)
    out = []
    for k, line in enumerate(lines):
        out.append(examine(e, line, form_every and k % form_every == 0))
    return out


_POOL = None


def start_pool(n):
    global _POOL
    if _POOL is None and n > 1:
        _POOL = multiprocessing.get_context("fork").Pool(n)


def stop_pool():
    global _POOL
    if _POOL is not None:
        _POOL.close()
        _POOL.join()
        _POOL = None


def examine_all(cfg, lines, form_every, chunk=300):
    tasks = [(cfg, lines[i : i + chunk], form_every) for i in range(0, len(lines), chunk)]
    if _POOL is None or len(tasks) == 1:
        res = [_work(t) for t in tasks]
    else:
        res = _POOL.map(_work, tasks, chunksize=1)
    return [r for chunk_ in res for r in chunk_]


# --------------------------------------------------------------------------------------------
# judgement (pure: returns what it found; used by run, replay and selftest)
# --------------------------------------------------------------------------------------------


class Verdict:
    def __init__(self):
        self.under = []  # (line, obs, route) real estimate < true degree
        self.over = 0
        self.cross = []  # truth cross-check failures (machinery)
        self.drift = []  # binding failures
        self.votes = {"as-coded": 0, "intended": 0}
        self.agree = 0
        self.unbound = 0
        self.forms = 0
        self.simplified = 0
        self.skipped = 0
        self.form_unevaluated = 0
        self.form_degree_changed = 0
        self.vanished = 0
        self.roots = 0


def judge(v, cfg, lines, obs, model_of_rb):
    """model_of_rb: key_of(read-back term) -> [est as coded, est intended, TrueDeg] from TLC."""
    flat2 = cfg["gdim"] == 2 and cfg["cell"] == "triangle"
    for line, o in zip(lines, obs):
        t, m_ref, m_phys, td, pd = line
        if o.get("vanished"):
            # derivative(form, ...) is identically zero: nothing is integrated (TrueDeg = max(0, ZERO))
            v.vanished += 1
            if t[0] == "gderiv" and td != 0 and not has_coord(t):
                v.cross.append((t, f"the Gateaux derivative vanishes on the real side but has TrueDeg {td} in the model"))
            continue
        if "skip" in o:
            v.skipped += 1
            continue
        real, true = o["real"], o["true"]
        # --- the truth: TLC's compositional TrueDeg, TLC's polynomial arithmetic, the exact evaluation
        generic = not has_coord(t)
        shape = t[0] == "cderiv"
        if shape:
            # the model's degree of a shape derivative is an upper bound; exact for generic data when no
            # gradient of an expression of the coordinates is moved and the cell is not an interval
            generic = cfg["gdim"] == TDIM[cfg["cell"]] >= 2 and not any(n[0] == "grad" and has_coord(n) for n in walk(t)) and not any(n[0] in ("RT", "N1") for n in walk_spec(cfg["elems"]))
        if o.get("root"):
            v.roots += 1
            if o["seen"] != real:
                v.drift.append((t, f"compute_form_data attached {real}, the estimate of the preprocessed integrand is {o['seen']}"))
            if "true_seen" in o and o["true_seen"] != true:
                v.cross.append((t, f"exact degree {o['true_seen']} of the estimated integrand vs {true} of the delivered one"))
        if true > td or (generic and true != td):
            v.cross.append((t, f"exact degree of the real expression {true} vs TrueDeg {td} of the model"))
        if pd != -2 and flat2 and generic and pd != true:
            v.cross.append((t, f"TLC polynomial degree {pd} vs exact degree of the real expression {true}"))
        # --- the model of the ACTUAL dag
        if o["rb"] is not None:
            if isinstance(o["rb"], str):
                v.unbound += 1
                m_ref = m_phys = None
            else:
                v.simplified += 1
                m = model_of_rb.get(key_of(o["rb"]))
                if m is None:
                    v.cross.append((t, "read-back term was not evaluated by TLC"))
                    m_ref = m_phys = None
                else:
                    m_ref, m_phys = m[0], m[1]
                    if shape:
                        if true > m[2] or (generic and true != m[2]):
                            v.cross.append((t, f"exact degree {true} of the real shape derivative integrand vs the model's bound {m[2]} on the read-back term"))
                    elif m[2] != td:
                        v.cross.append((t, f"TrueDeg of the read-back term {m[2]} differs from TrueDeg {td} of the built term"))
        # --- binding
        if m_ref is not None:
            if m_ref == m_phys:
                if real == m_ref:
                    v.agree += 1
                else:
                    v.drift.append((t, f"real estimate {real}, both models {m_ref}"))
            elif real == m_ref:
                v.votes["as-coded"] += 1
            elif real == m_phys:
                v.votes["intended"] += 1
            else:
                v.drift.append((t, f"real estimate {real}, as-coded model {m_ref}, intended model {m_phys}"))
        # --- the property
        if real < true:
            v.under.append((line, o, ROOT_ROUTE if o.get("root") else "estimate_total_polynomial_degree"))
        elif real > true:
            v.over += 1
        bad = False
        for d, ft in o.get("form", ()):
            v.forms += 1
            if ft is None:
                v.form_unevaluated += 1
            elif len(o["form"]) == 1 and ft != true:
                v.form_degree_changed += 1  # preprocessing changed the polynomial (not C18's business)
            bad = bad or d < (true if ft is None else ft)
        if bad:
            v.under.append((line, o, "compute_form_data"))
    return v


# --------------------------------------------------------------------------------------------
# the check
# --------------------------------------------------------------------------------------------

_REPORTED = {}


def report_under(ctx, cfg, line, o, route):
    form = route == "compute_form_data"
    fp = o.get("form_fp" if form else "fp", "C18:underestimate:unlocated")
    ctx.count("underestimates:" + fp)
    _REPORTED[fp] = _REPORTED.get(fp, 0) + 1
    if _REPORTED[fp] > 3:
        return
    t = line[0]
    shown = min(d for d, _ in o["form"]) if form else o["real"]
    what = f"{route} of {fmt(t, cfg)} on {cfg['name']} (elements {cfg['elems']}, {cfg['cell']} in R^{cfg['gdim']}) is {shown} but the integrand has degree {o['true']}: {o.get('form_why' if form else 'why', '')}"
    ctx.violation(fp, what, {"config": cfg, "term": t, "route": route, "observed": shown, "true_degree": o["true"], "model": {"est_as_coded": line[1], "est_intended": line[2], "TrueDeg": line[3]}})


def coverage_requirements(cfg):
    """(element, kind, flat physical component, with grad?) that the sweep must contain."""
    need = set()
    cd = comp_degrees
    for n, spec in enumerate(cfg["elems"], 1):
        if spec[0] not in ("mixed", "sym"):
            continue
        kinds = (["coef"] if n in cfg["coef"] else []) + (["arg"] if any(a[0] == n for a in cfg["args"]) else [])
        for kind in kinds:
            for c in range(len(cd(spec, cfg["gdim"]))):
                need.add((n, kind, c, False))
                if "grad" in cfg["ops"]:
                    need.add((n, kind, c, True))
    return need


def coverage_seen(cfg, lines):
    seen, roots = set(), set()
    shape = {n: phys_shape(s, cfg["gdim"]) for n, s in enumerate(cfg["elems"], 1)}
    for line in lines:
        roots.add(line[0][0])
        for node in walk(line[0]):
            if node[0] != "indexed" or any(k >= 10 for k in node[2]):
                continue
            a = node[3][0]
            g = a[0] == "grad"
            if g:
                a = a[3][0]
            if a[0] not in ("coef", "arg"):
                continue
            mi = node[2][:-1] if g else node[2]
            seen.add((a[1], a[0], flat_of(mi, shape[a[1]]), g))
    return seen, roots


def counterexample_term(res):
    """The term on the stack in the last state of a counterexample (the spec has the single
    variable `stack`, which TLC prints without a leading conjunction sign)."""
    blocks = res.stdout.split("\nState ")
    if len(blocks) < 2:
        raise MachineryError("no counterexample trace in the TLC output")
    body = blocks[-1].split("\n\n")[0]
    text = body.split("\n", 1)[1] if "\n" in body else ""
    if not text.startswith("stack = "):
        raise MachineryError(f"unexpected state text {text[:80]!r}")
    stack = tlc.parse_value(text[len("stack = ") :])
    if len(stack) != 1:
        raise MachineryError("counterexample state does not hold exactly one term")
    return pos_of(stack[0]["t"]), len(blocks) - 1


def run(ctx, args):
    if args.selftest:
        return selftest(ctx)
    quick = ctx.tier == "quick"
    cfgs = configs(ctx.tier)
    ctx.rule = (
        "TLC builds every term of the bounded algebra (terminals: Coefficient/Argument on each pool element, x, X, literal; "
        "constructors +, *, **n, A[fixed and free indices], as_tensor, [a, b], grad, inner, dot, outer, transposed, implicit index sums; "
        "form operations on every finished scalar integrand t of the `derivatives` pools: derivative(t*dx, tuple of coefficients of different degrees) "
        "(direction = Argument on the mixed element built by derivative()) and the shape derivative derivative(t*dx, x, V), V of degree 3 (2 on the interval), "
        "estimated through compute_form_data, the estimated DAG read back and evaluated by TLC, the delivered integrand evaluated exactly; "
        "thorough also: a Constant terminal and ufl.variable(e) in the integrands; derivative tuples with Piola mapped / mixed / symmetric members (immersed triangle), shape derivatives on an interval and a tetrahedron; "
        f"depth <= {2 if quick else 3}, second operands of depth <= 1) for each pool (mixed [vecP2,P1]; [RT3-like, P1] on an immersed triangle; nested mixed; "
        "symmetric 2x2 with equal and with different sub-element degrees; symmetric with VECTOR valued sub-elements of different degrees (physical shape (2,2,2)); "
        "thorough: N1curl-like in nested mixed, interval in R and R^2, tetrahedron, trial+test, symmetric with a permuted symmetry map / Piola mapped sub-elements on the immersed triangle / "
        "mixed sub-elements / a rank-1 block, a symmetric element inside a mixed element) "
        "and prints term, Est as coded, Est intended, TrueDeg; every printed term is built on real ufl, read back, estimated (directly and through "
        "compute_form_data), and evaluated exactly as a polynomial.  distinct non-trivial = distinct (pool, term) of depth >= 1 that contains a form argument"
    )
    ctx.cov["exhaustive"] = True
    ctx.assume("embedded_superdegree is the element's polynomial degree (trusted); every physical component of a sub-element can attain that degree")
    ctx.assume("affine simplex cells only (coordinate element degree 1): Piola maps and the Jacobian are constant matrices; one concrete generic affine cell per (cell, gdim)")
    ctx.assume("polynomial integrands only: no division, abs, conditionals, math functions, non-integer / negative / non-literal exponents, quadrature or real elements")
    ctx.assume("the true degree is that of ONE exact member per space (full reference polynomials with distinct prime coefficients, pushed forward); TLC's TrueDeg (the supremum) must coincide with it on coordinate-free terms")
    ctx.assume("shape derivatives: direction V in a vector Lagrange space (identity pull back) given as an Argument; non-immersed affine cells; compute_form_data with function pullbacks, integral scaling and geometry lowering (which apply_coordinate_derivatives requires); the spec's degree of a shape derivative is an upper bound, demanded to be attained only for generic data without a moved gradient of the coordinates and not on intervals")
    ctx.assume("arguments occur so that the integrand is a valid multilinear form (disjoint argument sets in products, equal sets in sums)")
    import ufl

    print(f"  ufl: {ufl.__file__}", flush=True)
    start_pool(6)  # before the big TLC outputs are held in memory
    t0 = time.time()
    from concurrent.futures import ThreadPoolExecutor

    jobs = []
    for c in cfgs:
        if c["ascoded"] == "fails":
            # the as-coded rule: TLC must find the underestimate (breadth first: a shortest one)
            jobs.append(Job("ascoded:" + c["name"], dict(c, depth=min(c["depth"], 2)), rule="reference", dump=False, invs=("EstSafe",), workers=1))
            jobs.append(Job("dump:" + c["name"], c, workers=4 if c["depth"] >= 3 else 2))
        else:
            # ... and must not where reference and physical sizes agree (same run as the dump)
            jobs.append(Job("dump:" + c["name"], c, workers=4 if c["depth"] >= 3 else 2))
    jobs.sort(key=lambda j: -((j.cfg["depth"] * 10 + (5 if j.cfg["poly"] else 0)) if j.dump else 100))
    order = sorted(cfgs, key=lambda c: [j.key for j in jobs].index("dump:" + c["name"]))
    if quick:
        # all runs fit on the machine at once: the long one (polynomial arithmetic) starts first and is
        # awaited last, the other pools are conformed while it runs
        jobs.sort(key=lambda j: 0 if (j.dump and j.cfg["poly"]) else 1 if not j.dump else 2)
        order.sort(key=lambda c: c["poly"])
    total = Verdict()
    pending = []
    try:
        with ThreadPoolExecutor(max_workers=4 if quick else 2) as ex:
            futs = {j.key: ex.submit(j.run) for j in jobs}
            for c in order:
                # (a) the intended model satisfies every invariant; the as-coded model fails exactly where expected
                job = futs["dump:" + c["name"]].result()
                ctx.add_tlc(job.res)
                tlc.require_ok(job.res, f"Degree[{c['name']}] intended rule" + ("" if c["ascoded"] == "fails" else " / as-coded rule on a pool where it is expected to be safe"))
                asjob = None
                if c["ascoded"] == "fails":
                    asjob = futs["ascoded:" + c["name"]].result()
                    ctx.add_tlc(asjob.res)
                    r = asjob.res
                    if r.outcome != "invariant" or r.violated != "EstSafe":
                        raise MachineryError(f"Degree[{c['name']}] as coded: expected an EstSafe counterexample, got {r.outcome}/{r.violated}\n{r.stdout[-1500:]}")
                nstates, wall, nterms = job.res.distinct, job.res.wall, len(job.res.prints)
                # (b) conformance of the real code
                pending.append(conform(ctx, c, job, asjob, 1 if quick else 2, lambda j: ex.submit(j.run)))
                print(f"  {c['name']}: TLC {nstates} states in {wall:.1f}s; {nterms} terms built, estimated and evaluated on real ufl, {time.time() - t0:.1f}s", flush=True)
            for st in pending:
                settle(ctx, st, total)
        notes(ctx)
    finally:
        stop_pool()
    conclude(ctx, total)


def conform(ctx, cfg, job, asjob, form_every, submit):
    """Phase 1: every dumped term on the real code; read-back terms that differ from the built ones
    are handed to a second TLC run (submitted, not awaited).  Returns the state for `settle`."""
    lines = lines_of(job)
    job.res.stdout, job.res.prints = job.res.stdout if asjob is None else "", []
    # vacuity: every enabled constructor produced terms, every component of every mixed / symmetric
    # element was selected on coefficients and arguments, with and without grad
    seen, roots = coverage_seen(cfg, lines)
    missing = coverage_requirements(cfg) - seen
    if missing:
        raise MachineryError(f"Degree[{cfg['name']}]: component selections never generated: {sorted(missing)[:8]}")
    idle = (set(cfg["ops"]) | {"coef"} | ({"isum"} if {"prod", "indexed"} <= set(cfg["ops"]) else set())) - roots
    if idle:
        raise MachineryError(f"Degree[{cfg['name']}]: constructors never applied: {sorted(idle)}")
    used = {(l[0][0], l[0][2][0]) for l in lines if l[0][0] in ROOTS}
    unused = ({("gderiv", k) for k in range(1, len(cfg["derivs"]) + 1) if "gderiv" in cfg["ops"]} | {("cderiv", n) for n in cfg["dirs"] if "cderiv" in cfg["ops"]}) - used
    if unused:
        raise MachineryError(f"Degree[{cfg['name']}]: form operations never applied: {sorted(unused)}")
    if cfg["poly"]:
        npoly = sum(1 for l in lines if l[4] != -2)
        ctx.count("terms_validated_by_polynomial_arithmetic_in_TLC", npoly)
        ctx.cov["undefined_skipped"] += len(lines) - npoly
        if npoly < 0.9 * len(lines):
            raise MachineryError(f"Degree[{cfg['name']}]: only {npoly} of {len(lines)} terms within the range of the polynomial arithmetic")
    obs = examine_all(cfg, lines, form_every)
    # second TLC run: the model on the real DAGs that differ from the built terms
    rbs = {}
    for o in obs:
        if o.get("rb") is not None and not isinstance(o["rb"], str):
            rbs.setdefault(key_of(o["rb"]), o["rb"])
    terms = list(rbs.values())
    shards = [terms[i : i + 6000] for i in range(0, len(terms), 6000)]
    futs = [submit(Job(f"rb:{cfg['name']}:{i}", cfg, seeds=sh, invs=(), workers=2)) for i, sh in enumerate(shards)]
    ctx.count("terms_changed_by_constructor_simplification_and_re-evaluated_by_TLC", len(terms))
    return cfg, lines, obs, asjob, futs


def settle(ctx, state, total):
    """Phase 2: judgement and bookkeeping of one configuration."""
    cfg, lines, obs, asjob, futs = state
    model_of_rb = {}
    for f in futs:
        j = f.result()
        ctx.add_tlc(j.res)
        tlc.require_ok(j.res, f"Degree[{cfg['name']}] on read-back terms")
        for l in lines_of(j):
            model_of_rb[key_of(canon(l[0]))] = l[1:4]
    v = judge(Verdict(), cfg, lines, obs, model_of_rb)
    # the as-coded counterexample of TLC on the real code
    if cfg["ascoded"] == "fails":
        cex, nstates = counterexample_term(asjob.res)
        hit = [(l, o) for l, o in zip(lines, obs) if canon(l[0]) == canon(cex) and "skip" not in o]
        if not hit:
            raise MachineryError(f"Degree[{cfg['name']}]: TLC's counterexample {fmt(cex)} is not among the enumerated terms")
        l, o = hit[0]
        verdict = "UNDERESTIMATES, as the as-coded model predicts" if o["real"] < o["true"] else "does not underestimate (the code follows the intended rule)"
        print(f"  TLC counterexample to EstSafe as coded on {cfg['name']} ({nstates} states): {fmt(cex)}: model Est {l[1]} < TrueDeg {l[3]}; real ufl: estimate {o['real']}, exact degree {o['true']} -- {verdict}", flush=True)
        ctx.count("ascoded_counterexamples_replayed")
        ctx.sample({"as-coded counterexample": fmt(cex), "pool": cfg["name"], "model": {"Est": l[1], "TrueDeg": l[3]}, "real": {"estimate": o["real"], "exact degree": o["true"]}})
    # bookkeeping
    ctx.traces(len(lines))
    ctx.evaluated(3 * len(lines) + v.forms)
    ctx.count("terms:" + cfg["name"], len(lines))
    ctx.count("form_route_estimates", v.forms)
    ctx.count("form_route_processed_integrand_not_evaluated", v.form_unevaluated)
    ctx.count("form_route_preprocessing_changed_the_degree", v.form_degree_changed)
    ctx.count("overestimates", v.over)
    ctx.count("derivative_forms_estimated_through_compute_form_data", v.roots)
    ctx.count("derivative_forms_vanishing_identically", v.vanished)
    pool = json.dumps(cfg["elems"]) + cfg["cell"] + str(cfg["gdim"])
    for l in lines:
        if depth_of(l[0]) >= 1 and any(n[0] in ("coef", "arg") for n in walk(l[0])):
            ctx.distinct(pool + key_of(l[0]))
    for line, o, route in v.under:
        report_under(ctx, cfg, line, o, route)
    mid = len(lines) // 2
    ctx.sample({"pool": cfg["name"], "term": fmt(lines[mid][0]), "line [term, Est as coded, Est intended, TrueDeg, PolyDeg]": lines[mid], "real": obs[mid]})
    for k in ("cross", "drift"):
        getattr(total, k).extend((cfg["name"],) + x for x in getattr(v, k))
    for k in v.votes:
        total.votes[k] += v.votes[k]
    total.agree += v.agree
    total.unbound += v.unbound
    total.simplified += v.simplified
    total.skipped += v.skipped
    total.under.extend(v.under)
    ctx.cov["undefined_skipped"] += v.skipped
    if v.skipped > 0.02 * len(lines):
        raise MachineryError(f"Degree[{cfg['name']}]: {v.skipped} of {len(lines)} terms cannot be built on real ufl")


def notes(ctx):
    """Recorded, not judged: inputs just outside the property as stated."""
    e = env_of(mk("notes", "triangle", 2, [P3], (1,), []))
    f = e.coef[1]
    # f**2.0: the exponent is a float literal with an integral value -> heuristic degree(f) + 2 = 5 < 6;
    # the property speaks of integer powers, so this is a note
    if real_estimate(f**2.0) < 2 * 3:
        ctx.count("note_outside_property:float-literal-exponent-2.0-estimated-by-heuristic")


def conclude(ctx, total):
    ctx.count("binding_agree", total.agree)
    ctx.count("binding_discriminating_as_coded", total.votes["as-coded"])
    ctx.count("binding_discriminating_intended", total.votes["intended"])
    ctx.count("binding_skipped_unsupported_readback", total.unbound)
    mode = "as-coded" if total.votes["as-coded"] else "intended" if total.votes["intended"] else "undetermined"
    print(f"  binding: {total.agree} terms agree with both models; discriminating terms: {total.votes['as-coded']} follow the as-coded rule, {total.votes['intended']} the intended rule -> the code implements the {mode} `indexed` rule; {total.simplified} terms re-evaluated after constructor simplification", flush=True)
    if total.cross:
        raise MachineryError(f"truth cross-check failed on {len(total.cross)} terms, e.g. {[(n, fmt(t), w) for n, t, w in total.cross[:3]]}")
    problems = []
    if total.drift:
        problems.append(f"{len(total.drift)} terms match neither model, e.g. {[(n, fmt(t), w) for n, t, w in total.drift[:3]]}")
    if total.votes["as-coded"] and total.votes["intended"]:
        problems.append("the code follows the as-coded rule on some terms and the intended rule on others")
    if total.unbound > 0.01 * max(1, total.agree):
        problems.append(f"{total.unbound} terms could not be read back")
    if problems:
        msg = "model drift (the transcription of SumDegreeEstimator or the code changed): " + "; ".join(problems)
        if ctx.n_viol:
            print("  MODEL-DRIFT (run already fails with violations): " + msg, flush=True)
        else:
            raise MachineryError(msg)


# --------------------------------------------------------------------------------------------
# replay of a recorded violation
# --------------------------------------------------------------------------------------------


def replay(ctx, doc):
    r = doc["replay"]
    cfg, t = r["config"], r["term"]
    e = env_of(cfg)
    import ufl

    print("ufl      :", ufl.__file__)
    expr = derived_form(e, t)[0] if t[0] in ROOTS else e.build(t)
    o = examine(e, [t, None, None, None, -2], True)
    print("pool     :", cfg["name"], cfg["elems"], cfg["cell"], "in R^%d" % cfg["gdim"])
    print("term     :", fmt(t, cfg))
    print("real expr:", str(expr))
    print("model    :", r.get("model"))
    print("estimate :", o["real"], " through compute_form_data [estimate, exact degree of the processed integrand]:", o.get("form"))
    print("exact degree of the integrand:", o["true"])
    v = judge(Verdict(), cfg, [[t, None, None, o["true"], -2]], [dict(o, rb="unsupported:replay")], {})
    for _, _, route in v.under:
        form = route == "compute_form_data"
        print("verdict  :", "UNDERESTIMATE by " + route + ": " + o.get("form_why" if form else "why", ""))
        ctx.violation(o.get("form_fp" if form else "fp", doc.get("fingerprint", "C18:replay")), doc.get("what", "replayed case still fails"), r)
    if not v.under:
        print("verdict  : no underestimate")


# --------------------------------------------------------------------------------------------
# selftest
# --------------------------------------------------------------------------------------------


def selftest(ctx):
    import copy

    from ufl.algorithms.estimate_degrees import SumDegreeEstimator as SDE

    cfg = mk("selftest", "triangle", 2, [["mixed", [["vecP", 2, 2], P1]], P2], (1, 2), [(1, 0)], ops=("indexed", "pow", "grad", "prod", "sum", "list", "inner"))
    job = run_jobs(ctx, [Job("dump:selftest", cfg, workers=2)])["dump:selftest"]
    tlc.require_ok(job.res, "Degree[selftest]")
    lines = lines_of(job)
    e = env_of(cfg)

    def verdict(ls, patch=None, cfg=cfg, e=e):
        saved = {}
        if patch:
            for k, f in patch.items():
                saved[k] = SDE.__dict__[k]
                setattr(SDE, k, f)
        try:
            obs = [examine(e, l, True) for l in ls]
        finally:
            for k, f in saved.items():
                setattr(SDE, k, f)
        # read-back terms: in the self-test universe only the unchanged ones are bound
        return judge(Verdict(), cfg, ls, [dict(o, rb=("unsupported:selftest" if o["rb"] is not None else None)) for o in obs], {})

    base = verdict(lines)
    if base.under or base.cross or base.drift:
        raise MachineryError(f"selftest: the unmodified code does not conform: under={len(base.under)} cross={base.cross[:2]} drift={base.drift[:2]}")
    rejected = {}

    def fps(v):
        return sorted({o[k] for _, o, _ in v.under for k in ("fp", "form_fp") if k in o})

    # mutants of the real estimator that under-count
    m = verdict(lines, {"product": SDE._max_degrees, "inner": SDE._max_degrees})
    rejected["mutant product=max"] = [f"{len(m.under)} underestimates {fps(m)}", f"{len(m.drift)} binding failures"] if m.under and m.drift and "C18:underestimate:product" in fps(m) else []
    m = verdict(lines, {"power": lambda self, v, a, b: a})
    rejected["mutant power ignores the exponent"] = [f"{len(m.under)} underestimates {fps(m)}"] if m.under and m.drift and "C18:underestimate:power" in fps(m) else []
    m = verdict(lines, {"indexed": lambda self, v, A, ii: 0 if v.ufl_operands[0]._ufl_is_terminal_ else A})
    rejected["mutant indexed returns 0"] = [f"{len(m.under)} underestimates {fps(m)}"] if m.under and any("indexed" in f for f in fps(m)) else []
    m = verdict(lines, {"list_tensor": lambda self, v, *ops: min(ops)})
    rejected["mutant list_tensor=min"] = [f"{len(m.under)} underestimates {fps(m)}"] if m.under and "C18:underestimate:list_tensor" in fps(m) else []
    m = verdict(lines, {"grad": lambda self, v, f: max(f - 2, 0)})
    rejected["mutant grad reduces by two"] = [f"{len(m.under)} underestimates {fps(m)}"] if m.under and "C18:underestimate:grad" in fps(m) else []
    # corrupted predictions
    k = next(i for i, l in enumerate(lines) if l[0][0] == "prod" and not has_coord(l[0]))
    for name, pos, delta in (("corrupt TrueDeg +1", 3, 1), ("corrupt TrueDeg -1", 3, -1), ("corrupt Est as coded and intended", 1, 1)):
        ls = copy.deepcopy(lines[k : k + 1])
        ls[0][pos] += delta
        if pos == 1:
            ls[0][2] += delta
        m = verdict(ls)
        rejected[name] = (m.cross or m.drift)[:1]
    # corrupted truth on the Python side: a member of the space of too low degree
    f = e.coef[2]
    saved = e.tpoly[f]
    e.tpoly[f] = [{m_: c for m_, c in saved[0].items() if sum(m_) <= 1}]
    e._poly.clear()
    try:
        m = verdict([l for l in lines if any(n[0] == "coef" and n[1] == 2 for n in walk(l[0]))][:50])
    finally:
        e.tpoly[f] = saved
        e._poly.clear()
    rejected["non-generic member of the space"] = [f"{len(m.cross)} cross-check failures"] if m.cross else []
    # the known defect must be found on the pinned rule: the as-coded MODEL on the immersed pool
    imm = next(c for c in configs("quick") if c["name"] == "immersed-rt")
    j = run_jobs(ctx, [Job("ascoded:selftest", imm, rule="reference", dump=False, invs=("EstSafe",), workers=1)])["ascoded:selftest"]
    rejected["as-coded model on [RT3, P1] immersed"] = [fmt(counterexample_term(j.res)[0])] if j.res.outcome == "invariant" else []
    # the universe of symmetric elements with vector valued sub-elements: a mutant that reads the
    # sub-element INDEX given by the symmetry map as an offset into the reference value
    symv = next(c for c in configs("quick") if c["name"] == "sym-vector-subs")
    j = run_jobs(ctx, [Job("dump:selftest-symv", symv, workers=2)])["dump:selftest-symv"]
    tlc.require_ok(j.res, "Degree[sym-vector-subs]")
    sl = [l for l in lines_of(j) if depth_of(l[0]) <= 1 or l[0][0] == "pow"]
    orig = SDE.__dict__["_sub_element_of_component"]

    def by_offset(self, op, element, component):
        from ufl.pullback import SymmetricPullback

        pb = element.pullback
        if not isinstance(pb, SymmetricPullback):
            return orig(self, op, element, component)
        local, offset = pb._symmetry[component[: len(pb._block_shape)]], 0
        for sub in element.sub_elements:
            offset += sub.reference_value_size
            if local < offset:
                return sub
        return None

    base = verdict(sl, None, symv, env_of(symv))
    if base.under or base.cross or base.drift:
        raise MachineryError(f"selftest: the unmodified code does not conform on sym-vector-subs: under={len(base.under)} cross={base.cross[:2]} drift={base.drift[:2]}")
    m = verdict(sl, {"_sub_element_of_component": by_offset}, symv, env_of(symv))
    rejected["mutant symmetric sub-element index read as reference offset"] = [f"{len(m.under)} underestimates {fps(m)}", f"{len(m.drift)} binding failures"] if m.under and m.drift and "C18:underestimate:indexed-symmetric-nonscalar-sub-elements" in fps(m) else []
    # form operations (the quick pool `derivatives`): mutants of the two places the degree of the direction
    # of a derivative enters the estimate, and a corrupted model degree of a Gateaux derivative
    dcfg = next(c for c in configs("quick") if c["name"] == "derivatives")
    j = run_jobs(ctx, [Job("dump:selftest-derivatives", dcfg, workers=2)])["dump:selftest-derivatives"]
    tlc.require_ok(j.res, "Degree[derivatives]")
    dl = [l for l in lines_of(j) if l[0][0] in ROOTS and l[0][3][0][0] != "prod"]
    de = env_of(dcfg)
    base = verdict(dl, None, dcfg, de)
    if base.under or base.cross or base.drift or base.roots != len(dl):
        raise MachineryError(f"selftest: the unmodified code does not conform on derivatives: under={len(base.under)} cross={base.cross[:2]} drift={base.drift[:2]} roots={base.roots}/{len(dl)}")
    m = verdict(dl, {"coordinate_derivative": lambda self, v, i, b, d, cd: self._add_degrees(v, i, b)}, dcfg, de)
    rejected["mutant coordinate_derivative adds the degree of the coordinates"] = [f"{len(m.under)} underestimates {fps(m)}"] if m.under and "C18:underestimate:coordinate_derivative" in fps(m) else []

    def arg_min(self, v):
        el = v.ufl_element()
        return min(x.embedded_superdegree for x in el.sub_elements) if type(el).__name__ == "_MixedElement" else el.embedded_superdegree

    m = verdict(dl, {"argument": arg_min}, dcfg, de)
    rejected["mutant argument on the mixed element built by derivative() = min over the sub-elements"] = [f"{len(m.under)} underestimates {fps(m)}"] if m.under and "C18:underestimate:argument:mixed-element-built-by-derivative" in fps(m) else []
    k = next(i for i, l in enumerate(dl) if l[0][0] == "gderiv" and not has_coord(l[0]) and l[3] >= 2)
    ls = copy.deepcopy(dl[k : k + 1])
    ls[0][3] -= 1
    rejected["corrupt TrueDeg of a Gateaux derivative -1"] = verdict(ls, None, dcfg, de).cross[:1]
    ctx.traces(len(lines))
    ctx.evaluated(len(lines) * 6)
    ctx.rule = "selftest: in-process mutants of SumDegreeEstimator, corrupted model values and a corrupted exact evaluation must all be rejected"
    ctx.sample({"selftest": rejected})
    for name, val in rejected.items():
        print(f"  selftest {name}: {'rejected ' + str(val) if val else 'ACCEPTED'}", flush=True)
        ctx.distinct("selftest|" + name)
    missed = [k for k, val in rejected.items() if not val]
    if missed:
        raise MachineryError(f"selftest: not rejected: {missed}")


def main(argv=None):
    main_wrapper("C18", run, argv)
