"""C29 — commutative constructors are order independent (canonical operand ordering).

Model: spec/Ordering.tla transcribes `ufl.sorting.cmp_expr` as coded (explicit stack loop, one
action per loop iteration, every terminal comparator) over a universe of terms of depth <= 2 (+3
deeper ones), plus a second slice of the universe ("repr": float / complex / integer literals whose
reprs exercise every way `_cmp_terminal_by_repr` decides, including reprs that differ only in the zero
padding of a digit run such as 1.5 / 1.05) and states the intended meaning: cmp induces a total
preorder whose equivalence classes are structural equality modulo index/label numbers.

(a) TLC executes the loop for every ordered pair (termination, result in {-1,0,1}, agreement of the
    state machine with the tabulated function) and checks the order laws on every triple.  A law
    that fails on the as-coded model is replayed on the real `cmp_expr` with the materialised
    terms: same failure in the real code -> violation of C29; otherwise the transcription is
    wrong -> MachineryError.
(b) Conformance: every term of the universe is materialised as a real ufl object (operand order is
    kept because only non-commutative node types are used) and the sign of the real
    `cmp_expr(a, b)` must equal the predicted one for EVERY ordered pair, with shared and with
    unshared sub-objects; the spec's `Equiv` must equal the harness' structural filter.
(c) The property on real objects for a much larger enumerated + seeded-random operand pool:
    `a+b == b+a`, `a*b == b*a` (scalar*scalar incl. index notation, scalar*tensor),
    inner(a,b)/inner(b,a), and the cmp laws on all pairs and all triples of the pool.
"""

from __future__ import annotations

import itertools
import json
import random

from .. import tlc
from ..common import MachineryError, main_wrapper

TC_NAMES = (
    "Coefficient Constant Argument IntValue FloatValue ComplexValue Zero SpatialCoordinate FacetNormal MultiIndex Label "
    "Indexed Variable Division Abs PositiveRestricted NegativeRestricted ExprList"
).split()

LAWS = ["Reflexive", "Antisymmetric", "Transitive", "Total", "ZeroImpliesEquiv", "EquivImpliesZero", "EqCongruence"]
# observable reported for a law that fails in the real code
LAW_OBS = {
    "Reflexive": "cmp-not-reflexive",
    "Antisymmetric": "cmp-not-antisymmetric",
    "Total": "cmp-not-antisymmetric",
    "Transitive": "cmp-not-transitive",
    "EqCongruence": "cmp-not-transitive",
    "ZeroImpliesEquiv": "cmp-zero-on-distinct",
}

LOOP_CFG = """SPECIFICATION SpecLoop
PROPERTY Terminates
INVARIANT StackBounded
INVARIANT ResultIsSign
INVARIANT DoneAgreesWithFn
"""


# =============================================================================================
# real ufl objects
# =============================================================================================

_ENV = None


def env():
    """Meshes (ufl_id 0 and 1), function spaces per shape, named indices (explicit counts)."""
    global _ENV
    if _ENV is not None:
        return _ENV
    import ufl
    from ufl.finiteelement import AbstractFiniteElement
    from ufl.pullback import identity_pullback
    from ufl.sobolevspace import H1

    class El(AbstractFiniteElement):
        """Minimal Lagrange-like element (copied in spirit from /repo/test/utils.py)."""

        def __init__(self, cell, degree, shape=()):
            self._cell, self._degree, self._shape = cell, degree, tuple(shape)
            self._repr = f"El({cell!r}, {degree}, {self._shape})"

        def __repr__(self):
            return self._repr

        def __str__(self):
            return self._repr

        def __hash__(self):
            return hash(self._repr)

        def __eq__(self, other):
            return type(self) is type(other) and self._repr == other._repr

        sobolev_space = property(lambda s: H1)
        pullback = property(lambda s: identity_pullback)
        embedded_superdegree = property(lambda s: s._degree)
        embedded_subdegree = property(lambda s: s._degree)
        cell = property(lambda s: s._cell)
        reference_value_shape = property(lambda s: s._shape)
        sub_elements = property(lambda s: [])

    class E:
        pass

    e = E()
    e.ufl = ufl
    e.El = El
    e.cell = ufl.triangle
    e.mesh = {d: ufl.Mesh(El(e.cell, 1, (2,)), ufl_id=d) for d in (0, 1)}
    e.space = {}

    def space(d, shape):
        k = (d, tuple(shape))
        if k not in e.space:
            e.space[k] = ufl.FunctionSpace(e.mesh[d], El(e.cell, 1, tuple(shape)))
        return e.space[k]

    e.fs = space
    from ufl.core.multiindex import Index

    # explicit counts far beyond what ufl's own index counter reaches in a run (an explicit count
    # does not advance that counter, so small explicit counts would collide with fresh indices)
    e.idx = {n: Index(count=10**9 + 1 + k) for k, n in enumerate("ijkl")}
    _ENV = e
    return e


def real_typecodes():
    import ufl.classes as C

    return {n: int(getattr(C, n)._ufl_typecode_) for n in TC_NAMES}


def materialise(t, cache):
    """Spec term (decoded JSON record) -> real ufl object.  cache=None: no sharing of sub-objects."""
    key = None
    if cache is not None:
        key = json.dumps(t, sort_keys=True)
        if key in cache:
            return cache[key]
    import ufl.classes as C
    from ufl.core.multiindex import FixedIndex, Index, MultiIndex

    e = env()
    k = t["k"]
    sh = tuple(t["sh"])
    if k == "coef":
        o = C.Coefficient(e.fs(0, sh), count=t["n"])
    elif k == "const":
        o = C.Constant(e.mesh[t["d"]], sh, count=t["n"])
    elif k == "arg":
        o = C.Argument(e.fs(0, sh), t["n"], None if t["p"] == -1 else t["p"])
    elif k == "int":
        o = C.IntValue(t["n"])
    elif k in ("float", "floate", "cplx"):
        txt = literal_text(t)
        o = C.ComplexValue(complex(txt)) if k == "cplx" else C.FloatValue(float(txt))
        if repr(o) != f"{t['nm']}({txt})":
            # precondition of the spec's model of these reprs (python's shortest float repr)
            raise MachineryError(f"literal {txt}: ufl/python write it as {o!r}, Ordering.tla models {t['nm']}({txt})")
    elif k == "zero":
        o = C.Zero(sh, tuple(i - 10 for i in t["ix"]), tuple(t["fd"]))
    elif k == "geo":
        o = getattr(C, t["nm"])(e.mesh[t["d"]])
    elif k == "mi":
        o = MultiIndex(tuple(FixedIndex(i) if i < 10 else Index(count=i - 10) for i in t["ix"]))
    elif k == "label":
        o = C.Label(t["n"])
    elif k == "op":
        ops = [materialise(x, cache) for x in t["ops"]]
        o = getattr(C, t["nm"])(*ops)
        if type(o).__name__ != t["nm"] or len(o.ufl_operands) != len(ops) or any(x is not y for x, y in zip(o.ufl_operands, ops)):
            raise MachineryError(f"materialisation of {show(t)} was simplified/reordered by ufl: {o!r}")
    else:
        raise MachineryError(f"unknown term kind {k!r}")
    if type(o).__name__ != t["nm"] or int(o._ufl_typecode_) != t["tc"]:
        raise MachineryError(f"materialised {show(t)} has class {type(o).__name__} typecode {o._ufl_typecode_}")
    if cache is not None:
        cache[key] = o
    return o


def _decimal(n, p):
    m = abs(n)
    return f"{'-' if n < 0 else ''}{m // 10**p}.{m % 10**p:0{p}d}"


def literal_text(t):
    """Decimal text of a float / complex literal of the spec (exact: built from the integer fields)."""
    if t["k"] == "float":
        return _decimal(t["n"], t["p"])
    if t["k"] == "floate":
        return f"{t['n']}e{'+' if t['d'] else '-'}{t['p']:02d}"
    im, iq = t["fd"]
    return f"({_decimal(t['n'], t['p'])}{'-' if im < 0 else '+'}{_decimal(abs(im), iq)}j)"


def show(t):
    if t["k"] == "op":
        return t["nm"] + "(" + ", ".join(show(o) for o in t["ops"]) + ")"
    k = t["k"]
    if k in ("coef", "label"):
        return f"{t['nm']}#{t['n']}" + (f"{tuple(t['sh'])}" if t["sh"] else "")
    if k == "const":
        return f"Constant#{t['n']}@mesh{t['d']}{tuple(t['sh']) if t['sh'] else ''}"
    if k == "arg":
        return f"Argument({t['n']},{'None' if t['p'] == -1 else t['p']})"
    if k == "int":
        return f"IntValue({t['n']})"
    if k in ("float", "floate", "cplx"):
        return f"{t['nm']}({literal_text(t)})"
    if k == "zero":
        return f"Zero({tuple(t['sh'])},{tuple(i - 10 for i in t['ix'])})"
    if k == "geo":
        return f"{t['nm']}@mesh{t['d']}"
    if k == "mi":
        return "MI(" + ",".join(str(i) if i < 10 else f"i{i - 10}" for i in t["ix"]) + ")"
    return json.dumps(t)


def sign(x):
    return -1 if x < 0 else (1 if x > 0 else 0)


def real_cmp(a, b):
    from ufl.sorting import cmp_expr

    r = cmp_expr(a, b)
    if r not in (-1, 0, 1):
        return sign(r)
    return r


# ---- structural keys of real objects (independent of ufl's __eq__ and of the spec's Erase) ----


class Keys:
    """skey: strict structure; ekey: index and label numbers erased; interned to small ints."""

    def __init__(self):
        self._s = {}
        self._e = {}
        self._keep = []
        self._intern = {}

    def _id(self, tup):
        return self._intern.setdefault(tup, len(self._intern))

    def _key(self, e, erase, memo):
        from ufl.classes import Label, MultiIndex, Zero
        from ufl.core.multiindex import FixedIndex

        k = memo.get(id(e))
        if k is not None:
            return k
        name = type(e).__name__
        if isinstance(e, MultiIndex):
            tup = ("MI",) + tuple(("x", int(i)) if isinstance(i, FixedIndex) else (("i",) if erase else ("i", i.count())) for i in e.indices())
        elif isinstance(e, Label):
            tup = ("Label",) if erase else ("Label", e.count())
        elif isinstance(e, Zero):
            if erase:
                tup = ("Zero", e.ufl_shape, tuple(sorted(e.ufl_index_dimensions)))
            else:
                tup = ("Zero", e.ufl_shape, e.ufl_free_indices, e.ufl_index_dimensions)
        elif e._ufl_is_terminal_:
            tup = (name, repr(e))
        else:
            tup = (name,) + tuple(self._key(o, erase, memo) for o in e.ufl_operands)
        k = self._id(tup)
        memo[id(e)] = k
        self._keep.append(e)
        return k

    def skey(self, e):
        return self._key(e, False, self._s)

    def ekey(self, e):
        return self._key(e, True, self._e)


def bound_key(e):
    """Strict structure with the indices that are not free in `e` renamed in pre-order (operand order
    is kept, so an operand swap is never hidden); free indices keep their identity."""
    from ufl.classes import Label, MultiIndex, Zero
    from ufl.core.multiindex import FixedIndex

    try:
        free = set(e.ufl_free_indices)
    except Exception:  # noqa: BLE001
        free = set()
    ren = {}

    def nm(c):
        if c in free:
            return ("f", c)
        return ("b", ren.setdefault(c, len(ren)))

    def rec(x):
        if isinstance(x, MultiIndex):
            return ("MI",) + tuple(("x", int(i)) if isinstance(i, FixedIndex) else nm(i.count()) for i in x.indices())
        if isinstance(x, Label):
            return ("Label", x.count())
        if isinstance(x, Zero):
            return ("Zero", x.ufl_shape, tuple(nm(c) for c in x.ufl_free_indices), x.ufl_index_dimensions)
        if x._ufl_is_terminal_:
            return (type(x).__name__, repr(x))
        return (type(x).__name__,) + tuple(rec(o) for o in x.ufl_operands)

    return rec(e)


def same_structure(lhs, rhs):
    """ufl's own structural equality, or equality up to the names of bound (constructor-made) indices."""
    if bool(lhs == rhs):
        return True
    return bound_key(lhs) == bound_key(rhs)


def length_tie(a, b):
    """Does cmp_expr(a, b) pass over a pair of multi-indices of different length (compared by their
    common prefix only) before it decides?  Used to name the branch of a failing triple."""
    from ufl.classes import MultiIndex

    stack = [(a, b)]
    while stack:
        x, y = stack.pop()
        if x._ufl_typecode_ != y._ufl_typecode_:
            return False
        if x._ufl_is_terminal_:
            c = real_cmp(x, y)
            if isinstance(x, MultiIndex) and len(x) != len(y) and c == 0:
                return True
            if c:
                return False
        else:
            if len(x.ufl_operands) != len(y.ufl_operands):
                return False
            stack.extend(zip(x.ufl_operands, y.ufl_operands))
    return False


def classify(a, b, keys):
    """Branch of the comparison that fails to separate two distinguishable expressions: walk both in
    the order cmp_expr visits them and name the first position where the erased structures differ."""
    from ufl.classes import MultiIndex
    from ufl.core.multiindex import FixedIndex

    stack = [(a, b)]
    while stack:
        x, y = stack.pop()
        if type(x) is not type(y):
            return "typecode"
        if x._ufl_is_terminal_:
            if keys.ekey(x) == keys.ekey(y):
                continue
            if isinstance(x, MultiIndex):
                ix, iy = x.indices(), y.indices()
                pre = all(
                    (isinstance(p, FixedIndex) and isinstance(q, FixedIndex) and int(p) == int(q))
                    or (not isinstance(p, FixedIndex) and not isinstance(q, FixedIndex))
                    for p, q in zip(ix, iy)
                )
                if len(ix) != len(iy) and pre:
                    return "multiindex-length"
                return "multiindex"
            return type(x).__name__.lower()
        xo, yo = x.ufl_operands, y.ufl_operands
        if len(xo) != len(yo):
            return "noperands"
        stack.extend(zip(xo, yo))
    return "none"


# =============================================================================================
# TLC
# =============================================================================================


def _mc():
    return "---- MODULE MC_Ordering ----\nEXTENDS Ordering\nMCTC == " + tlc.tla(real_typecodes()) + "\n====\n"


def _cfg(sharing, milens, rule, big, printing, part="main"):
    return (
        "CONSTANTS TC <- MCTC\n"
        f"Sharing = {'TRUE' if sharing else 'FALSE'}\n"
        f"MILens = {{{', '.join(str(i) for i in sorted(milens))}}}\n"
        f'MiLenRule = "{rule}"\n'
        f'ReprRule = "{probe_repr_rule()}"\n'
        f"Big = {'TRUE' if big else 'FALSE'}\n"
        f'Slice = "{part}"\n'
        f"PrintTable = {'TRUE' if printing else 'FALSE'}\n"
    )


ALL_CFG = (
    "SPECIFICATION SpecAll\nPROPERTY Terminates\nINVARIANT StackBounded\nINVARIANT ResultIsSign\nINVARIANT DoneAgreesWithFn\n"
    + "".join(f"INVARIANT {law}\n" for law in LAWS)
)


def _tlc_job(sharing, milens, rule, big, laws, part="main"):
    cfg = _cfg(sharing, milens, rule, big, True, part) + (ALL_CFG if laws else LOOP_CFG)
    if laws == "noeiz":
        cfg = cfg.replace("INVARIANT EquivImpliesZero\n", "")
    for attempt in (1, 2):
        small = part != "main"
        res = tlc.run("Ordering", cfg, mc_text=_mc(), mc_name="MC_Ordering", workers=2 if small else (6 if laws else 3), heap="1g" if small else "4g", timeout=1500)
        # a JVM that disappears without any TLC diagnostic (killed from outside) is retried once
        if res.outcome != "error" or "Error:" in res.stdout or attempt == 2:
            return res
    return res


def run_models(ctx, jobs):
    """Run several TLC configurations concurrently (each is dominated by its start-up and the
    single-threaded tabulation); jobs = [(sharing, milens, rule, big, laws[, slice])].
    Each run: the loop state machine for every ordered pair (termination, result is a sign, state
    machine = tabulated function) and, if `laws`, the order laws over every triple.
    Returns [(universe, table dict, failure)], failure = None or (law, a, b, c) (1-based)."""
    from concurrent.futures import ThreadPoolExecutor

    with ThreadPoolExecutor(max_workers=max(1, len(jobs))) as ex:
        results = list(ex.map(lambda j: _tlc_job(*j), jobs))
    out = []
    for job, res in zip(jobs, results):
        U, T, fail = _account(ctx, job, res)
        if fail is not None and fail[0] == "EquivImpliesZero":
            # outside C29 (such terms differ only in index/label numbers): confirm on the real code,
            # note it, and check the other laws without this one
            report_law_failure(ctx, fail[0], [U[fail[1] - 1], U[fail[2] - 1], U[fail[3] - 1]], job[0], Keys())
            job = job[:4] + ("noeiz",) + job[5:]
            U, T, fail = _account(ctx, job, _tlc_job(*job))
        out.append((U, T, fail))
    return out


def run_model(ctx, sharing, milens, rule, big, laws):
    return run_models(ctx, [(sharing, milens, rule, big, laws)])[0]


def _account(ctx, job, res):
    sharing, milens, rule, big, laws = job[:5]
    ctx.add_tlc(res)
    what = f"Ordering slice={job[5] if len(job) > 5 else 'main'} sharing={sharing} milens={sorted(milens)} laws={laws}"
    fail = None
    if not res.ok:
        if laws and res.outcome == "invariant" and res.violated in LAWS and res.trace:
            st = tlc.parse_state(res.trace[-1][1])
            fail = (res.violated, st["a"], st["b"], st["c"])
        else:
            tlc.require_ok(res, what)
    docs = tlc.decode_prints(res)
    if not docs:
        raise MachineryError(what + ": no table printed")
    U = docs[0]["universe"]
    T = {(r["i"], r["j"]): r for r in docs[0]["table"]}
    n = len(U)
    if len(T) != n * n:
        raise MachineryError(f"{what}: table has {len(T)} rows for {n} terms")
    if fail is None and res.distinct < n * n + (n**3 if laws else 0):
        raise MachineryError(f"{what}: {res.distinct} states, expected at least {n * n + (n ** 3 if laws else 0)}")
    return U, T, fail


def law_holds(law, cmpf, equiv, a, b, c):
    """The laws of Ordering.tla, on any cmp function / equivalence (predicted table or real code)."""
    if law == "Reflexive":
        return cmpf(a, a) == 0
    if law == "Antisymmetric":
        return sign(cmpf(a, b)) == -sign(cmpf(b, a))
    if law == "Transitive":
        return not (cmpf(a, b) <= 0 and cmpf(b, c) <= 0) or cmpf(a, c) <= 0
    if law == "Total":
        return cmpf(a, b) <= 0 or cmpf(b, a) <= 0
    if law == "ZeroImpliesEquiv":
        return cmpf(a, b) != 0 or equiv(a, b)
    if law == "EquivImpliesZero":
        return not equiv(a, b) or cmpf(a, b) == 0
    if law == "EqCongruence":
        return cmpf(a, b) != 0 or cmpf(a, c) == cmpf(b, c)
    raise MachineryError(f"unknown law {law}")


def predicted_failures(U, T):
    """All failures of the laws predicted by the table (used only to choose which counterexamples to
    replay deterministically once TLC has reported that a law fails)."""
    import numpy as np

    n = len(U)
    M = np.zeros((n, n), dtype=np.int8)
    E = np.zeros((n, n), dtype=bool)
    for (i, j), r in T.items():
        M[i - 1, j - 1] = r["c"]
        E[i - 1, j - 1] = r["eq"]
    out = []
    for i in range(n):
        if M[i, i] != 0:
            out.append(("Reflexive", i + 1, i + 1, i + 1))
    S = np.sign(M)
    for i, j in zip(*np.nonzero(S != -S.T)):
        if i < j:
            out.append(("Antisymmetric", int(i) + 1, int(j) + 1, int(j) + 1))
    for i, j in zip(*np.nonzero((M == 0) & ~E)):
        if i < j:
            out.append(("ZeroImpliesEquiv", int(i) + 1, int(j) + 1, int(j) + 1))
    L = (M <= 0).astype(np.float32)
    bad = ((L @ L) > 0) & ~(M <= 0)
    seen = set()
    for i, k in zip(*np.nonzero(bad)):
        js = np.nonzero((M[i, :] <= 0) & (M[:, k] <= 0))[0]
        j = int(js[0])
        cls = tuple(sorted((U[i]["nm"], U[j]["nm"], U[int(k)]["nm"])))
        if cls in seen:
            continue
        seen.add(cls)
        out.append(("Transitive", int(i) + 1, j + 1, int(k) + 1))
    return out


def replay_terms(ctx, law, terms, sharing, keys=None):
    """Evaluate one law on the real cmp_expr for materialised spec terms.
    Returns (holds, observed dict, objs)."""
    keys = keys or Keys()
    if sharing:
        cache = {}
        objs = [materialise(t, cache) for t in terms]
    else:
        objs = [materialise(t, None) for t in terms]
    idx = {id(o): i for i, o in enumerate(objs)}

    def cmpf(x, y):
        if not sharing and x is y:
            # an unshared comparison of a term with itself compares two separate copies
            y = materialise(terms[idx[id(x)]], None)
        return real_cmp(x, y)

    def equiv(x, y):
        return keys.ekey(x) == keys.ekey(y)

    a, b, c = objs
    holds = law_holds(law, cmpf, equiv, a, b, c)
    obs = {"cmp_ab": cmpf(a, b), "cmp_ba": cmpf(b, a), "cmp_bc": cmpf(b, c), "cmp_ac": cmpf(a, c), "equiv_ab": equiv(a, b)}
    return holds, obs, objs


def report_law_failure(ctx, law, terms, sharing, keys):
    """A law fails on the as-coded model for `terms`: replay on the real code."""
    holds, obs, objs = replay_terms(ctx, law, terms, sharing, keys)
    ctx.evaluated()
    names = [show(t) for t in terms]
    if holds:
        raise MachineryError(f"as-coded model predicts that {law} fails for {names} (sharing={sharing}) but the real cmp_expr satisfies it ({obs}): transcription is wrong")
    if law == "EquivImpliesZero":
        # outside C29: such operands differ only in index/label numbers
        ctx.count("numbering_dependent_order_observed")
        print(f"  note: cmp_expr orders terms that differ only in index/label numbers: {names[:2]} {obs}", flush=True)
        return None
    # the pair that is not separated (if any) names the branch
    branch = None
    for x, y in itertools.combinations(range(3), 2):
        if real_cmp(objs[x], objs[y]) == 0 and keys.ekey(objs[x]) != keys.ekey(objs[y]):
            branch = classify(objs[x], objs[y], keys)
            break
    if branch is None and any(length_tie(objs[x], objs[y]) for x, y in itertools.permutations(range(3), 2)):
        branch = "multiindex-length"
    if branch is None:
        branch = "+".join(sorted({t["nm"].lower() for t in terms}))
    fp = f"C29:{LAW_OBS[law]}:{branch}"
    what = f"cmp_expr violates {law} on {names[0]}, {names[1]}, {names[2]}: {obs}"
    ctx.violation(fp, what, {"mode": "terms-law", "law": law, "terms": terms, "sharing": sharing, "fingerprint": fp})
    return branch


# =============================================================================================
# (a) + (b)
# =============================================================================================


def probe_repr_rule():
    """Which transcription of _cmp_terminal_by_repr matches the code under test: plain string
    comparison of the reprs (pinned tree) or natural order (embedded numbers by value)."""
    from ufl.sorting import _cmp_terminal_by_repr

    class _R:
        def __init__(self, r):
            self.r = r

        def __repr__(self):
            return self.r

    return "natural" if _cmp_terminal_by_repr(_R("c(9)"), _R("c(10)")) < 0 else "string"


def probe_rule():
    """Which transcription of _cmp_multi_index does the code under test implement?"""
    from ufl.core.multiindex import FixedIndex, MultiIndex

    m0 = MultiIndex((FixedIndex(0),))
    m1 = MultiIndex((FixedIndex(1),))
    m01 = MultiIndex((FixedIndex(0), FixedIndex(1)))
    m00 = MultiIndex((FixedIndex(0), FixedIndex(0)))
    if real_cmp(m0, m01) == 0:
        return "ignore"
    return "after" if real_cmp(m1, m00) > 0 else "before"


def conform(ctx, U, T, sharing, keys, corrupt=None):
    """Every ordered pair: real sign == predicted sign; Equiv == erased-structure equality.
    Returns number of mismatches (raises MachineryError unless corrupt is set)."""
    n = len(U)
    if sharing == "per-term":
        # sub-objects shared WITHIN each term only: the same object occurs several times on one side and faces
        # equal but not identical objects on the other (the equal_pairs cache is keyed by pairs of objects)
        A = [materialise(t, {}) for t in U]
        B = [materialise(t, {}) for t in U]
    elif sharing:
        cache = {}
        A = [materialise(t, cache) for t in U]
        B = A
    else:
        A = [materialise(t, None) for t in U]
        B = [materialise(t, None) for t in U]
    bad = []
    for i in range(n):
        for j in range(n):
            row = T[(i + 1, j + 1)]
            want = row["c"]
            if corrupt == (i + 1, j + 1):
                want = 1 if want <= 0 else -1
            got = real_cmp(A[i], B[j])
            ctx.evaluated()
            ctx.traces(1)
            if i != j:
                ctx.distinct(f"conf|{sharing if isinstance(sharing, str) else int(sharing)}|{show(U[i])}|{show(U[j])}")
            if got != want:
                bad.append((i, j, want, got, row["br"]))
            eqr = keys.ekey(A[i]) == keys.ekey(B[j])
            if eqr != row["eq"]:
                raise MachineryError(f"Equiv mismatch for {show(U[i])} / {show(U[j])}: spec {row['eq']} harness filter {eqr}")
    if corrupt is not None:
        return len(bad)
    if bad:
        # the code no longer follows the transcription: is what it computes still a total order on structure?
        G = [[real_cmp(A[i], B[j]) for j in range(n)] for i in range(n)]
        E = [[T[(i + 1, j + 1)]["eq"] for j in range(n)] for i in range(n)]
        sgn = lambda v: (v > 0) - (v < 0)  # noqa: E731
        broken = wit = None
        for i in range(n):
            for j in range(n):
                if (G[i][j] == 0) != E[i][j]:
                    broken = ("tie-vs-equality", f"cmp_expr({show(U[i])}, {show(U[j])}) = {G[i][j]} but the expressions are {'equal' if E[i][j] else 'different'}")
                    wit = ("EquivImpliesZero" if E[i][j] else "ZeroImpliesEquiv", i, j, j)
                elif sgn(G[i][j]) != -sgn(G[j][i]):
                    broken = ("antisymmetry", f"cmp_expr({show(U[i])}, {show(U[j])}) = {G[i][j]} and the reverse = {G[j][i]}")
                    wit = ("Antisymmetric", i, j, j)
                if broken:
                    break
            if broken:
                break
        if not broken:
            for i in range(n):
                for j in range(n):
                    if G[i][j] >= 0:
                        continue
                    for k in range(n):
                        if G[j][k] < 0 and not G[i][k] < 0:
                            broken = ("transitivity", f"{show(U[i])} < {show(U[j])} < {show(U[k])} but cmp_expr(first, third) = {G[i][k]}")
                            wit = ("Transitive", i, j, k)
                            break
                    if broken:
                        break
                if broken:
                    break
        if broken:
            i, j, want, got, br = bad[0]
            ctx.violation(f"C29:real-order:{broken[0]}", f"cmp_expr is not a total order consistent with equality: {broken[1]} ({len(bad)} of {n * n} pairs differ from Ordering.tla, sharing={sharing})",
                          {"mode": "terms-law", "law": wit[0], "terms": [U[wit[1]], U[wit[2]], U[wit[3]]], "sharing": sharing is True,
                           "kind": "real-order", "detail": broken[1], "fingerprint": f"C29:real-order:{broken[0]}"})
            return len(bad)
        i, j, want, got, br = bad[0]
        raise MachineryError(
            f"conformance: {len(bad)} of {n * n} pairs differ (sharing={sharing}); first: cmp_expr({show(U[i])}, {show(U[j])}) = {got}, "
            f"Ordering.tla predicts {want} via branch {br}: the transcription does not match the code under test"
        )
    return 0


def branch_coverage(U, T, sharing):
    seen = {r["br"] for r in T.values()}
    labels = [i + 1 for i, t in enumerate(U) if t["k"] == "label"]
    if not any(i != j and T[(i, j)]["c"] == 0 for i in labels for j in labels):
        raise MachineryError("vacuous universe: _cmp_label never ties two different labels")
    need = {"typecode", "multiindex", "argument", "coefficient", "repr", "noperands", "exhausted"}
    if sharing:
        need |= {"identical"}
    if need - seen:
        raise MachineryError(f"vacuous universe: cmp_expr branches never decisive: {sorted(need - seen)}")
    # label comparator is reached only as a tie (returns 0): it shows up as equal pairs of labels
    if sharing and not any(r["neq"] > 0 for r in T.values()):
        raise MachineryError("vacuous universe: the equal_pairs shortcut is never taken")
    if sharing and not any(r["nid"] > 0 for r in T.values()):
        raise MachineryError("vacuous universe: the `r is s` shortcut is never taken")


def repr_coverage(U, T, rrule):
    """Slice "repr": every way _cmp_terminal_by_repr decides must be decisive for some pair."""
    seen = {r["br"] for r in T.values()}
    need = {"repr", "typecode"} | ({"repr-tie"} if rrule == "natural" else set())
    if need - seen:
        raise MachineryError(f"vacuous repr slice: branches never decisive: {sorted(need - seen)}")
    lit = [i + 1 for i, t in enumerate(U) if t["k"] in ("float", "floate", "cplx", "int")]
    # some class of >= 3 reprs shares one natural key (transitivity inside a tie class)
    if rrule == "natural":
        ties = {}
        for i in lit:
            ties[i] = [j for j in lit if j != i and T[(i, j)]["br"] == "repr-tie"]
        if not any(len(v) >= 2 for v in ties.values()):
            raise MachineryError("vacuous repr slice: no three reprs share one natural key")
    ops = [i + 1 for i, t in enumerate(U) if t["k"] == "op"]
    deep = "repr-tie" if rrule == "natural" else "repr"
    if not any(T[(i, j)]["br"] == deep for i in ops for j in ops):
        raise MachineryError("vacuous repr slice: no pair of operators is decided by the reprs of nested literals")


def replay_predicted(ctx, U, T, sharing, keys, first):
    """TLC reported that a law fails on the as-coded model.  Replay TLC's counterexample and, for a
    deterministic report, the smallest predicted counterexamples of every (law, branch) class."""
    law, a, b, c = first
    print(f"  TLC: law {law} fails on the as-coded model for ({show(U[a - 1])}, {show(U[b - 1])}, {show(U[c - 1])}) sharing={sharing}", flush=True)
    tab = lambda x, y: T[(x, y)]["c"]  # noqa: E731
    teq = lambda x, y: T[(x, y)]["eq"]  # noqa: E731
    if law_holds(law, tab, teq, a, b, c):
        raise MachineryError("TLC counterexample does not fail the law on the printed table")
    quiet = _Quiet(ctx, {})
    branches = {report_law_failure(quiet, law, [U[a - 1], U[b - 1], U[c - 1]], sharing, keys)}
    fails = predicted_failures(U, T)
    ctx.count("model_counterexamples_replayed_on_real_code", 1 + len(fails))
    for law2, x, y, z in fails:
        branches.add(report_law_failure(quiet, law2, [U[x - 1], U[y - 1], U[z - 1]], sharing, keys))
    for fp, cases in sorted(quiet.store.items()):
        cases.sort(key=lambda cse: len(json.dumps(cse[2])))
        for fp_, what, rep in cases[:2]:
            ctx.violation(fp_, what, rep)
        ctx.count("violations_not_listed_individually", max(0, len(cases) - 2))
    branches.discard(None)
    return branches


def model_part(ctx, keys):
    rule = probe_rule()
    ctx.cov["multiindex_transcription"] = rule
    big = ctx.tier == "thorough"
    full = (1, 2)
    ctx.cov["model_triples"] = 0
    rrule = probe_repr_rule()
    ctx.cov["repr_transcription"] = rrule
    # the repr slice is modelled without sharing: every pair of terminals reaches its comparator (with sharing the
    # `is` shortcuts answer for equal literals; those shortcuts are the main slice's subject)
    (U, T, fail), (U2, T2, _), ru = run_models(ctx, [(True, full, rule, big, True), (False, full, rule, big, False), (False, full, rule, big, True, "repr")])
    branch_coverage(U, T, True)
    branch_coverage(U2, T2, False)
    ctx.cov["universe_terms"] = len(U)
    if U != U2:
        raise MachineryError("universe differs between the two sharing modes")
    differ = [k for k in T if T[k]["c"] != T2[k]["c"] or T[k]["eq"] != T2[k]["eq"]]
    ctx.cov["table_entries_depending_on_sharing"] = len(differ)
    tables = {True: (U, T, fail), False: (U2, T2, None)}
    if fail is None:
        ctx.cov["model_triples"] += len(U) ** 3
        if predicted_failures(U, T):
            raise MachineryError("TLC accepted the laws but the printed table contains a failure")
    if differ:
        # the laws are statements about the table: re-run them only if the unshared table differs
        tables[False] = run_model(ctx, False, full, rule, big, True)
        if tables[False][2] is None:
            ctx.cov["model_triples"] += len(U) ** 3

    # ---- (a) law failures of the as-coded model are replayed on the real code ----
    for sharing in (True, False):
        Um, Tm, fm = tables[sharing]
        if fm is None:
            continue
        branches = replay_predicted(ctx, Um, Tm, sharing, keys, fm)
        # TLC stopped at the law failure: complete the verification of the loop itself, and check
        # the remaining laws with the defect masked (universes with multi-indices of one length)
        jobs = [(sharing, full, rule, big, False)]
        if branches == {"multiindex-length"}:
            jobs += [(sharing, (1,), rule, big, True), (sharing, (2,), rule, big, True)]
        elif branches:
            ctx.count("laws_not_rechecked_after_unmasked_failure")
        done = run_models(ctx, jobs)
        U1, T1, _ = done[0]
        if U1 != Um or any(T1[k]["c"] != Tm[k]["c"] for k in Tm):
            raise MachineryError("table differs between two runs of the same configuration")
        for Ur, Tr, f2 in done[1:]:
            if f2 is not None:
                replay_predicted(ctx, Ur, Tr, sharing, keys, f2)
            else:
                ctx.cov["model_triples"] += len(Ur) ** 3
            conform(ctx, Ur, Tr, sharing, keys)

    # ---- slice "repr": laws on the as-coded model, then conformance like the main slice ----
    deferred = []

    def bound(Ux, Tx, sharing):
        # a deviation from the transcription that breaks no law on these terms is a MachineryError, but only
        # after the other slices / sharing modes had their chance to show that the real order is broken
        try:
            conform(ctx, Ux, Tx, sharing, keys)
        except MachineryError as ex:
            deferred.append(ex)

    Ur, Tr, fr = ru
    ctx.cov["repr_slice_terms"] = len(Ur)
    repr_coverage(Ur, Tr, rrule)
    if fr is not None:
        replay_predicted(ctx, Ur, Tr, False, keys, fr)
        ctx.count("laws_not_rechecked_after_unmasked_failure")
    else:
        ctx.cov["model_triples"] += len(Ur) ** 3
        if predicted_failures(Ur, Tr):
            raise MachineryError("TLC accepted the laws on the repr slice but the printed table contains a failure")
    for sharing in (False, "per-term", True):  # the sign does not depend on which sub-objects are shared
        bound(Ur, Tr, sharing)

    # ---- (b) conformance ----
    for sharing in (True, False):
        Um, Tm, _ = tables[sharing]
        bound(Um, Tm, sharing)
    Um, Tm, _ = tables[False]  # the sign does not depend on which sub-objects are shared
    bound(Um, Tm, "per-term")
    if deferred:
        if not ctx.n_viol:
            raise deferred[0]
        ctx.count("conformance_deviations_without_law_failure", len(deferred))
    i, j = 1, 2
    ctx.sample({"kind": "model-pair", "a": show(U[i - 1]), "b": show(U[j - 1]), "predicted_cmp": T[(i, j)]["c"], "branch": T[(i, j)]["br"]})
    return tables


# =============================================================================================
# (c) operand pool of real expressions: recipes (JSON) -> ufl
# =============================================================================================

UNARY = ["sin", "cos", "exp", "sqrt", "abs", "neg", "pos", "minus", "conj", "real", "sq", "half", "twice", "grad", "div", "dx0", "T", "tr"]
BINARY = ["add", "sub", "mul", "div", "inner", "dot", "outer", "max", "min"]


def build(r):
    """Recipe -> ufl expression (public constructors; may raise for ill-typed recipes)."""
    import ufl
    import ufl.classes as C

    e = env()
    k = r[0]
    if k == "coef":
        return C.Coefficient(e.fs(0, tuple(r[2])), count=r[1])
    if k == "const":
        return C.Constant(e.mesh[0], tuple(r[2]), count=r[1])
    if k == "arg":
        return C.Argument(e.fs(0, tuple(r[2])), r[1])
    if k == "lit":
        return ufl.as_ufl(r[1])
    if k == "zero":
        return C.Zero(tuple(r[1]))
    if k == "geo":
        return getattr(C, r[1])(e.mesh[0])
    if k == "id":
        return C.Identity(2)
    if k == "ix":
        x = build(r[1])
        return x[tuple(e.idx[i] if isinstance(i, str) else i for i in r[2])]
    if k == "tens":
        return ufl.as_tensor(build(r[1]), tuple(e.idx[i] for i in r[2]))
    if k == "var":
        return C.Variable(build(r[1]), C.Label(r[2]))
    if k == "un":
        x = build(r[2])
        n = r[1]
        if n in ("sin", "cos", "exp", "sqrt", "conj", "real", "grad", "div", "tr"):
            return getattr(ufl, n)(x)
        if n == "abs":
            return abs(x)
        if n == "neg":
            return -x
        if n == "pos":
            return x("+")
        if n == "minus":
            return x("-")
        if n == "sq":
            return x**2
        if n == "half":
            return x / 2
        if n == "twice":
            return 2 * x
        if n == "dx0":
            return x.dx(0)
        if n == "T":
            return x.T
        raise MachineryError(f"unknown unary {n}")
    if k == "bin":
        x, y = build(r[2]), build(r[3])
        n = r[1]
        if n == "add":
            return x + y
        if n == "sub":
            return x - y
        if n == "mul":
            return x * y
        if n == "div":
            return x / y
        if n in ("inner", "dot", "outer"):
            return getattr(ufl, n)(x, y)
        if n == "max":
            return ufl.max_value(x, y)
        if n == "min":
            return ufl.min_value(x, y)
        raise MachineryError(f"unknown binary {n}")
    if k == "cond":
        a, b, c, d = (build(x) for x in r[2:6])
        return ufl.conditional(getattr(ufl, r[1])(a, b), c, d)
    raise MachineryError(f"unknown recipe {r!r}")


ATOMS = [
    ["coef", 3, []], ["coef", 12, []], ["const", 7, []], ["const", 10, []],
    ["lit", 2], ["lit", 10], ["lit", -1], ["lit", 2.5], ["zero", []],
    ["geo", "CellVolume"], ["geo", "Circumradius"], ["arg", 0, []],
    ["coef", 60, [2]], ["coef", 61, [2]], ["const", 8, [2]], ["geo", "SpatialCoordinate"], ["geo", "FacetNormal"],
    ["zero", [2]], ["arg", 1, [2]],
    ["coef", 20, [2, 2]], ["coef", 21, [2, 2]], ["id"], ["zero", [2, 2]],
    # literals whose reprs differ only in the zero padding of a digit run (one natural key, see Ordering.tla slice "repr")
    ["lit", 1.5], ["lit", 1.05],
]  # fmt: skip

IX1 = [[0], [1], ["i"], ["j"]]
IX2 = [[0, 1], [0, 0], [1, 0], ["i", "j"], ["j", "i"], ["i", 0], [0, "i"], ["i", "i"], ["k", "l"]]


def targeted():
    """Multi-index heavy family: as_tensor with partial index binding, then indexed."""
    w, w2, t = ["coef", 60, [2]], ["coef", 61, [2]], ["coef", 20, [2, 2]]
    m = ["bin", "mul", ["ix", w, ["i"]], ["ix", w2, ["j"]]]
    s = ["un", "sin", ["ix", t, ["i", "j"]]]
    out = []
    for base in (m, s):
        a1, a2, a3 = ["tens", base, ["i"]], ["tens", base, ["i", "j"]], ["tens", base, ["j", "i"]]
        out += [a1, a2, a3]
        out += [["ix", a1, [0]], ["ix", a1, [1]], ["ix", a1, ["k"]]]
        for x in (a2, a3):
            out += [["ix", x, [0, "j"]], ["ix", x, [0, 1]], ["ix", x, [0, 0]], ["ix", x, [1, "j"]], ["ix", x, ["k", "j"]]]
    return out


def targeted_literals():
    """Operands that differ only in a literal whose repr differs only in the zero padding of a digit run (the natural
    keys of _cmp_terminal_by_repr tie), at the top and nested in otherwise identical products / quotients."""
    f, g = ["coef", 3, []], ["coef", 12, []]
    out = []
    for v in (1.5, 1.05, 1.005, 2.25, 2.025):
        lit = ["lit", v]
        out += [["bin", "mul", lit, f], ["bin", "mul", f, ["bin", "mul", lit, g]], ["bin", "div", f, lit], ["bin", "max", f, lit]]
    return out


class Pool:
    def __init__(self, keys):
        self.keys = keys
        self.items = []  # dicts: r (recipe), e (expr), sh, fi, depth
        self._seen = {}

    def family(self, r):
        """Add a recipe of a targeted family (or find the equal expression already in the pool) and mark it: all
        compatible pairs of marked items are tested, whatever the sampling budget."""
        it = self.add(r, 4)
        if it is None:
            e, _ = _try(lambda: build(r))
            it = self._seen.get(self.keys.skey(e)) if e is not None else None
        if it is not None:
            it["fam"] = True

    def add(self, r, depth):
        try:
            e = build(r)
            sh = e.ufl_shape
            fi = tuple(zip(e.ufl_free_indices, e.ufl_index_dimensions))
        except MachineryError:
            raise
        except Exception:  # noqa: BLE001  ill-typed recipe: ufl refused it
            return None
        k = self.keys.skey(e)
        if k in self._seen:
            return None
        it = {"r": r, "e": e, "sh": sh, "fi": fi, "depth": depth}
        self._seen[k] = it
        self.items.append(it)
        return it


def wrappers(it):
    """All unary / indexing / as_tensor / variable wrappers of one pool item (recipes)."""
    r = it["r"]
    out = [["un", n, r] for n in UNARY]
    if len(it["sh"]) == 1:
        out += [["ix", r, ix] for ix in IX1]
    if len(it["sh"]) == 2:
        out += [["ix", r, ix] for ix in IX2]
    if not it["fi"]:
        out += [["var", r, 10**9 + 1], ["var", r, 10**9 + 2]]
    names = {env().idx[n].count(): n for n in "ijkl"}
    fin = [names[c] for c, _ in it["fi"] if c in names]
    if it["sh"] == () and fin:
        for k in range(1, len(fin) + 1):
            out += [["tens", r, list(perm)] for perm in itertools.permutations(fin, k)]
    return out


def make_pool(ctx, keys):
    rng = random.Random(1000003 * ctx.seed + (1 if ctx.tier == "quick" else 2))
    quick = ctx.tier == "quick"
    pool = Pool(keys)
    for r in ATOMS:
        pool.add(r, 1)

    def grow(src, allsrc, cap_wrap, cap_rand):
        cands = [(w, it["depth"] + 1) for it in src for w in wrappers(it)]
        rng.shuffle(cands)
        added = 0
        for r, d in cands:
            if added >= cap_wrap:
                break
            if pool.add(r, d) is not None:
                added += 1
        added = tries = 0
        while added < cap_rand and tries < 30 * cap_rand:
            tries += 1
            a, b = rng.choice(allsrc), rng.choice(allsrc)
            w = rng.random()
            if w < 0.85:
                r, d = ["bin", rng.choice(BINARY), a["r"], b["r"]], 1 + max(a["depth"], b["depth"])
            else:
                c, e = rng.choice(allsrc), rng.choice(allsrc)
                r = ["cond", rng.choice(["lt", "gt", "le", "ge", "eq", "ne"]), a["r"], b["r"], c["r"], e["r"]]
                d = 1 + max(x["depth"] for x in (a, b, c, e))
            if d <= 3 and pool.add(r, d) is not None:
                added += 1

    l0 = list(pool.items)
    grow(l0, l0, 10**9 if not quick else 160, 120 if quick else 500)
    l01 = list(pool.items)
    l1 = [it for it in l01 if it["depth"] == 2]
    grow(l1 if not quick else rng.sample(l1, min(len(l1), 50)), l01, 150 if quick else 900, 150 if quick else 700)
    for r in targeted() + targeted_literals():
        pool.family(r)
    return pool


def cmp_matrix(ctx, pool):
    import numpy as np

    n = len(pool.items)
    M = np.zeros((n, n), dtype=np.int8)
    es = [it["e"] for it in pool.items]
    for i in range(n):
        a = es[i]
        row = M[i]
        for j in range(n):
            row[j] = real_cmp(a, es[j])
    ctx.evaluated(n * n)
    return M


def check_cmp_laws_real(ctx, pool, M, keys, cmp_override=None):
    """Antisymmetry on all ordered pairs, transitivity on ALL triples (boolean matrix closure),
    cmp = 0 only for expressions equal modulo index/label numbers, reflexivity on rebuilt copies."""
    import numpy as np

    items = pool.items
    n = len(items)
    found = 0
    ek = np.array([keys.ekey(it["e"]) for it in items])
    E = ek[:, None] == ek[None, :]
    S = np.sign(M)
    # -- antisymmetry
    asym = {}
    for i, j in zip(*np.nonzero(S != -S.T)):
        if i < j:
            a, b = items[int(i)], items[int(j)]
            fp = f"C29:cmp-not-antisymmetric:{type(a['e']).__name__.lower()}+{type(b['e']).__name__.lower()}"
            asym.setdefault(fp, []).append((int(i), int(j)))
    for fp, prs in sorted(asym.items()):  # the 2 smallest inputs per class are listed
        prs.sort(key=lambda p: len(repr(items[p[0]]["r"])) + len(repr(items[p[1]]["r"])))
        ctx.count("real_pairs_not_antisymmetric", len(prs))
        for i, j in prs[:2]:
            a, b = items[i], items[j]
            ctx.violation(fp, f"cmp_expr(a,b)={M[i, j]} but cmp_expr(b,a)={M[j, i]} for a={a['e']}, b={b['e']}", {"mode": "antisym", "a": a["r"], "b": b["r"], "fingerprint": fp})
            found += 1
    # -- cmp = 0 on distinguishable operands
    zero_distinct = {}
    for i, j in zip(*np.nonzero((M == 0) & ~E)):
        if i < j:
            a, b = items[int(i)], items[int(j)]
            br = classify(a["e"], b["e"], keys)
            zero_distinct.setdefault(br, []).append((int(i), int(j)))
    for br, prs in sorted(zero_distinct.items()):
        prs.sort(key=lambda p: len(repr(items[p[0]]["r"])) + len(repr(items[p[1]]["r"])))
        ctx.count("real_pairs_cmp_zero_on_distinct", len(prs))
        fp = f"C29:cmp-zero-on-distinct:{br}"
        for i, j in prs[:3]:
            a, b = items[i], items[j]
            ctx.violation(fp, f"cmp_expr(a,b)=0 for distinguishable a={a['e']}, b={b['e']}", {"mode": "cmp0", "a": a["r"], "b": b["r"], "fingerprint": fp})
            found += 1
    # numbering-dependent order (outside C29): counted only
    ctx.count("real_pairs_ordered_although_equal_modulo_numbering", int(np.count_nonzero((M != 0) & E)) // 2)
    # -- transitivity over all triples
    Lb = M <= 0
    L = Lb.astype(np.float32)
    bad = ((L @ L) > 0) & ~Lb
    ctx.count("real_triples_checked_by_closure", n**3)
    seen = set()
    for i, k in zip(*np.nonzero(bad)):
        js = np.nonzero(Lb[i, :] & Lb[:, k])[0]
        j = int(js[0])
        i, k = int(i), int(k)
        br = None
        for x, y in ((i, j), (j, k), (i, k)):
            if M[x, y] == 0 and not E[x, y]:
                br = classify(items[x]["e"], items[y]["e"], keys)
                break
        if br is None and any(length_tie(items[x]["e"], items[y]["e"]) for x, y in ((i, j), (j, k), (i, k))):
            br = "multiindex-length"
        if br is None:
            br = "+".join(sorted({type(items[x]["e"]).__name__.lower() for x in (i, j, k)}))
        ctx.count("real_triples_not_transitive")
        if br in seen:
            continue
        seen.add(br)
        fp = f"C29:cmp-not-transitive:{br}"
        a, b, c = items[i], items[j], items[k]
        ctx.violation(
            fp,
            f"cmp_expr: a<=b ({M[i, j]}), b<=c ({M[j, k]}) but a>c ({M[i, k]}) for a={a['e']}, b={b['e']}, c={c['e']}",
            {"mode": "triple", "a": a["r"], "b": b["r"], "c": c["r"], "fingerprint": fp},
        )
        found += 1
    return found


def check_reflexive_copies(ctx, pool):
    for it in pool.items:
        e2 = build(it["r"])
        ctx.evaluated()
        c1, c2 = real_cmp(it["e"], e2), real_cmp(e2, it["e"])
        if c1 != 0 or c2 != 0:
            fp = f"C29:cmp-not-reflexive:{type(it['e']).__name__.lower()}"
            ctx.violation(fp, f"cmp_expr(e, copy of e) = {c1}/{c2} for e={it['e']}", {"mode": "reflexive", "a": it["r"], "fingerprint": fp})


def _short(e, n=240):
    t = str(e)
    return t if len(t) <= n else t[:n] + "..."


def _try(f):
    try:
        return f(), None
    except MachineryError:
        raise
    except Exception as ex:  # noqa: BLE001
        return None, type(ex).__name__


def commut_case(ctx, op, a, b, keys, cmpab=None, swap_bug=False):
    """One commutativity requirement on real objects.  Returns 'ok' / 'skip' / 'numbering' / 'viol'."""
    import ufl
    from ufl.algorithms.remove_complex_nodes import remove_complex_nodes
    from ufl.classes import Conj, Inner, Zero

    A, B = a["e"], b["e"]
    if op == "sum":
        f = lambda x, y: x + y  # noqa: E731
    elif op in ("product", "scale"):
        f = lambda x, y: x * y  # noqa: E731
    else:
        f = ufl.inner
    lhs, el = _try(lambda: f(A, B))
    rhs, er = _try(lambda: f(B, A))
    if swap_bug:  # selftest: pretend the constructor kept the order it was given
        from ufl.classes import Sum

        if isinstance(rhs, Sum):
            rhs._init(*reversed(rhs.ufl_operands))
    if el and er:
        return "skip"
    obs = op if op != "scale" else "product"
    rep = {"mode": "pair", "op": op, "a": a["r"], "b": b["r"]}

    def fail(kind, text):
        c = real_cmp(A, B) if cmpab is None else cmpab
        if c == 0 and keys.ekey(A) != keys.ekey(B):
            fp = f"C29:cmp-zero-on-distinct:{classify(A, B, keys)}"
        else:
            fp = f"C29:{obs}-order-dependent:{kind}"
        rep["fingerprint"] = fp
        ctx.violation(fp, f"{op}: {text}; a={A}, b={B}, cmp_expr(a,b)={c}", rep)
        return "viol"

    if el or er:
        return fail("raises-one-way", f"one order raises ({el or er}), the other does not")
    if op != "inner":
        if not same_structure(lhs, rhs):
            return fail("structure", f"{_short(lhs)}  !=  {_short(rhs)}")
        return "ok"
    # inner(a, b) = conj(inner(b, a)); in real mode conj is the identity
    rl, e1 = _try(lambda: remove_complex_nodes(lhs))
    rr, e2 = _try(lambda: remove_complex_nodes(rhs))
    if e1 or e2:
        return "skip"
    # the real-mode products are built from the operands without their complex nodes: the premise of the property
    # (distinguishable without index / label numbers) must hold for THOSE (I[j,i] and Re(I)[i,j] become renumberings)
    for it in (a, b):
        if "rk" not in it:
            rx, ex = _try(lambda: remove_complex_nodes(it["e"]))
            it["rk"] = None if ex else keys.ekey(rx)
    if a["rk"] is None or b["rk"] is None:
        return "skip"
    if a["rk"] == b["rk"]:
        return "numbering"
    if not same_structure(rl, rr):
        return fail("real-mode", f"real mode: {_short(rl)}  !=  {_short(rr)}")
    if A.ufl_shape != () and not isinstance(lhs, Zero) and not isinstance(rhs, Zero):
        x, y = (lhs, rhs) if isinstance(lhs, Inner) else (rhs, lhs)
        if not (isinstance(x, Inner) and isinstance(y, Conj) and same_structure(y.ufl_operands[0], x)):
            return fail("conj-relation", f"expected one Inner node N and Conj(N): {_short(lhs)} / {_short(rhs)}")
    return "ok"


def property_part(ctx, keys, swap_bug=False):
    pool = make_pool(ctx, keys)
    items = pool.items
    n = len(items)
    ctx.cov["pool_size"] = n
    ctx.cov["pool_by_depth"] = {str(d): sum(1 for it in items if it["depth"] == d) for d in sorted({it["depth"] for it in items})}
    M = cmp_matrix(ctx, pool)
    check_cmp_laws_real(ctx, pool, M, keys)
    check_reflexive_copies(ctx, pool)
    ek = [keys.ekey(it["e"]) for it in items]
    rng = random.Random(7 + ctx.seed)
    budget = 60000 if ctx.tier == "quick" else 900000
    scal = [i for i, it in enumerate(items) if it["sh"] == ()]
    tens = [i for i, it in enumerate(items) if it["sh"] != ()]
    groups = {}
    for i, it in enumerate(items):
        groups.setdefault((it["sh"], it["fi"]), []).append(i)
    plans = {
        "sum": [(i, j) for g in groups.values() for i, j in itertools.combinations(g, 2)],
        "product": list(itertools.combinations(scal, 2)),
        "scale": [(i, j) for i in scal for j in tens],
        "inner": [(i, j) for i, j in itertools.combinations(range(n), 2) if items[i]["sh"] == items[j]["sh"]],
    }
    stats = {}
    for op, prs in plans.items():
        share = {"sum": 0.3, "product": 0.35, "scale": 0.15, "inner": 0.2}[op]
        lim = int(budget * share)
        total = len(prs)
        if total > lim:
            fam = [(i, j) for i, j in prs if items[i].get("fam") and items[j].get("fam")]
            prs = rng.sample(prs, lim)
            have = set(prs)
            prs += [q for q in fam if q not in have]
        st = {"candidate_pairs": total, "sampled_pairs": len(prs), "tested": 0, "excluded_numbering_only": 0, "skipped_both_orders_invalid": 0, "violations": 0}
        viol_fp = {}
        for i, j in prs:
            a, b = items[i], items[j]
            if ek[i] == ek[j]:
                # differ only in Index / Label numbers (the pool holds structurally distinct expressions)
                st["excluded_numbering_only"] += 1
                continue
            r = commut_case(_Quiet(ctx, viol_fp), op, a, b, keys, int(M[i, j]), swap_bug=swap_bug)
            if r == "skip":
                st["skipped_both_orders_invalid"] += 1
                continue
            if r == "numbering":
                st["excluded_numbering_only"] += 1
                continue
            st["tested"] += 1
            ctx.evaluated()
            ctx.distinct(f"{op}|{keys.skey(a['e'])}|{keys.skey(b['e'])}")
            if r == "viol":
                st["violations"] += 1
        # report: the 3 smallest failing inputs per fingerprint
        for fp, cases in sorted(viol_fp.items()):
            cases.sort(key=lambda c: len(json.dumps(c[2])))
            for fp_, what, rep in cases[:3]:
                ctx.violation(fp_, what, rep)
        stats[op] = st
        if st["tested"] == 0:
            raise MachineryError(f"vacuous: no {op} pair was tested")
    ctx.cov["commutativity"] = stats
    ctx.cov["excluded_numbering_only_pairs"] = sum(s["excluded_numbering_only"] for s in stats.values())
    for it in (items[len(ATOMS) + 5], items[-1]):
        ctx.sample({"kind": "pool-expression", "recipe": it["r"], "str": str(it["e"])})
    a, b = items[scal[3]], items[scal[-1]]
    ctx.sample({"kind": "product-pair", "a": str(a["e"]), "b": str(b["e"]), "a*b": str(a["e"] * b["e"])})
    return pool, M


class _Quiet:
    """Collects violations of one plan so that the smallest inputs are the ones reported."""

    def __init__(self, ctx, store):
        self.ctx, self.store = ctx, store

    def violation(self, fp, what, rep, detail=None):
        self.store.setdefault(fp, []).append((fp, what, rep))

    def __getattr__(self, name):
        return getattr(self.ctx, name)


# =============================================================================================
# run / replay / selftest
# =============================================================================================


def run(ctx, args):
    if getattr(args, "selftest", False):
        return selftest(ctx)
    keys = Keys()
    ctx.rule = (
        "model: TLC runs the cmp_expr loop for every ordered pair of the term universe of Ordering.tla (terminals of every "
        "comparator branch, operators with 0-2 operands, depth <= 2 plus three depth-3 terms; second slice: float / complex / "
        "integer literals whose reprs tie or differ in every way _cmp_terminal_by_repr distinguishes, e.g. 1.5 / 1.05 / 1.005, and "
        "operators over them) and checks the order laws on every triple; every ordered pair is replayed on the real cmp_expr with shared and unshared sub-objects. real objects: pool = 25 "
        "atoms, all unary/indexing/as_tensor/variable wrappers of them, seeded-random binary/conditional combinations up to depth 3, "
        "plus targeted families whose compatible pairs are all tested (as_tensor with partial index binding, then indexed; operands "
        "that differ only in a literal 1.5 / 1.05 / 1.005, 2.25 / 2.025); full cmp matrix (antisymmetry on all ordered "
        "pairs, transitivity on all triples by boolean closure, cmp=0 only modulo numbering); a+b, a*b (scalar, index notation, "
        "scalar*tensor) and inner on all/sampled compatible pairs. A case is non-trivial when the two operands are structurally "
        "distinct and not merely renumberings of each other (distinct = set of (operation, operand structures))."
    )
    ctx.assume("Ordering.tla transcribes cmp_expr; the transcription is bound to the code by sign-conformance on every ordered pair of the universe")
    ctx.assume("counted terminals compared by count/number are told apart by them: no two distinct Coefficients with one count, no two distinct Arguments with one (number, part), parts all None or all int (ufl assigns counts uniquely; mixing None/int parts makes python raise TypeError)")
    ctx.assume("structural equality = ufl's == ; for scalar*tensor products the fresh indices made by the constructor are compared up to renaming (operand order is kept by that comparison)")
    ctx.assume("terminal __repr__ identifies the terminal (used by the numbering-erasing filter for terminals other than MultiIndex, Label, Zero)")
    model_part(ctx, keys)
    property_part(ctx, keys)


def replay(ctx, doc):
    r = doc["replay"]
    keys = Keys()
    mode = r["mode"]
    fp = r.get("fingerprint") or doc.get("fingerprint")
    if mode == "terms-law":
        holds, obs, _ = replay_terms(ctx, r["law"], r["terms"], r["sharing"], keys)
        print("replay", r["law"], [show(t) for t in r["terms"]], "holds" if holds else "FAILS", obs)
        if not holds:
            ctx.violation(fp, f"{r['law']} fails: {obs}", r)
        return
    a = {"r": r["a"], "e": build(r["a"])}
    if mode == "reflexive":
        c = real_cmp(a["e"], build(r["a"]))
        print("replay reflexive", a["e"], c)
        if c != 0:
            ctx.violation(fp, f"cmp(e, copy)={c}", r)
        return
    b = {"r": r["b"], "e": build(r["b"])}
    cab, cba = real_cmp(a["e"], b["e"]), real_cmp(b["e"], a["e"])
    if mode == "antisym":
        print("replay antisym", cab, cba)
        if cab != -cba:
            ctx.violation(fp, f"cmp(a,b)={cab}, cmp(b,a)={cba}", r)
    elif mode == "cmp0":
        dist = keys.ekey(a["e"]) != keys.ekey(b["e"])
        print("replay cmp0: a =", a["e"], " b =", b["e"], " cmp =", cab, " distinguishable =", dist)
        if cab == 0 and dist:
            ctx.violation(fp, "cmp_expr(a,b)=0 for distinguishable operands", r)
    elif mode == "triple":
        c = {"r": r["c"], "e": build(r["c"])}
        cbc, cac = real_cmp(b["e"], c["e"]), real_cmp(a["e"], c["e"])
        print("replay triple: cmp(a,b) =", cab, " cmp(b,c) =", cbc, " cmp(a,c) =", cac)
        if cab <= 0 and cbc <= 0 and cac > 0:
            ctx.violation(fp, f"not transitive: {cab},{cbc},{cac}", r)
    elif mode == "pair":
        res = commut_case(ctx, r["op"], a, b, keys)
        print("replay pair", r["op"], "a =", a["e"], " b =", b["e"], "->", res)
    else:
        raise MachineryError(f"unknown replay mode {mode}")


class _Probe:
    """Ctx stand-in for the selftest: records violations instead of reporting them."""

    def __init__(self, ctx):
        self.tier, self.seed, self.cov = ctx.tier, ctx.seed, {}
        self.v = []

    def violation(self, fp, what, rep, detail=None):
        self.v.append(fp)

    def evaluated(self, n=1):
        pass

    def traces(self, n=1):
        pass

    def distinct(self, k):
        pass

    def count(self, k, n=1):
        pass

    def sample(self, o, limit=5):
        pass

    def add_tlc(self, res):
        pass


def selftest(ctx):
    """The comparisons must reject corrupted predictions / observations."""
    keys = Keys()
    rule = probe_rule()
    U, T, _ = run_model(ctx, True, (1, 2), rule, False, False)
    # 1. a corrupted predicted table entry must be rejected by the conformance comparison
    p = _Probe(ctx)
    target = next(k for k, r in T.items() if r["br"] == "coefficient")
    if conform(p, U, T, True, keys, corrupt=target) != 1:
        raise MachineryError("selftest: corrupted table entry was not detected by conformance")
    if conform(p, U, T, True, keys, corrupt=(0, 0)) != 0:
        raise MachineryError("selftest: uncorrupted table does not conform")
    # 2. a corrupted Equiv column must be rejected
    T2 = dict(T)
    k = next(k for k, r in T.items() if r["eq"] and k[0] != k[1])
    T2[k] = dict(T[k], eq=False)
    try:
        conform(p, U, T2, True, keys)
        raise MachineryError("selftest: corrupted Equiv entry was not detected")
    except MachineryError as ex:
        if "Equiv mismatch" not in str(ex):
            raise
    # 3. a law failure that the real code does not have must be flagged as a transcription error
    i3 = next(i for i, t in enumerate(U) if t["k"] == "coef" and t["n"] == 3)
    i12 = next(i for i, t in enumerate(U) if t["k"] == "coef" and t["n"] == 12)
    try:
        report_law_failure(p, "Antisymmetric", [U[i3], U[i12], U[i12]], True, keys)
        raise MachineryError("selftest: a law that holds in the real code was reported as failing")
    except MachineryError as ex:
        if "transcription is wrong" not in str(ex):
            raise
    # 4. the real-object law checker must flag a non-transitive / non-antisymmetric matrix
    pool = Pool(keys)
    for r in ATOMS[:6]:
        pool.add(r, 1)
    M = cmp_matrix(p, pool)
    if check_cmp_laws_real(p, pool, M, keys) != 0 or p.v:
        raise MachineryError("selftest: clean matrix flagged")
    Mc = M.copy()
    Mc[0, 1], Mc[1, 0], Mc[1, 2], Mc[2, 1], Mc[0, 2], Mc[2, 0] = -1, 1, -1, 1, 1, -1  # a<b<c<a
    p = _Probe(ctx)
    check_cmp_laws_real(p, pool, Mc, keys)
    if not any("cmp-not-transitive" in f for f in p.v):
        raise MachineryError("selftest: cyclic cmp matrix not flagged as non-transitive")
    Mc = M.copy()
    Mc[0, 1] = Mc[1, 0] = 1
    p = _Probe(ctx)
    check_cmp_laws_real(p, pool, Mc, keys)
    if not any("cmp-not-antisymmetric" in f for f in p.v):
        raise MachineryError("selftest: asymmetric cmp matrix not flagged")
    Mc = M.copy()
    Mc[0, 1] = Mc[1, 0] = 0
    p = _Probe(ctx)
    check_cmp_laws_real(p, pool, Mc, keys)
    if not any("cmp-zero-on-distinct" in f for f in p.v):
        raise MachineryError("selftest: cmp=0 on distinct operands not flagged")
    # 5. an order-dependent sum must be flagged by the commutativity comparison
    p = _Probe(ctx)
    a, b = pool.items[0], pool.items[1]
    if commut_case(p, "sum", a, b, keys) != "ok":
        raise MachineryError("selftest: f3+f12 should be order independent")
    if commut_case(p, "sum", a, b, keys, swap_bug=True) != "viol" or not any("sum-order-dependent" in f for f in p.v):
        raise MachineryError("selftest: order-dependent sum not flagged")
    ctx.evaluated(6)
    ctx.distinct("selftest-1")
    ctx.distinct("selftest-2")
    ctx.sample({"selftest": "corrupted table entry, corrupted Equiv, spurious law failure, cyclic/asymmetric/zero matrices, order-dependent sum: all rejected"})
    ctx.rule = "selftest"
    print("selftest ok: every corruption was rejected", flush=True)


def main(argv=None):
    main_wrapper("C29", run, argv)
