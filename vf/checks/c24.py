"""C24 — Point evaluation computes the mathematical value.

The builder's denotation is the oracle; ufl's own `expr(x, mapping, component)` is the system under
test: the action point_eval ends a program and its predicted value is the operand's value.
"""

from __future__ import annotations

import os

from ..builder import LIT, Slice, replay_doc, run_slices
from ..common import main_wrapper

F, G = ("f", ()), ("g", ())
U, V = ("u", (2,)), ("v", (2,))
A, B = ("A", (2, 2)), ("B", (2, 2))
P, Q = ("p", (3,)), ("q", (3,))
PE = {"point_eval"}


def slices(tier):
    q = tier == "quick"
    kw = dict(finalops=PE, only_final=True, tiny=True)
    ARITH = {"add", "sub", "neg", "mul", "div", "pow", "abs"}
    IDX = {"index", "as_tensor", "mul", "list"}
    ALG = {"dot", "inner", "outer", "transpose", "tr", "det", "inv", "cofac", "dev", "skew", "sym", "perp"}
    COND = {"lt", "gt", "le", "ge", "eq", "ne", "and", "or", "not", "cond", "max", "min", "sign"}
    out = [
        Slice("arith", [F, U], ARITH, 3, lits=[LIT["two"], LIT["zero"]], levels=[ARITH, ARITH, PE], **kw),
        Slice("index", [U, A], IDX, 4, idx=(10,), levels=[{"index"}, IDX, IDX, PE], mikinds=("name", "fixed"), **kw),
        Slice("alg", [F, U, A], ALG, 3, idx=(10,), levels=[ALG | {"add"}, ALG, PE], **kw),
        Slice("alg3", [P, Q, ("M", (3, 3))], {"cross", "det", "inv", "dot", "inner", "outer", "dev", "cofac"}, 2, idx=(10,), maxdim=3, gdim=3, levels=[{"cross", "det", "inv", "dot", "inner", "outer", "dev", "cofac"}, PE], **kw),
        # 4x4: the generic (recursive) cofactor expansion behind det / cofac / inv
        Slice("alg4", [("N", (4, 4))], {"det", "transpose", "cofac", "inv"}, 3, idx=(10,), maxdim=4, gdim=3, levels=[{"det", "transpose", "cofac", "inv"}, {"det", "tr", "index", "neg"}, PE], **kw),
        Slice("cond", [F, G], COND, 3, lits=[LIT["zero"]], levels=[{"lt", "ge", "eq", "ne", "max", "min", "sign"}, {"and", "or", "not", "cond", "max"}, PE], **kw),
        Slice("cond-tensor", [F, G, U, V, A], {"lt", "cond", "index", "add"}, 4, idx=(10,), levels=[{"lt"}, {"cond"}, {"index", "add", "cond"}, PE], **kw),
        Slice("complex", [F, U], {"conj", "real", "imag", "abs", "mul", "inner", "outer", "dot"}, 3, lits=[LIT["i"]], complex_env=True, small=True, finalops=PE, only_final=True, levels=[{"conj", "real", "imag", "abs", "mul", "inner", "outer", "dot"}] * 2 + [PE]),
        # an index label re-used in nested scopes: a closed inner sum over i inside a summand whose outer index is i as well
        Slice("reuse-sum", [U, V], {"index", "mul", "lt", "cond"}, 7, idx=(10,), lits=[LIT["zero"]],
              levels=[{"index"}, {"index"}, {"mul"}, {"lt"}, {"cond"}, {"mul"}, PE], mikinds=("name",), chain="semi", **kw),
        Slice("reuse-sum-ct", [U, V], {"index", "mul", "lt", "cond", "as_tensor"}, 8, idx=(10,), lits=[LIT["zero"]],
              levels=[{"index"}, {"index"}, {"mul"}, {"lt"}, {"cond"}, {"as_tensor"}, {"index"}, PE], mikinds=("name", "fixed"), chain="semi", **kw),
        Slice("sqrt", [F, G], {"sqrt", "mul", "abs", "div"}, 3, levels=[{"mul", "abs"}, {"sqrt", "div"}, PE], **kw),
        Slice("deep", [F, G, U, V, A], ARITH | IDX | {"dot", "inner", "outer", "tr", "transpose", "cond", "lt", "max"}, 7, idx=(10, 11), lits=[LIT["two"], LIT["zero"]], finalops=PE, tiny=True, simulate=8 if q else 200, depth=8),
    ]
    if not q:
        out += [
            Slice("arith3", [F, U, A], ARITH, 4, lits=[LIT["two"], LIT["zero"]], levels=[ARITH, ARITH, ARITH, PE], chain=True, simulate=2000, depth=6, **kw),
            Slice("index-wide", [U, A, ("T", (2, 2, 2))], IDX, 4, idx=(10, 11), maxrank=3, levels=[IDX, IDX, IDX, PE], chain=True, simulate=2000, depth=6, **kw),
            Slice("alg-nested", [U, A, B], ALG, 4, idx=(10,), levels=[ALG, ALG, ALG, PE], chain=True, simulate=2000, depth=6, **kw),
            Slice("cond-wide", [F, G, U], COND | {"neg", "index"}, 4, lits=[LIT["zero"], LIT["one"]], levels=[COND | {"index"}, COND, COND, PE], chain=True, simulate=2000, depth=6, **kw),
        ]
    return out


def run(ctx, args):
    ctx.rule = (
        "TLC enumerates programs level by level ending in point_eval; each is built through the public API and the "
        "real object is CALLED on a point with a mapping of terminal values (nested tuples of Fractions / complex) for "
        "every component and environment; the returned number must equal the predicted value; case = one program; "
        "non-trivial = predicted value defined"
    )
    ctx.assume("terminals are mapped to constant values (nested tuples); derivative operators and callables with derivatives are covered by the derivative checks")
    only = os.environ.get("VERIF_SLICES")
    sls = [sl for sl in slices(ctx.tier) if not only or sl.name in only.split(",")]
    run_slices(ctx, sls, "C24")


def replay(ctx, doc):
    replay_doc(ctx, doc, "C24")


def main(argv=None):
    main_wrapper("C24", run, argv)
