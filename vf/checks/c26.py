"""C26 — Reference cell topology is internally consistent.

Model (spec/Cells.tla): every cell is given by a combinatorial construction of its face lattice
(simplex = all nonempty vertex subsets, hypercube = {0,1,free}^n strings, prism = triangle x
interval, pyramid = cone over the quadrilateral, TensorProductCell = product of the factors'
lattices, nested products included).  TLC walks over every (cell, dimension, sub-entity) and checks
the Euler characteristic, that every d-dimensional sub-entity is a named cell type of dimension d
whose own sub-entity counts and types agree with that type's own construction, that facets / ridges
/ peaks (defined by maximality) are the entities of dimension tdim-1/-2/-3, and the diamond
property; in a second mode it walks over all pairs of cells and checks that the intended cell order
is a strict total order (transitivity over every third cell).  It prints the complete table of
predicted accessor values and the cells in increasing order.

Binding: every accessor of every real `ufl.cell.Cell` / `TensorProductCell` of the universe is
evaluated and compared with the table; independently of the table the order laws are checked on the
real objects (all pairs, all triples, sorting).
"""

from __future__ import annotations

import collections
import copy
import random
import sys
import weakref

from .. import tlc
from ..common import SPEC, Ctx, MachineryError, main_wrapper

CFG = """CONSTANTS Mode = "{mode}"
MaxLen = {maxlen}
NestLen = {nestlen}
InnerLen = {innerlen}
SPECIFICATION Spec
INVARIANT DimInv
INVARIANT EulerInv
INVARIANT TypeInv
INVARIANT RecursiveInv
INVARIANT FacetInv
INVARIANT DiamondInv
INVARIANT Irreflexive
INVARIANT Asymmetric
INVARIANT Trichotomy
INVARIANT Transitive
INVARIANT SortedInv
INVARIANT RefinesInv
"""

# (MaxLen, NestLen, InnerLen): flat products of 1..MaxLen named factors, nested products of
# 1..NestLen factors each a named cell or a flat product of 1..InnerLen named factors; total
# topological dimension <= 3 (fixed in the spec)
# mode "both": one TLC run walks the topology and then all pairs of the same universe
UNIVERSES = {
    "quick": [("both", (3, 2, 1))],
    "thorough": [("topo", (4, 3, 1)), ("both", (3, 2, 2))],
}

COUNT_PROPS = {"num_vertices": 0, "num_edges": 1, "num_faces": 2}
TUPLE_PROPS = {"vertices": 0, "edges": 1, "faces": 2}
TYPE_PROPS = {"vertex_types": 0, "edge_types": 1, "face_types": 2}
REL_NAMES = {1: "facet", 2: "ridge", 3: "peak"}  # codimension -> name


MAX_PER_FINGERPRINT = 3


def _report(ctx, fingerprint, what, replay):
    """ctx.violation, at most MAX_PER_FINGERPRINT examples per fingerprint (the rest is counted)."""
    seen = ctx.__dict__.setdefault("_c26_seen", collections.Counter())
    seen[fingerprint] += 1
    if seen[fingerprint] > MAX_PER_FINGERPRINT:
        ctx.count("further_instances_of_reported_fingerprints")
        return
    ctx.violation(fingerprint, what, replay)


# ------------------------------------------------------------------------------------------------
# encodings <-> real objects
# ------------------------------------------------------------------------------------------------
def _seq(v):
    """ToJson renders a function with domain 1..n as an array; tolerate the object form too."""
    if isinstance(v, dict):
        return [v[k] for k in sorted(v, key=int)]
    return list(v)


def _norm(enc):
    return {"k": enc["k"], "name": enc["name"], "fs": [_norm(f) for f in _seq(enc["fs"])]}


def _real(enc):
    from ufl.cell import Cell, TensorProductCell

    if enc["k"] == "named":
        return Cell(enc["name"])
    return TensorProductCell(*[_real(f) for f in enc["fs"]])


def _tuple_form(enc):
    """The nested tuple of names that `as_cell` documents as a valid product cell."""
    if enc["k"] == "named":
        return enc["name"]
    return tuple(_tuple_form(f) for f in enc["fs"])


def _label(enc):
    if enc["k"] == "named":
        return enc["name"]
    return "(" + "*".join(_label(f) for f in enc["fs"]) + ")"


def _kind(enc):
    if enc["k"] == "named":
        return "named"
    return "tpc-flat" if all(f["k"] == "named" for f in enc["fs"]) else "tpc-nested"


def _multi_factor(enc):
    """A product of several factors occurs somewhere in the cell."""
    return enc["k"] == "prod" and (len(enc["fs"]) > 1 or any(_multi_factor(f) for f in enc["fs"]))


def _diff_class(a, b):
    """Structural class of the first difference between two encodings (for fingerprints)."""
    if a["k"] != b["k"]:
        return "named-vs-product"
    if a["k"] == "named":
        return "same" if a["name"] == b["name"] else "names"
    for x, y in zip(a["fs"], b["fs"]):
        if x != y:
            inner = _diff_class(x, y)
            return inner if inner.startswith("factor:") else "factor:" + inner
    return "same" if len(a["fs"]) == len(b["fs"]) else "prefix"


# ------------------------------------------------------------------------------------------------
# observations of the real objects (normal forms that are JSON values)
# ------------------------------------------------------------------------------------------------
def _exc(e):
    return "raise:" + type(e).__name__


def _is_proxy(e):
    return isinstance(e, (weakref.ProxyType, weakref.CallableProxyType))


def _ent_name(C, e):
    from ufl.cell import Cell

    try:
        if isinstance(e, Cell):
            return e.cellname  # also for the top entity of a named cell (predicted by its name)
        if e is C or e == C:
            return "self"
        return "product:" + e.cellname
    except Exception as x:  # noqa: BLE001
        return _exc(x)


def _obs_tuple(C, get):
    """Observe a tuple of sub-entities: number, bag of type names, their dimensions."""
    from ufl.cell import AbstractCell

    try:
        t = get()
    except Exception as e:  # noqa: BLE001
        return _exc(e)
    if not isinstance(t, tuple):
        return "nontuple:" + type(t).__name__
    bag = collections.Counter(_ent_name(C, e) for e in t)
    try:
        tdims = sorted({int(e.topological_dimension) for e in t})
    except Exception as e:  # noqa: BLE001
        tdims = _exc(e)
    return {
        "n": len(t),
        "bag": sorted([k, v] for k, v in bag.items()),
        "tdims": tdims,
        "cells": all(isinstance(e, AbstractCell) for e in t),
    }


def _obs_types(C, get):
    """Observe a tuple of unique sub-entity types."""
    o = _obs_tuple(C, get)
    if isinstance(o, str):
        return o
    return {
        "names": sorted(k for k, _ in o["bag"]),
        "dup": any(v > 1 for _, v in o["bag"]),
        "tdims": o["tdims"],
        "cells": o["cells"],
    }


def _obs_value(get, typ):
    try:
        v = get()
    except Exception as e:  # noqa: BLE001
        return _exc(e)
    if typ is bool:
        return v if isinstance(v, bool) else "nonbool:" + type(v).__name__
    if isinstance(v, bool) or not isinstance(v, int):
        return "nonint:" + type(v).__name__
    return int(v)


def _obs_counts(C, d):
    """Own sub-entity counts of every d-dimensional sub-entity (recursive consistency)."""
    try:
        t = C.sub_entities(d)
        out = []
        for e in t:
            out.append([_ent_name(C, e), [int(e.num_sub_entities(k)) for k in range(d + 1)]])
        return sorted(out)
    except Exception as e:  # noqa: BLE001
        return _exc(e)


def _obs_first_class(C, d):
    """Every returned sub-entity must be interchangeable with a freshly constructed cell of its
    type: equal in both directions, same hash, not ordered before/after it."""
    from ufl.cell import Cell

    try:
        t = C.sub_entities(d)
    except Exception as e:  # noqa: BLE001
        return _exc(e)
    problems = set()
    proxy = False
    for e in t:
        if e is C:
            continue
        try:
            fresh = Cell(e.cellname) if isinstance(e, Cell) else None
        except Exception as x:  # noqa: BLE001
            problems.add("cellname-" + _exc(x))
            continue
        if fresh is None:
            continue
        proxy = proxy or _is_proxy(e)
        for tag, f in (
            ("entity==fresh", lambda: (e == fresh) is True),
            ("fresh==entity", lambda: (fresh == e) is True),
            ("hash", lambda: hash(e) == hash(fresh)),
            ("not-entity<fresh", lambda: (e < fresh) is False),
            ("not-fresh<entity", lambda: (fresh < e) is False),
        ):
            try:
                if not f():
                    problems.add("fails:" + tag)
            except Exception as x:  # noqa: BLE001
                problems.add(tag + "-" + _exc(x))
    if problems and proxy:
        problems.add("note:entity-is-a-weakref-proxy")
    return sorted(problems)


def observe(C, acc, d=None):
    """The observation of accessor `acc` (at dimension `d` where applicable) on the real cell."""
    if acc == "topological_dimension":
        return _obs_value(lambda: C.topological_dimension, int)
    if acc == "num_sub_entities":
        return _obs_value(lambda: C.num_sub_entities(d), int)
    if acc == "sub_entities":
        return _obs_tuple(C, lambda: C.sub_entities(d))
    if acc == "sub_entity_types":
        return _obs_types(C, lambda: C.sub_entity_types(d))
    if acc == "sub_entity_counts":
        return _obs_counts(C, d)
    if acc == "sub_entity_first_class":
        return _obs_first_class(C, d)
    if acc in COUNT_PROPS or acc in ("num_facets", "num_ridges", "num_peaks"):
        return _obs_value(lambda: getattr(C, acc), int)
    if acc in TUPLE_PROPS or acc in ("facets", "ridges", "peaks"):
        return _obs_tuple(C, lambda: getattr(C, acc))
    if acc in TYPE_PROPS or acc in ("facet_types", "ridge_types", "peak_types"):
        return _obs_types(C, lambda: getattr(C, acc))
    if acc in ("is_simplex", "has_simplex_facets"):
        return _obs_value(lambda: getattr(C, acc), bool)
    if acc == "cellname":
        try:
            return C.cellname
        except Exception as e:  # noqa: BLE001
            return _exc(e)
    if acc == "as_cell":
        from ufl.cell import as_cell

        try:
            return bool(as_cell(d) == C) and bool(C == as_cell(d)) and hash(as_cell(d)) == hash(C)
        except Exception as e:  # noqa: BLE001
            return _exc(e)
    raise MachineryError(f"unknown accessor {acc}")


# ------------------------------------------------------------------------------------------------
# predictions from the table
# ------------------------------------------------------------------------------------------------
class Model:
    """The decoded TLC table."""

    def __init__(self, doc):
        self.rows = {}
        self.simplex = list(_seq(doc["simplex"]))
        self.hypercube = list(_seq(doc["hypercube"]))
        self.alpha = list(_seq(doc["alpha"]))
        for r in _seq(doc["rows"]):
            self.add(r)

    def add(self, r):
        enc = _norm(r["cell"])
        row = {
            "enc": enc,
            "tdim": r["tdim"],
            "dims": {},
            "nv": r["nv"],
            "rel": {
                1: {"n": r["nfacets"], "bag": self._bag(r["facets"])},
                2: {"n": r["nridges"], "bag": self._bag(r["ridges"])},
                3: {"n": r["npeaks"], "bag": self._bag(r["peaks"])},
            },
            "simplex": r["simplex"],
            "simplex_facets": r["simplex_facets"],
            "iso": r["iso"],
            "euler": r["euler"],
        }
        for dr in _seq(r["dims"]):
            row["dims"][dr["d"]] = {"n": dr["n"], "bag": self._bag(dr["bag"])}
        self.rows[_label(enc)] = row

    @staticmethod
    def _bag(b):
        return sorted([x["t"], x["n"]] for x in _seq(b))

    def dim(self, row, d):
        """Predicted (count, bag) at dimension d; no faces outside 0..tdim (EulerInv)."""
        return row["dims"].get(d, {"n": 0, "bag": []})

    def vector(self, name, d):
        r = self.rows[name]
        return [self.dim(r, k)["n"] for k in range(d + 1)]


def _exp_tuple(n, bag, d):
    return {"n": n, "bag": bag, "tdims": [d] if n else [], "cells": True}


def _exp_types(bag, d):
    return {"names": sorted(k for k, _ in bag), "dup": False, "tdims": [d] if bag else [], "cells": True}


def expected(model, row, acc, d=None):
    tdim = row["tdim"]
    if acc == "topological_dimension":
        return tdim
    if acc == "num_sub_entities":
        return model.dim(row, d)["n"]
    if acc == "sub_entities":
        x = model.dim(row, d)
        return _exp_tuple(x["n"], x["bag"], d)
    if acc == "sub_entity_types":
        return _exp_types(model.dim(row, d)["bag"], d)
    if acc == "sub_entity_counts":
        out = []
        me = _label(row["enc"])
        for t, n in model.dim(row, d)["bag"]:
            vec = model.vector(me if t == "self" else t, d)
            out += [[t, vec]] * n
        return sorted(out)
    if acc == "sub_entity_first_class":
        return []
    if acc in COUNT_PROPS:
        return row["nv"] if acc == "num_vertices" else model.dim(row, COUNT_PROPS[acc])["n"]
    if acc in TUPLE_PROPS:
        x = model.dim(row, TUPLE_PROPS[acc])
        return _exp_tuple(x["n"], x["bag"], TUPLE_PROPS[acc])
    if acc in TYPE_PROPS:
        return _exp_types(model.dim(row, TYPE_PROPS[acc])["bag"], TYPE_PROPS[acc])
    for cod, nm in REL_NAMES.items():
        rel = row["rel"][cod]
        if acc == f"num_{nm}s":
            return rel["n"]
        if acc == f"{nm}s":
            return _exp_tuple(rel["n"], rel["bag"], tdim - cod)
        if acc == f"{nm}_types":
            return _exp_types(rel["bag"], tdim - cod)
    if acc == "is_simplex":
        return row["simplex"]
    if acc == "has_simplex_facets":
        return row["simplex_facets"]
    if acc == "cellname":
        return row["enc"]["name"]
    if acc == "as_cell":
        return True
    raise MachineryError(f"unknown accessor {acc}")


def accessors(row):
    """Every (accessor, dim) compared for one cell; dim None for dimension-free accessors."""
    tdim = row["tdim"]
    out = [("topological_dimension", None)]
    for d in range(-1, tdim + 2):
        for acc in ("num_sub_entities", "sub_entities", "sub_entity_types"):
            out.append((acc, d))
    for d in range(0, tdim + 1):
        out.append(("sub_entity_counts", d))
        out.append(("sub_entity_first_class", d))
    for grp in (COUNT_PROPS, TUPLE_PROPS, TYPE_PROPS):
        out += [(a, None) for a in grp]
    for nm in REL_NAMES.values():
        out += [(f"num_{nm}s", None), (f"{nm}s", None), (f"{nm}_types", None)]
    out += [("is_simplex", None), ("has_simplex_facets", None)]
    if row["enc"]["k"] == "named":
        out.append(("cellname", None))
    out.append(("as_cell", "tuple-form"))
    return out


def _fingerprint(acc, kind, obs, exp):
    if isinstance(obs, str):
        tag = obs  # raise:..., nonint:..., nontuple:...
    elif acc == "sub_entity_first_class":
        tag = "not-first-class"
    elif isinstance(exp, dict) and isinstance(obs, dict):
        tag = "differs:" + ",".join(k for k in sorted(exp) if obs.get(k) != exp[k])
    else:
        tag = "differs"
    return f"C26:{acc}:{kind}:{tag}"


def compare_one(ctx, model, row, C, acc, d):
    """Compare one accessor of one real cell with the model.  Returns 'ok', 'skip' or 'viol'."""
    enc = row["enc"]
    kind = _kind(enc)
    arg = _tuple_form(enc) if acc == "as_cell" else d
    exp = expected(model, row, acc, d)
    obs = observe(C, acc, arg)
    ctx.evaluated()
    in_range = d is None or acc == "as_cell" or 0 <= d <= row["tdim"]
    if obs == "raise:NotImplementedError" and enc["k"] == "prod":
        # TensorProductCell documents these as "not implemented": no answer is not a wrong answer
        ctx.cov["undefined_skipped"] += 1
        return "skip"
    if acc in ("is_simplex", "has_simplex_facets"):
        if acc == "has_simplex_facets" and row["tdim"] == 0:
            ctx.cov["undefined_skipped"] += 1
            return "skip"
        if _multi_factor(enc):
            ctx.cov["undefined_skipped"] += 1
            if obs != exp:
                ctx.count("multi_factor_product_simplex_flags_differ_from_geometry")
            return "skip"
    if in_range:
        ctx.distinct(f"{_label(enc)}|{acc}|{d}")
    if obs == exp:
        return "ok"
    if acc in ("is_simplex", "has_simplex_facets"):
        # C26 as stated covers sub-entity counts, sub-entity types, facets/ridges/peaks and the
        # cell ordering; the simplex flags are outside it.  A wrong flag is recorded as a note
        # (e.g. pentatope.is_simplex is False on the pinned tree), never as a violation of C26.
        ctx.count(f"note_outside_property:{acc}:{_label(enc)}:real={obs!r}:model={exp!r}")
        return "skip"
    fp = _fingerprint(acc, kind, obs, exp)
    if acc in ("is_simplex", "has_simplex_facets") and enc["k"] == "named":
        fp = f"C26:{acc}:named:{enc['name']}"
    if acc == "sub_entity_first_class" and isinstance(obs, list):
        fp = f"C26:sub_entity:not-first-class:{kind}:{'top' if d == row['tdim'] else 'lower'}" + (
            ":weakref-proxy" if "note:entity-is-a-weakref-proxy" in obs else ""
        )
    _report(ctx, 
        fp,
        f"{_label(enc)}.{acc}" + (f"({d})" if d is not None and acc != "as_cell" else "") + f": real={obs!r} model={exp!r}",
        {"kind": "accessor", "cell": enc, "accessor": acc, "dim": d, "expected": exp, "observed": obs},
    )
    return "viol"


# ------------------------------------------------------------------------------------------------
# TLC runs
# ------------------------------------------------------------------------------------------------
def _run_tlc(ctx, cfg, what, workers, mc_text=None):
    res = None
    for attempt in (1, 2):
        res = tlc.run(
            "Cells", cfg, timeout=1500, workers=workers, **({"mc_text": mc_text, "mc_name": "Cells"} if mc_text else {})
        )
        if res.outcome == "error" and res.generated == 0 and "Error:" not in res.stdout and attempt == 1:
            continue  # the JVM did not come up (machine overloaded): one retry
        break
    return res


def run_model(ctx, mode, uni, workers=None):
    """One TLC run; returns (Model or None, order or None)."""
    what = f"Cells {mode} {uni}"
    cfg = CFG.format(mode=mode, maxlen=uni[0], nestlen=uni[1], innerlen=uni[2])
    # few workers: the walks are short chains, and idle TLC workers spin
    res = _run_tlc(ctx, cfg, what, workers or (4 if mode == "topo" or ctx.tier == "quick" else 16))
    ctx.add_tlc(res)
    tlc.require_ok(res, what)
    docs = {d.get("kind"): d for d in tlc.decode_prints(res) if isinstance(d, dict)}
    model = order = None
    want = 0
    if mode in ("topo", "both"):
        if "topo" not in docs:
            raise MachineryError(what + ": accessor table not printed")
        model = Model(docs["topo"])
        # vacuity: the walk must visit exactly one state per (cell, dimension, sub-entity)
        want += sum(sum(x["n"] for d, x in r["dims"].items() if 0 <= d <= r["tdim"]) for r in model.rows.values())
        for r in model.rows.values():
            if r["euler"] != 1:
                raise MachineryError(f"{what}: Euler characteristic of {_label(r['enc'])} in the table is {r['euler']}")
        if model.alpha != sorted(model.alpha) or len(set(model.alpha)) != len(model.alpha):
            raise MachineryError("Cells: Alpha is not in alphabetical order")
    if mode in ("order", "both"):
        if "order" not in docs:
            raise MachineryError(what + ": order table not printed")
        order = [_norm(e) for e in _seq(docs["order"]["sorted"])]
        alpha = list(_seq(docs["order"]["alpha"]))
        if alpha != sorted(alpha) or len(set(alpha)) != len(alpha):
            raise MachineryError("Cells: Alpha is not in alphabetical order")
        if len({_label(e) for e in order}) != len(order):
            raise MachineryError(what + ": labels are not unique")
        want += len(order) ** 2  # vacuity: one state per ordered pair
    if res.distinct != want:
        raise MachineryError(f"{what}: TLC visited {res.distinct} states, expected {want} (sub-entities + pairs)")
    return model, order


# ------------------------------------------------------------------------------------------------
# conformance: accessors
# ------------------------------------------------------------------------------------------------
def check_names(model):
    """The model must cover exactly the names ufl accepts."""
    import ufl.cell as uc

    real = set(uc._sub_entity_celltypes)
    mine = {r["enc"]["name"] for r in model.rows.values() if r["enc"]["k"] == "named"}
    if real != mine:
        raise MachineryError(f"cell names differ: ufl accepts {sorted(real)}, the model constructs {sorted(mine)}")


def conform_topo(ctx, model, done=None):
    check_names(model)
    n_cells = 0
    for lab, row in model.rows.items():
        if done is not None:
            if lab in done:
                continue
            done.add(lab)
        try:
            C = _real(row["enc"])
        except Exception as e:  # noqa: BLE001
            _report(ctx, 
                f"C26:construct:{_kind(row['enc'])}:{_exc(e)}",
                f"constructing {lab} raises {type(e).__name__}: {e}",
                {"kind": "construct", "cell": row["enc"]},
            )
            continue
        n_cells += 1
        ctx.traces(1)
        for acc, d in accessors(row):
            compare_one(ctx, model, row, C, acc, d)
        # a product that is combinatorially a named cell must agree with the real named cell
        if row["enc"]["k"] == "prod" and row["iso"] != "none":
            from ufl.cell import Cell

            N = Cell(row["iso"])
            for d in range(-1, row["tdim"] + 2):
                a, b = observe(C, "num_sub_entities", d), observe(N, "num_sub_entities", d)
                ctx.evaluated()
                if a == "raise:NotImplementedError":
                    continue
                if a != b:
                    _report(ctx, 
                        f"C26:product-vs-named:num_sub_entities:{_kind(row['enc'])}",
                        f"{lab} is combinatorially a {row['iso']} but num_sub_entities({d}) = {a!r} vs {b!r}",
                        {"kind": "iso", "cell": row["enc"], "iso": row["iso"], "dim": d},
                    )
    return n_cells


def conform_factories(ctx, model):
    """simplex(d) / hypercube(d) / as_cell(name) return the cells the constructions name."""
    import ufl.cell as uc

    for fname, names in (("simplex", model.simplex), ("hypercube", model.hypercube)):
        for d, want in enumerate(names):
            ctx.evaluated()
            ctx.distinct(f"factory|{fname}|{d}")
            try:
                c = getattr(uc, fname)(d)
                got = c.cellname if isinstance(c, uc.Cell) else "nocell:" + type(c).__name__
                if got == want and not (c == uc.Cell(want) and c.topological_dimension == d):
                    got = "unequal-to-Cell(" + want + ")"
            except Exception as e:  # noqa: BLE001
                got = _exc(e)
            if got != want:
                _report(ctx, 
                    f"C26:factory:{fname}:{d}",
                    f"{fname}({d}) gives {got}, the {d}-dimensional {fname} is {want}",
                    {"kind": "factory", "factory": fname, "dim": d, "expected": want},
                )


# ------------------------------------------------------------------------------------------------
# conformance: order laws on the real objects
# ------------------------------------------------------------------------------------------------
def _cmp(f):
    try:
        r = f()
    except Exception as e:  # noqa: BLE001
        return _exc(e)
    if r is NotImplemented:
        return "NotImplemented"
    if not isinstance(r, bool):
        return "nonbool:" + type(r).__name__
    return r


def order_laws(ctx, encs, objs, model_sorted=True):
    """Order laws on real objects `objs` (encodings `encs`, listed in the model's increasing order
    when model_sorted)."""
    n = len(objs)
    labels = [_label(e) for e in encs]
    lt = [[None] * n for _ in range(n)]
    eq = [[None] * n for _ in range(n)]
    for i in range(n):
        for j in range(n):
            lt[i][j] = _cmp(lambda: objs[i] < objs[j])
            eq[i][j] = _cmp(lambda: objs[i] == objs[j])
            ctx.evaluated(2)
    bad = [[not isinstance(lt[i][j], bool) or not isinstance(eq[i][j], bool) for j in range(n)] for i in range(n)]
    # 1. `<` and `==` answer with a bool on every pair
    for i in range(n):
        for j in range(n):
            if i != j:
                ctx.distinct(f"order|{labels[i]}|{labels[j]}")
            for op, v in (("lt", lt[i][j]), ("eq", eq[i][j])):
                if not isinstance(v, bool):
                    _report(ctx, 
                        f"C26:order:{op}-{v}:{_diff_class(encs[i], encs[j])}",
                        f"{labels[i]} {'<' if op == 'lt' else '=='} {labels[j]} gives {v}",
                        {"kind": "order", "law": op + "-bool", "a": encs[i], "b": encs[j]},
                    )
    # 2. trichotomy: exactly one of a<b, a==b, b<a (irreflexivity and asymmetry are instances)
    for i in range(n):
        for j in range(i, n):
            if bad[i][j] or bad[j][i]:
                continue
            ctx.evaluated()
            k = int(lt[i][j]) + int(eq[i][j]) + int(lt[j][i])
            sym = eq[i][j] == eq[j][i]
            if k != 1 or not sym:
                pat = f"lt={int(lt[i][j])},eq={int(eq[i][j])},gt={int(lt[j][i])},eqsym={int(sym)}"
                _report(ctx, 
                    f"C26:order:trichotomy:{_diff_class(encs[i], encs[j])}:{pat}",
                    f"{labels[i]} vs {labels[j]}: a<b={lt[i][j]} a==b={eq[i][j]} b<a={lt[j][i]} b==a={eq[j][i]}",
                    {"kind": "order", "law": "trichotomy", "a": encs[i], "b": encs[j]},
                )
            # equality is structural: distinct encodings are distinct cells, a rebuilt cell is equal
            if (i == j) != eq[i][j]:
                _report(ctx, 
                    f"C26:order:equality:{_diff_class(encs[i], encs[j])}",
                    f"{labels[i]} == {labels[j]} is {eq[i][j]}",
                    {"kind": "order", "law": "equality", "a": encs[i], "b": encs[j]},
                )
    # 3. transitivity over all triples
    succ = [{j for j in range(n) if lt[i][j] is True} for i in range(n)]
    for i in range(n):
        for j in succ[i]:
            ctx.evaluated(n)
            missing = succ[j] - succ[i]
            for k in missing:
                if bad[i][k]:
                    continue
                _report(ctx, 
                    f"C26:order:transitive:{_kind(encs[i])}-{_kind(encs[j])}-{_kind(encs[k])}",
                    f"{labels[i]} < {labels[j]} < {labels[k]} but not {labels[i]} < {labels[k]}",
                    {"kind": "order", "law": "transitive", "a": encs[i], "b": encs[j], "c": encs[k]},
                )
    # 4. comparison with the model's order (direction is "arbitrary but fixed": informational)
    if model_sorted:
        for i in range(n):
            for j in range(n):
                if isinstance(lt[i][j], bool) and lt[i][j] != (i < j):
                    ctx.count("order_pairs_directed_differently_from_model")
    # 5. sorting: on a maximal comparable sub-universe, sorted() of any permutation is the same
    #    ascending sequence
    keep = []
    for i in range(n):
        if all(not bad[i][j] and not bad[j][i] for j in keep) and not bad[i][i]:
            keep.append(i)
    ctx.count("cells_in_sorting_test", len(keep))
    rng = random.Random(ctx.seed)
    results = []
    for rep in range(3):
        perm = keep[:]
        rng.shuffle(perm)
        try:
            # rebuilt objects: sorting must not depend on object identity
            s = sorted(((objs[i], i) for i in perm), key=lambda p: _Key(p[0]))
            results.append([i for _, i in s])
        except Exception as e:  # noqa: BLE001
            _report(ctx, 
                f"C26:order:sorted-{_exc(e)}",
                f"sorted() over {len(perm)} pairwise comparable cells raises {type(e).__name__}: {e}",
                {"kind": "order", "law": "sorted", "cells": [encs[i] for i in perm]},
            )
            return lt, eq
        ctx.evaluated()
    for r in results:
        asc = all(lt[r[x]][r[x + 1]] is True for x in range(len(r) - 1))
        if r != results[0] or not asc:
            _report(ctx, 
                "C26:order:sorted-inconsistent",
                "sorted() of two permutations of the same cells differ or the result is not ascending",
                {"kind": "order", "law": "sorted", "cells": [encs[i] for i in keep]},
            )
            break
    return lt, eq


class _Key:
    """sorted() key that uses only the cell's own `<` (like sorting the cells directly)."""

    __slots__ = ("c",)

    def __init__(self, c):
        self.c = c

    def __lt__(self, other):
        return self.c < other.c


def conform_order(ctx, order):
    objs = [_real(e) for e in order]
    ctx.traces(len(order))
    order_laws(ctx, order, objs)
    # a rebuilt, structurally equal cell is equal and unordered with respect to the original
    for e, o in zip(order, objs):
        o2 = _real(e)
        ctx.evaluated()
        r = (_cmp(lambda: o == o2), _cmp(lambda: o < o2), _cmp(lambda: o2 < o), _cmp(lambda: hash(o) == hash(o2)))
        if r != (True, False, False, True):
            _report(ctx, 
                f"C26:order:rebuilt-cell:{_kind(e)}",
                f"{_label(e)} rebuilt: ==,<,>,hash== give {r}",
                {"kind": "order", "law": "rebuilt", "a": e, "b": e},
            )


# ------------------------------------------------------------------------------------------------
# run / replay / selftest
# ------------------------------------------------------------------------------------------------
def _declare(ctx):
    ctx.rule = (
        "TLC walks every (cell, dimension, sub-entity) of all 10 named cells and of all flat/nested "
        "TensorProductCells of the configured universe (total dimension <= 3) and every pair of cells for the "
        "order; each cell is then built in ufl and every accessor (topological_dimension, num_sub_entities(d), "
        "sub_entities(d), sub_entity_types(d) for d=-1..tdim+1, own counts and first-class status of every "
        "sub-entity, num_/tuple/type accessors for vertices, edges, faces, facets, ridges, peaks, is_simplex, "
        "has_simplex_facets, cellname, as_cell) is compared with the table; order laws are evaluated on every "
        "pair and triple of real cells. A case is one (cell, accessor, dimension) or one ordered pair of cells; "
        "non-trivial = dimension within 0..tdim (or a dimension-free accessor) / the two cells differ"
    )
    ctx.cov["exhaustive"] = True
    ctx.assume("the face-lattice constructions of Cells.tla (simplex, hypercube strings, product, cone) define the reference cells; a sub-entity's cell type is the named cell with its dimension and vertex count (checked to be unique and recursively consistent by TLC)")
    ctx.assume("Euler convention: sum_{k=0..tdim} (-1)^k n_k = 1 with the cell itself counted as its one tdim-face and the empty face not counted")
    ctx.assume("TensorProductCell accessors that raise NotImplementedError ('is not implemented') are undefined, not wrong; they are skipped and counted in undefined_skipped")
    ctx.assume("is_simplex / has_simplex_facets are compared for named cells and (nested) one-factor products only (for cells containing a product of several factors ufl does not say whether the flag refers to the product or to the polytope); has_simplex_facets is not compared for 0-dimensional cells (no facets)")
    ctx.assume("the single entity of a 0-dimensional product is reported as a vertex (ufl's dim == 0 rule), the top entity of every other product is the product itself")
    ctx.assume("the order of entities within sub_entities(d) is a numbering convention: types are compared as bags")
    ctx.assume("the empty product TensorProductCell() and products of total dimension > 3 or with 4-dimensional factors are outside the quantifier")
    ctx.assume("the direction of the cell order is arbitrary: only the strict-total-order laws are demanded of the real `<`; disagreement with the model's direction is counted, not reported")


def run(ctx, args):
    if getattr(args, "selftest", False):
        selftest(ctx)
        return
    _declare(ctx)
    done = set()
    model = order = None
    for mode, u in UNIVERSES[ctx.tier]:
        m, o = run_model(ctx, mode, u)
        if m is not None:
            model = m
            ctx.count("cells_compared", conform_topo(ctx, m, done))
        if o is not None:
            order = o
            ctx.count("cells_ordered", len(o))
            conform_order(ctx, o)
    conform_factories(ctx, model)
    prism = model.rows["prism"]
    ctx.sample({"cell": "prism", "model": {str(d): x for d, x in prism["dims"].items()}, "facets": prism["rel"][1]})
    lab = "(triangle*interval)"
    if lab in model.rows:
        r = model.rows[lab]
        ctx.sample({"cell": lab, "model_counts": [model.dim(r, d)["n"] for d in range(4)], "iso": r["iso"]})
    ctx.sample({"order_head": [_label(e) for e in order[:14]]})


def _still(ctx, msg):
    print("still fails: " + msg)
    ctx.n_viol += 1


def _replay_one(ctx, r):
    k = r["kind"]
    if k == "accessor":
        C = _real(r["cell"])
        arg = _tuple_form(r["cell"]) if r["accessor"] == "as_cell" else r["dim"]
        obs = observe(C, r["accessor"], arg)
        exp = r["expected"]
        print(f"replay {_label(r['cell'])}.{r['accessor']}({r['dim']}): real={obs!r} model={exp!r}")
        if obs != exp:
            _still(ctx, f"{_label(r['cell'])}.{r['accessor']}({r['dim']})")
    elif k == "order":
        encs = [r[x] for x in ("a", "b", "c") if x in r] if "cells" not in r else r["cells"]
        objs = [_real(e) for e in encs]
        rec = _Recorder()
        order_laws(rec, encs, objs, model_sorted=False)
        if r.get("law") == "rebuilt":
            conform_order(rec, encs[:1])
        if len(objs) <= 3:
            for i, a in enumerate(objs):
                for j, b in enumerate(objs):
                    print(f"replay {_label(encs[i])} < {_label(encs[j])}: {_cmp(lambda: a < b)}   ==: {_cmp(lambda: a == b)}")
        for fp, what, _ in rec.log[:5]:
            _still(ctx, f"{what} [{fp}]")
        if not rec.log:
            print("not reproduced")
    elif k == "factory":
        import ufl.cell as uc

        got = getattr(uc, r["factory"])(r["dim"]).cellname
        print(f"replay {r['factory']}({r['dim']}) = {got}, expected {r['expected']}")
        if got != r["expected"]:
            _still(ctx, f"{r['factory']}({r['dim']}) = {got}")
    elif k == "iso":
        from ufl.cell import Cell

        a = observe(_real(r["cell"]), "num_sub_entities", r["dim"])
        b = observe(Cell(r["iso"]), "num_sub_entities", r["dim"])
        print(f"replay {_label(r['cell'])}.num_sub_entities({r['dim']}) = {a!r}; {r['iso']}: {b!r}")
        if a != b:
            _still(ctx, "product differs from the named cell it is isomorphic to")
    elif k == "construct":
        try:
            _real(r["cell"])
            print("replay: construction succeeds")
        except Exception as e:  # noqa: BLE001
            _still(ctx, f"constructing {_label(r['cell'])} raises {type(e).__name__}: {e}")
    else:
        raise MachineryError(f"unknown replay kind {k}")


def replay(ctx, doc):
    """Re-execute exactly the case of a replay file; exit status 1 iff it still fails."""
    _replay_one(ctx, doc["replay"])


class _Recorder(Ctx):
    """A context that records violations instead of reporting them (selftest)."""

    def __init__(self):
        super().__init__("C26")
        self.log = []

    def violation(self, fingerprint, what, replay, detail=None):  # noqa: A002
        self.log.append((fingerprint, what, replay))
        return True


def _viol_keys(rec):
    out = set()
    for fp, _, r in rec.log:
        out.add((fp, _label(r["cell"]) if "cell" in r else "", r.get("accessor"), r.get("dim")))
    return out


def selftest(ctx):
    """The binding must reject a corrupted prediction, a broken order and a broken construction."""
    uni = (2, 1, 1)
    model, _ = run_model(ctx, "topo", uni)
    base = _Recorder()
    conform_topo(base, model)
    base_keys = _viol_keys(base)
    print(f"selftest: baseline on the unchanged table: {len(base.log)} violation(s) {sorted({k[0] for k in base_keys})}")

    def corrupt(name, mutate, expect_cell, expect_acc):
        m = copy.deepcopy(model)
        mutate(m)
        rec = _Recorder()
        conform_topo(rec, m)
        new = _viol_keys(rec) - base_keys
        hit = [k for k in new if k[1] == expect_cell and k[2] in expect_acc]
        if not hit:
            raise MachineryError(f"selftest: corruption '{name}' was not detected (new violations: {sorted(new)[:5]})")
        print(f"selftest: '{name}' rejected: {sorted(hit)[0][0]}")

    def set_dim_n(lab, d, n):
        def f(m):
            m.rows[lab]["dims"][d]["n"] = n
        return f

    def set_bag(lab, d, bag):
        def f(m):
            m.rows[lab]["dims"][d]["bag"] = bag
        return f

    def set_field(lab, path, v):
        def f(m):
            x = m.rows[lab]
            for p in path[:-1]:
                x = x[p]
            x[path[-1]] = v
        return f

    corrupt("prism has 6 faces", set_dim_n("prism", 2, 6), "prism", {"num_sub_entities", "num_faces", "sub_entities", "faces"})
    corrupt("pyramid faces are 5 triangles", set_bag("pyramid", 2, [["triangle", 5]]), "pyramid", {"sub_entities", "sub_entity_types"})
    corrupt("hexahedron has 5 facets", set_field("hexahedron", ["rel", 1, "n"], 5), "hexahedron", {"num_facets", "facets"})
    corrupt("tetrahedron peaks are intervals", set_field("tetrahedron", ["rel", 3, "bag"], [["interval", 4]]), "tetrahedron", {"peaks", "peak_types"})
    corrupt("quadrilateral has dimension 3", set_field("quadrilateral", ["tdim"], 3), "quadrilateral", {"topological_dimension"})
    corrupt("interval*interval has 5 vertices", set_field("(interval*interval)", ["nv"], 5), "(interval*interval)", {"num_vertices"})
    corrupt("tesseract has 23 quadrilaterals", set_dim_n("tesseract", 2, 23), "tesseract", {"num_sub_entities", "sub_entities", "num_faces"})
    corrupt("triangle edges have 3 vertices", lambda m: m.rows["interval"]["dims"][0].__setitem__("n", 3), "triangle", {"sub_entity_counts"})

    # a broken order on real objects must be rejected by the law check
    from ufl.cell import Cell

    class CyclicCell(Cell):
        """`<` is a 3-cycle on triangle/quadrilateral/interval."""

        def __lt__(self, other):
            cyc = {("interval", "triangle"), ("triangle", "quadrilateral"), ("quadrilateral", "interval")}
            return (self.cellname, other.cellname) in cyc

    class StringyCell(Cell):
        def __lt__(self, other):
            return "yes" if self.cellname < other.cellname else ""

    names = ["interval", "triangle", "quadrilateral"]
    encs = [{"k": "named", "name": n, "fs": []} for n in names]
    for cls, want in ((CyclicCell, "C26:order:transitive"), (StringyCell, "C26:order:lt-nonbool")):
        rec = _Recorder()
        order_laws(rec, encs, [cls(n) for n in names], model_sorted=False)
        if not any(fp.startswith(want) for fp, _, _ in rec.log):
            raise MachineryError(f"selftest: {cls.__name__} order was not rejected ({[fp for fp, _, _ in rec.log]})")
        print(f"selftest: {cls.__name__} rejected: {sorted({fp for fp, _, _ in rec.log if fp.startswith(want)})[0]}")
    rec = _Recorder()
    order_laws(rec, encs[::-1], [Cell(n) for n in names[::-1]], model_sorted=True)
    if not rec.cov.get("order_pairs_directed_differently_from_model"):
        raise MachineryError("selftest: a reversed model order was not noticed")
    print("selftest: reversed model order noticed (direction differences counted)")

    # the invariants of the specification must reject broken constructions
    src = open(SPEC + "/Cells.tla").read()
    mutants = [
        ("cone without apex", "P \\cup {Face(F.vs \\cup {a}, F.d + 1) : F \\in P} \\cup {Face({a}, 0)}", "P \\cup {Face(F.vs \\cup {a}, F.d + 1) : F \\in P}"),
        ("product dimension is that of the first factor", "q \\in G.vs}, F.d + G.d)", "q \\in G.vs}, F.d)"),
        ("simplex without one edge", "S \\in (SUBSET (0..n)) \\ {{}}}", "S \\in (SUBSET (0..n)) \\ {{}, {0, 1}}}"),
    ]
    for name, a, b in mutants:
        if a not in src:
            raise MachineryError(f"selftest: mutant anchor for '{name}' not found in Cells.tla")
        res = _run_tlc(ctx, CFG.format(mode="topo", maxlen=uni[0], nestlen=uni[1], innerlen=uni[2]), name, 4, mc_text=src.replace(a, b))
        if res.outcome not in ("invariant", "assert", "error") or res.ok:
            raise MachineryError(f"selftest: spec mutant '{name}' passed TLC ({res.outcome})")
        print(f"selftest: spec mutant '{name}' rejected by TLC ({res.outcome} {res.violated or ''})")
    src_o = src.replace('[] x.k = "named" /\\ y.k = "prod"  -> TRUE', '[] x.k = "named" /\\ y.k = "prod"  -> FALSE')
    if src_o == src:
        raise MachineryError("selftest: order mutant anchor not found")
    res = _run_tlc(ctx, CFG.format(mode="order", maxlen=2, nestlen=2, innerlen=1), "order mutant", 8, mc_text=src_o)
    if res.ok:
        raise MachineryError("selftest: non-total order mutant passed TLC")
    print(f"selftest: order mutant rejected by TLC ({res.outcome} {res.violated or ''})")
    print("SELFTEST ok")
    sys.stdout.flush()
    sys.exit(0)


def main(argv=None):
    main_wrapper("C26", run, argv)
