"""C04 — diff() with respect to variables computes partial derivatives.

Semantics (spec/UFLBuild.tla over spec/jets/CQ.tla): the action seedvar creates variable(e) whose
VALUE is perturbed along its own components (component a by s, component b by t in environment
<<E, a, b>>); diff(f, v)[cf, cv] is by definition the series coefficient of f along component cv —
everything not expressed through v is held fixed because it is not perturbed.  For
diff(f, coefficient) the environments seed that terminal instead.  No differentiation rule appears
in the specification; the replay runs ufl.variable / ufl.diff / expand_derivatives.
"""

from __future__ import annotations

import os

from ..builder import LIT, Slice, replay_doc, run_slices
from ..common import main_wrapper

W, F, G = ("w", ()), ("f", ()), ("g", ())
U, V = ("u", (2,)), ("v", (2,))
A = ("A", (2, 2))
FIN = {"expand_derivatives"}
SV, DF = {"seedvar"}, {"diff"}


MATH = {"exp", "ln", "sin", "cos", "tan", "sinh", "cosh", "tanh", "asin", "atan"}


def slices(tier):
    q = tier == "quick"
    kw = dict(finalops=FIN, only_final=True, nenv=1)
    J1 = dict(mode="variable", ndir=1)
    J2 = dict(mode="variable", ndir=2)
    J4 = dict(mode="variable", ndir=4)
    S = {"mul", "add", "div", "pow", "abs", "sqrt", "neg", "sub"}
    T = {"mul", "add", "index", "dot", "inner", "outer", "pow", "div", "tr", "transpose", "list"}
    out = [
        # scalar variable of a terminal / of an expression; f built on it
        Slice("scalar", [W, F], S, 4, lits=[LIT["two"]], jets=J1, levels=[SV, S, DF, FIN], **kw),
        Slice("scalar-expr", [W, F], S, 5, jets=J1, levels=[{"mul", "add"}, SV, {"mul", "pow", "div", "sqrt"}, DF, FIN], **kw),
        Slice("scalar-2", [W, F], S, 5, jets=J1, levels=[SV, {"mul", "pow"}, {"mul", "add", "div"}, DF, FIN], **kw),
        # chain rule through exp, ln, sin, ... (w = 0, w1 = 1 at the point)
        Slice("math", [W, ("w1", ()), F], MATH | {"mul"}, 5, jets=J1, fixed={"w": 0, "w1": 1}, levels=[SV, MATH | {"mul"}, {"exp", "ln", "sin", "cos", "mul"}, DF, FIN], **dict(kw, chain="strict")),
        # two variables in one expansion (mixed partials, sums of derivatives with respect to different variables)
        Slice("two-vars", [W, ("w2", ())], S, 6, jets=dict(mode="variable", ndir=2, varsizes=(1, 1)), levels=[SV, SV, {"mul"}, DF, DF | {"add", "mul"}, FIN], **dict(kw, chain=True)),
        # the variable wraps a spatial derivative of a non-terminal (directions: 2 spatial + the variable's components)
        Slice("var-of-dx", [F, W], S | {"dx"}, 6, jets=dict(mode="mixed", ndir=3, nspat=2, varsizes=(1,)), levels=[{"mul"}, {"dx"}, SV, {"mul", "pow", "add"}, DF, FIN], **dict(kw, chain="strict")),
        Slice("var-of-grad", [F, W], T | {"grad"}, 6, idx=(10,), jets=dict(mode="mixed", ndir=4, nspat=2, varsizes=(2,)), levels=[{"mul"}, {"grad"}, SV, {"dot", "inner", "index"}, DF, FIN], mikinds=("fixed",), **dict(kw, chain="strict")),
        # the hyperelasticity idiom: variable(I + grad u), energy, stress
        Slice("var-of-gradu", [U, ("gu", (2, 2)), F], T, 5, idx=(10,), jets=dict(mode="variable", ndir=4, opts={"gu": {"grad_of": "u"}}), levels=[{"transpose", "add", "mul"}, SV, {"tr", "inner", "det", "dot"}, DF, FIN], mikinds=("fixed",), **dict(kw, chain="strict")),
        # powers whose exponent depends on the variable (w = 2 at the point): v**v, 2**v, v**(v*v) ...
        Slice("pow-var", [W, ("w1", ())], S, 5, lits=[LIT["two"]], jets=J1, fixed={"w": 2, "w1": 3}, levels=[SV, {"pow", "mul"}, {"pow", "mul", "add"}, DF, FIN], **dict(kw, chain="strict")),
        # repeated diff
        Slice("scalar-dd", [W, F], S, 5, jets=J1, levels=[SV, {"mul", "pow", "div"}, DF, DF, FIN], **kw),
        # nested variables: a plain variable between v and f
        Slice("nested", [W, F], S | {"variable"}, 6, jets=J1, levels=[SV, {"mul"}, {"variable"}, {"mul", "add"}, DF, FIN], **kw),
        # vector variable
        Slice("vector", [U, F], T, 4, idx=(10,), jets=J2, levels=[SV, {"index", "dot", "inner", "outer", "mul"}, DF, FIN], mikinds=("name", "fixed"), **kw),
        Slice("vector-2", [U, F], T, 5, idx=(10,), jets=J2, levels=[SV, {"index", "dot", "inner"}, {"mul", "add", "pow", "div"}, DF, FIN], mikinds=("fixed",), **kw),
        # tensor variable
        Slice("tensor", [A, F], T, 4, idx=(10,), jets=J4, levels=[SV, {"tr", "transpose", "inner", "index", "dot", "mul", "det"}, DF, FIN], mikinds=("fixed",), **kw),
        # diff with respect to a coefficient
        Slice("coef", [W, F], S, 4, lits=[LIT["two"]], jets=dict(mode="variable", ndir=1, seed_term="w"), levels=[{"mul", "pow", "div", "add", "abs"}, {"mul", "add", "div"}, DF, FIN], **kw),
        Slice("coef-vec", [U, F], T, 4, idx=(10,), jets=dict(mode="variable", ndir=2, seed_term="u"), levels=[{"index", "dot", "inner", "mul"}, {"mul", "add", "pow"}, DF, FIN], mikinds=("fixed",), **kw),
    ]
    return out


def structural(ctx, rec, obj, w):
    from ufl.classes import VariableDerivative
    from ufl.corealg.traversal import unique_pre_traversal

    for n in unique_pre_traversal(obj):
        if isinstance(n, VariableDerivative):
            return ("variable-derivative-left", "VariableDerivative survives expand_derivatives")
    return None


def refusal(rec, status, detail, w):
    return status == "mismatch:raise"


def run(ctx, args):
    ctx.rule = (
        "TLC enumerates programs [variable(e) (seeded), expressions on it, diff(f, v) (possibly twice), "
        "expand_derivatives] for scalar, vector and 2x2 tensor variables, variables of expressions, nested variables "
        "and diff with respect to a coefficient; replayed through ufl.variable/ufl.diff/expand_derivatives; "
        "shape f.shape + v.shape and every component compared exactly; case = one program; non-trivial = predicted value defined"
    )
    only = os.environ.get("VERIF_SLICES")
    sls = [sl for sl in slices(ctx.tier) if not only or sl.name in only.split(",")]
    run_slices(ctx, sls, "C04", post=structural, accept=refusal)


def replay(ctx, doc):
    replay_doc(ctx, doc, "C04")


def main(argv=None):
    main_wrapper("C04", run, argv)
