"""C06 — Lowering compound tensor algebra preserves values.

UFLBuild defines every compound operator from its mathematical definition (Laplace determinants,
cofactors, Gram-matrix pseudo-inverse, conjugation conventions of inner/outer); the action
`lower` (apply_algebra_lowering) must return an object with the same shape, free indices and
value, in which no compound node is left.  The (pseudo-)determinant/inverse/adjugate/cofactor
expression builders of ufl.compound_expressions are bound as the actions xdet/xinv/xadj/xcofac.
"""

from __future__ import annotations

import os

from ..builder import LIT, Slice, replay_doc, run_slices
from ..common import main_wrapper

F = ("f", ())
U, V = ("u", (2,)), ("v", (2,))
A, B = ("A", (2, 2)), ("B", (2, 2))
P, Q = ("p", (3,)), ("q", (3,))
M3 = ("M", (3, 3))
M4 = ("N", (4, 4))
T3 = ("T", (2, 2, 2))

ALG2 = {"dot", "inner", "outer", "transpose", "tr", "det", "inv", "cofac", "dev", "skew", "sym", "perp"}
ALG3 = {"cross", "dot", "inner", "outer", "transpose", "tr", "det", "inv", "cofac", "dev", "skew", "sym"}
ALG4 = {"det", "inv", "cofac", "transpose", "tr", "skew", "sym", "dot", "inner"}
CPX = {"inner", "outer", "dot", "conj", "tr", "transpose"}


def slices(tier):
    q = tier == "quick"
    LOW = {"lower"}
    MAKE = {"add", "neg", "list", "index", "transpose", "mul"}
    kw = dict(finalops=LOW, only_final=True)
    out = [
        # [compound, lower] on terminals
        Slice("low2", [F, U, V, A, B], ALG2, 2, idx=(10,), small=True, levels=[ALG2, LOW], **kw),
        # [operand maker, compound, lower]: compound operators applied to sums, list tensors, indexed
        # sub-tensors, transposes, scaled tensors
        Slice("low2-on-made", [F, U, A], ALG2, 3, idx=(10,), tiny=True, lits=[LIT["two"]], levels=[MAKE, ALG2, LOW], **kw),
        # [compound, compound, lower]
        Slice("low2-nested", [U, A], ALG2, 3, idx=(10,), tiny=True, levels=[ALG2, ALG2, LOW], **kw),
        Slice("low3", [P, Q, M3], ALG3, 2, idx=(10,), maxdim=3, gdim=3, tiny=True, levels=[ALG3, LOW], **kw),
        Slice("low4", [M4], ALG4, 2, idx=(10,), maxdim=4, gdim=3, tiny=True, levels=[ALG4, LOW], **kw),
        Slice("expr-square", [A, M3, M4], {"xdet", "xinv", "xadj", "xcofac"}, 1, idx=(10,), maxdim=4, gdim=3, tiny=True),
        Slice("expr-rect", [("R21", (2, 1)), ("R31", (3, 1)), ("R32", (3, 2)), ("R42", (4, 2)), ("R43", (4, 3))], {"xdet", "xinv"}, 1, idx=(10,), maxdim=4, gdim=3, tiny=True, square_gram=("R21", "R31", "R32", "R42", "R43")),
        Slice("low-complex", [F, U, V, A], CPX, 3, idx=(10,), lits=[LIT["i"]], complex_env=True, small=True, levels=[CPX | {"mul"}, CPX, LOW], **kw),
        Slice("low-free-index", [U, A, T3], {"index"}, 3, idx=(10, 11), maxrank=3, tiny=True, levels=[{"index"}, {"dot", "inner", "outer", "transpose", "tr"}, LOW], **kw),
    ]
    if not q:
        out += [
            Slice("low3-on-made", [P, M3], ALG3, 3, idx=(10,), maxdim=3, gdim=3, tiny=True, levels=[{"add", "neg", "transpose", "index"}, ALG3, LOW], **kw),
            Slice("low3-nested", [P, M3], ALG3, 3, idx=(10,), maxdim=3, gdim=3, tiny=True, levels=[ALG3, ALG3, LOW], **kw),
            Slice("low4-nested", [M4], ALG4, 3, idx=(10,), maxdim=4, gdim=3, tiny=True, levels=[{"transpose", "skew", "sym"}, ALG4, LOW], **kw),
            Slice("low2-deep4", [U, A], ALG2, 4, idx=(10,), tiny=True, levels=[{"add", "list", "transpose"}, ALG2, ALG2, LOW], **kw),
            Slice("low-deep", [F, U, V, A, B], ALG2 | {"add", "sub", "mul", "div", "index", "as_tensor", "list", "abs", "cond", "lt"}, 6, finalops=LOW, idx=(10, 11), tiny=True, simulate=160, depth=7),
        ]
    return out


def no_compound_left(rec, status, detail, w):
    return False


def run(ctx, args):
    ctx.rule = (
        "TLC enumerates every program of <= MaxNodes operator applications per slice followed by `lower`; each is "
        "replayed through ufl.<operator> and apply_algebra_lowering; a case = one program; non-trivial = predicted "
        "value defined in some environment"
    )
    ctx.assume("pseudo-determinant environments are chosen with det(A^T A) a perfect square so that the prediction is rational; real data for rectangular matrices")
    only = os.environ.get("VERIF_SLICES")
    sls = [sl for sl in slices(ctx.tier) if not only or sl.name in only.split(",")]
    run_slices(ctx, sls, "C06", post=structural)


def structural(ctx, rec, obj, w):
    """Structural postcondition of the pass: no compound tensor operator survives lowering."""
    if rec["prog"][-1]["op"] != "lower":
        return None
    from ufl.classes import CompoundDerivative, CompoundTensorOperator
    from ufl.corealg.traversal import unique_pre_traversal

    for n in unique_pre_traversal(obj):
        if isinstance(n, (CompoundTensorOperator, CompoundDerivative)):
            return ("compound-node-left:" + type(n).__name__, f"{type(n).__name__} survives apply_algebra_lowering")
    return None


def replay(ctx, doc):
    replay_doc(ctx, doc, "C06")


def main(argv=None):
    main_wrapper("C06", run, argv)
