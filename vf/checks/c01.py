"""C01 — Form preprocessing preserves the meaning of every integral.

Two bindings of the pipeline to explicit TLA+ specifications:

(protocol)  spec/Pipeline.tla models compute_form_data as a state machine over the option record,
            the stage counter and the set of node kinds present; TLC checks for ALL option vectors
            and ALL initial feature sets that the options' promises hold at the end.  Every real
            call made below is recorded by hook H1 (ufl/_verif.py) as a trace of (stage, observed
            feature set) and validated by TLC against the same actions (spec/TracePipeline.tla):
            stage order/enabling, MustRemove/MayIntroduce per pass, final promises.
(meaning)   spec/UFLBuild.tla (series semantics): the action pipeline(k) on an integrand e denotes
            e's value times the scaling factor of option vector k (|det J| w or 1).  TLC enumerates
            integrands with spatial derivatives, tensor algebra, index notation and geometry; the
            replay calls compute_form_data(e*dx, options k) and evaluates the PREPROCESSED
            integrand with reference-frame data derived from the same physical data on two concrete
            cells of opposite orientation.
"""

from __future__ import annotations

import json
import os

from .. import tlc
from ..builder import LIT, Slice, replay_doc, run_slices
from ..common import MachineryError, main_wrapper

F, G = ("f", ()), ("g", ())
U = ("u", (2,))
A = ("A", (2, 2))
X = ("x", (2,))
VOL = ("vol", ())
GOPTS = {"x": {"kind": "x"}, "vol": {"kind": "vol"}}
PIPE = {"pipeline"}
D2 = {"grad", "div", "curl", "nabla_grad", "nabla_div", "dx"}

P, S, L = "do_apply_function_pullbacks", "do_apply_integral_scaling", "do_apply_geometry_lowering"
CJ, RCT = "do_cancel_jacobian_products", "do_remove_component_tensors"


def option_vectors(tier):
    import ufl

    base = [
        {},
        {P: True, S: True, L: True},
        {P: True},
        {S: True},
        {L: True},
        {P: True, S: True},
        {P: True, L: True, "preserve_geometry_types": (ufl.classes.Jacobian,)},
        {P: True, S: True, L: True, CJ: True},
        {P: True, S: True, L: True, CJ: True, RCT: True},
        {P: True, S: True, L: True, RCT: True, "do_estimate_degrees": False},
    ]
    if tier != "quick":
        base += [
            {S: True, L: True},
            {P: True, L: True},
            {L: True, CJ: True},
            {P: True, S: True, L: True, "preserve_geometry_types": (ufl.classes.Jacobian, ufl.classes.JacobianInverse, ufl.classes.JacobianDeterminant)},
            {P: True, S: True, RCT: True},
            {S: True, L: True, CJ: True, RCT: True},
        ]
    return base


def slices(tier):
    q = tier == "quick"
    ov = option_vectors(tier)
    def kwo(idx):
        sel = ov if (idx is None or not q) else [ov[i] for i in idx]
        return dict(finalops=PIPE, only_final=True, nenv=2, pipeline=dict(options=sel, opts=GOPTS))

    kw = kwo(None)
    SC = {"mul", "add", "inner", "dot", "index", "div", "pow", "abs", "sqrt"}
    out = [
        # plain scalar integrands over fields and geometry
        Slice("alg", [F, G, U, X, VOL], SC, 2, lits=[LIT["two"]], idx=(10,), levels=[SC | {"tr", "det"}, PIPE], mikinds=("fixed", "name"), **kw),
        # derivative operators, then a scalar made of them
        Slice("d1", [F, U, A], D2, 3, idx=(10,), levels=[D2, {"inner", "dot", "index", "mul", "tr"}, PIPE], mikinds=("fixed",), **kwo([0, 1, 5, 7, 8])),
        # derivatives of expressions (products, quotients, geometry factors)
        Slice("d-expr", [F, X], D2 | SC, 4, idx=(10,), levels=[{"mul", "div", "dot"}, {"grad", "div", "dx"}, {"inner", "index"}, PIPE], mikinds=("fixed",), chain="strict", **kwo([1, 7])),
        # second derivatives
        Slice("d2", [F, U], D2, 4, idx=(10,), levels=[{"grad", "nabla_grad"}, {"grad", "div", "nabla_div", "dx"}, {"inner", "index", "tr", "dot"}, PIPE], mikinds=("fixed",), chain="strict", **kwo([1, 6, 8])),
    ]
    # Piola-mapped fields: the pool holds physical values/gradients; after pullbacks the integrand is read in the reference
    # frame, where the reference value is the inverse Piola map of the physical data (vf/pipeenv.py RefEnv._piola)
    PO = dict(GOPTS, q={"pullback": "contravariant"}, r={"pullback": "covariant"}, S={"pullback": "double_contravariant"},
              E={"pullback": "double_covariant"}, T={"pullback": "covariant_contravariant"}, p={"pullback": "l2"})

    def kwp(idx):
        sel = ov if (idx is None or not q) else [ov[i] for i in idx]
        return dict(finalops=PIPE, only_final=True, nenv=2, pipeline=dict(options=sel, opts=PO))

    out += [
        Slice("piola-v", [("q", (2,)), ("r", (2,)), ("p", ()), F], D2 | SC, 3, idx=(10,), levels=[{"div", "curl", "grad", "dot", "mul", "index"}, {"inner", "dot", "index", "mul", "tr"}, PIPE], mikinds=("fixed",), chain=True, **kwp([1, 2, 8])),
        Slice("piola-t", [("S", (2, 2)), ("E", (2, 2)), ("T", (2, 2)), U], SC | {"div", "tr", "det", "transpose"}, 3, idx=(10,), levels=[{"div", "dot", "index", "tr", "det", "transpose", "inner"}, {"inner", "dot", "index", "tr"}, PIPE], mikinds=("fixed",), chain=True, **kwp([1, 8])),
    ]
    if not q:
        out += [
            Slice("d-expr-wide", [F, G, X], D2 | SC, 4, idx=(10,), levels=[{"mul", "div", "dot"}, {"grad", "div", "dx"}, {"inner", "index", "mul"}, PIPE], mikinds=("fixed",), chain="strict", simulate=1500, depth=6, **kw),
            Slice("alg2", [F, G, U, A, X, VOL], SC, 3, lits=[LIT["two"]], idx=(10,), levels=[SC | {"tr", "det", "outer", "transpose"}, SC | {"tr", "det"}, PIPE], mikinds=("fixed", "name"), simulate=1500, depth=6, **kw),
            Slice("d-expr2", [F, G, U, X], D2 | SC, 4, idx=(10,), levels=[{"mul", "div", "index", "dot", "outer", "inner"}, D2, {"inner", "dot", "index", "mul", "tr"}, PIPE], mikinds=("fixed", "name"), simulate=1500, depth=6, **kw),
        ]
    return out


def refusal(rec, status, detail, w):
    """'Preprocessing either does this or raises an error'."""
    return status == "mismatch:raise"


# ---------------------------------------------------------------------------------------------
PIPE_CFG = """SPECIFICATION Spec
INVARIANT TypeOK
INVARIANT NoCompoundLeft
INVARIANT NoDerivLeft
INVARIANT RealModeNoCplx
INVARIANT PulledBack
INVARIANT GeometryLowered
INVARIANT JKLowered
INVARIANT ScaledOnce
INVARIANT NeverScaledTwice
"""


def validate_traces(ctx, traces):
    """TLC validates recorded executions against Pipeline.tla (batch)."""
    if not traces:
        raise MachineryError("no pipeline traces were recorded (hook H1 inactive?)")
    bad = 0
    for i in range(0, len(traces), 4000):
        chunk = traces[i : i + 4000]
        res = tlc.run("TracePipeline", "INIT TInit\nNEXT TNext\n", workers=1, timeout=900, extra_files={"traces.json": json.dumps(chunk)})
        if res.outcome != "ok" or not res.prints:
            raise MachineryError("TracePipeline failed:\n" + res.stdout[-1500:])
        ctx.add_tlc(res)
        verdicts = tlc.decode_prints(res)[0]
        if len(verdicts) != len(chunk):
            raise MachineryError("TracePipeline returned a wrong number of verdicts")
        for t, v in zip(chunk, verdicts):
            ctx.traces(1)
            if v != "ok":
                bad += 1
                ctx.violation(
                    "C01:protocol:" + v.split(":")[0] + ":" + (v.split(":")[1] if ":" in v else ""),
                    f"recorded execution of compute_form_data rejected by Pipeline.tla: {v}; options {t['opts']}; stages {[e['stage'] for e in t['ev']]}",
                    {"kind": "trace", "trace": t, "verdict": v},
                )
    ctx.count("pipeline_traces_validated", len(traces))
    return bad


def run(ctx, args):
    ctx.rule = (
        "(protocol) TLC explores Pipeline.tla over all option vectors and initial feature sets; every "
        "compute_form_data call of this run is recorded through hook H1 and validated by TLC against the same "
        "actions; (meaning) TLC enumerates integrands (fields with independent value/gradient/Hessian data, "
        "geometry x and cell volume, tensor algebra, index notation, spatial derivative operators up to order 2) "
        "followed by pipeline(k) for each option vector k; compute_form_data(e*dx, options k) is run and the "
        "preprocessed integrand evaluated with reference-frame data on two cells (det J > 0, < 0); "
        "case = (integrand, option vector); non-trivial = predicted value defined"
    )
    ctx.assume("cell integrals over affine triangles in 2D; Lagrange (identity pullback) coefficients; reference data = J^T-transformed physical derivative data; quadrature weight a fixed rational per cell")
    ctx.assume("facet integrals, Piola-mapped and mixed elements are covered piecewise by C07 (geometry), C08 (pullbacks), C17 (restrictions), C15 (grouping)")
    res = tlc.run("Pipeline", PIPE_CFG, workers=8, timeout=900)
    ctx.add_tlc(res)
    tlc.require_ok(res, "Pipeline")
    ctx.cov["pipeline_model_exhaustive"] = True

    from ..pipeline import Recorder

    rec = Recorder().install()
    try:
        only = os.environ.get("VERIF_SLICES")
        sls = [sl for sl in slices(ctx.tier) if not only or sl.name in only.split(",")]
        run_slices(ctx, sls, "C01", accept=refusal, world_hook=lambda w: setattr(w, "recorder", rec))
        corpus_traces(ctx, rec)
    finally:
        rec.uninstall()
    validate_traces(ctx, rec.traces)
    ctx.sample({"trace": {"opts": rec.traces[0]["opts"], "stages": [e["stage"] for e in rec.traces[0]["ev"]]}})


def corpus_traces(ctx, rec):
    """More executions for the protocol part: the forms of C27's pool (facet and interior facet
    integrals, arguments, several integrals) under every option vector, real and complex mode."""
    from ufl.algorithms import compute_form_data

    from .c27 import FormWorld

    fw = FormWorld()
    for _, _, form in fw.init:
        for o in option_vectors(ctx.tier):
            for cm in (False, True):
                try:
                    compute_form_data(form, complex_mode=cm, **o)
                except KeyboardInterrupt:
                    raise
                except BaseException:  # noqa: BLE001 - 'or raises an error'
                    rec.mark_raised()
                    ctx.count("corpus_calls_raised")
                ctx.evaluated()


def replay(ctx, doc):
    if doc["replay"].get("kind") == "trace":
        validate_traces(ctx, [doc["replay"]["trace"]])
        return
    replay_doc(ctx, doc, "C01")


def main(argv=None):
    main_wrapper("C01", run, argv)
