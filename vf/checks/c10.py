"""C10 — Index rewriting passes are value-preserving and hygienic.

Programs in index notation (reused index names across scopes, variables, zeros with free indices,
nested component tensors) are enumerated by TLC from UFLBuild; the passes expand_indices,
remove_component_tensors and renumber_indices are actions whose result must have the predicted
(= the operand's) shape, free indices and value.  Structural postconditions are checked on the
object each pass returns.
"""

from __future__ import annotations

import os

from ..builder import LIT, Slice, replay_doc, run_slices
from ..common import main_wrapper

F, G = ("f", ()), ("g", ())
U, V = ("u", (2,)), ("v", (2,))
A, B = ("A", (2, 2)), ("B", (2, 2))
T3 = ("T", (2, 2, 2))
W3 = ("w", (3,))

PASSES = {"expand_indices", "remove_ct", "renumber"}


def slices(tier):
    q = tier == "quick"
    kw = dict(finalops=PASSES, only_final=True, tiny=True)
    IDX = {"index", "as_tensor", "mul"}
    out = [
        Slice("idx2", [U, A], IDX, 3, idx=(10, 11), levels=[IDX, IDX, PASSES], **kw),
        Slice("idx3", [A], IDX, 4, idx=(10,), levels=[{"index"}, {"index", "as_tensor"}, IDX, PASSES], **kw),
        Slice("rank3", [T3], IDX, 3, idx=(10, 11), maxrank=3, levels=[{"index"}, {"as_tensor", "mul"}, PASSES], **kw),
        Slice("ct-nested", [A], {"index", "as_tensor"}, 5, idx=(10,), levels=[{"index"}, {"as_tensor"}, {"index"}, {"as_tensor", "index"}, PASSES], **kw),
        Slice("variables", [U], {"variable", "index", "mul", "add"}, 5, idx=(), levels=[{"variable"}, {"index"}, {"index"}, {"mul", "add"}, PASSES], **kw),
        Slice("zeros", [U, F], {"mul", "index", "as_tensor", "cond", "lt"}, 4, idx=(10,), lits=[LIT["zero"]], levels=[{"index", "lt"}, {"mul", "cond"}, {"mul", "as_tensor", "cond", "index"}, PASSES], **kw),
        # zeros that carry two free indices of DIFFERENT extents (0*u[i]*w[j]), hidden from zero simplification in a
        # conditional and closed by a (possibly transposing) component tensor
        Slice("zeros-mixed", [U, W3, F], {"index", "outer", "lt", "cond", "as_tensor"}, 6, idx=(10, 11), zerofi=[((10, 2), (11, 3))], maxdim=3,
              levels=[{"outer"}, {"index"}, {"lt"}, {"cond"}, {"as_tensor"}, PASSES], mikinds=("name",), chain=True, **kw),
        # a component tensor that survives inside a conditional (not directly indexed), whose body has another free index that an
        # enclosing component tensor binds and an outer subscript re-uses the inner bound index (capture hazard of remove_ct)
        Slice("ct-in-cond", [U, F], {"index", "mul", "as_tensor", "abs", "lt", "cond"}, 11, idx=(10, 11, 12),
              levels=[{"lt"}, {"index"}, {"index"}, {"mul"}, {"as_tensor"}, {"abs"}, {"cond"}, {"index"}, {"as_tensor"}, {"index"}, {"remove_ct"}], mikinds=("name",), chain="semi", **kw),
        # the index of an outer component tensor bound again by an inner one that survives (shadowing), subscripted with fixed indices
        Slice("shadow", [U], {"index", "mul", "as_tensor", "abs"}, 9, idx=(10, 11),
              levels=[{"index"}, {"index"}, {"mul"}, {"as_tensor"}, {"abs"}, {"index"}, {"as_tensor"}, {"index"}, {"remove_ct"}], mikinds=("name", "fixed"), chain="semi", **kw),
        # a sum over an index whose summand contains a closed inner sum over the SAME index object, the outer index used afterwards
        Slice("reuse-sum", [U, V], {"index", "mul", "lt", "cond"}, 7, idx=(10,), lits=[LIT["zero"]],
              levels=[{"index"}, {"index"}, {"mul"}, {"lt"}, {"cond"}, {"mul"}, PASSES], mikinds=("name",), chain="semi", **kw),
        Slice("lists", [U, F], {"list", "index", "mul"}, 4, idx=(10,), levels=[{"index", "list"}, {"list", "index"}, {"index", "mul"}, PASSES], **kw),
        Slice("deep", [F, U, V, A], {"index", "as_tensor", "mul", "add", "list", "neg", "variable", "dot", "inner", "outer"}, 7, idx=(10, 11, 12), finalops=PASSES, tiny=True, simulate=8 if q else 200, depth=8),
    ]
    if not q:
        out += [
            # as_tensor(A[i,j]*v[j], (i,))[j]: indexing a component tensor with an index bound inside it
            # the same hazard with an inner component tensor over TWO indices, the captured one being the second
            Slice("ct2-in-cond", [U, F], {"index", "mul", "as_tensor", "abs", "lt", "cond"}, 13, idx=(10, 11, 12),
                  levels=[{"lt"}, {"index"}, {"index"}, {"index"}, {"mul"}, {"mul"}, {"as_tensor"}, {"abs"}, {"cond"}, {"index"}, {"as_tensor"}, {"index"}, {"remove_ct"}], mikinds=("name", "fixed"), chain="semi", simulate=6000, depth=14, **kw),
            Slice("capture", [A, U], {"index", "mul", "as_tensor"}, 6, idx=(10, 11), levels=[{"index"}, {"index"}, {"mul"}, {"as_tensor"}, {"index"}, PASSES], mikinds=("name",), **kw),
            # as_tensor(conditional(f<0, 0*g[i], g[i]), (i,))[0]: zero with a free index below a component tensor
            Slice("zero-ct", [U, F], {"index", "lt", "mul", "cond", "as_tensor"}, 7, idx=(10,), lits=[LIT["zero"]], levels=[{"index"}, {"lt"}, {"mul"}, {"cond"}, {"as_tensor"}, {"index"}, PASSES], mikinds=("name", "fixed"), **kw),
            Slice("idx3-wide", [U, A], IDX, 4, idx=(10, 11), levels=[IDX, IDX, IDX, PASSES], **kw),
            Slice("idx-sum", [U, A, F], IDX | {"add"}, 4, idx=(10, 11), levels=[{"index"}, {"index", "mul", "add"}, IDX | {"add"}, PASSES], **kw),
            Slice("ct-nested-wide", [A, U], {"index", "as_tensor"}, 5, idx=(10, 11), levels=[{"index"}, {"as_tensor"}, {"index"}, {"as_tensor", "index", "mul"}, PASSES], **kw),
            Slice("variables-wide", [U, A], {"variable", "index", "mul", "add"}, 5, idx=(10,), levels=[{"variable"}, {"index"}, {"index"}, {"mul", "add"}, PASSES], **kw),
            Slice("zeros-wide", [U, F], {"mul", "index", "as_tensor", "cond", "lt", "add"}, 4, idx=(10, 11), lits=[LIT["zero"]], zeros=[(2,)], levels=[{"index", "lt"}, {"mul", "index", "cond"}, {"mul", "as_tensor", "cond", "add", "index"}, PASSES], **kw),
            Slice("lists-wide", [U, A, F], {"list", "index", "mul"}, 4, idx=(10, 11), levels=[{"index", "list"}, {"list", "index", "mul"}, {"index", "mul"}, PASSES], **kw),
        ]
    return out


def structural(ctx, rec, obj, w):
    """Structural postcondition of each pass on the object it returned."""
    op = rec["prog"][-1]["op"]
    from ufl.classes import ComponentTensor, Index, Indexed, IndexSum, MultiIndex
    from ufl.corealg.traversal import unique_pre_traversal

    nodes = list(unique_pre_traversal(obj))
    if op == "expand_indices":
        for n in nodes:
            if isinstance(n, MultiIndex) and any(isinstance(i, Index) for i in n):
                return ("free-index-left", "a free Index survives expand_indices")
            if isinstance(n, (IndexSum, ComponentTensor)):
                return ("binder-left:" + type(n).__name__, f"{type(n).__name__} survives expand_indices")
    if op == "renumber":
        seen = []
        from ufl.corealg.traversal import pre_traversal

        counts = sorted({i.count() for n in nodes if isinstance(n, MultiIndex) for i in n if isinstance(i, Index)})
        if counts and counts != list(range(len(counts))):
            return ("indices-not-renumbered-from-zero", f"index counts after renumber_indices: {counts}")
    return None


def run(ctx, args):
    ctx.rule = (
        "TLC enumerates index-notation programs level by level (reused index names, variables, zero tensors with free "
        "indices, nested component tensors) ending in one of the passes; each is replayed through the public API and "
        "the real pass; a case = one program ending in a pass; non-trivial = predicted value defined"
    )
    ctx.assume("expand_indices is applied to scalar expressions without free indices (as in the pipeline, after lowering); renumber_indices to expressions without free indices (it renames free indices)")
    only = os.environ.get("VERIF_SLICES")
    sls = [sl for sl in slices(ctx.tier) if not only or sl.name in only.split(",")]
    run_slices(ctx, sls, "C10", post=structural)


def replay(ctx, doc):
    replay_doc(ctx, doc, "C10")


def main(argv=None):
    main_wrapper("C10", run, argv)
