"""C16 — lhs / rhs / system / action / adjoint / energy_norm / functional respect the algebra.

spec/Parts.tla: integrand terms as a state machine (one action per constructor) whose records carry
the exact value of the term at every evaluation point (coefficient environment x unit vector for
the test function x unit vector for the trial function), PartExtracter / FormSplitter / the
compute_form_* functions transcribed AS CODED on top, and the MEANING of the operators as the
decomposition of that table into constant + linear + bilinear part.  TLC checks, for every form in
the bound, that code and meaning agree (and shows the counterexample where they do not), and prints
(program, operator, predicted tables).

Binding (this module): every printed behaviour is rebuilt through ufl's public API (real
TestFunction / TrialFunction / Coefficient on scalar, vector, MixedElement and MixedFunctionSpace
spaces, real measures), the real operator is applied, and input and outputs are "assembled at a
point" with vf/sem.py (Arguments are terminals whose value is the unit vector of the point).  Three
comparisons: (1) the real input table = TLC's table (the binding itself); (2) the real output
tables = the tables predicted by the as-coded model, and refusals coincide (conformance); (3) for
forms of the property's class the real outputs satisfy the algebraic identities of the property,
computed from the REAL input table only (so a wrong model cannot hide a wrong answer), also at a
generic (non unit) argument value.

This module also hosts the machinery shared with C22 (universes, MC module generation, world of
real objects, point assembly), including what only C22 uses: interior facet universes (Uni.sides = 2:
restrictions rp / rm, dS integrals, slots and coefficient values per side of the facet).
"""

from __future__ import annotations

import itertools
import json
import os
import random
import time
from fractions import Fraction

from .. import tlc
from ..common import MachineryError, main_wrapper
from ..envs import TermEnv
from ..scalar import Cx, Undefined, close, from_tla, to_tla
from ..sem import Evaluator, Unsupported

PID = "C16"
TLC_WORKERS = 4
PY_PROCS = int(os.environ.get("VERIF_PY_PROCS", "6"))
JAVA_OPTS = "-DTLA-Library=/verif/spec -Xmx3g -Xmn256m -XX:ParallelGCThreads=2 -Dtlc2.tool.queue.IStateQueue=StateDeque"

PROPERTY_INVS = (
    "WellFormed",
    "MeaningSound",
    "SystemSplits",
    "FunctionalIsConstant",
    "RefusalOnlyMixedList",
    "ActionContracts",
    "AdjointTransposes",
    "AdjointGuard",
    "EnergyIsQuadratic",
    "BlocksPartition",
    "BlocksLocal",
    "BlocksShape",
    "SplitterKeepsOwn",
)

def _seq(t):
    return "<<" + ", ".join(str(x) for x in t) + ">>"


def comps(shape):
    return list(itertools.product(*[range(n) for n in shape]))


def hash_name(s):
    h = 0
    for ch in s:
        h = (h * 131 + ord(ch)) % 100003
    return h


# --------------------------------------------------------------------------------------------
# Universes: one bounded instance of Parts.tla
# --------------------------------------------------------------------------------------------


class Uni:
    """mixed: 'none' | 'element' | 'space'; vsub / usub: shapes of the sub-spaces of the test /
    trial space (usub None: no trial function); udeg: polynomial degree of the trial space
    (2: a different space than the test space even for equal shapes).
    vkinds / ukinds: the kind of every sub-element (default "P": Lagrange, reference value shape =
    physical value shape = the entry of vsub / usub); "sym": symmetric 2x2 tensor element (entry
    (2, 2), reference value size 3); "curl": covariant Piola mapped vector element (reference value
    shape (tdim,) = (2,), physical value shape (gdim,)).  gdim: geometric dimension of the mesh
    (3: a triangle mesh immersed in 3D).
    sides = 2: the universe of an interior facet (spec: Sides): the slots of the value vectors are listed
    twice ('+' traces, then '-' traces), restrictions (rp / rm) and dS integrals (keys 5, 6) exist."""

    SUB_KINDS = ("P", "sym", "curl")

    def __init__(self, name, mixed, vsub, usub, coefs, ops, maxnodes, formops, keypairs=(), lits=(("two", 2),), udeg=1, complex_env=True, simulate=None, depth=None, exclude=(), nenv=2, pre=(), uplain=False, wrapidx=False,
                 vkinds=None, ukinds=None, gdim=2, sides=1):
        self.name = name
        self.gdim = gdim
        self.sides = sides
        self.vkinds = list(vkinds) if vkinds else ["P"] * len(vsub)
        self.ukinds = list(ukinds) if ukinds else ["P"] * len(usub or [])
        self.wrapidx = wrapidx  # sampled programs also index Variable / Conj / Real / Imag nodes (exhaustive universes always do)
        self.uplain = uplain  # mixed == "element": the trial space is an ordinary (not mixed) space
        self.pre = [(op, tuple(a), tuple(mi)) for op, a, mi in pre]  # extra initial nodes: (op, operand names, mi)
        self.mixed = mixed
        self.vsub = [tuple(s) for s in vsub]
        self.usub = None if usub is None else [tuple(s) for s in usub]
        self.coefs = [(n, tuple(s)) for n, s in coefs]
        self.ops = set(ops)
        self.maxnodes = maxnodes
        self.formops = set(formops)
        self.keypairs = [tuple(k) for k in keypairs]
        self.lits = list(lits)
        self.udeg = udeg
        self.complex_env = complex_env
        self.simulate = simulate
        self.depth = depth
        self.exclude = set(exclude)
        self.nenv = nenv
        self._layout()

    def to_json(self):
        return dict(
            name=self.name, mixed=self.mixed, vsub=[list(s) for s in self.vsub], usub=None if self.usub is None else [list(s) for s in self.usub],
            coefs=[[n, list(s)] for n, s in self.coefs], ops=sorted(self.ops), maxnodes=self.maxnodes, formops=sorted(self.formops),
            keypairs=[list(k) for k in self.keypairs], lits=[[n, v] for n, v in self.lits], udeg=self.udeg, complex_env=self.complex_env,
            exclude=sorted(self.exclude), nenv=self.nenv, pre=[[op, list(a), list(mi)] for op, a, mi in self.pre], uplain=self.uplain, wrapidx=self.wrapidx,
            vkinds=list(self.vkinds), ukinds=list(self.ukinds), gdim=self.gdim, sides=self.sides,
        )

    @staticmethod
    def from_json(d):
        return Uni(d["name"], d["mixed"], d["vsub"], d["usub"], d["coefs"], d["ops"], d["maxnodes"], d["formops"], d["keypairs"],
                   [tuple(x) for x in d["lits"]], d["udeg"], d["complex_env"], exclude=d.get("exclude", ()), nenv=d.get("nenv", 2), pre=d.get("pre", ()), uplain=d.get("uplain", False), wrapidx=d.get("wrapidx", False),
                   vkinds=d.get("vkinds"), ukinds=d.get("ukinds"), gdim=d.get("gdim", 2), sides=d.get("sides", 1))

    # ---- derived layout --------------------------------------------------------------------
    @staticmethod
    def _size(sh):
        n = 1
        for d in sh:
            n *= d
        return n

    def ref_size(self, kind, sh):
        """reference value size of a sub-element of kind `kind` with physical value shape sh"""
        if kind == "P":
            return self._size(sh)
        if kind == "sym" and sh == (2, 2):
            return 3
        if kind == "curl" and sh == (self.gdim,):
            return 2
        raise MachineryError(f"universe {self.name}: no sub-element of kind {kind} with value shape {sh} on a mesh of dimension {self.gdim}")

    def _layout(self):
        mixed = self.mixed
        if len(self.vkinds) != len(self.vsub) or len(self.ukinds) != len(self.usub or []):
            raise MachineryError(f"universe {self.name}: one kind per sub-element")
        # <<physical, reference>> value size of the sub-elements of a MixedElement side (spec: VSub / USub)
        self.vsubsz = [(self._size(sh), self.ref_size(k, sh)) for k, sh in zip(self.vkinds, self.vsub)] if mixed == "element" else []
        self.usubsz = [(self._size(sh), self.ref_size(k, sh)) for k, sh in zip(self.ukinds, self.usub or [])] if mixed == "element" and not self.uplain else []
        if mixed != "element" and any(k != "P" for k in self.vkinds + self.ukinds):
            raise MachineryError(f"universe {self.name}: sub-element kinds are modelled for MixedElement spaces only")
        sides = [("v", 0, self.vsub)] + ([("u", 1, self.usub)] if self.usub is not None else [])
        self.same_space = self.usub is not None and self.usub == self.vsub and self.udeg == 1
        args = []  # (name, num, part, shape)
        for nm, num, subs in sides:
            if mixed == "space":
                for p, sh in enumerate(subs):
                    args.append((f"{nm}{p}", num, p + 1, sh))
            elif mixed == "element" and not (num == 1 and self.uplain):
                args.append((nm, num, 0, (sum(self._size(s) for s in subs),)))
            else:
                assert len(subs) == 1
                args.append((nm, num, 0, subs[0]))
        self.args = args
        # action / energy_norm coefficients: one per argument, on the argument's space; shared
        # between test and trial function when the spaces are equal
        coefs = list(self.coefs)
        act = []
        for a, (nm, num, part, sh) in enumerate(args):
            if num == 0 and self.same_space:
                act.append(None)  # filled from the trial side
                continue
            coefs.append((f"w_{nm}", sh))
            act.append(len(coefs))
        if self.same_space:
            nv = len([a for a in args if a[1] == 0])
            for k in range(nv):
                act[k] = act[nv + k]
        self.allcoefs = coefs
        self.actcoef = act
        na, nc, nl = len(args), len(coefs), len(self.lits)
        self.arg_id = {nm: a + 1 for a, (nm, _, _, _) in enumerate(args)}
        self.coef_id = {nm: na + k + 1 for k, (nm, _) in enumerate(coefs)}
        self.lit_id = {nm: na + nc + k + 1 for k, (nm, _) in enumerate(self.lits)}
        # prelude: the pieces of ufl.split for MixedElement arguments
        prelude = []
        nid = na + nc + nl
        self.pieces = {}  # (num, sub) -> node id
        self.helper = {}  # node id -> (argument name, flat component)
        pnames = {}  # names of the pieces: "v_0", "v_1", ...; of their components: "v[1]", ...
        if mixed == "element":
            for nm, num, subs in sides:
                if num == 1 and self.uplain:
                    continue
                off = 0
                aid = self.arg_id[nm]
                for s, sh in enumerate(subs):
                    n = self._size(sh)
                    if sh == ():
                        prelude.append(("index", (aid,), (off,)))
                        nid += 1
                        self.pieces[(num, s)] = nid
                        self.helper[nid] = (nm, off)
                        pnames[f"{nm}_{s}"] = nid
                    else:
                        ids = []
                        for k in range(n):
                            prelude.append(("index", (aid,), (off + k,)))
                            nid += 1
                            ids.append(nid)
                            self.helper[nid] = (nm, off + k)
                            pnames[f"{nm}[{off + k}]"] = nid
                        if len(sh) == 2:
                            # a matrix valued piece: the list tensor of its rows ("v_0r0", "v_0r1", ...)
                            rows = []
                            for r in range(sh[0]):
                                prelude.append(("list", tuple(ids[r * sh[1] : (r + 1) * sh[1]]), ()))
                                nid += 1
                                rows.append(nid)
                                pnames[f"{nm}_{s}r{r}"] = nid
                            prelude.append(("rows", tuple(rows), ()))
                        elif len(sh) == 1:
                            prelude.append(("list", tuple(ids), ()))
                        else:
                            raise MachineryError(f"universe {self.name}: sub-element of rank {len(sh)}")
                        nid += 1
                        self.pieces[(num, s)] = nid
                        pnames[f"{nm}_{s}"] = nid
                    off += n
        # extra initial nodes ("p1", "p2", ... name them)
        names = dict(self.arg_id)
        names.update(self.coef_id)
        names.update(self.lit_id)
        names.update(pnames)
        for k, (op, anames, mi) in enumerate(self.pre):
            prelude.append((op, tuple(names[a] for a in anames), mi))
            nid += 1
            names[f"p{k + 1}"] = nid
        self.node_id = names
        self.prelude = prelude
        self.ninit = nid
        # slots
        self.vslot, self.uslot, self.vpart, self.upart = [], [], [], []
        for a, (nm, num, part, sh) in enumerate(args):
            cs = comps(sh)
            for c in cs:
                (self.vslot if num == 0 else self.uslot).append((a + 1, c))
        for num, subs, slots, parts in ((0, self.vsub, self.vslot, self.vpart), (1, self.usub or [], self.uslot, self.upart)):
            if mixed == "none":
                parts.extend([1] * len(slots))
            else:
                for p, sh in enumerate(subs):
                    parts.extend([p + 1] * self._size(sh))
        # an interior facet: the '+' traces of all components, then their '-' traces
        self.nvh, self.nuh = len(self.vslot), len(self.uslot)
        for lst in (self.vslot, self.uslot, self.vpart, self.upart):
            lst.extend(list(lst) * (self.sides - 1))
        self.nv, self.nu = len(self.vslot), len(self.uslot)
        self.kv = len(self.vsub)
        self.ku = len(self.usub) if self.usub is not None else 1
        excl = {self.node_id[n] for n in self.exclude if n in self.node_id}
        # the substituted coefficients are ordinary coefficients of the forms as well
        self.usable = [i for i in range(1, self.ninit + 1) if i not in excl]

    def coef_values(self, seed):
        """values[e][k][comp] -> Cx: small pairwise distinct rationals; the last environment is
        complex when complex_env."""
        rng = random.Random(seed * 7919 + hash_name(self.name))
        pool = [Fraction(x) for x in (2, 3, 5, -2, -3, 7, -5, -7, 4, -4)] + [Fraction(1, 2), Fraction(-1, 2), Fraction(3, 2)]
        ims = [Fraction(x) for x in (1, -1, 2, -2, 3)]
        vals = []
        for e in range(self.nenv):
            p = pool[:]
            rng.shuffle(p)
            it = itertools.cycle(p)
            env = []
            for nm, sh in self.allcoefs:
                tab = {}
                for c in comps(sh):
                    re = next(it)
                    if self.complex_env and e == self.nenv - 1:
                        tab[c] = Cx(re, rng.choice(ims))
                    else:
                        tab[c] = Cx(re)
                env.append(tab)
            vals.append(env)
        return vals


def mc_module(name, uni, coefval, ascoded, programs=None):
    def slots(sl):
        return "<<" + ", ".join(f"<<{a}, {_seq(c)}>>" for a, c in sl) + ">>"

    cv = "<<" + ",\n  ".join(
        "<<" + ", ".join("(" + " @@ ".join(f"{_seq(c)} :> {to_tla(env[k][c])}" for c in comps(sh)) + ")" for k, (nm, sh) in enumerate(uni.allcoefs)) + ">>"
        for env in coefval
    ) + ">>"
    args = ", ".join(f'[nm |-> "{nm}", num |-> {num}, part |-> {part}, sh |-> {_seq(sh)}]' for nm, num, part, sh in uni.args)
    coefs = ", ".join(f'[nm |-> "{nm}", sh |-> {_seq(sh)}]' for nm, sh in uni.allcoefs)
    lits = ", ".join(f'[nm |-> "{nm}", v |-> {to_tla(Cx.of(v))}]' for nm, v in uni.lits)
    prel = ", ".join(f'[op |-> "{op}", args |-> {_seq(a)}, mi |-> {_seq(mi)}]' for op, a, mi in uni.prelude)
    return f"""---- MODULE {name} ----
EXTENDS Parts
c_Args == <<{args}>>
c_Coefs == <<{coefs}>>
c_CoefVal ==
  {cv}
c_Lits == <<{lits}>>
c_Prelude == <<{prel}>>
c_Usable == {{{", ".join(map(str, uni.usable))}}}
c_OpSet == {{{", ".join(json.dumps(o) for o in sorted(uni.ops))}}}
c_FormOps == {{{", ".join(json.dumps(o) for o in sorted(uni.formops))}}}
c_KeyPairs == {{{", ".join(_seq(k) for k in uni.keypairs)}}}
c_VSlot == {slots(uni.vslot)}
c_USlot == {slots(uni.uslot)}
c_VPartOf == {_seq(uni.vpart)}
c_UPartOf == {_seq(uni.upart)}
c_ActCoef == {_seq([a or 0 for a in uni.actcoef])}
c_VSub == <<{", ".join(_seq(x) for x in uni.vsubsz)}>>
c_USub == <<{", ".join(_seq(x) for x in uni.usubsz)}>>
c_Programs == {'LET s == JsonDeserialize("programs.json") IN {s[i] : i \\in DOMAIN s}' if programs else "{}"}
====
"""


def mc_cfg(uni, ascoded, invariants=PROPERTY_INVS, dump=True, offset_by="physical"):
    lines = [
        "CONSTANTS",
        "Args <- c_Args",
        "Coefs <- c_Coefs",
        "CoefVal <- c_CoefVal",
        f"NEnv = {uni.nenv}",
        "Lits <- c_Lits",
        "Prelude <- c_Prelude",
        "Usable <- c_Usable",
        "OpSet <- c_OpSet",
        f"MaxNodes = {uni.maxnodes}",
        "FormOps <- c_FormOps",
        "KeyPairs <- c_KeyPairs",
        "VSlot <- c_VSlot",
        "USlot <- c_USlot",
        f"NV = {uni.nv}",
        f"NU = {uni.nu}",
        "VPartOf <- c_VPartOf",
        "UPartOf <- c_UPartOf",
        f"KV = {uni.kv}",
        f"KU = {uni.ku}",
        f'Mixed = "{uni.mixed}"',
        "ActCoef <- c_ActCoef",
        f"SameSpace = {'TRUE' if uni.same_space else 'FALSE'}",
        f"AsCoded = {'TRUE' if ascoded else 'FALSE'}",
        "VSub <- c_VSub",
        "USub <- c_USub",
        f'OffsetBy = "{offset_by}"',
        "Programs <- c_Programs",
        f"Sides = {uni.sides}",
        "SPECIFICATION Spec",
    ]
    lines += [f"INVARIANT {i}" for i in invariants]
    if dump:
        lines.append("INVARIANT DumpInv")
    return "\n".join(lines) + "\n"


def run_tlc(uni, seed, ascoded=False, invariants=PROPERTY_INVS, dump=True, timeout=900, workers=TLC_WORKERS, small=False, offset_by="physical"):
    """One TLC run on a universe: exhaustive, or -- when uni.simulate = N -- on N sampled programs
    (drawn here, seeded; TLC checks every step against the constructors' guards)."""
    coefval = uni.coef_values(seed)
    name = "MC_" + uni.name.replace("-", "_")
    programs = sample_programs(uni, seed, uni.simulate) if uni.simulate else None
    res = tlc.run(name, mc_cfg(uni, ascoded, invariants, dump, offset_by), mc_text=mc_module(name, uni, coefval, ascoded, programs), mc_name=name,
                  workers=workers, timeout=timeout, env={"JAVA_TOOL_OPTIONS": JAVA_OPTS + (" -XX:TieredStopAtLevel=1" if small else "")},  # small runs: JIT start-up dominates
                  extra_files={"programs.json": json.dumps(programs)} if programs else None)
    if programs:
        res.mode = "sampled"
    return coefval, res


UNARY = ("neg", "abs", "conj", "real", "imag", "var", "rp", "rm")
FACET_KEYS = (5, 6)
BINARY = ("add", "sub", "mul", "div", "pow", "inner", "dot", "outer", "list", "isum")
# mirrors of IndexableOps / FreeIndexableOps (operands that ufl indexes without rewriting them)
INDEXABLE = ("arg", "coef", "outer", "var", "conj", "real", "imag", "rp", "rm")
FREE_INDEXABLE = ("arg", "coef", "var", "conj", "real", "imag", "list", "rp", "rm")


def sample_programs(uni, seed, n):
    """n random programs [prog, ints] over the universe's alphabet with depth <= uni.depth nodes,
    every built node an ancestor of a root.  Shapes are tracked so that most programs are legal;
    TLC's guards decide."""
    rng = random.Random(seed * 104729 + hash_name(uni.name) + 7)
    shapes0 = [sh for _, _, _, sh in uni.args] + [sh for _, sh in uni.allcoefs] + [() for _ in uni.lits]
    kinds0 = ["arg"] * len(uni.args) + ["coef"] * len(uni.allcoefs) + ["lit"] * len(uni.lits)
    degs0 = [frozenset({(1, 0) if num == 0 else (0, 1)}) for _, num, _, _ in uni.args] + [frozenset({(0, 0)})] * (len(uni.allcoefs) + len(uni.lits))
    rst0 = ["free"] * (len(uni.args) + len(uni.allcoefs)) + ["lit"] * len(uni.lits)  # mirror of the nodes' `rs`
    for op, args, mi in uni.prelude:
        xs = [shapes0[i - 1] for i in args]
        shapes0.append(_op_shape(op, xs))
        kinds0.append(op)
        degs0.append(_op_degs(op, [degs0[i - 1] for i in args]))
        rst0.append(_op_rs(op, [rst0[i - 1] for i in args]))
    nbase = len(uni.args) + len(uni.allcoefs) + len(uni.lits)
    pure = uni.formops == {"extract_blocks"}  # only purely bilinear / linear forms are block-extracted
    ops = sorted(uni.ops)
    maxd = uni.depth or uni.maxnodes
    out = []
    seen = set()
    tries = 0
    while len(out) < n and tries < 60 * n:
        tries += 1
        shapes, kinds, degs, rst = list(shapes0), list(kinds0), list(degs0), list(rst0)
        prog = []
        unused = []
        depth = rng.randint(2, maxd)
        for step in range(depth):
            avail = uni.usable + list(range(uni.ninit + 1, len(shapes) + 1))
            for _ in range(8):
                op = rng.choice(ops)

                def pick(compat=None):
                    # prefer nodes nothing uses yet, so that the program stays connected
                    pool = unused if unused and rng.random() < 0.65 else avail
                    if compat is not None:
                        # interior facet universes: an operand whose restriction state fits (mirror of RsOk)
                        pool = [i for i in pool if rst[i - 1] in compat] or pool
                    return rng.choice(pool)

                def fits(i):
                    return None if uni.sides == 1 else {"done": ("done", "lit"), "free": ("free", "lit"), "lit": None}[rst[i - 1]]

                def restricted(i):
                    """the operand of the restriction node i"""
                    return prog[i - uni.ninit - 1]["args"][0] if i > uni.ninit else uni.prelude[i - nbase - 1][1][0]

                if op in ("rp", "rm"):
                    # the other trace of an expression of which one trace exists already, or any expression
                    twins = sorted({restricted(i) for i in avail if kinds[i - 1] == ("rm" if op == "rp" else "rp")})
                    a = [rng.choice(twins) if twins and rng.random() < 0.5 else pick(("free",))]
                    mi = []
                elif op in UNARY:
                    a = [pick()]
                    mi = []
                elif op == "index":
                    a = [pick()]
                    sh = shapes[a[0] - 1]
                    if not sh or kinds[a[0] - 1] not in (INDEXABLE if uni.wrapidx else INDEXABLE[:3] + (("rp", "rm") if uni.sides == 2 else ())):
                        continue
                    mi = [rng.randrange(d) for d in sh]
                else:
                    a = [pick()]
                    # x('+') with x('-') (the terms of jumps and averages), or any operand
                    twins = [i for i in avail if {kinds[i - 1], kinds[a[0] - 1]} == {"rp", "rm"} and restricted(i) == restricted(a[0])] if uni.sides == 2 else []
                    a.append(rng.choice(twins) if twins and rng.random() < 0.4 else pick(fits(a[0])))
                    mi = []
                sh = _op_shape(op, [shapes[i - 1] for i in a])
                if sh is None:
                    continue
                rs = _op_rs(op, [rst[i - 1] for i in a])
                if rs is None:
                    continue
                if op == "pow" and not (kinds[a[1] - 1] == "lit"):
                    continue
                if op in ("abs", "conj", "real", "imag", "neg", "var") and kinds[a[0] - 1] == "lit":
                    continue
                if op == "list" and any(kinds[i - 1] == "lit" for i in a):
                    continue
                if op == "isum" and any(kinds[i - 1] not in FREE_INDEXABLE for i in a):
                    continue
                if op in ("add", "sub", "mul", "div") and all(kinds[i - 1] == "lit" for i in a):
                    continue
                dg = _op_degs(op, [degs[i - 1] for i in a])
                if pure and not all(d[0] <= 1 and d[1] <= 1 for d in dg):
                    continue
                prog.append({"op": op, "args": a, "mi": mi})
                shapes.append(sh)
                kinds.append(op)
                degs.append(dg)
                rst.append(rs)
                nid = len(shapes)
                unused = [u for u in unused if u not in a] + [nid]
                break
        if not prog or shapes[-1] != ():
            continue
        last = len(shapes)
        roots = [last]
        ok_class = ({(1, 1)}, {(1, 0)}) if pure else None
        if pure and degs[last - 1] not in ok_class:
            continue
        if not pure and rng.random() < 0.6 and not degs[last - 1] <= {(0, 0), (1, 0), (1, 1)}:
            continue  # favour forms of the property's class
        facet = rst[last - 1] == "done"  # an integrand of interior facet integrals (mirror of KeyOk)
        pairs = [kp for kp in uni.keypairs if (kp[1] in FACET_KEYS) == facet]
        if pairs and rng.random() < 0.35:
            pfacet = {kp[0] in FACET_KEYS for kp in pairs}
            cands = [u for u in unused if u != last and shapes[u - 1] == () and (not pure or degs[u - 1] == degs[last - 1]) and (rst[u - 1] == "done") in pfacet]
            if cands:
                roots = [rng.choice(cands), last]
                pairs = [kp for kp in pairs if (kp[0] in FACET_KEYS) == (rst[roots[0] - 1] == "done")]
        # drop nodes that no root uses, renumber
        live = set()
        stack = list(roots)
        while stack:
            i = stack.pop()
            if i in live or i <= uni.ninit:
                continue
            live.add(i)
            stack.extend(prog[i - uni.ninit - 1]["args"])
        ren = {}
        newprog = []
        for i in range(uni.ninit + 1, last + 1):
            if i in live:
                ren[i] = uni.ninit + len(newprog) + 1
                nd = prog[i - uni.ninit - 1]
                newprog.append({"op": nd["op"], "args": [ren.get(x, x) for x in nd["args"]], "mi": nd["mi"]})
        if len(roots) == 2:
            kp = rng.choice(pairs)
            ints = [{"key": kp[0], "root": ren[roots[0]]}, {"key": kp[1], "root": ren[roots[1]]}]
        else:
            ints = [{"key": 5 if facet else 1, "root": ren[last]}]
        key = json.dumps([newprog, ints])
        if key in seen or len(newprog) < 2:
            continue
        seen.add(key)
        out.append({"prog": newprog, "ints": ints})
    return out


def _op_degs(op, ds):
    """mirror of OpDegs"""
    A, B = ds[0], ds[-1]
    Z, NL = frozenset({(0, 0)}), frozenset({(3, 3)})
    if op in ("add", "sub"):
        return A | B
    if op in ("neg", "conj", "real", "imag", "var", "index", "rp", "rm"):
        return A
    if op in ("mul", "inner", "dot", "outer", "isum"):
        return frozenset((min(a[0] + b[0], 3), min(a[1] + b[1], 3)) for a in A for b in B)
    if op == "div":
        return A if B == Z else NL
    if op == "abs":
        return Z if A == Z else NL
    if op == "pow":
        return Z if A == Z and B == Z else NL
    if op in ("list", "rows"):
        return frozenset().union(*ds)
    raise MachineryError(f"no degrees for {op}")


def _op_rs(op, rss):
    """restriction state of the result, or None when the constructor refuses (mirror of OpRs / RsOk)"""
    if op in ("rp", "rm"):
        return "done" if rss[0] == "free" else None
    if "done" in rss:
        return None if "free" in rss else "done"
    return "free" if "free" in rss else "lit"


def _op_shape(op, xs):
    """result shape of a constructor or None when the shapes do not fit (mirror of OpSh / OkNode)"""
    x, y = xs[0], xs[-1]
    if op in ("add", "sub"):
        return x if x == y else None
    if op in ("neg", "conj", "real", "imag", "var", "rp", "rm"):
        return x
    if op == "abs":
        return x if x == () else None
    if op == "mul":
        return (y if x == () else x) if (x == () or y == ()) and len(x) < 2 and len(y) < 2 else None
    if op == "div":
        return x if y == () and len(x) < 2 else None
    if op == "pow":
        return () if x == () and y == () else None
    if op == "inner":
        return () if x == y and len(x) >= 1 else None
    if op in ("dot", "isum"):
        return () if x == y and len(x) == 1 else None
    if op == "outer":
        return x + y if len(x) == 1 and len(y) == 1 else None
    if op == "index":
        return ()
    if op == "list":
        return (len(xs),) if all(s == () for s in xs) else None
    if op == "rows":  # prelude only
        return (len(xs),) + tuple(x) if all(s == x for s in xs) and len(x) == 1 else None
    return None


# --------------------------------------------------------------------------------------------
# The world of real objects for a universe
# --------------------------------------------------------------------------------------------

MEASURE_KEYS = {1: ("cell", "everywhere"), 2: ("exterior_facet", "everywhere"), 3: ("cell", 1), 4: ("cell", 2),
                5: ("interior_facet", "everywhere"), 6: ("interior_facet", 1)}
SIDE_NAMES = ("+", "-")


class World:
    def __init__(self, uni, coefval):
        import ufl

        from ufl.pullback import covariant_piola
        from ufl.sobolevspace import HCurl

        from ..elements import FiniteElement, LagrangeElement, MixedElement, SymmetricElement

        self.ufl = ufl
        self.uni = uni
        cell = ufl.triangle
        self.mesh = ufl.Mesh(LagrangeElement(cell, 1, (uni.gdim,)))
        mesh = self.mesh

        def element(sh, deg=1, kind="P"):
            if kind == "sym":
                return SymmetricElement({(0, 0): 0, (0, 1): 1, (1, 0): 1, (1, 1): 2}, [LagrangeElement(cell, deg, ()) for _ in range(3)])
            if kind == "curl":
                return FiniteElement("N1curl", cell, deg, (2,), covariant_piola, HCurl)
            return LagrangeElement(cell, deg, tuple(sh))

        def space(sh, deg=1, kind="P"):
            return ufl.FunctionSpace(mesh, element(sh, deg, kind))

        self.measures = {1: ufl.dx, 2: ufl.ds, 3: ufl.dx(1), 4: ufl.dx(2), 5: ufl.dS, 6: ufl.dS(1)}
        # spaces of the two sides
        self.subspaces = {}
        self.side_space = {}
        self.argobj = []
        sides = [(0, uni.vsub, 1)] + ([(1, uni.usub, uni.udeg)] if uni.usub is not None else [])
        for num, subs, deg in sides:
            kinds = uni.vkinds if num == 0 else uni.ukinds
            self.subspaces[num] = [space(sh, deg, k) for sh, k in zip(subs, kinds)]
            for S, sh, k, (phys, ref) in zip(self.subspaces[num], subs, kinds, (uni.vsubsz if num == 0 else uni.usubsz)):
                if tuple(S.value_shape) != tuple(sh) or S.value_size != phys or S.ufl_element().reference_value_size != ref:
                    raise MachineryError(f"world: sub-element of kind {k} does not have the modelled value sizes: physical {S.value_shape}, reference {S.ufl_element().reference_value_shape}")
            if uni.mixed == "element" and not (num == 1 and uni.uplain):
                self.side_space[num] = ufl.FunctionSpace(mesh, MixedElement([element(sh, deg, k) for sh, k in zip(subs, kinds)]))
            elif uni.mixed == "space":
                self.side_space[num] = ufl.MixedFunctionSpace(*self.subspaces[num])
            else:
                self.side_space[num] = self.subspaces[num][0]
        self.pieces = {}
        for num, subs, deg in sides:
            S = self.side_space[num]
            if uni.mixed == "space":
                fs = ufl.TestFunctions(S) if num == 0 else ufl.TrialFunctions(S)
                self.argobj.extend(fs)
            else:
                a = ufl.TestFunction(S) if num == 0 else ufl.TrialFunction(S)
                self.argobj.append(a)
                if uni.mixed == "element" and not (num == 1 and uni.uplain):
                    for s, piece in enumerate(ufl.split(a)):
                        self.pieces[(num, s)] = piece
        for a, (nm, num, part, sh) in zip(self.argobj, uni.args):
            if a.number() != num or (0 if a.part() is None else a.part() + 1) != part or tuple(a.ufl_shape) != sh:
                raise MachineryError(f"world: argument {nm} does not match the universe: {a!r}")
        # coefficients
        self.coefobj = []
        nuser = len(uni.coefs)
        for k, (nm, sh) in enumerate(uni.allcoefs):
            if k < nuser:
                self.coefobj.append(ufl.Coefficient(space(sh)))
            else:
                arg = self.argobj[[i for i, a in enumerate(uni.actcoef) if a == k + 1][-1]]
                self.coefobj.append(ufl.Coefficient(arg.ufl_function_space()))
        self.litobj = [ufl.as_ufl(v) for _, v in uni.lits]
        self.init = list(self.argobj) + self.coefobj + self.litobj
        for op, args, mi in uni.prelude:
            self.init.append(self.apply(op, [self.init[i - 1] for i in args], mi))
        for (num, s), nid in uni.pieces.items():
            if self.init[nid - 1] != self.pieces[(num, s)]:
                raise MachineryError(f"world: ufl.split piece {(num, s)} is not the modelled expression: {self.pieces[(num, s)]!r}")
        assert len(self.init) == uni.ninit
        # coefficient environments
        self.coefval = coefval
        self.envs = [{obj: coefval[e][k] for k, obj in enumerate(self.coefobj)} for e in range(uni.nenv)]
        # the traces of the coefficients on the sides of an interior facet (spec: CoefNode): '+' the value of the
        # environment, '-' the value in the next environment
        self.senvs = None
        if uni.sides == 2:
            self.senvs = [{(obj, sd): coefval[(e + d) % uni.nenv][k] for k, obj in enumerate(self.coefobj) for d, sd in enumerate(SIDE_NAMES)} for e in range(uni.nenv)]
        # slots: (argument, component) per position of the value vector; on an interior facet (argument, component, side)
        self.vslots = [(self.argobj[a - 1], c) + ((SIDE_NAMES[s // uni.nvh],) if uni.sides == 2 else ()) for s, (a, c) in enumerate(uni.vslot)]
        self.uslots = [(self.argobj[a - 1], c) + ((SIDE_NAMES[s // uni.nuh],) if uni.sides == 2 else ()) for s, (a, c) in enumerate(uni.uslot)]
        self.cache = {}
        self.fcache = {}

    # ---- building -----------------------------------------------------------------------------
    def apply(self, op, args, mi):
        ufl = self.ufl
        a = args[0]
        b = args[-1]
        if op == "add":
            return a + b
        if op == "sub":
            return a - b
        if op == "neg":
            return -a
        if op == "mul":
            return a * b
        if op == "div":
            return a / b
        if op == "pow":
            return a**b
        if op == "abs":
            return abs(a)
        if op in ("conj", "real", "imag", "inner", "dot", "outer"):
            return getattr(ufl, op)(*args)
        if op == "var":
            return ufl.variable(a)
        if op == "rp":
            return a("+")
        if op == "rm":
            return a("-")
        if op == "index":
            return a[tuple(int(m) for m in mi)]
        if op == "isum":
            i = ufl.Index()
            return a[i] * b[i]
        if op == "list":
            return ufl.as_vector(list(args))
        if op == "rows":
            return ufl.as_tensor(list(args))
        raise MachineryError(f"unknown constructor {op}")

    def build(self, prog):
        """Real objects of a program (list, one per node), through a prefix cache."""
        objs = list(self.init)
        key = ()
        for node in prog:
            key = key + ((node["op"], tuple(node["args"]), tuple(node["mi"])),)
            hit = self.cache.get(key)
            if hit is None:
                hit = self.apply(node["op"], [objs[i - 1] for i in node["args"]], node["mi"])
                if len(self.cache) < 200000:
                    self.cache[key] = hit
            objs.append(hit)
        return objs

    def form(self, rec):
        key = (repr(rec["prog"]), repr(rec["ints"]))
        hit = self.fcache.get(key)
        if hit is None:
            objs = self.build(rec["prog"])
            F = None
            for it in rec["ints"]:
                term = objs[it["root"] - 1] * self.measures[it["key"]]
                F = term if F is None else F + term
            hit = {"F": F, "keys": [MEASURE_KEYS[it["key"]] for it in rec["ints"]]}
            if len(self.fcache) > 2000:
                self.fcache.clear()
            self.fcache[key] = hit
        return hit

    def text(self, rec):
        names = [a[0] for a in self.uni.args] + [c[0] for c in self.uni.allcoefs] + [l[0] for l in self.uni.lits]
        pre = [{"op": op, "args": list(args), "mi": list(mi)} for op, args, mi in self.uni.prelude]
        for n in pre + list(rec["prog"]):
            a = [names[i - 1] for i in n["args"]]
            op = n["op"]
            sym = {"add": "+", "sub": "-", "mul": "*", "div": "/", "pow": "**"}
            if op in sym:
                names.append(f"({a[0]} {sym[op]} {a[1]})")
            elif op == "neg":
                names.append(f"(-{a[0]})")
            elif op in ("rp", "rm"):
                names.append(f"{a[0]}('{'+' if op == 'rp' else '-'}')")
            elif op == "index":
                names.append(f"{a[0]}[{','.join(map(str, n['mi']))}]")
            elif op == "isum":
                names.append(f"({a[0]}[i]*{a[1]}[i])")
            elif op == "list":
                names.append("[" + ",".join(a) + "]")
            else:
                names.append(f"{op}({', '.join(a)})")
        ms = {1: "dx", 2: "ds", 3: "dx(1)", 4: "dx(2)", 5: "dS", 6: "dS(1)"}
        return " + ".join(f"{names[it['root'] - 1]}*{ms[it['key']]}" for it in rec["ints"])


# --------------------------------------------------------------------------------------------
# Assembly at a point
# --------------------------------------------------------------------------------------------


def form_arguments(form):
    """Argument terminals of a form by traversal (Form.arguments() itself validates numbering and
    may raise for an ill-formed result)."""
    from ufl.classes import Argument
    from ufl.corealg.traversal import unique_pre_traversal

    out = []
    seen = set()
    for itg in form.integrals():
        for o in unique_pre_traversal(itg.integrand()):
            if isinstance(o, Argument) and id(o) not in seen:
                seen.add(id(o))
                out.append(o)
    return out


def argkey(a):
    return (a.number(), a.part(), a.ufl_function_space())


class Slots:
    """rows / cols: list of (argument key, component) per slot, 1-based positions.  An argument of
    the assembled form that has no slot is 'foreign'.  Slots given as (argument, component, side)
    are the traces on the sides '+' / '-' of an interior facet: at such a slot the trace of the
    argument on that side is the unit vector and its trace on the other side is zero (its
    unrestricted value, read by cell and exterior facet integrals, is the unit vector)."""

    def __init__(self, rows, cols):
        self.rows = [(argkey(r[0]), tuple(r[1])) for r in rows]
        self.cols = [(argkey(r[0]), tuple(r[1])) for r in cols]
        self.rside = [r[2] if len(r) > 2 else None for r in rows]
        self.cside = [r[2] if len(r) > 2 else None for r in cols]
        self.sided = any(sd is not None for sd in self.rside + self.cside)
        self.keys = {k for k, _ in self.rows} | {k for k, _ in self.cols}

    def sided_tables(self, args, i, j):
        """{(argument object, side): value table} at point (i, j)"""
        vals = {}
        for a in args:
            k = argkey(a)
            for sd in SIDE_NAMES:
                tab = {c: Cx(0) for c in comps(a.ufl_shape)}
                if i > 0 and self.rows[i - 1][0] == k and self.rside[i - 1] == sd:
                    tab[self.rows[i - 1][1]] = Cx(1)
                if j > 0 and self.cols[j - 1][0] == k and self.cside[j - 1] == sd:
                    tab[self.cols[j - 1][1]] = Cx(1)
                vals[(a, sd)] = tab
        return vals

    def tables(self, args, i, j, override=None):
        """value tables of the argument objects at point (i, j)"""
        vals = {}
        for a in args:
            k = argkey(a)
            if override is not None and k in override:
                vals[a] = override[k]
                continue
            tab = {c: Cx(0) for c in comps(a.ufl_shape)}
            if i > 0 and self.rows[i - 1][0] == k:
                tab[self.rows[i - 1][1]] = Cx(1)
            if j > 0 and self.cols[j - 1][0] == k:
                tab[self.cols[j - 1][1]] = Cx(1)
            vals[a] = tab
        return vals


def assemble(form, envs, slots, override=None, point=None, senvs=None):
    """{key: [e][i][j] -> Cx | None}; key = (integral type, subdomain id).  `form` may be None, 0 or an
    empty form (the zero table).  Raises ForeignArgument when the form contains an argument
    outside `slots`.  `override`: {argkey: env index -> value table} substitutes a value for an
    argument.  `point`: (row values, col values): evaluate at one generic point instead of the unit
    grid; the result is then [e] -> Cx.  `senvs`: per environment {(coefficient, side): value table},
    the traces of the coefficients (with slots that name sides)."""
    nr, nc = len(slots.rows), len(slots.cols)
    out = {}
    if form is None or isinstance(form, (int, float)):
        if form:
            raise MachineryError(f"assemble: not a form: {form!r}")
        return out
    args = form_arguments(form)
    over_keys = set() if override is None else set(override)
    for a in args:
        if argkey(a) not in slots.keys and argkey(a) not in over_keys:
            raise ForeignArgument(a)
    has_row = any(argkey(a) in {k for k, _ in slots.rows} and argkey(a) not in over_keys for a in args)
    has_col = any(argkey(a) in {k for k, _ in slots.cols} and argkey(a) not in over_keys for a in args)
    for itg in form.integrals():
        key = (itg.integral_type(), itg.subdomain_id())
        e_ = itg.integrand()
        tabs = []
        for e, cenv in enumerate(envs):
            ov = None if override is None else {k: v[e] for k, v in override.items()}
            if point is not None:
                vals = dict(cenv)
                for a in args:
                    k = argkey(a)
                    if ov is not None and k in ov:
                        vals[a] = ov[k]
                        continue
                    tab = {c: Cx(0) for c in comps(a.ufl_shape)}
                    for (rk, rc), x in zip(slots.rows, point[0]):
                        if rk == k:
                            tab[rc] = Cx(x)
                    for (ck, cc), x in zip(slots.cols, point[1]):
                        if ck == k:
                            tab[cc] = Cx(x)
                    vals[a] = tab
                tabs.append(_ev(e_, vals))
                continue
            grid = [[None] * (nc + 1) for _ in range(nr + 1)]
            for i in range(nr + 1):
                if i > 0 and not has_row:
                    grid[i] = grid[0]
                    continue
                for j in range(nc + 1):
                    if j > 0 and not has_col:
                        grid[i][j] = grid[i][0]
                        continue
                    vals = dict(cenv)
                    vals.update(slots.tables(args, i, j, ov))
                    sided = None
                    if slots.sided:
                        sided = dict(senvs[e]) if senvs else {}
                        sided.update(slots.sided_tables(args, i, j))
                    grid[i][j] = _ev(e_, vals, sided)
            tabs.append(grid)
        if key in out:
            out[key] = _add_tabs(out[key], tabs, point is not None)
        else:
            out[key] = tabs
    return out


class ForeignArgument(Exception):
    def __init__(self, a):
        super().__init__(f"argument outside the expected spaces: {a!r} number={a.number()} part={a.part()} space={a.ufl_function_space()}")
        self.arg = a


def _ev(expr, vals, sided=None):
    try:
        return Evaluator(TermEnv(vals, sided=sided)).ev(expr, (), {})
    except (Undefined, ZeroDivisionError, OverflowError):
        return None


def _add(x, y):
    return None if x is None or y is None else x + y


def _add_tabs(t1, t2, scalar):
    if scalar:
        return [_add(a, b) for a, b in zip(t1, t2)]
    return [[[_add(a, b) for a, b in zip(r1, r2)] for r1, r2 in zip(g1, g2)] for g1, g2 in zip(t1, t2)]


def zero_tab(nenv, nr, nc):
    return [[[Cx(0)] * (nc + 1) for _ in range(nr + 1)] for _ in range(nenv)]


def by_key(keys, tabs, nenv, nr, nc):
    """sum per-integral predicted tables by key"""
    out = {}
    for k, t in zip(keys, tabs):
        out[k] = _add_tabs(out[k], t, False) if k in out else t
    return out


def pred_tab(t):
    """TLC table (nested <<re, im>> pairs) -> nested Cx | None"""
    return [[[from_tla(c) for c in row] for row in g] for g in t]


def tab_diff(a, b):
    """first differing entry of two tables of equal layout, or None; undefined entries are skipped"""
    if len(a) != len(b):
        return ("layout", len(a), len(b))
    for e, (ga, gb) in enumerate(zip(a, b)):
        if len(ga) != len(gb):
            return ("layout", e, len(ga), len(gb))
        for i, (ra, rb) in enumerate(zip(ga, gb)):
            if len(ra) != len(rb):
                return ("layout", e, i, len(ra), len(rb))
            for j, (x, y) in enumerate(zip(ra, rb)):
                if x is None or y is None:
                    continue
                if not close(x, y):
                    return (e, i, j, str(x), str(y))
    return None


def keyed_diff(real, want, nenv, nr, nc):
    """compare {key: table}; a missing key is the zero table"""
    for k in set(real) | set(want):
        z = zero_tab(nenv, nr, nc)
        d = tab_diff(real.get(k, z), want.get(k, z))
        if d is not None:
            return (k,) + tuple(d)
    return None


def map_tab(f, *tabs):
    return [[[None if any(x is None for x in xs) else f(*xs) for xs in zip(*rows)] for rows in zip(*gs)] for gs in zip(*tabs)]


def bilin(t):
    return [[[_bil(g, i, j) for j in range(len(g[0]))] for i in range(len(g))] for g in t]


def _bil(g, i, j):
    if i == 0 or j == 0:
        return Cx(0)
    xs = (g[i][j], g[i][0], g[0][j], g[0][0])
    if any(x is None for x in xs):
        return None
    return xs[0] - xs[1] - xs[2] + xs[3]


def lin(t):
    return [[[Cx(0) if i == 0 else (None if g[i][0] is None or g[0][0] is None else g[i][0] - g[0][0]) for j in range(len(g[0]))] for i in range(len(g))] for g in t]


def const(t):
    return [[[g[0][0] for j in range(len(g[0]))] for i in range(len(g))] for g in t]


def neg(t):
    return map_tab(lambda x: -x, t)


# --------------------------------------------------------------------------------------------
# Replay of one record
# --------------------------------------------------------------------------------------------


class Finding:
    def __init__(self, kind, fp, what, extra=None):
        self.kind = kind  # violation | binding | conformance
        self.fp = fp
        self.what = what
        self.extra = extra or {}


def space_kind(uni):
    return {"none": "plain", "element": "mixedelement", "space": "mixedfunctionspace"}[uni.mixed]


def skeleton(rec):
    return "+".join(sorted({n["op"] for n in rec["prog"]}))


def call(f):
    try:
        return ("ok", f())
    except Exception as e:  # noqa: BLE001 - a refusal is an observable
        return ("raise", e)


def real_ops(w, F, fop, has_trial):
    """the real outputs of operator fop: list of (label, index of the model output, ('ok', form) |
    ('raise', exc)); the same operator is also run through its other public entry points."""
    import ufl
    from ufl.algorithms import formtransformations as ft

    uni = w.uni
    if fop == "lhs":
        return [("lhs", 0, call(lambda: ufl.lhs(F))), ("lhs:compute_form_lhs", 0, call(lambda: ft.compute_form_lhs(F)))]
    if fop == "rhs":
        return [("rhs", 0, call(lambda: ufl.rhs(F))), ("rhs:compute_form_rhs", 0, call(lambda: ft.compute_form_rhs(F)))]
    if fop == "system":
        r = call(lambda: ufl.system(F))
        if r[0] == "ok":
            out = [("system[0]", 0, ("ok", r[1][0])), ("system[1]", 1, ("ok", r[1][1]))]
        else:
            out = [("system", -1, r)]
        return out + [("lhs", 0, call(lambda: ufl.lhs(F))), ("rhs", 1, call(lambda: ufl.rhs(F)))]
    if fop == "functional":
        return [("functional", 0, call(lambda: ufl.functional(F))), ("functional:compute_form_functional", 0, call(lambda: ft.compute_form_functional(F)))]
    nargs = len(uni.args)
    nv = len([a for a in uni.args if a[1] == 0])
    side = range(nv, nargs) if has_trial else range(nv)
    coefs = [w.coefobj[uni.actcoef[a] - 1] for a in side]
    wcoef = coefs if uni.mixed == "space" else coefs[0]
    if fop == "action":
        return [("action", 0, call(lambda: ufl.action(F, wcoef)))]
    if fop == "energy_norm":
        out = [("energy_norm", 0, call(lambda: ufl.energy_norm(F, wcoef)))]
        if not isinstance(wcoef, (list, tuple)):
            # the other entry: no coefficient given.  a(f, f) for ONE new coefficient f: the result must mention exactly
            # one coefficient that F does not, and with f := w it is the same functional as energy_norm(F, w)
            def default_entry():
                R = ufl.energy_norm(F)
                old = set(F.coefficients())
                new = [c for c in R.coefficients() if c not in old]
                if len(new) != 1 and not R.empty():
                    raise RuntimeError(f"energy_norm(a) without a coefficient mentions {len(new)} new coefficients instead of one")
                return ufl.replace(R, {new[0]: wcoef}) if new else R

            out.append(("energy_norm:default-coefficient", 0, call(default_entry)))
        return out
    if fop == "adjoint":
        return [("adjoint", 0, call(lambda: ufl.adjoint(F)))]
    raise MachineryError(f"unknown form operator {fop}")


def adjoint_slots(w):
    """the adjoint lives on swapped spaces: the new test function is on the trial space (with the
    trial function's part), the new trial function on the test space"""
    import ufl

    rows = [(ufl.Argument(a.ufl_function_space(), 0, a.part()), c) for a, c in w.uslots]
    cols = [(ufl.Argument(a.ufl_function_space(), 1, a.part()), c) for a, c in w.vslots]
    return Slots(rows, cols)


def coef_override(w, which):
    """{argkey: [env] -> value table}: the arguments `which` (objects) take the value of their
    action coefficient"""
    uni = w.uni
    ov = {}
    for a, obj in enumerate(w.argobj):
        if obj in which:
            k = uni.actcoef[a] - 1
            ov[argkey(obj)] = [w.coefval[e][k] for e in range(uni.nenv)]
    return ov


def generic_point(w, rec, salt=0):
    rng = random.Random(hash_name(repr(rec["prog"])) + 17 * salt)
    pool = [2, 3, -2, 5, -3, 7, -5]
    return ([rng.choice(pool) for _ in w.vslots], [rng.choice(pool) for _ in w.uslots])


def check_record(w, rec, corrupt=False):
    """Replay one dumped behaviour.  Returns (findings, stats dict)."""
    uni = w.uni
    findings = []
    st = {}

    def cnt(k, n=1):
        st[k] = st.get(k, 0) + n

    nenv, nr, nc = uni.nenv, uni.nv, uni.nu
    fop = rec["fop"]
    fm = w.form(rec)
    F, keys = fm["F"], fm["keys"]
    slots = Slots(w.vslots, w.uslots)
    if "Ftab" not in fm:
        try:
            fm["Ftab"] = assemble(F, w.envs, slots)
        except Unsupported as e:
            raise MachineryError(f"evaluator cannot read {w.text(rec)}: {e}")
    Freal = fm["Ftab"]
    Fpred = by_key(keys, [pred_tab(t) for t in rec["F"]], nenv, nr, nc)
    if corrupt == "input":
        k0 = next(iter(Fpred))
        Fpred[k0][0][0][0] = (Fpred[k0][0][0][0] or Cx(0)) + Cx(1)
    d = keyed_diff(Freal, Fpred, nenv, nr, nc)
    cnt("evaluations", sum(len(g) * len(g[0]) for t in Freal.values() for g in t))
    if d is not None:
        findings.append(Finding("binding", f"{PID}:binding:input-table", f"input form {w.text(rec)}: real table differs from the model's at {d}"))
        return findings, st
    if all(x is None for t in Freal.values() for g in t for r in g for x in r):
        cnt("undefined_skipped")
        return findings, st
    valid = rec["valid"]
    has_trial = any(a.number() == 1 for a in form_arguments(F))
    outs = real_ops(w, F, fop, has_trial)
    aslots = adjoint_slots(w) if fop == "adjoint" else None
    oslots = aslots or slots
    onr, onc = (nc, nr) if fop == "adjoint" else (nr, nc)
    kind = space_kind(uni)
    real_tabs = []
    for idx, (label, o, (status, val)) in enumerate(outs):
        prej = any(rec["rej"]) if o < 0 else rec["rej"][o]
        if status == "raise":
            cnt("real_refusals")
            if prej:
                cnt("refused_as_modelled")
                if valid:
                    # list tensors with components of different arity (lhs / rhs / functional / action on
                    # parts), arity / space guards of adjoint and energy_norm, action without arguments
                    cnt(f"in_class_refused_by_design:{fop}")
            elif valid:
                findings.append(Finding("violation", f"{PID}:{fop}:{kind}:refuses-valid-form:{type(val).__name__}",
                                        f"{label}({w.text(rec)}) raised {type(val).__name__}: {val}", {"label": label}))
            else:
                findings.append(Finding("conformance", f"{PID}:conformance:{fop}:unexpected-refusal",
                                        f"{label}({w.text(rec)}) raised {type(val).__name__}: {val}; the as-coded model accepts"))
            real_tabs.append(None)
            continue
        try:
            tab = assemble(val, w.envs, oslots)
        except ForeignArgument as e:
            findings.append(Finding("violation", _fp_foreign(uni, fop, rec), f"{label}({w.text(rec)}): {e}", {"label": label}))
            real_tabs.append(None)
            continue
        except ValueError as e:
            findings.append(Finding("violation", f"{PID}:{fop}:{kind}:ill-formed-result", f"{label}({w.text(rec)}): the result cannot be read: {e}", {"label": label}))
            real_tabs.append(None)
            continue
        real_tabs.append(tab)
        cnt("evaluations", sum(len(g) * len(g[0]) for t in tab.values() for g in t))
        if prej:
            findings.append(Finding("conformance", f"{PID}:conformance:{fop}:model-refuses",
                                    f"{label}({w.text(rec)}) returned a form; the as-coded model raises", {"label": label}))
        else:
            ptabs = [pred_tab(t) for t in rec["out"][o]]
            if corrupt == "output" and idx == 0:
                ptabs[0][0][0][0] = (ptabs[0][0][0][0] or Cx(0)) + Cx(1)
            want = by_key(keys, ptabs, nenv, onr, onc)
            d = keyed_diff(tab, want, nenv, onr, onc)
            if d is not None:
                findings.append(Finding("conformance", f"{PID}:conformance:{fop}:table",
                                        f"{label}({w.text(rec)}): real result differs from the as-coded model at {d}", {"label": label}))
    # ---- the identities of the property, from the real input table only ------------------------
    if valid:
        for idx, (label, o, (status, val)) in enumerate(outs):
            tab = real_tabs[idx]
            if tab is None:
                continue
            base = label.split(":")[0]
            want = None
            if base in ("lhs", "system[0]"):
                want = {k: bilin(t) for k, t in Freal.items()}
            elif base in ("rhs", "system[1]"):
                want = {k: neg(lin(t)) for k, t in Freal.items()}
            elif base == "functional":
                want = {k: const(t) for k, t in Freal.items()}
            elif base == "adjoint":
                want = {k: [[[None if g[j][i] is None else g[j][i].conj() for j in range(nr + 1)] for i in range(nc + 1)] for g in t] for k, t in Freal.items()}
            elif base == "action":
                which = [a for a in w.argobj if a.number() == (1 if has_trial else 0)]
                want = assemble(F, w.envs, slots, override=coef_override(w, which))
            elif base == "energy_norm":
                want = assemble(F, w.envs, slots, override=coef_override(w, list(w.argobj)))
            d = keyed_diff(tab, want, nenv, onr, onc)
            cnt("identities")
            if d is not None:
                findings.append(Finding("violation", _fp_identity(uni, fop, rec, Freal), f"{label}({w.text(rec)}): assembled result violates the identity of the property at (key, env, row, col, real, required) = {d}", {"label": label}))
        # F = lhs - rhs (+ functional) at a generic argument value
        if fop == "system" and outs[0][0] == "system[0]" and real_tabs[0] is not None and real_tabs[1] is not None:
            cnt("generic_point_identities")
            pt = generic_point(w, rec)
            try:
                fl = assemble(outs[0][2][1], w.envs, slots, point=pt)
                fr = assemble(outs[1][2][1], w.envs, slots, point=pt)
                ff = assemble(F, w.envs, slots, point=pt)
                f0 = assemble(F, w.envs, slots, point=([0] * nr, [0] * nc))
                for k in ff:
                    for e in range(nenv):
                        xs = (ff[k][e], fl.get(k, [Cx(0)] * nenv)[e], fr.get(k, [Cx(0)] * nenv)[e], f0[k][e])
                        if any(x is None for x in xs):
                            continue
                        if not close(xs[0], xs[1] - xs[2] + xs[3]):
                            findings.append(Finding("violation", f"{PID}:system:{kind}:F-differs-from-lhs-minus-rhs-at-generic-point",
                                                    f"{w.text(rec)}: F = {xs[0]} but lhs - rhs + F(0,0) = {xs[1] - xs[2] + xs[3]} at v, u = {pt}"))
                            raise StopIteration
            except StopIteration:
                pass
            except ForeignArgument:
                pass
    # a result that violates the property also differs from the (intended) model: one verdict
    viol = {f.extra.get("label") for f in findings if f.kind == "violation"}
    findings = [f for f in findings if not (f.kind == "conformance" and f.extra.get("label") in viol)]
    return findings, st


def _offdiag(uni, Freal):
    """a MixedFunctionSpace form with a non-zero block (i, j), i != j"""
    for t in Freal.values():
        for g in t:
            for i in range(1, uni.nv + 1):
                for j in range(1, uni.nu + 1):
                    x = _bil(g, i, j)
                    if x is not None and not x.is_zero() and uni.vpart[i - 1] != uni.upart[j - 1]:
                        return True
    return False


def _fp_foreign(uni, fop, rec):
    if fop == "adjoint" and uni.mixed == "space":
        return f"{PID}:adjoint-mixedfunctionspace-offdiagonal-block-keeps-part-labels"
    return f"{PID}:{fop}:{space_kind(uni)}:foreign-argument:{skeleton(rec)}"


def _fp_identity(uni, fop, rec, Freal):
    if fop == "adjoint" and uni.mixed == "space" and _offdiag(uni, Freal):
        return f"{PID}:adjoint-mixedfunctionspace-offdiagonal-block-keeps-part-labels"
    return f"{PID}:{fop}:{space_kind(uni)}:identity:{skeleton(rec)}"


# --------------------------------------------------------------------------------------------
# Driving: TLC runs, parallel replay
# --------------------------------------------------------------------------------------------

_W = {}


def _worker(job):
    """replay a chunk of records of one universe in a child process"""
    mod, ujson, coefval_json, recs, corrupt = job
    import importlib

    m = importlib.import_module(mod)
    key = (mod, json.dumps(ujson, sort_keys=True), json.dumps(coefval_json))
    w = _W.get(key)
    if w is None:
        uni = Uni.from_json(ujson)
        w = World(uni, coefval_from_json(coefval_json))
        _W.clear()
        _W[key] = w
    out = []
    stats = {}
    for rec in recs:
        t0 = time.time()
        try:
            fs, st = m.check_record(w, rec, corrupt)
        except MachineryError as e:
            fs, st = [Finding("binding", f"{PID}:machinery", str(e))], {}
        except RecursionError as e:
            fs, st = [Finding("binding", f"{PID}:machinery", f"recursion: {e} on {w.text(rec)}")], {}
        for k, v in st.items():
            stats[k] = stats.get(k, 0) + v
        out.append([(f.kind, f.fp, f.what, f.extra) for f in fs])
    return out, stats


def coefval_to_json(cv):
    return [[[[list(c), v.to_json()] for c, v in tab.items()] for tab in env] for env in cv]


def coefval_from_json(j):
    def fr(x):
        return Fraction(x[0], x[1])

    return [[{tuple(c): Cx(fr(v[0]), fr(v[1])) for c, v in tab} for tab in env] for env in j]


_POOL = None


def get_pool():
    """persistent replay workers, started from a clean fork server (the parent holds TLC's output)"""
    global _POOL
    if _POOL is None:
        import atexit
        import multiprocessing

        _POOL = multiprocessing.get_context("forkserver").Pool(PY_PROCS)
        atexit.register(_POOL.terminate)
    return _POOL


def replay_records(ctx, mod, uni, coefval, recs, corrupt=False, procs=None):
    """Replay records (grouped by form so that a form's input table is assembled once) in child
    processes; returns (list of (rec, findings), stats)."""
    procs = procs or PY_PROCS
    groups = {}
    for r in recs:
        groups.setdefault((repr(r["prog"]), repr(r["ints"])), []).append(r)
    ordered = [r for g in groups.values() for r in g]
    inproc = procs == 1 or len(ordered) < 400
    nchunk = 1 if inproc else max(1, min(len(ordered) // 150 + 1, procs * 4))
    size = (len(ordered) + nchunk - 1) // nchunk
    chunks = [ordered[i : i + size] for i in range(0, len(ordered), size)]
    jobs = [(mod, uni.to_json(), coefval_to_json(coefval), ch, corrupt) for ch in chunks]
    results = []
    stats = {}
    if inproc:
        outs = [_worker(j) for j in jobs]
    else:
        outs = get_pool().map(_worker, jobs, chunksize=1)
    for ch, (out, st) in zip(chunks, outs):
        for r, fs in zip(ch, out):
            results.append((r, [Finding(*f) for f in fs]))
        for k, v in st.items():
            stats[k] = stats.get(k, 0) + v
    return results, stats


def report(ctx, uni, coefval, results, stats, pid=PID):
    """turn findings into verdicts; returns the number of binding / conformance problems"""
    bad = []
    for rec, fs in results:
        ctx.traces(1)
        for f in fs:
            if f.kind == "violation":
                ctx.violation(f.fp, f"[{uni.name}] {f.what}", {"uni": uni.to_json(), "coefval": coefval_to_json(coefval), "rec": rec, "expect": f.fp})
            else:
                bad.append(f)
    for k, v in stats.items():
        if k == "evaluations":
            ctx.evaluated(v)
        elif k == "undefined_skipped":
            ctx.cov["undefined_skipped"] += v
        else:
            ctx.count(k, v)
    return bad


def universes(tier):
    q = tier == "quick"
    f, g, W2 = ("f", ()), ("g", ()), ("W", (2,))
    ALLOPS = ("lhs", "rhs", "system", "functional", "action", "adjoint", "energy_norm")
    MAIN = ("system", "functional", "action", "adjoint", "energy_norm")
    SYS = ("system", "functional", "action")
    PARTS = ("system", "functional")  # the operators built on PartExtracter (system also runs lhs and rhs)
    out = [
        # scalar spaces: sums, products, quotients of coefficient and argument factors
        Uni("scalar", "none", [()], [()], [f, g], {"add", "sub", "mul", "div"}, 2, ALLOPS, exclude=("two", "w_u") + (("g",) if q else ())),
        Uni("scalar3", "none", [()], [()], [f], {"add", "mul"}, 3, MAIN, exclude=("two", "w_u")),
        # complex mode operators, nonlinear operators (refusals), variables
        Uni("scalar-ops", "none", [()], [()], [f], {"mul", "neg", "conj", "real", "imag", "abs", "pow", "var"}, 2, MAIN, exclude=("w_u",)),
        # two integrals: dx + ds, dx(1) + dx(2), dx + dx
        Uni("scalar-2int", "none", [()], [()], [f], {"add", "mul"}, 2, SYS if q else MAIN, keypairs=[(1, 2), (3, 4)] if q else [(1, 2), (3, 4), (1, 1)], exclude=("two", "w_u")),
        # vector spaces: inner / dot / outer, components
        Uni("vector", "none", [(2,)], [(2,)], [f, W2], {"add", "mul", "inner", "dot", "index"}, 2, MAIN, exclude=("two", "w_u")),
        # list tensors whose components have equal / different arity (documented refusal)
        Uni("vector-list", "none", [()], [()], [f, W2], {"add", "list", "inner", "dot", "mul"}, 2, SYS, exclude=("two", "w_u", "f", "v", "u"),
            pre=[("mul", ("f", "v"), ()), ("mul", ("u", "v"), ()), ("mul", ("p2", "f"), ())]),
        # rectangular: scalar test space, vector trial space
        Uni("rect", "none", [()], [(2,)], [f, W2], {"add", "mul", "inner", "dot", "index", "outer"}, 2, MAIN, exclude=("two", "w_u", "w_v")),
        # MixedElement with split
        Uni("melem", "element", [(), (2,)], [(), (2,)], [f, W2], {"add", "mul", "inner"}, 2, MAIN, exclude=("two", "w_u", "v", "u", "v[1]", "v[2]", "u[1]", "u[2]")),
        # MixedFunctionSpace: parts
        Uni("mspace", "space", [(), ()], [(), ()], [f], {"add", "mul"} if q else {"add", "sub", "mul", "var"}, 2, MAIN, exclude=("two", "w_u0", "w_u1")),
        Uni("mspace-vec", "space", [(), (2,)], [(), (2,)], [f, W2], {"add", "mul", "inner", "index"}, 2, MAIN, exclude=("two", "w_u0", "w_u1")),
        # transparent wrappers (Variable, Conj / Real / Imag, negation, Indexed, IndexSum) around sums whose terms
        # have DIFFERENT arity (u + f, u*v + v, v + f; u + W, v + W): the extracted part of the wrapped
        # expression differs from the expression, so the wrapper has to be rebuilt from the part
        Uni("scalar-wrap", "none", [()], [()], [f], {"var", "conj", "real", "imag", "neg", "mul"} | (set() if q else {"add"}), 2, PARTS, exclude=("two", "w_u", "u", "p2"),
            pre=[("add", ("u", "f"), ()), ("mul", ("u", "v"), ()), ("add", ("p2", "v"), ()), ("add", ("v", "f"), ())]),
        Uni("vector-wrap", "none", [(2,)], [(2,)], [W2], {"var", "conj", "index", "isum", "inner", "outer"}, 2, PARTS, exclude=("two", "w_u", "u"),
            pre=[("add", ("u", "W"), ()), ("add", ("v", "W"), ())]),
    ]
    if not q:
        out += [
            Uni("scalar3-wide", "none", [()], [()], [f], {"sub", "mul", "div"}, 3, ("system", "functional"), exclude=("two", "w_u")),
            Uni("scalar-ops3", "none", [()], [()], [f], {"add", "mul", "conj", "real", "abs", "var"}, 3, MAIN, exclude=("two", "w_u")),
            Uni("vector3", "none", [(2,)], [(2,)], [f, W2], {"add", "mul", "inner", "index"}, 3, MAIN, exclude=("two", "w_u", "W")),
            Uni("melem3", "element", [(), (), ()], [(), (), ()], [f], {"add", "mul"}, 2, MAIN, exclude=("two", "w_u", "v", "u")),
            Uni("mspace3", "space", [(), ()], [(), ()], [], {"add", "mul"}, 3, ("system", "action", "adjoint"), exclude=("two", "w_u0", "w_u1")),
            Uni("mspace-3parts", "space", [(), (), (2,)], [(), (), (2,)], [f], {"add", "mul", "inner", "index"}, 2, MAIN, exclude=("two", "w_u0", "w_u1", "w_u2")),
            Uni("mspace-rect", "space", [(), (2,)], [(2,), ()], [f, W2], {"add", "mul", "inner", "index"}, 2, MAIN, exclude=("two", "w_u0", "w_u1", "w_v0", "w_v1")),
            # sampled deeper programs (drawn here with ctx.seed, validated and predicted by TLC)
            Uni("deep-scalar", "none", [()], [()], [f, g], {"add", "sub", "mul", "div", "neg", "conj", "real", "abs", "var"}, 0, MAIN, keypairs=[(1, 2), (3, 4), (1, 1)], exclude=("w_u",), simulate=5000, depth=6),
            Uni("deep-vector", "none", [(2,)], [(2,)], [f, W2], {"add", "sub", "mul", "div", "inner", "dot", "outer", "index", "list", "conj", "var", "isum"}, 0, MAIN, keypairs=[(1, 2)], exclude=("two",), simulate=4000, depth=6, wrapidx=True),
            Uni("deep-melem", "element", [(), (2,)], [(), (2,)], [f, W2], {"add", "sub", "mul", "inner", "dot", "index", "conj", "var"}, 0, MAIN, keypairs=[(1, 2)], exclude=("two",), simulate=3000, depth=5),
            Uni("deep-mspace", "space", [(), (2,)], [(), (2,)], [f, W2], {"add", "sub", "mul", "inner", "dot", "index", "conj", "var"}, 0, MAIN, keypairs=[(1, 2)], exclude=("two",), simulate=3000, depth=5),
        ]
    return out


def tlc_failure(uni, res):
    tail = "\n".join(line for line in res.stdout.splitlines() if not line.startswith('"{'))[-3000:]
    return MachineryError(f"TLC on universe {uni.name}: {res.outcome} {res.violated}\n{tail}")


def process_universe(ctx, mod, uni, coefval, res, corrupt=False, pid=PID):
    """replay all behaviours TLC printed for one universe"""
    ctx.add_tlc(res)
    if res.outcome != "ok":
        raise tlc_failure(uni, res)
    t1 = time.time()
    recs = tlc.decode_prints(res)
    if not recs:
        raise MachineryError(f"universe {uni.name}: TLC produced no behaviours")
    t2 = time.time()
    seen = set()
    uniq = []
    for r in recs:
        k = (repr(r["prog"]), repr(r["ints"]), r["fop"])
        if k not in seen:
            seen.add(k)
            uniq.append(r)
    results, stats = replay_records(ctx, mod, uni, coefval, uniq, corrupt)
    t3 = time.time()
    bad = report(ctx, uni, coefval, results, stats, pid)
    forms = {(repr(r["prog"]), repr(r["ints"])) for r in uniq}
    ctx.count("forms", len(forms))
    w = None
    import importlib

    nontrivial = getattr(importlib.import_module(mod), "nontrivial", lambda r: r["valid"])
    for r in uniq:
        if nontrivial(r):
            ctx.distinct(uni.name + repr(r["prog"]) + repr(r["ints"]) + r["fop"])
            if w is None and len(r["prog"]) >= 2 and r["arity"] == 2 and len(ctx.cov["samples"]) < 5 and not any(x["universe"] == uni.name for x in ctx.cov["samples"]):
                w = World(uni, coefval)
                ctx.sample({"universe": uni.name, "form": w.text(r), "operator": r["fop"], "refused": r["rej"], "input_table_env1": r["F"][0][0], "output_tables_env1": [o[0][0] for o in r["out"]] or {"block_structure": r["shape"], "block_0_0_env1": r["blocks"][0][0][0][0]}})
    ops = {}
    for r in uniq:
        ops[r["fop"]] = ops.get(r["fop"], 0) + 1
    ctx.cov.setdefault("universes", []).append({"universe": uni.name, "mode": res.mode, "forms": len(forms), "behaviours": len(uniq), "in_class": sum(1 for r in uniq if nontrivial(r)), "refused_by_model": sum(1 for r in uniq if any(r["rej"])), "per_operator": ops, "tlc_states": res.distinct})
    print(f"  [{uni.name}] tlc={res.wall:.1f}s states={res.distinct} forms={len(forms)} behaviours={len(uniq)} decode={t2 - t1:.1f}s replay={t3 - t2:.1f}s problems={len(bad)}", flush=True)
    return uniq, bad


def run_universes(ctx, mod, unis, pid=PID):
    """TLC runs two at a time (2 workers each), replay as they finish"""
    from concurrent.futures import ThreadPoolExecutor

    bad_all = []
    if sum(1 for u in unis) > 2:
        get_pool()
    # small exhaustive universes are dominated by JVM start-up: 4 runs x 1 worker; otherwise 2 x 2
    par, wk = (4, 1) if ctx.tier == "quick" else (2, 2)
    with ThreadPoolExecutor(par) as ex:
        futs = [(u, ex.submit(run_tlc, u, ctx.seed, False, PROPERTY_INVS, True, 1500, wk, ctx.tier == "quick")) for u in unis]
        for u, fut in futs:
            coefval, res = fut.result()
            uniq, bad = process_universe(ctx, mod, u, coefval, res, pid=pid)
            bad_all += [(u.name, b) for b in bad]
    if all(not u.simulate for u in unis):
        ctx.cov["exhaustive"] = True
    if bad_all:
        lines = [f"[{n}] {b.kind}: {b.what}" for n, b in bad_all[:12]]
        if ctx.n_viol > 0 and all(b.kind == "conformance" for _, b in bad_all):
            # the real code already violates the property on forms of the property's class (reported above): that
            # it also leaves the as-coded model on forms outside the class is the same news, not a broken harness
            ctx.count("conformance_disagreements_next_to_violations", len(bad_all))
            print(f"  note: {len(bad_all)} further disagreements with the as-coded model on forms outside the property's class, e.g.\n    " + "\n    ".join(lines[:3]), flush=True)
            return
        raise MachineryError(f"{len(bad_all)} disagreements between the as-coded model / evaluator and the real code (not verdicts about the property):\n" + "\n".join(lines))


def as_coded_counterexample(ctx, uni, invariant, pid=PID, ascoded=True, offset_by="physical"):
    """The model with the AS-CODED constant (or with the offsets of FormSplitter.argument advanced
    by the reference value size) must violate `invariant`: TLC exhibits the defect on the model
    (the verdict about the real code comes from the replay, not from this run)."""
    coefval, res = run_tlc(uni, ctx.seed, ascoded=ascoded, invariants=(invariant,), dump=False, workers=1, small=True, offset_by=offset_by)
    ctx.add_tlc(res)
    if res.outcome != "invariant" or res.violated != invariant:
        raise tlc_failure(uni, res)
    st = tlc.parse_state(res.trace[-1][1]) if res.trace else {}
    w = World(uni, coefval)
    prog = [dict(op=n["op"], args=n["args"], mi=n["mi"]) for n in st.get("store", [])[uni.ninit:]]
    text = w.text({"prog": prog, "ints": st.get("form", [])}) if prog else "?"
    ctx.cov.setdefault("as_coded_model_counterexamples", []).append({"universe": uni.name, "invariant": invariant, "operator": st.get("res"), "form": text})
    which = "as-coded model" if ascoded else f"model with OffsetBy = {offset_by}"
    print(f"  {which} violates {invariant} on {st.get('res')}({text}) [{uni.name}]", flush=True)


def run(ctx, args):
    ctx.rule = (
        "TLC enumerates every integrand term of each bounded universe of spec/Parts.tla (terms built by <= MaxNodes constructor "
        "calls over test/trial functions, coefficients and literals -- sums, products, quotients, inner/dot/outer, list tensors and "
        "the transparent wrappers Variable, Conj/Real/Imag, Indexed, IndexSum, also around sums whose terms have different arity, "
        "seeded as initial nodes; one or two integrals; thorough tier additionally programs of "
        "up to 6 constructor calls drawn with the run's seed and validated by TLC), applies each form operator and checks as-coded "
        "part extraction against the tensor meaning; every (form, operator) behaviour is rebuilt with real ufl objects, the real "
        "operator applied and input and outputs assembled at every unit-vector point in 2 coefficient environments; a case is one "
        "(form, operator); non-trivial = the form is in the property's class (affine in the trial function: every monomial of "
        "degree (1,1), (1,0) or (0,0)); distinct = distinct (universe, program, integrals, operator)"
    )
    ctx.assume("assembly at a point: Arguments are real valued terminals (doc: 'Argument is real-valued'); the integrand evaluated at unit vectors of the concatenated sub-function values, per (integral type, subdomain id); vf/sem.py reads real expressions and is compared with TLC's table of every input form")
    ctx.assume("forms of the property's class: every monomial has degree (1,1), (1,0) or (0,0) in (test, trial); adjoint and energy_norm are applied to purely bilinear forms (and to forms with fewer than two arguments, where ufl's documented refusal is required), action to forms of the class")
    ctx.assume("refusals by design are mirrored, not reported: PartExtracter's explicit ValueError for list tensors whose components have different arity; nonlinear operators / denominators containing Arguments; energy_norm on MixedFunctionSpace ('cannot handle parts'); arity checks of adjoint / energy_norm")
    ctx.assume("constructors whose real object differs structurally from the written expression (indexing of sums, list tensors and component tensors is rewritten at construction) are not generated (Variable / Conj / Real / Imag nodes are indexed as they are; isum(a, b) = a[i]*b[i] with a fresh free index builds IndexSum(Product(Indexed, Indexed))); argument numbering 0 = test, 1 = trial")
    ctx.assume("coefficient values: small pairwise distinct rationals, second environment complex; entries whose exact value leaves TLC's 32 bit range or divides by zero are not compared (counted)")
    if args.selftest:
        return selftest(ctx)
    only = os.environ.get("VERIF_UNIVERSES")
    unis = [u for u in universes(ctx.tier) if not only or u.name in only.split(",")]
    if not only:
        f = ("f", ())
        as_coded_counterexample(ctx, Uni("mspace-ascoded", "space", [(), ()], [(), ()], [f], {"mul"}, 1, ("adjoint",), exclude=("two", "w_u0", "w_u1")), "AdjointTransposes")
    run_universes(ctx, __name__, unis)


def selftest(ctx):
    """corrupt the prediction (one entry of the input table / of the first output table / the refusal
    flag) of every behaviour: the replay must reject every corrupted behaviour"""
    uni = Uni("selftest", "none", [()], [()], [("f", ())], {"add", "mul"}, 2, ("system", "action", "adjoint"), exclude=("two", "w_u"))
    coefval, res = run_tlc(uni, ctx.seed, small=True)
    tlc.require_ok(res, "selftest")
    recs = tlc.decode_prints(res)[:200]
    clean, _ = replay_records(ctx, __name__, uni, coefval, recs, False, procs=1)
    if any(fs for _, fs in clean):
        raise MachineryError("selftest: the uncorrupted behaviours are not clean")
    for corrupt in ("input", "output", "refusal"):
        sel = [r for r in recs if not any(r["rej"])] if corrupt == "output" else recs
        if corrupt == "refusal":
            sel = [dict(r, rej=[not x for x in r["rej"]]) for r in recs]
        results, stats = replay_records(ctx, __name__, uni, coefval, sel, corrupt, procs=1)
        rejected = sum(1 for _, fs in results if fs)
        print(f"selftest: corrupted the predicted {corrupt} of every behaviour: {rejected}/{len(results)} rejected", flush=True)
        if rejected < len(results) or not results:
            raise MachineryError(f"selftest: corrupted {corrupt} predictions were accepted")
    print("selftest ok", flush=True)


def replay(ctx, doc):
    r = doc["replay"]
    uni = Uni.from_json(r["uni"])
    w = World(uni, coefval_from_json(r["coefval"]))
    fs, _ = check_record(w, r["rec"])
    print(f"replay {PID}: {r['rec']['fop']}({w.text(r['rec'])})")
    for f in fs:
        print(f"  {f.kind}: {f.what} [{f.fp}]")
        if f.kind == "violation":
            ctx.violation(f.fp, f.what, r)
    if not fs:
        print("  no disagreement")


def main(argv=None):
    main_wrapper(PID, run, argv)
