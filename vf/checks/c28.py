"""C28 -- base-form algebra has the semantics of the linear maps it denotes.

spec/BaseForms.tla is a finite-dimensional model (V ~ Q^2, W ~ Q^3 and their duals): a base form is
a list of typed argument slots and a rational coefficient tensor; Action is contraction of the last
slot of the left operand with the first slot of the right one, Adjoint swaps two slots, Derivative is
the Gateaux derivative by its definition.  TLC checks the algebraic laws of the model (run "laws"),
enumerates every program (construction history) of small depth, samples deeper ones with
-simulate, and prints for every operation of every program the predicted argument slots,
coefficients and tensor.

Binding to the real code: every printed program is replayed on real ufl objects through the public
API (+ - * unary -, FormSum, ufl.action, ufl.adjoint, ufl.derivative, ZeroBaseForm, Cofunction,
Coargument, Matrix) and every node is compared with its prediction:
  (i)  .arguments() -- numbers, spaces, primal/dual -- and .coefficients();
  (ii) the multilinear map: a STRUCTURAL ASSEMBLER (this file) assembles whatever ufl returned after
       its simplifications on the same finite-dimensional model -- a Form by evaluating its
       integrand (vf.sem.Evaluator) with unit vectors for the arguments and the environment values
       for the coefficients, FormSum = weighted sum, Action = contraction, Adjoint = transpose,
       Cofunction / Matrix = environment tensors, ZeroBaseForm = zeros -- and the result must equal
       the predicted tensor exactly (Fractions).  Both the object as returned and
       expand_derivatives(object) are assembled.
  (iii) weighted sums (spec actions WSum, Repl; runs "sums-*" with SumMode = TRUE): three-component
       FormSums with pairwise different weights over components of different kinds (Form, Cofunction,
       Matrix, Action, Adjoint) in every order, followed by derivative / action / adjoint / replace;
       the spec also predicts which component derivatives vanish (Vanish) and TLC checks that the
       derivative of the sum is the weighted sum of the component derivatives (DerOfSumLinear).
       Whatever holds a FormSum after expansion additionally goes through the passes that map over
       integrands / components (apply_algebra_lowering, map_integrands, replace) and must keep its
       arguments and its tensor.
  (iv) the number zero (leaves "num": Python 0, 0.0, ufl Zero()) as one operand of + and -: B + 0,
       0 + B, B - 0 denote B and 0 - B denotes -B (sum([A, B]), r = 0; r -= B); the second notation
       of a program also writes the action as A * f / A @ f / A(B) and + - on a number in place.
"""

from __future__ import annotations

import itertools
import json
import multiprocessing
import os
import sys
import time
from fractions import Fraction

from .. import tlc
from ..common import MachineryError, main_wrapper

# --------------------------------------------------------------------------------------------
# TLC side
# --------------------------------------------------------------------------------------------

CFG = """CONSTANTS
MaxOps = {maxops}
LeafSel = {leafsel}
Weights = {weights}
ZeroSel = {zerosel}
DerCoefs = {dercoefs}
DumpOn = {dump}
SumSel = {sumsel}
ReplSel = {replsel}
SumMode = {summode}
CompOps = {compops}
PostOps = {postops}
PostMax = {postmax}
SPECIFICATION Spec
{invs}
"""

# measured on this (shared) machine: a small young generation avoids touching a gigabyte of fresh heap
# per JVM, and the short runs of the quick tier do not repay the optimising JIT compiler
# (enum-depth2-12leaves: 45-59 CPU-s with the defaults, 19 CPU-s with JAVA_OPTS_SHORT)
JAVA_BASE = "-DTLA-Library=/verif/spec -Xmx3g -XX:ParallelGCThreads=2"
JAVA_OPTS_SHORT = JAVA_BASE + " -Xmn128m -XX:TieredStopAtLevel=1 -XX:CICompilerCount=1"
JAVA_OPTS_LONG = JAVA_BASE + " -Xmn256m -XX:CICompilerCount=2"
JAVA_OPTS = JAVA_OPTS_SHORT

NUM_LEAVES = {29, 30, 31}  # the number zero as an operand of + and -: 0, 0.0, ufl Zero()
BF_LEAVES = set(range(1, 29))
ALL_LEAVES = BF_LEAVES | NUM_LEAVES
# a sub-alphabet: f, g, c, d; matrices (V,V) (V,W) (V,V*) (W,V*); forms a_VV af_VV L_V Lf_V Lq_V J_q;
# Coargument(V*,1); Argument(V,1)
SMALL_LEAVES = {1, 3, 4, 6, 7, 8, 10, 12, 13, 16, 17, 19, 21, 22, 24, 26}
# quick tier: f, g, c; matrices (V,V) (V,W) (V,V*); forms a_VV af_VV L_V Lf_V; Coargument(V*,1); Argument(V,1)
QUICK_LEAVES = {1, 3, 4, 7, 8, 10, 13, 16, 17, 19, 24, 26}
LAW_INVS = ("RankOK", "Laws", "DerivativeSanity")
SUM_INVS = ("RankOK", "DerOfSumLinear")
ALL_SUMS = (1, 2, 3, 4)  # indices into WeightTriples
ALL_REPLS = (1, 2, 3, 4)  # indices into ReplPairs
# SumMode runs: components -> weighted sum of three -> one more operation
SUM_KW = dict(weights=(4,), zeros=(2,), repls=ALL_REPLS, summode=True, compops=("act",), postmax=1)


def _set(s):
    return "{" + ", ".join(str(x) for x in sorted(s)) + "}"


class Job:
    """One TLC run."""

    def __init__(self, key, maxops, leaves=ALL_LEAVES, weights=(1, 2, 3, 4, 5), zeros=(1, 2, 3, 4, 5, 6), dercoefs=(1, 3, 4), dump=True, invs=("RankOK",), simulate=None, seed=None, mutate=None,
                 sums=(), repls=(), summode=False, compops=("act",), postops=("act", "adj", "der", "repl"), postmax=0, workers=4):
        self.key, self.maxops, self.leaves, self.weights, self.zeros, self.dercoefs = key, maxops, leaves, weights, zeros, dercoefs
        self.sums, self.repls, self.summode, self.compops, self.postops, self.postmax = sums, repls, summode, compops, postops, postmax
        self.dump, self.invs, self.simulate, self.seed, self.mutate = dump, tuple(invs), simulate, seed, mutate
        self.workers = workers
        self.res = None

    def run(self):
        invs = list(self.invs) + (["Dump"] if self.dump else [])
        cfg = CFG.format(maxops=self.maxops, leafsel=_set(self.leaves), weights=_set(self.weights), zerosel=_set(self.zeros), dercoefs=_set(self.dercoefs), dump="TRUE" if self.dump else "FALSE",
                         sumsel=_set(self.sums), replsel=_set(self.repls), summode="TRUE" if self.summode else "FALSE",
                         compops="{" + ", ".join(f'"{o}"' for o in self.compops) + "}",
                         postops="{" + ", ".join(f'"{o}"' for o in self.postops) + "}", postmax=self.postmax, invs="\n".join("INVARIANT " + i for i in invs))
        kw = dict(workers=self.workers, heap="3g", timeout=1500, env={"JAVA_TOOL_OPTIONS": JAVA_OPTS})
        if self.simulate:
            kw.update(simulate=f"num={self.simulate}", depth=self.maxops + 1, seed=self.seed)
        if self.mutate:
            # a mutated copy of the specification as root module (selftest of the laws)
            with open(os.path.join(tlc.SPEC, "BaseForms.tla")) as f:
                text = f.read()
            old, new = self.mutate
            if old not in text:
                raise MachineryError(f"selftest mutation: {old!r} not in BaseForms.tla")
            kw.update(mc_text=text.replace(old, new), mc_name="BaseForms")
        res = tlc.run("BaseForms", cfg, **kw)
        if res.outcome == "error" and res.distinct == 0 and res.generated == 0 and "Semantic errors" not in res.stdout:
            res = tlc.run("BaseForms", cfg, **kw)  # a JVM that could not start: one retry
        res.cfg_name = f"BaseForms[{self.key}].cfg"
        self.res = res
        return self


def run_jobs(ctx, jobs, parallel=2):
    from concurrent.futures import ThreadPoolExecutor

    with ThreadPoolExecutor(max_workers=parallel) as ex:
        list(ex.map(lambda j: j.run(), jobs))
    for j in jobs:
        ctx.add_tlc(j.res)
    return {j.key: j for j in jobs}


def split_prints(job):
    """(leaf table, program lines) of a dumping run."""
    table, lines = None, []
    for s in job.res.prints:
        if s.startswith('"{'):
            table = json.loads(json.loads(s))
        elif s.startswith('"['):
            lines.append(s)
    if table is None:
        raise MachineryError(f"BaseForms[{job.key}]: no leaf table printed")
    return table, lines


# --------------------------------------------------------------------------------------------
# real ufl objects
# --------------------------------------------------------------------------------------------

SV, SW = 1, 2
DIM = {SV: 2, SW: 3}
OPNAME = {1: "add", 2: "sub", 3: "neg", 4: "scale", 5: "act", 6: "adj", 7: "zero", 8: "der", 9: "wsum", 10: "repl"}


def refs(op):
    """Store indices of the operands of an operation [opcode, a, b, w, q, dir, z, c, w2, w3]."""
    return tuple(i for i in (op[1], op[2], op[7] if len(op) > 7 else 0) if i)


def _q(x):
    return Fraction(x[0], x[1])


class Env:
    """The declared leaves as real ufl objects + the values of the environment (from the table
    TLC printed, so that the specification is the single source of the numbers)."""

    def __init__(self, table):
        import ufl
        from ufl.classes import Coargument

        from ..elements import LagrangeElement

        self.ufl = ufl
        self.table = table
        cell = ufl.triangle
        self.mesh = ufl.Mesh(LagrangeElement(cell, 1, (2,)), ufl_id=72800)
        self.space = {SV: ufl.FunctionSpace(self.mesh, LagrangeElement(cell, 1, (2,))), SW: ufl.FunctionSpace(self.mesh, LagrangeElement(cell, 1, (3,)))}
        self.dual = {s: V.dual() for s, V in self.space.items()}
        self.dx = ufl.Measure("dx", domain=self.mesh)
        # coefficient symbols
        self.coef = {}
        self.coef_of = {}
        self.vec = {}  # object -> [Fraction]
        for q in range(1, 7):
            sp = SV if q in (1, 2, 4, 5) else SW
            o = ufl.Cofunction(self.dual[sp], count=728000 + q) if q >= 4 else ufl.Coefficient(self.space[sp], count=728000 + q)
            self.coef[q] = o
            self.coef_of[o] = q
            self.vec[o] = [_q(x) for x in table["env"][q - 1]]
        # matrices
        mspec = {1: (SV, SV, 0), 2: (SV, SW, 0), 3: (SW, SV, 0), 4: (SV, SV, 1), 5: (SV, SW, 1), 6: (SW, SV, 1)}
        self.mat, self.matval = {}, {}
        for m, (r, c, du) in mspec.items():
            M = ufl.Matrix(self.space[r], self.dual[c] if du else self.space[c], count=728100 + m)
            self.mat[m] = M
            self.matval[M.count()] = [[_q(x) for x in row] for row in table["mats"][m - 1]]
        # variational forms
        K = {k: v for k, v in table["consts"].items()}

        def imat(name):
            rows = [[_q(x) for x in row] for row in K[name]]
            assert all(x.denominator == 1 for row in rows for x in row)
            return ufl.as_matrix([[int(x) for x in row] for row in rows])

        def ivec(name):
            return ufl.as_vector([int(_q(x)) for x in K[name]])

        A1, A2, A3, K1, B1, B2 = imat("A1"), imat("A2"), imat("A3"), ivec("K1"), ivec("B1"), ivec("B2")
        V, W = self.space[SV], self.space[SW]
        v0V, v0W, u1V, u1W = ufl.Argument(V, 0), ufl.Argument(W, 0), ufl.Argument(V, 1), ufl.Argument(W, 1)
        f, g = self.coef[1], self.coef[3]
        inner, dot, dx = ufl.inner, ufl.dot, self.dx
        self.form = {
            1: inner(dot(A1, u1V), v0V) * dx,
            2: inner(dot(A2, u1W), v0V) * dx,
            3: inner(dot(A3, u1V), v0W) * dx,
            4: inner(K1, f) * inner(dot(A1, u1V), v0V) * dx,
            5: inner(B1, v0V) * dx,
            6: inner(B2, v0W) * dx,
            7: inner(dot(A1, f), v0V) * dx,
            8: inner(dot(A3, f), v0W) * dx,
            9: inner(f, dot(A1, f)) * inner(B1, v0V) * dx,
            10: inner(f, dot(A1, f)) * dx,
            11: inner(f, dot(A2, g)) * dx,
        }
        self.coarg = {1: Coargument(self.dual[SV], 1), 2: Coargument(self.dual[SW], 1)}
        self.arg = {1: ufl.Argument(V, 1), 2: ufl.Argument(W, 1), 3: ufl.Argument(V, 0)}
        # the number zero as an operand of + and - (sum([a, b]) starts from 0; r = 0; r -= B)
        self.num = {1: 0, 2: 0.0, 3: ufl.classes.Zero()}
        self.weights = [_q(w) for w in table["weights"]]
        self.sumweights = [_q(w) for w in table.get("sumweights", [])]  # (absent in replay files recorded earlier)
        self.zeros = table["zeros"]
        self.leaves = [(k, i) for _, k, i in table["leaves"]]

    def leaf(self, k, i):
        return {"coef": self.coef, "cof": self.coef, "mat": self.mat, "form": self.form, "coarg": self.coarg, "arg": self.arg, "num": self.num}[k][i]

    def argument(self, n, sp, du):
        """Argument number n on space sp (a Coargument when du)."""
        return self.ufl.Argument(self.dual[sp] if du else self.space[sp], n)

    def slot_of(self, a):
        """(number, space id, du) of a real (co)argument; None for an unknown space."""
        from ufl.classes import Coargument

        fs = a.ufl_function_space()
        for s in (SV, SW):
            if fs == self.space[s]:
                return (a.number(), s, 0, isinstance(a, Coargument))
            if fs == self.dual[s]:
                return (a.number(), s, 1, isinstance(a, Coargument))
        return None

    def weight(self, w):
        q = self.weights[w - 1]
        return int(q) if q.denominator == 1 else float(q)

    def sumweight(self, w):
        """Weight of a component of a three-term sum (dyadic: exact as a float)."""
        q = self.sumweights[w - 1]
        if q.denominator != 1 and Fraction(float(q)) != q:
            raise MachineryError(f"weight {q} is not exact as a float")
        return int(q) if q.denominator == 1 else float(q)


# --------------------------------------------------------------------------------------------
# the structural assembler
# --------------------------------------------------------------------------------------------


class Malformed(Exception):
    """What ufl returned cannot denote a multilinear map on the model (kind = short reason)."""

    def __init__(self, kind, msg=""):
        super().__init__(f"{kind}: {msg}")
        self.kind = kind


class Tensor:
    """dims + flat row-major list of Fractions."""

    __slots__ = ("dims", "v")

    def __init__(self, dims, v):
        self.dims, self.v = tuple(dims), list(v)

    @staticmethod
    def zeros(dims):
        n = 1
        for d in dims:
            n *= d
        return Tensor(dims, [Fraction(0)] * n)

    @staticmethod
    def eye(n):
        return Tensor((n, n), [Fraction(int(i == j)) for i in range(n) for j in range(n)])

    def is_zero(self):
        return all(x == 0 for x in self.v)


ZANY = "zero of unknown arity"  # an argument-less zero Form (classic UFL cannot annotate it)


class _ArgEnv:
    """Environment of vf.sem.Evaluator: Argument number n is the unit vector e_{idx[n]},
    coefficients take their environment values; everything is constant in space."""

    def __init__(self, E, idx):
        self.E, self.idx = E, idx

    def terminal(self, o, comp, derivs, side, ref):
        from ufl.classes import Argument, Coefficient

        from ..scalar import Cx

        if derivs or side is not None or ref:
            raise Malformed("integrand-not-algebraic", f"derivative/restriction of {o}")
        if isinstance(o, Argument):
            return Cx(1 if comp[0] == self.idx[o.number()] else 0)
        if isinstance(o, Coefficient):
            vec = self.E.vec.get(o)
            if vec is None:
                raise Malformed("unknown-coefficient", str(o))
            return Cx(vec[comp[0]])
        raise Malformed("unknown-terminal", f"{type(o).__name__} {o}")


def arityless_zero(o):
    """A Form without integrals, or whose integrands are all literally zero (also as the only
    kind of component of a FormSum)."""
    from ufl.classes import Form, FormSum, Zero

    if isinstance(o, FormSum):
        return bool(o.components()) and all(arityless_zero(c) for c in o.components())
    return isinstance(o, Form) and all(isinstance(i.integrand(), Zero) for i in o.integrals())


class Assembler:
    def __init__(self, E):
        self.E = E
        self.form_cache = {}

    def dim_of(self, a):
        from ufl.argument import BaseArgument

        if not isinstance(a, BaseArgument):
            raise Malformed("argument-slot-is-not-an-argument", f"{type(a).__name__} {a}")
        s = self.E.slot_of(a)
        if s is None:
            raise Malformed("unknown-space", str(a))
        return DIM[s[1]]

    def num(self, w):
        from ufl.classes import Expr, ScalarValue, Zero

        if isinstance(w, bool):
            raise Malformed("weight", repr(w))
        if isinstance(w, (int, Fraction)):
            return Fraction(w)
        if isinstance(w, float):
            return Fraction(w)
        if isinstance(w, Zero) and w.ufl_shape == ():
            return Fraction(0)
        if isinstance(w, ScalarValue):
            return Fraction(w._value)
        if isinstance(w, Expr) and w.ufl_shape == () and not w.ufl_free_indices:
            from ..sem import Evaluator

            z = Evaluator(_ArgEnv(self.E, {})).scalar(w)
            if z.im != 0:
                raise Malformed("weight", "complex")
            return Fraction(z.re)
        raise Malformed("weight", repr(w))

    def assemble(self, o, stack=()):
        from ufl.classes import Action, Adjoint, Argument, Coargument, Coefficient, Cofunction, Expr, Form, FormSum, Matrix, Zero, ZeroBaseForm

        if id(o) in stack:
            raise Malformed("cyclic", f"{type(o).__name__} object is its own operand")
        st = stack + (id(o),)
        if isinstance(o, (int, float)) and o == 0:
            return ZANY
        if isinstance(o, Form):
            return self.form(o)
        if isinstance(o, FormSum):
            if arityless_zero(o):
                return ZANY
            tot = None
            comps, ws = o.components(), o.weights()
            if len(comps) != len(ws):
                raise Malformed("formsum-weights", f"{len(comps)} components, {len(ws)} weights")
            if not comps:
                return ZANY
            for c, w in zip(comps, ws):
                t = self.assemble(c, st)
                if t is ZANY:
                    continue
                wq = self.num(w)
                if tot is None:
                    tot = Tensor(t.dims, [wq * x for x in t.v])
                elif tot.dims != t.dims:
                    raise Malformed("formsum-shape", f"components of shapes {tot.dims} and {t.dims}")
                else:
                    tot = Tensor(t.dims, [a + wq * x for a, x in zip(tot.v, t.v)])
            return ZANY if tot is None else tot
        if isinstance(o, Action):
            l, r = self.assemble(o.left(), st), self.assemble(o.right(), st)
            return self.contract(l, r)
        if isinstance(o, Adjoint):
            t = self.assemble(o.form(), st)
            if t is ZANY:
                return ZANY
            if len(t.dims) != 2:
                raise Malformed("adjoint-rank", f"adjoint of a tensor of shape {t.dims}")
            m, n = t.dims
            return Tensor((n, m), [t.v[i * n + j] for j in range(n) for i in range(m)])
        if isinstance(o, (Cofunction, Coefficient)):
            vec = self.E.vec.get(o)
            if vec is None:
                raise Malformed("unknown-coefficient", str(o))
            return Tensor((len(vec),), vec)
        if isinstance(o, Matrix):
            rows = self.E.matval.get(o.count())
            if rows is None or o != self.E.mat.get(o.count() - 728100):
                raise Malformed("unknown-matrix", str(o))
            return Tensor((len(rows), len(rows[0])), [x for row in rows for x in row])
        if isinstance(o, (Coargument, Argument)):
            return Tensor.eye(self.dim_of(o))
        if isinstance(o, ZeroBaseForm):
            return Tensor.zeros([self.dim_of(a) for a in o.arguments()])
        if isinstance(o, Zero):
            return ZANY
        if isinstance(o, Expr) and len(o.ufl_shape) == 1 and not o.ufl_free_indices:
            from ufl.classes import CoefficientDerivative

            from ..sem import Evaluator, Unsupported

            if isinstance(o, CoefficientDerivative):
                raise Malformed("unexpanded-derivative", str(o)[:80])
            try:
                ev = Evaluator(_ArgEnv(self.E, {}))
                vals = [ev.ev(o, (k,), {}) for k in range(o.ufl_shape[0])]
            except Unsupported as e:
                raise Malformed("unsupported-expression", str(e)) from e
            return Tensor((o.ufl_shape[0],), [self.real(z) for z in vals])
        raise Malformed("unknown-object", type(o).__name__)

    @staticmethod
    def real(z):
        if z.im != 0 or not isinstance(z.re, (int, Fraction)):
            raise Malformed("inexact-value", repr(z))
        return Fraction(z.re)

    def contract(self, l, r):
        if l is ZANY or r is ZANY:
            return ZANY
        if not l.dims or not r.dims:
            raise Malformed("action-rank", f"contraction of shapes {l.dims} and {r.dims}")
        if l.dims[-1] != r.dims[0]:
            raise Malformed("action-shape", f"contraction of shapes {l.dims} and {r.dims}")
        K = l.dims[-1]
        nl = len(l.v) // K
        nr = len(r.v) // K
        out = []
        for i in range(nl):
            for j in range(nr):
                out.append(sum(l.v[i * K + k] * r.v[k * nr + j] for k in range(K)))
        return Tensor(l.dims[:-1] + r.dims[1:], out)

    def form(self, F):
        from ..sem import Evaluator, Unsupported

        if arityless_zero(F):
            return ZANY
        hit = self.form_cache.get(F)
        if hit is not None:
            return hit
        args = F.arguments()
        nums = [a.number() for a in args]
        if len(set(nums)) != len(nums):
            raise Malformed("form-duplicate-argument-number", str(nums))
        dims = [self.dim_of(a) for a in args]
        for itg in F.integrals():
            if itg.integral_type() != "cell" or itg.ufl_domain() != self.E.mesh or itg.subdomain_id() != "everywhere":
                raise Malformed("unexpected-integral", str(itg)[:80])
        vals = []
        for idx in itertools.product(*[range(d) for d in dims]):
            env = _ArgEnv(self.E, dict(zip(nums, idx)))
            ev = Evaluator(env)
            tot = Fraction(0)
            for itg in F.integrals():
                try:
                    tot += self.real(ev.scalar(itg.integrand()))
                except Unsupported as e:
                    raise Malformed("unsupported-integrand", str(e)) from e
            vals.append(tot)
        t = Tensor(dims, vals)
        self.form_cache[F] = t
        return t


# --------------------------------------------------------------------------------------------
# replay of a program on real ufl and comparison with the predictions
# --------------------------------------------------------------------------------------------


STOPPED = ()  # replay_program: the program was not judged to the end (falsy, not a failure)


class Failure(Exception):
    def __init__(self, aspect, detail, what):
        super().__init__(what)
        self.aspect, self.detail, self.what = aspect, detail, what


class Skip(Exception):
    """The case is outside the tested class (an argument-less zero Form is involved)."""


def contains_arityless(o, depth=0):
    """Does o hold a Form that is (or expands to) a zero without arguments?"""
    from ufl.algorithms import expand_derivatives
    from ufl.classes import Action, Adjoint, Form, FormSum

    if depth > 8:
        return False
    if arityless_zero(o):
        return True
    if isinstance(o, Form):
        try:
            return arityless_zero(expand_derivatives(o))
        except Exception:  # noqa: BLE001
            return False
    if isinstance(o, FormSum):
        return any(contains_arityless(c, depth + 1) for c in o.components())
    if isinstance(o, Action):
        return contains_arityless(o.left(), depth + 1) or contains_arityless(o.right(), depth + 1)
    if isinstance(o, Adjoint):
        return contains_arityless(o.form(), depth + 1)
    return False


def holds_formsum(o, depth=0):
    """Is o a FormSum, or an Action / Adjoint over one?"""
    from ufl.classes import Action, Adjoint, FormSum

    if isinstance(o, FormSum):
        return True
    if depth > 8:
        return False
    if isinstance(o, Action):
        return holds_formsum(o.left(), depth + 1) or holds_formsum(o.right(), depth + 1)
    if isinstance(o, Adjoint):
        return holds_formsum(o.form(), depth + 1)
    return False


def identity_passes():
    """Passes that map over the integrands / components of a base form and denote the identity on
    the multilinear map: (name, function)."""
    from ufl.algorithms.apply_algebra_lowering import apply_algebra_lowering
    from ufl.algorithms.map_integrands import map_integrands

    return (
        ("lowered", apply_algebra_lowering),
        ("mapped", lambda o: map_integrands(lambda e: e, o)),
    )


def apply_op(E, op, objs, variant):
    """One operation of a program through the public API."""
    from ufl.classes import BaseForm, Expr, Form, FormSum, Matrix, ZeroBaseForm

    ufl = E.ufl
    code, a, b, w, q, dr, z = op[:7]
    x = objs[a - 1] if a else None
    y = objs[b - 1] if b else None
    ctor = variant == "ctor" and isinstance(x, BaseForm)
    if code == 9:
        t = objs[op[7] - 1]
        w1, w2, w3 = E.sumweight(w), E.sumweight(op[8]), E.sumweight(op[9])
        return FormSum((x, w1), (y, w2), (t, w3)) if variant == "ctor" else w1 * x + w2 * y + w3 * t
    if code == 10:
        return ufl.replace(x, {E.coef[q]: E.coef[dr]})
    if code in (1, 2) and not (isinstance(x, BaseForm) and isinstance(y, BaseForm)):
        # one operand is the number zero (a "num" leaf): no FormSum constructor notation; the second
        # variant is the accumulation idiom  r = 0; r += B / r -= B  (in-place operators)
        if variant == "ctor":
            r = x
            if code == 1:
                r += y
            else:
                r -= y
            return r
        return x + y if code == 1 else x - y
    if code == 1:
        return FormSum((x, 1), (y, 1)) if ctor else x + y
    if code == 2:
        return FormSum((x, 1), (y, -1)) if ctor else x - y
    if code == 3:
        return FormSum((x, -1)) if ctor else -x
    if code == 4:
        return FormSum((x, E.weight(w))) if ctor else E.weight(w) * x
    if code == 5:
        if variant == "ctor" and isinstance(x, BaseForm):
            # the operator notations of the action: BaseForm.__mul__ / __matmul__ (an expression as
            # right operand) and BaseForm.__call__ (Form.__call__ is the replacement of arguments instead)
            if isinstance(y, Expr):
                return x @ y if isinstance(x, Matrix) else x * y
            if not isinstance(x, Form):
                return x(y)
        return ufl.action(x, y)
    if code == 6:
        return ufl.adjoint(x)
    if code == 7:
        return ZeroBaseForm(tuple(E.argument(n, sp, du) for n, sp, du in E.zeros[z - 1]))
    if code == 8:
        c = E.coef[q]
        if dr:
            return ufl.derivative(x, c, E.coef[dr])
        if variant == "ctor":
            nums = [t.number() for t in x.arguments()]
            return ufl.derivative(x, c, E.argument(max(nums + [-1]) + 1, SV if q in (1, 2, 4, 5) else SW, q >= 4))
        return ufl.derivative(x, c)
    raise MachineryError(f"unknown opcode {code}")


def num_mode(E, op):
    """'0+B', 'B+0', '0-B', 'B-0' for an addition / subtraction with a number-zero leaf as operand, else None."""
    code, a, b = op[:3]
    if code not in (1, 2):
        return None
    nl = len(E.leaves)
    na, nb = (i <= nl and E.leaves[i - 1][0] == "num" for i in (a, b))
    if na == nb:
        return None
    s = "+" if code == 1 else "-"
    return f"0{s}B" if na else f"B{s}0"


def op_sig(op, desc):
    code, a, b, w, q, dr, z = op[:7]
    name = OPNAME[code]
    if code == 10:
        name = f"repl[{'cof' if q >= 4 else 'coef'}]"
    if code == 4 and w == 1:
        name = "scale0"
    if code == 8:
        name = f"der[{'cof' if q >= 4 else 'coef'}{'>coef' if dr else ''}]"
    if code == 7:
        return "zero"
    return name + "(" + ",".join(desc[i - 1] for i in refs(op)) + ")"


def op_key(op, keys):
    code, a, b, w, q, dr, z = op[:7]
    return f"{code}.{w}.{q}.{dr}.{z}.{'.'.join(str(x) for x in op[8:])}(" + ",".join(keys[i - 1] for i in refs(op)) + ")"


def real_args(E, o, aspect="arguments"):
    """[(n, sp, du)] reported by a real object (raises Failure for ill-formed reports)."""
    from ufl.argument import BaseArgument

    try:
        args = o.arguments()
    except Exception as e:  # noqa: BLE001
        raise Failure(aspect, "raise:" + type(e).__name__, f".arguments() raises {type(e).__name__}: {e}") from e
    out = []
    for t in args:
        if not isinstance(t, BaseArgument):
            raise Failure(aspect, "not-an-argument:" + type(t).__name__, f".arguments() contains the {type(t).__name__} {t}")
        s = E.slot_of(t)
        if s is None:
            raise Failure(aspect, "unknown-space", f".arguments() contains {t!r}")
        n, sp, dualspace, isco = s
        if bool(dualspace) != bool(isco):
            raise Failure(aspect, "kind-vs-space", f"{type(t).__name__} on {'dual' if dualspace else 'primal'} space")
        out.append([n, sp, int(dualspace)])
    return out


def fmt_args(a):
    return "(" + ", ".join(f"{'Coargument' if du else 'Argument'}({'VW'[sp - 1]}{'*' if du else ''},{n})" for n, sp, du in a) + ")"


def cmp_args(pred, got, aspect):
    if pred == got:
        return
    if len(pred) != len(got):
        detail = "count"
    elif [x[1:] for x in pred] != [x[1:] for x in got]:
        detail = "space-or-kind"
    else:
        detail = "numbers"
    raise Failure(aspect, detail, f"reports {fmt_args(got)}, contraction gives {fmt_args(pred)}")


def cmp_tensor(asm, pred_args, pred_t, o, aspect):
    try:
        t = asm.assemble(o)
    except Malformed as e:
        raise Failure(aspect, e.kind, f"not assemblable: {e}") from e
    except RecursionError as e:
        raise Failure(aspect, "cyclic", "unbounded recursion while assembling") from e
    want = [_q(x) for x in pred_t]
    dims = tuple(DIM[sp] for _, sp, _ in pred_args)
    if t is ZANY:
        if any(want):
            raise Failure(aspect, "value", f"assembles to zero, predicted {[str(x) for x in want]}")
        return "zany"
    if t.dims != dims:
        raise Failure(aspect, "shape", f"assembles to a tensor of shape {t.dims}, predicted {dims}")
    if t.v != want:
        kind = "value"
        if len(dims) == 2 and dims[0] == dims[1] and [t.v[j * dims[0] + i] for i in range(dims[0]) for j in range(dims[1])] == want:
            kind = "transposed"
        elif want and all(a == -b for a, b in zip(t.v, want)):
            kind = "sign"
        elif not any(t.v):
            kind = "zero-instead-of-value"
        raise Failure(aspect, kind, f"assembles to {[str(x) for x in t.v]}, predicted {[str(x) for x in want]}")
    return "ok"


def check_node(E, asm, pred, o, has_der, counters, corrupt=None):
    """Compare one real object with its prediction; raises Failure."""
    from ufl.algorithms import expand_derivatives
    from ufl.algorithms.analysis import extract_coefficients
    from ufl.classes import Argument, BaseForm, Expr

    kind, pargs, may, must, und, pt = pred[:6]
    van = pred[6] if len(pred) > 6 else []
    if van:
        # derivative of a three-component sum: which component derivatives vanish (coverage)
        counters["derivative_of_sum:vanishing=" + "".join(str(x) for x in van)] = counters.get("derivative_of_sum:vanishing=" + "".join(str(x) for x in van), 0) + 1
    if und:
        counters["undefined_skipped"] = counters.get("undefined_skipped", 0) + 1
    if corrupt:
        pargs, pt = corrupt(pargs, pt)
    n = 0
    if kind == "coef":
        if not isinstance(o, Expr):
            raise Failure("type", type(o).__name__, "sum of coefficients is not an expression")
        got = {E.coef_of.get(c) for c in extract_coefficients(o)}
        if not (set(must) <= got <= set(may)):
            raise Failure("coefficients", "expr", f"depends on {sorted(got, key=str)}, predicted {must}..{may}")
        if not und:
            cmp_tensor(asm, pargs, pt, o, "tensor")
        return 2
    if isinstance(o, Argument) and not isinstance(o, BaseForm):
        # adjoint(Coargument) is the primal Argument, an identity that is not a BaseForm: no
        # .arguments() to compare; the map must still be the identity
        counters["identity_argument_results"] = counters.get("identity_argument_results", 0) + 1
        if not und:
            cmp_tensor(asm, pargs, pt, o, "tensor")
        return 1
    if not isinstance(o, BaseForm):
        raise Failure("type", type(o).__name__, f"result is a {type(o).__name__}, not a BaseForm")
    if any(x is o for x in getattr(o, "ufl_operands", ())):
        raise Failure("structure", "object-is-its-own-operand", f"the returned {type(o).__name__} has itself as operand (an existing object was re-initialised)")
    if arityless_zero(o):
        # a Form whose integrand is 0: classic UFL cannot annotate it with arguments
        counters["arityless_zero_forms"] = counters.get("arityless_zero_forms", 0) + 1
        if not und and any(_q(x) for x in pt):
            raise Failure("tensor", "zero-instead-of-value", "an empty/zero Form, predicted a non-zero tensor")
        return 1
    # (i) arguments and coefficients of the object as returned
    cmp_args(pargs, real_args(E, o), "arguments")
    n += 1
    try:
        coefs = o.coefficients()
    except Exception as e:  # noqa: BLE001
        raise Failure("coefficients", "raise:" + type(e).__name__, f".coefficients() raises {type(e).__name__}: {e}") from e
    got = set()
    for c in coefs:
        q = E.coef_of.get(c)
        if q is None:
            raise Failure("coefficients", "unknown", f".coefficients() contains {c!r}")
        got.add(q)
    if not und and not set(must) <= got:
        raise Failure("coefficients", "missing", f"reports {sorted(got)}, but the map depends on {must}")
    if not got <= set(may):
        raise Failure("coefficients", "spurious", f"reports {sorted(got)}, only {may} occur in the construction")
    n += 1
    # (ii) the map, as returned (when it holds no unexpanded derivative) and after expansion
    if not has_der and not und:
        cmp_tensor(asm, pargs, pt, o, "tensor")
        n += 1
    try:
        o2 = expand_derivatives(o)
    except RecursionError as e:
        raise Failure("tensor", "cyclic", "expand_derivatives: unbounded recursion") from e
    except Exception as e:  # noqa: BLE001
        if contains_arityless(o):
            raise Skip() from e
        raise Failure("raise", f"expand_derivatives:{type(e).__name__}", f"expand_derivatives raises {type(e).__name__}: {e}") from e
    if isinstance(o2, BaseForm) and not arityless_zero(o2):
        cmp_args(pargs, real_args(E, o2, "arguments-expanded"), "arguments-expanded")
        n += 1
    if not und:
        cmp_tensor(asm, pargs, pt, o2, "tensor-expanded")
        n += 1
    if not und and holds_formsum(o2):
        # a weighted sum of base forms: every pass that maps over its components keeps the map
        for name, fn in identity_passes():
            try:
                o3 = fn(o2)
            except Exception as e:  # noqa: BLE001
                raise Failure("raise", f"{name}:{type(e).__name__}", f"{name}: raises {type(e).__name__}: {str(e)[:160]}") from e
            if isinstance(o3, BaseForm) and not arityless_zero(o3):
                cmp_args(pargs, real_args(E, o3, "arguments-" + name), "arguments-" + name)
                n += 1
            cmp_tensor(asm, pargs, pt, o3, "tensor-" + name)
            n += 1
            counters["identity_passes_over_sums"] = counters.get("identity_passes_over_sums", 0) + 1
    return n


def replay_program(E, asm, line, variant, status, counters, corrupt=None, only=None):
    """Build the program op by op and check every node against its prediction.
    status: {subtree key: "ok" | "bad" | "skip"} shared between programs.
    Returns (checks, failure or None) with failure = (node index, fingerprint, what)."""
    from ufl.algorithms import expand_derivatives
    from ufl.classes import Argument, BaseForm, Coefficient, Expr, Form

    ops, preds = line
    objs = [E.leaf(k, i) for k, i in E.leaves]
    nl = len(objs)
    desc = [type(o).__name__ for o in objs]  # fingerprints name the real classes ufl dispatches on
    keys = [f"{k}{i}" for k, i in E.leaves]
    ders = [False] * len(objs)
    checks = 0
    for k, (op, pred) in enumerate(zip(ops, preds)):
        code, a, b = op[0], op[1], op[2]
        sig = op_sig(op, desc)
        key = variant + ":" + op_key(op, keys)
        has_der = code == 8 or any(ders[i - 1] for i in refs(op))
        known = status.get(key)
        if known in ("bad", "skip"):
            counters["programs_on_failing_subprogram"] = counters.get("programs_on_failing_subprogram", 0) + 1
            return checks, STOPPED
        if pred[0] == "bf" and any(not isinstance(objs[i - 1], BaseForm) and not (code in (1, 2) and i <= nl and E.leaves[i - 1][0] == "num")
                                   for i in (refs(op) if code in (1, 2, 9) else (a,)) if i):
            # ufl represents some results outside the BaseForm classes (an element of V** is a
            # Coefficient: D_c action(c, f) = f; the adjoint of a Coargument is an Argument):
            # the BaseForm operators do not apply to them
            status[key] = "skip"
            counters["operand_left_the_baseform_classes"] = counters.get("operand_left_the_baseform_classes", 0) + 1
            return checks, STOPPED
        if code == 5 and pred[0] == "bf" and isinstance(objs[a - 1], Form) and isinstance(objs[b - 1], Expr) and not isinstance(objs[b - 1], (BaseForm, Coefficient, Argument)):
            # the specification's guard on Act, decided on the real objects: ufl.action(Form, e) is
            # compute_form_action, which needs e.ufl_function_space(); a sum of coefficients is accepted
            # by Action objects only.  (Zero elimination can turn a FormSum into a plain Form, e.g. the
            # expanded derivative of c2 + Lf_V, which the specification does not follow.)
            status[key] = "skip"
            counters["form_action_on_coefficient_sum"] = counters.get("form_action_on_coefficient_sum", 0) + 1
            return checks, STOPPED
        try:
            o = apply_op(E, op, objs, variant)
        except MachineryError:
            raise
        except RecursionError:
            status[key] = "bad"
            return checks, (k, f"C28:raise:RecursionError:{sig}", f"{sig}: building the object recurses without bound")
        except Exception as e:  # noqa: BLE001
            if any(contains_arityless(objs[i - 1]) for i in refs(op)):
                # an argument-less zero Form as operand: ufl cannot know its arity
                status[key] = "skip"
                counters["refused_arityless_operand"] = counters.get("refused_arityless_operand", 0) + 1
                return checks, STOPPED
            status[key] = "bad"
            return checks, (k, f"C28:raise:{OPNAME[code]}:{type(e).__name__}:{sig}", f"{sig} raises {type(e).__name__}: {str(e)[:160]}")
        objs.append(o)
        desc.append(type(o).__name__)
        keys.append(op_key(op, keys))
        ders.append(has_der)
        if not (known == "ok" and corrupt is None) and (only is None or k == only):
            try:
                checks += check_node(E, asm, pred, o, has_der, counters, corrupt if k == len(ops) - 1 else None)
                status[key] = "ok"
                mode = num_mode(E, op)
                if mode:
                    counters["number_zero_operand:" + mode] = counters.get("number_zero_operand:" + mode, 0) + 1
            except Skip:
                status[key] = "skip"
                counters["refused_arityless_operand"] = counters.get("refused_arityless_operand", 0) + 1
                return checks, STOPPED
            except Failure as f:
                if f.aspect != "structure" and any(contains_arityless(objs[i - 1]) for i in refs(op)):
                    # an operand is an argument-less zero Form: ufl cannot know its arity
                    status[key] = "skip"
                    counters["refused_arityless_operand"] = counters.get("refused_arityless_operand", 0) + 1
                    return checks, STOPPED
                status[key] = "bad"
                return checks, (k, f"C28:{f.aspect}:{f.detail}:{sig}", f"{describe(E, ops, k)}: {f.what}")
        if code == 8 and not isinstance(o, Form):
            # the derivative of a base form that is not a Form (Cofunction, Matrix, Coargument,
            # ZeroBaseForm, FormSum, Action) holds BaseFormDerivative / CoefficientDerivative nodes
            # that ufl's own tests always expand before using the result: the program continues
            # with the expanded object (what was reported before expansion was compared above)
            try:
                objs[-1] = expand_derivatives(o)
            except Exception:  # noqa: BLE001
                status[key] = "skip"
                return checks, STOPPED
            desc[-1] = type(objs[-1]).__name__
    return checks, None


def describe(E, ops, k):
    """Readable rendering of the sub-program rooted at op k."""
    nl = len(E.leaves)
    names = {("coef", 1): "f", ("coef", 2): "f2", ("coef", 3): "g", ("cof", 4): "c", ("cof", 5): "c2", ("cof", 6): "d",
             ("mat", 1): "M(V,V)", ("mat", 2): "M(V,W)", ("mat", 3): "M(W,V)", ("mat", 4): "M(V,V*)", ("mat", 5): "M(V,W*)", ("mat", 6): "M(W,V*)",
             ("form", 1): "a_VV", ("form", 2): "a_VW", ("form", 3): "a_WV", ("form", 4): "af_VV", ("form", 5): "L_V", ("form", 6): "L_W",
             ("form", 7): "Lf_V", ("form", 8): "Lf_W", ("form", 9): "Lq_V", ("form", 10): "J_q", ("form", 11): "J_fg",
             ("coarg", 1): "Coargument(V*,1)", ("coarg", 2): "Coargument(W*,1)", ("arg", 1): "Argument(V,1)", ("arg", 2): "Argument(W,1)", ("arg", 3): "Argument(V,0)",
             ("num", 1): "0", ("num", 2): "0.0", ("num", 3): "Zero()"}

    def r(i):
        if i <= nl:
            return names[tuple(E.leaves[i - 1])]
        code, a, b, w, q, dr, z = ops[i - nl - 1][:7]
        if code == 9:
            o = ops[i - nl - 1]
            return "(" + " + ".join(f"{E.sumweights[wi - 1]}*{r(t)}" for wi, t in ((w, a), (o[8], b), (o[9], o[7]))) + ")"
        if code == 10:
            kq = "cof" if q >= 4 else "coef"
            return f"replace({r(a)}, {{{names[(kq, q)]}: {names[(kq, dr)]}}})"
        if code == 1:
            return f"({r(a)} + {r(b)})"
        if code == 2:
            return f"({r(a)} - {r(b)})"
        if code == 3:
            return f"-{r(a)}"
        if code == 4:
            return f"{E.weights[w - 1]}*{r(a)}"
        if code == 5:
            return f"action({r(a)}, {r(b)})"
        if code == 6:
            return f"adjoint({r(a)})"
        if code == 7:
            return "ZeroBaseForm" + fmt_args(E.zeros[z - 1])
        qn = names[("cof" if q >= 4 else "coef", q)]
        return f"derivative({r(a)}, {qn}{', ' + names[('coef', dr)] if dr else ''})"

    return r(nl + k + 1)


# --------------------------------------------------------------------------------------------
# parallel replay
# --------------------------------------------------------------------------------------------

_E = None
_ASM = None
_STATUS = {}


def setup(table):
    global _E, _ASM, _STATUS
    _E = Env(table)
    _ASM = Assembler(_E)
    _STATUS = {}
    return _E


def nontrivial(ops):
    return len(ops) >= 2 or ops[0][0] in (5, 6, 7, 8, 9, 10) or (ops[0][0] == 4 and ops[0][3] == 1)


_TABLES = {}  # leaf-selection key -> leaf table (registered before the workers are forked)
_ENVS = {}  # per process: key -> (Env, Assembler, status cache)


def table_key(table):
    return json.dumps(table["leaves"], separators=(",", ":"))


def _work(raw):
    """Replay a chunk of dump lines (both API variants).  raw = lines (the environment is the one
    of setup()) or (table key, lines)."""
    global _E, _ASM, _STATUS
    if isinstance(raw, tuple):
        key, raw = raw
        if key not in _ENVS:
            E = Env(_TABLES[key])
            _ENVS[key] = (E, Assembler(E), {})
        _E, _ASM, _STATUS = _ENVS[key]
    n = checks = 0
    fails = []
    counters = {}
    distinct = []
    for s in raw:
        line = json.loads(json.loads(s)) if isinstance(s, str) else s
        ops = line[0]
        n += 1
        c, f = replay_program(_E, _ASM, line, "ops", _STATUS, counters)
        checks += c
        if f:
            fails.append({"line": line, "variant": "ops", "node": f[0], "fp": f[1], "what": f[2]})
        elif f is None and (any(o[0] in (1, 2, 3, 4, 9) or (o[0] == 8 and o[5] == 0) for o in ops) or (len(ops) == 1 and ops[0][0] == 5)):
            # the same program in the second notation: FormSum constructor, explicit direction argument,
            # A * f / A @ f / A(B) for the action, in-place += / -= on the number zero
            c, f = replay_program(_E, _ASM, line, "ctor", _STATUS, counters)
            checks += c
            if f:
                fails.append({"line": line, "variant": "ctor", "node": f[0], "fp": f[1] + "@ctor", "what": f[2] + " [second notation: FormSum constructor / explicit direction / A * f, A @ f, A(B) / in-place += -=]"})
        if nontrivial(ops):
            distinct.append(json.dumps(ops, separators=(",", ":")))
    return n, checks, fails, counters, distinct


_POOL = None


def start_pool(tables, nproc=8):
    """One pool for the run (forking is expensive on this machine: every worker faults in its copy
    of the pages it touches); the workers build the environment of a leaf selection on demand."""
    global _POOL
    for t in tables:
        _TABLES[table_key(t)] = t
    setup(tables[0])  # ufl is imported before the workers are forked
    if _POOL is None:
        _POOL = multiprocessing.get_context("fork").Pool(nproc)


def stop_pool():
    global _POOL
    if _POOL is not None:
        _POOL.close()
        _POOL.join()
        _POOL = None


def _chunks(lines, n):
    return [lines[i : i + n] for i in range(0, len(lines), n)]


_REPORTED = {}


def conform(ctx, table, lines, tag):
    """Replay dump lines; report failures (three replay files per fingerprint)."""
    # sorted by text: programs sharing sub-programs land in the same chunk (status cache)
    lines = sorted(set(lines))
    # small runs: one chunk per worker (at least 60 lines, so that sub-programs are still shared)
    chunks = _chunks(lines, max(60, min(250, -(-len(lines) // 8))))
    key = table_key(table)
    _TABLES.setdefault(key, table)
    tasks = [(key, c) for c in chunks]
    results = _POOL.map(_work, tasks, chunksize=1) if _POOL is not None and len(chunks) > 1 else [_work(t) for t in tasks]
    nprog = 0
    allfails = []
    for n, checks, fails, counters, distinct in results:
        nprog += n
        ctx.traces(n)
        ctx.evaluated(checks)
        for k, v in counters.items():
            ctx.count(k, v)
        for d in distinct:
            ctx.distinct(d)
        allfails.extend(fails)
    # the smallest failing programs of each fingerprint are the ones kept as replay files
    for f in sorted(allfails, key=lambda f: (f["node"], len(f["line"][0]), json.dumps(f["line"][0]))):
        fp = f["fp"]
        _REPORTED[fp] = _REPORTED.get(fp, 0) + 1
        ctx.count("failing_programs:" + fp)
        if _REPORTED[fp] > 3:
            continue
        ctx.violation(fp, f["what"], {"table": table, "line": f["line"], "variant": f["variant"], "node": f["node"]})
    ctx.count("programs_replayed:" + tag, nprog)
    return nprog


# --------------------------------------------------------------------------------------------
# the check
# --------------------------------------------------------------------------------------------


def run(ctx, args):
    if args.selftest:
        return selftest(ctx)
    quick = ctx.tier == "quick"
    ctx.rule = (
        "a program = a construction history over the declared leaves (3 coefficients, 3 cofunctions, 6 matrices incl. "
        "dual column spaces, 11 variational forms of arity 0-2 that are constant/linear/quadratic in a coefficient, 2 "
        "coarguments, 3 arguments) with operations add, sub, neg, scale by {0,1,-1,2,1/2}, action, adjoint, ZeroBaseForm, "
        "derivative (w.r.t. a coefficient or a cofunction, new argument or coefficient direction); the number zero (0, 0.0, "
        "ufl Zero(): 3 more leaves) may be one operand of add / sub (B + 0, 0 + B, B - 0, 0 - B; each required); TLC enumerates every "
        "program without dead code up to the exhaustive depth and samples deeper ones with -simulate (seeded); every "
        "operation of every program is replayed on real ufl (ufl.action + operator notation, and a second notation: FormSum "
        "constructor / explicit direction / A * f, A @ f, A(B) for the action / in-place += -= on a number) "
        "and compared with the prediction: arguments, coefficients, assembled tensor before and after expand_derivatives; "
        "weighted sums: the operation wsum = w1*x + w2*y + w3*z (three different nodes, pairwise different weights out of "
        "{3,-2,1/2}, {5,-3/2,-4}, {1,3,-2}, {1/2,-4,5}) and replace(A, {f: f2} / {c: c2}); the runs 'sums-*' enumerate (or "
        "sample) the histories components (Actions of leaves, adjoints, ...) -> weighted sum in every order -> derivative / "
        "action / adjoint / replace, so that every pattern of components that vanish under the derivative occurs (counted "
        "per pattern, required); whatever holds a FormSum after expansion is also passed through apply_algebra_lowering "
        "and map_integrands(identity) and must keep its arguments and tensor; "
        "distinct non-trivial = distinct program with >= 2 operations or whose operation is action, adjoint, zero, derivative, "
        "wsum, replace or a zero weight"
    )
    ctx.assume("real arithmetic: the conjugation convention of the adjoint is not modelled (all values are rational)")
    ctx.assume("a Form is assembled on a domain of measure 1 on which every function is constant: integral = value of the integrand with unit vectors for the arguments (vf.sem.Evaluator)")
    ctx.assume("argument numbering after an action is the one action.py documents: the remaining arguments keep their numbers; compositions whose remaining numbers would not be strictly increasing are outside the tested class; an identity operand (Coargument/Argument), also as a component of a sum the action distributes over, carries the number of the slot it replaces")
    ctx.assume("adjoint is applied to base forms whose two arguments are numbered 0, 1; derivative of an Action is tested when both operands are 1-forms / coefficients (the documented Leibniz rule); derivative of an Adjoint, a second derivative of an Action and -f, 2*f as right operand of an action are refused by ufl by design and excluded by the guards")
    ctx.assume("coefficients: must <= reported <= may, where must = coefficients whose perturbation changes the predicted tensor and may = coefficients occurring in the construction (zero elimination may legitimately drop coefficients)")
    ctx.assume("a Form whose integrands are all 0 (0*F, derivative of a form w.r.t. a coefficient it does not contain) carries no arguments in classic UFL: only its value (zero) is compared, and a composition ufl refuses because of such an operand is counted, not judged")
    ctx.assume("adjoint(Coargument) is the primal Argument and D_c action(c, f) is the Coefficient f: ufl represents them outside the BaseForm classes; only their map is compared, and programs that go on applying BaseForm operators to them are counted, not judged")
    ctx.assume("the derivative of a base form that is not a Form is used further only after expand_derivatives (as in ufl's tests); what it reports before expansion is compared as returned")
    ctx.assume("derivative with a coefficient direction is not applied to Actions; derivative of an Action object whose left operand holds a variational form next to other base forms is excluded (the Leibniz rule goes through compute_form_action)")
    ctx.assume("replace is applied to base forms that contain the replaced coefficient / cofunction, by one of the same space and kind; passes that map over integrands and components (expand_derivatives, apply_algebra_lowering, map_integrands, replace) denote the identity on the multilinear map")
    ctx.assume("the numbers a base form may be added to / subtracted from are 0, 0.0 and the scalar ufl Zero() (form.py: 'Allow adding 0 or 0.0 as a no-op, needed for sum([a,b])'); they denote the zero map of the arity of the other operand")
    ctx.assume("predictions with an entry outside the exact range of CQ.tla (|n|, d <= 20000) are not compared (counted as undefined_skipped)")
    t0 = time.time()
    seed = ctx.seed
    global JAVA_OPTS
    JAVA_OPTS = JAVA_OPTS_SHORT if quick else JAVA_OPTS_LONG
    if quick:
        jobs = [
            Job("laws-depth1-10leaves", 1, leaves={1, 4, 7, 10, 13, 17, 19, 22, 24, 26, 29}, weights=(1, 4), zeros=(2,), dercoefs=(1,), dump=False, invs=LAW_INVS),
            Job("enum-depth2-12leaves", 2, leaves=QUICK_LEAVES, weights=(1, 4), zeros=(2,), dercoefs=(1, 4)),
            # every leaf with every number zero (0, 0.0, Zero()) on either side of + and -
            Job("enum-depth1-all", 1, sums=(1,), repls=ALL_REPLS, workers=1),
            # f, c, M(V,V), Lf_V and the number 0: 0 - action(M, f), sum([c, Lf_V]) = (0 + c) + Lf_V, derivative(0 - c, c), ...
            Job("enum-depth2-numbers", 2, leaves={1, 4, 7, 19, 29}, weights=(1, 4), zeros=(2,), dercoefs=(1, 4), workers=1),
            Job("sim-depth4", 4, leaves=BF_LEAVES, simulate=18, seed=seed, sums=(3,), repls=ALL_REPLS),
            # weighted sums of three components: f, f2, c, c2, Lf_V and every Action of two of them; then one of
            # derivative / action / replace (all orders of the components: every vanishing pattern)
            Job("sums-depth5-1forms", 5, leaves={1, 2, 4, 5, 19}, sums=(1,), dercoefs=(1, 4), invs=SUM_INVS, workers=2, **SUM_KW),
            # f, f2, c, M(V,V), a_VV, af_VV and their Actions (Matrix-Action, Matrix-Matrix, Form-coefficient)
            Job("sums-depth4-2forms", 4, leaves={1, 2, 4, 7, 13, 16}, sums=(2,), dercoefs=(1,), invs=SUM_INVS, workers=1, **SUM_KW),
        ]
    else:
        jobs = [
            Job("enum-depth3-10leaves", 3, leaves={1, 4, 7, 10, 13, 17, 19, 22, 24, 26}, weights=(1, 4), zeros=(2,), dercoefs=(1,)),
            Job("laws-depth1-all", 1, dump=False, invs=LAW_INVS),
            Job("enum-depth2-all", 2, leaves=BF_LEAVES | {29, 31}),
            # f, c, M(V,V) and the number 0 (scale by 2, derivative w.r.t. c)
            Job("enum-depth3-numbers", 3, leaves={1, 4, 7, 29}, weights=(4,), zeros=(), dercoefs=(4,)),
            Job("enum-depth3-6leaves", 3, leaves={1, 4, 10, 13, 19, 24}, weights=(1, 4), zeros=(4,), dercoefs=(1, 4)),
            Job("sim-depth4", 4, simulate=300, seed=seed, sums=ALL_SUMS, repls=ALL_REPLS),
            Job("sim-depth5", 5, simulate=250, seed=seed + 1, sums=ALL_SUMS, repls=ALL_REPLS),
            Job("enum-depth1-sums", 1, sums=ALL_SUMS, repls=ALL_REPLS),
            Job("sums-depth5-1forms", 5, leaves={1, 2, 4, 5, 17, 19}, sums=(1, 2), dercoefs=(1, 4), invs=SUM_INVS, **SUM_KW),
            Job("sums-depth4-2forms", 4, leaves={1, 2, 7, 10, 13, 16}, sums=(1,), dercoefs=(1,), invs=SUM_INVS, **dict(SUM_KW, compops=("act", "adj"))),
            Job("sums-depth4-W", 4, leaves={1, 3, 4, 6, 8, 9, 15, 18, 20, 23}, sums=(4,), dercoefs=(1, 3), invs=SUM_INVS, **dict(SUM_KW, compops=("act", "adj"))),
            Job("sums-sim-depth5", 5, leaves=BF_LEAVES, simulate=40, seed=seed + 2, sums=ALL_SUMS, dercoefs=(1, 3, 4), invs=SUM_INVS,
                **dict(SUM_KW, weights=(1, 2, 3, 4, 5), zeros=(1, 2, 3, 4, 5, 6), compops=("act", "adj", "der", "neg", "scale", "zero", "add", "sub"), postops=("act", "adj", "der", "repl", "neg", "scale", "add", "sub"), postmax=2)),
        ]
    done = run_jobs(ctx, jobs, parallel=3)
    print(f"  TLC: {len(jobs)} runs, {sum(j.res.distinct for j in jobs)} states, {time.time() - t0:.1f}s", flush=True)
    for j in jobs:
        if not j.res.ok:
            tlc.require_ok(j.res, f"BaseForms[{j.key}]")  # the model itself is wrong: machinery
    table = None
    total = 0
    dumps = []
    # shallow exhaustive runs first, so that the cases kept per fingerprint are minimal
    for j in sorted(jobs, key=lambda j: (bool(j.simulate), j.maxops)):
        if not j.dump:
            continue
        tab, lines = split_prints(j)
        j.res.stdout, j.res.prints = "", []
        if not lines:
            raise MachineryError(f"BaseForms[{j.key}]: no program printed")
        if not j.simulate and len(lines) != j.res.distinct - 1 and j.maxops <= 2:
            # exhaustive runs of depth <= 2: every state but the initial one is a live program
            raise MachineryError(f"BaseForms[{j.key}]: {j.res.distinct} states but {len(lines)} dump lines")
        dumps.append((j, tab, lines))
    try:
        # every leaf selection has its own table (the operand indices refer to its store)
        start_pool([tab for _, tab, _ in dumps])
        for j, tab, lines in dumps:
            table = tab
            total += conform(ctx, tab, lines, j.key)
            print(f"  {j.key}: {len(lines)} lines replayed, {time.time() - t0:.1f}s", flush=True)
            lines.clear()
    finally:
        stop_pool()
    need = 2000 if quick else 50000
    if total < need:
        raise MachineryError(f"only {total} programs replayed (< {need})")
    # vacuity of the weighted-sum histories: derivatives of three-component sums in which a component
    # vanishes BEFORE one that does not (and after one, and none, and all) were replayed
    for pat in ("100", "010", "001", "110", "101", "011", "000", "111"):
        if not ctx.cov.get("derivative_of_sum:vanishing=" + pat):
            raise MachineryError(f"no derivative of a weighted sum with the vanishing pattern {pat} was replayed")
    if not ctx.cov.get("identity_passes_over_sums"):
        raise MachineryError("no weighted sum went through the identity passes")
    for mode in ("0+B", "B+0", "0-B", "B-0"):
        if not ctx.cov.get("number_zero_operand:" + mode):
            raise MachineryError(f"no {mode} with a number zero was replayed")
    ctx.cov["exhaustive"] = False  # exhaustive up to depth 2 (depth 3 on a sub-alphabet), sampled beyond
    ctx.sample({"leaves": table["leaves"][:6], "note": "dump line = [ops [[opcode,a,b,w,q,dir,z]..], predictions per op [kind,args,may,must,undefined,tensor]]"})


# --------------------------------------------------------------------------------------------
# replay of a recorded violation
# --------------------------------------------------------------------------------------------


def replay(ctx, doc):
    r = doc["replay"]
    E = setup(r["table"])
    line = r["line"]
    counters = {}
    print("program  :", describe(E, line[0], len(line[0]) - 1))
    print("failing  :", describe(E, line[0], r["node"]), f"(variant {r['variant']})")
    pred = line[1][r["node"]]
    print("predicted: args", fmt_args(pred[1]), "coefficients must/may", pred[3], pred[2], "tensor", [str(_q(x)) for x in pred[5]])
    c, f = replay_program(E, _ASM, line, r["variant"], {}, counters)
    print("observed :", f[2] if f else "conforms")
    if f:
        ctx.violation(doc.get("fingerprint", f[1]), f[2], r)


# --------------------------------------------------------------------------------------------
# selftest
# --------------------------------------------------------------------------------------------


def selftest(ctx):
    ctx.rule = "selftest: corrupted predictions (tensor entry, argument number, space, dual flag; also of a weighted sum, of the derivative of one and of 0 - B), a corrupted assembler, weighted sums built or expanded with wrongly paired weights, a reflected subtraction that negates the wrong operand and a mutated contraction in the specification must all be rejected"
    jobs = [
        Job("selftest-enum", 1, leaves=SMALL_LEAVES | {29}, sums=(1,), repls=ALL_REPLS),
        # contraction with the FIRST slot of the left operand instead of the last: the laws must fail
        Job("selftest-mutant-laws", 1, leaves=SMALL_LEAVES, dump=False, invs=LAW_INVS, mutate=("ta[Append(SubSeq(s, 1, p), k)]", "ta[<<k>> \\o SubSeq(s, 1, p)]")),
        # weighted sums of c, c2, Lf_V in every order, then a derivative
        Job("selftest-sums", 2, leaves={1, 4, 5, 19}, sums=(1,), dercoefs=(1, 4), invs=SUM_INVS, workers=1, **dict(SUM_KW, compops=())),
    ]
    done = run_jobs(ctx, jobs, parallel=3)
    tlc.require_ok(done["selftest-enum"].res, "selftest enumeration")
    mres = done["selftest-mutant-laws"].res
    rejected = {}
    rejected["spec-mutant-contraction-slot"] = [f"{mres.outcome}:{mres.violated}"] if mres.outcome in ("invariant", "error", "assert") and mres.outcome != "ok" else []
    table, lines = split_prints(done["selftest-enum"])
    E = setup(table)
    lines = [json.loads(json.loads(s)) for s in lines]

    def pick(pred):
        for l in lines:
            if pred(l) and replay_program(E, _ASM, l, "ops", {}, {})[1] is None:
                return l
        raise MachineryError("selftest: no conforming line of the requested shape")

    act = pick(lambda l: l[0][0][0] == 5 and len(l[1][0][1]) == 1 and any(_q(x) for x in l[1][0][5]))
    adj = pick(lambda l: l[0][0][0] == 6 and l[1][0][1][0][1] != l[1][0][1][1][1])
    two = pick(lambda l: l[0][0][0] == 5 and len(l[1][0][1]) == 2)
    wsm = pick(lambda l: l[0][0][0] == 9 and any(_q(x) for x in l[1][0][5]))
    rsb = pick(lambda l: num_mode(E, l[0][0]) == "0-B" and any(_q(x) for x in l[1][0][5]))

    def with_corruption(line, fn):
        return replay_program(E, _ASM, line, "ops", {}, {}, corrupt=fn)[1]

    def bump_t(pa, pt):
        pt = [list(x) for x in pt]
        pt[-1] = [pt[-1][0] + pt[-1][1], pt[-1][1]]
        return pa, pt

    def bump_n(pa, pt):
        pa = [list(x) for x in pa]
        pa[-1][0] += 1
        return pa, pt

    def flip_space(pa, pt):
        pa = [list(x) for x in pa]
        pa[0][1] = 3 - pa[0][1]
        return pa, pt

    def flip_dual(pa, pt):
        pa = [list(x) for x in pa]
        pa[-1][2] = 1 - pa[-1][2]
        return pa, pt

    def transpose(pa, pt):
        return [pa[1], pa[0]], pt  # slots swapped, tensor not

    for name, line, fn in [
        ("predicted-tensor-entry", act, bump_t),
        ("predicted-argument-number", act, bump_n),
        ("predicted-argument-space", act, flip_space),
        ("predicted-argument-dual-flag", act, flip_dual),
        ("predicted-adjoint-not-swapped", adj, transpose),
        ("predicted-tensor-entry-2form", two, bump_t),
        ("predicted-tensor-entry-weighted-sum", wsm, bump_t),
        ("predicted-tensor-entry-zero-minus-B", rsb, bump_t),
    ]:
        f = with_corruption(line, fn)
        rejected[name] = [f[1]] if f else []
    # a broken assembler (contraction with the wrong slot) must be noticed on the uncorrupted lines
    orig = Assembler.contract

    def bad_contract(self, l, r):
        t = orig(self, l, r)
        return t if t is ZANY or len(t.v) < 2 else Tensor(t.dims, t.v[::-1])

    Assembler.contract = bad_contract
    try:
        nbad = sum(bool(replay_program(E, _ASM, l, "ops", {}, {})[1]) for l in lines if l[0][0][0] == 5)
    finally:
        Assembler.contract = orig
    rejected["mutant-assembler-contraction"] = [f"{nbad} lines rejected"] if nbad else []
    # an action that forgets to contract (returns the left operand) must be noticed
    orig_action = E.ufl.action
    E.ufl.action = lambda a, b: a
    try:
        nbad2 = sum(bool(replay_program(E, _ASM, l, "ops", {}, {})[1]) for l in lines if l[0][0][0] == 5)
    finally:
        E.ufl.action = orig_action
    rejected["mutant-action-returns-left"] = [f"{nbad2} lines rejected"] if nbad2 else []
    # a weighted sum whose weights are paired with the wrong components must be noticed
    orig_sw = E.sumweight
    E.sumweight = lambda w: orig_sw(w % 3 + 1)
    try:
        nbad3 = sum(bool(replay_program(E, _ASM, l, "ops", {}, {})[1]) for l in lines if l[0][0][0] == 9)
    finally:
        E.sumweight = orig_sw
    rejected["mutant-sum-weights-rotated"] = [f"{nbad3} lines rejected"] if nbad3 else []
    # a reflected subtraction that negates the wrong operand (0 - B evaluated as B - 0) must be noticed
    from ufl.form import BaseForm

    orig_rsub = BaseForm.__rsub__
    BaseForm.__rsub__ = lambda self, other: self + (-other)
    try:
        nbad5 = sum(bool(replay_program(E, _ASM, l, "ops", {}, {})[1]) for l in lines if num_mode(E, l[0][0]) == "0-B")
    finally:
        BaseForm.__rsub__ = orig_rsub
    rejected["mutant-reflected-subtraction"] = [f"{nbad5} lines rejected"] if nbad5 else []
    # derivatives of weighted sums in which a component vanishes before one that does not
    tlc.require_ok(done["selftest-sums"].res, "selftest sums")
    stable, slines = split_prints(done["selftest-sums"])
    E = setup(stable)
    slines = [json.loads(json.loads(s)) for s in slines]
    dsum = [l for l in slines if len(l[0]) == 2 and l[0][1][0] == 8 and "".join(str(x) for x in l[1][1][6]) in ("100", "010", "101")]
    if not dsum or any(replay_program(E, _ASM, l, "ops", {}, {})[1] for l in dsum):
        raise MachineryError("selftest: no conforming derivative of a weighted sum with an inner vanishing component")
    f = replay_program(E, _ASM, dsum[0], "ops", {}, {}, corrupt=bump_t)[1]
    rejected["predicted-tensor-entry-derivative-of-sum"] = [f[1]] if f else []
    # an expansion that pairs the surviving components with the wrong weights must be noticed
    import ufl.algorithms as ualg
    from ufl.classes import FormSum

    orig_expand = ualg.expand_derivatives

    def bad_expand(o, **kw):
        r = orig_expand(o, **kw)
        if isinstance(r, FormSum) and len(r.components()) >= 2:
            ws = list(r.weights())
            return FormSum(*zip(r.components(), ws[1:] + ws[:1]))
        return r

    ualg.expand_derivatives = bad_expand
    try:
        nbad4 = sum(bool(replay_program(E, _ASM, l, "ops", {}, {})[1]) for l in dsum)
    finally:
        ualg.expand_derivatives = orig_expand
    rejected["mutant-expansion-shifts-weights"] = [f"{nbad4} of {len(dsum)} lines rejected"] if nbad4 else []
    ctx.traces(len(rejected))
    ctx.evaluated(len(rejected) + 2 * len(lines) + 2 * len(dsum))
    ctx.sample({"selftest": rejected})
    for k, v in rejected.items():
        print(f"  selftest {k}: {'rejected ' + str(v) if v else 'ACCEPTED'}")
        ctx.distinct("selftest|" + k)
    missed = [k for k, v in rejected.items() if not v]
    if missed:
        raise MachineryError(f"selftest: corruptions not rejected: {missed}")


def main(argv=None):
    main_wrapper("C28", run, argv)
