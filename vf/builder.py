"""Drive UFLBuild: one 'slice' = one bounded instance (terminal pool, operator alphabet, bounds).
Runs TLC exhaustively (and optionally in simulation mode for deeper programs), replays every dumped
behaviour into ufl and reports disagreements through ctx.violation.
"""

from __future__ import annotations

import os
import time
from fractions import Fraction

from . import replay, tlc
from .common import MachineryError
from .envs import Pool

WORKERS = int(os.environ.get("VERIF_WORKERS", "8"))


class Slice:
    def __init__(self, name, terminals, ops, maxnodes, lits=(), zeros=(), idx=(10, 11), maxrank=2, maxdim=2, finalops=(), gdim=2, nenv=2, complex_env=False, small=False, simulate=None, depth=None, square_gram=(), tiny=False, levels=(), only_final=False, mikinds=("fixed", "name", "slice"), replacements=(), jets=None, geometry=None, chain=False, pipeline=None, zerofi=(), fixed=None):
        self.name = name
        self.terminals = terminals
        self.ops = set(ops)
        self.maxnodes = maxnodes
        self.lits = list(lits)
        self.zeros = list(zeros)
        self.zerofi = [tuple(tuple(p) for p in z) for z in zerofi]
        self.idx = list(idx)
        self.maxrank = maxrank
        self.maxdim = maxdim
        self.finalops = set(finalops)
        self.gdim = gdim
        self.nenv = nenv
        self.complex_env = complex_env
        self.small = small
        self.simulate = simulate
        self.depth = depth
        self.square_gram = tuple(square_gram)
        self.tiny = tiny
        self.levels = [set(l) for l in levels]
        self.only_final = only_final
        self.mikinds = tuple(mikinds)
        self.replacements = list(replacements)
        self.chain = chain
        self.fixed = dict(fixed or {})  # {terminal name: value it has in every environment} (special points of exp, ln, ...)
        self.pipeline = pipeline  # dict(options=[kwargs of compute_form_data, ...], opts={terminal: {kind:}})
        self.geometry = geometry  # dict(gdim=, tdim=, names={J,K,detJ}, identities={name: n}, opts={name: {kind:}})
        self.jets = jets  # dict(mode=, ndir=, seeds=, opts=, gateaux=) -> derivative semantics (spec/jets/CQ.tla)
        for l in self.levels:
            self.ops |= l - self.finalops


# messages of deliberate refusals of degenerate but well-typed inputs (each cites the raising site)
REFUSALS = [
    "Cannot take cofactor of zero matrix",  # tensoralgebra.py Cofactor.__init__
    "Division by zero!",  # algebra.py Division.__new__, tensoralgebra.py Inverse.__new__
    "Division by zero, cannot raise 0 to a negative power",  # algebra.py Power.__new__
]

LIT = {
    "one": ("one", 1),
    "mone": ("mone", -1),
    "two": ("two", 2),
    "three": ("three", 3),
    "half": ("half", Fraction(1, 2)),
    "i": ("i", complex(0, 1)),
    "zero": ("zero", 0),
}


def run_slices(ctx, sls, pid, on_mismatch=None, accept=None, timeout=1500, jobs=None, post=None, guard_inputs=False, world_hook=None):
    """TLC runs of all slices concurrently (each JVM has a fixed start-up cost), replay in order."""
    from concurrent.futures import ThreadPoolExecutor

    jobs = jobs or max(1, min(4, len(sls)))
    per = max(2, WORKERS // jobs)
    with ThreadPoolExecutor(jobs) as ex:
        futs = [ex.submit(_tlc_phase, ctx.seed, sl, timeout, per) for sl in sls]
        for sl, fut in zip(sls, futs):
            pool, res = fut.result()
            _replay_phase(ctx, sl, pid, pool, res, on_mismatch, accept, post, guard_inputs, world_hook)


def run_slice(ctx, sl, pid, on_mismatch=None, accept=None, timeout=1500):
    """Returns counters.  on_mismatch(rec, status, detail, world) -> handled? lets a property
    classify a disagreement itself; default reports a violation with an op-skeleton fingerprint."""
    pool, res = _tlc_phase(ctx.seed, sl, timeout, WORKERS)
    return _replay_phase(ctx, sl, pid, pool, res, on_mismatch, accept)


def _tlc_phase(seed, sl, timeout, workers):
    if sl.pipeline:
        from .pipeenv import PipePool

        pool = PipePool(sl.terminals, sl.pipeline["options"], nenv=sl.nenv, seed=seed + hash_name(sl.name), opts=sl.pipeline.get("opts"))
        pool.gateaux = []
        pool.seed_term = None
    elif sl.jets:
        from .envs import JetPool

        j = sl.jets
        pool = JetPool(sl.terminals, j["mode"], ndir=j.get("ndir", 0), seeds=j.get("seeds"), nenv=sl.nenv, seed=seed + hash_name(sl.name), tiny=True, complex_env=sl.complex_env, opts=j.get("opts"), nspat=j.get("nspat"), varsizes=j.get("varsizes"))
        pool.gateaux = j.get("gateaux", [])
        pool.seed_term = j.get("seed_term")
    else:
        pool = Pool(sl.terminals, nenv=sl.nenv, seed=seed + hash_name(sl.name), complex_env=sl.complex_env, small=sl.small, square_gram=sl.square_gram, tiny=sl.tiny, geometry=sl.geometry)
    for name, v in sl.fixed.items():
        from .scalar import Cx as _Cx

        for env in pool.values:
            for c in env[name]:
                env[name][c] = _Cx.of(v)
    for src, img in sl.replacements:
        pool.add_replacement(src, img)
    if getattr(sl, "repl_closure", False):
        pool.close_replacements()
    name = "MC_" + sl.name.replace("-", "_")
    mc = replay.mc_module(name, pool, sl.lits, sl.zeros, sl.idx, sl.ops | sl.finalops, sl.maxnodes, sl.maxrank, sl.maxdim, sl.finalops, sl.levels, getattr(pool, "replmaps", ()), zerofi=sl.zerofi)
    cfg = replay.mc_cfg(pool, sl.maxnodes, sl.maxrank, sl.maxdim, final_only=sl.only_final, mikinds=sl.mikinds, chain=sl.chain)
    kw = {}
    if sl.simulate:
        kw = dict(simulate=f"num={max(1, sl.simulate // workers)}", depth=sl.depth or (sl.maxnodes + 1), seed=seed + 1)
    if sl.jets or sl.pipeline:
        kw["lib_first"] = [os.path.join(os.path.dirname(os.path.dirname(os.path.abspath(__file__))), "spec", "jets")]
    res = tlc.run(name, cfg, mc_text=mc, mc_name=name, workers=workers, timeout=timeout, coverage=False, **kw)
    return pool, res


def _replay_phase(ctx, sl, pid, pool, res, on_mismatch, accept, post=None, guard_inputs=False, world_hook=None):
    ctx.add_tlc(res)
    if res.outcome != "ok":
        tail = "\n".join(res.stdout.splitlines()[-30:])
        raise MachineryError(f"TLC on slice {sl.name}: {res.outcome} {res.violated}\n{tail}")
    recs = tlc.decode_prints(res)
    if not recs:
        raise MachineryError(f"slice {sl.name}: TLC produced no behaviours")
    w = replay.World(pool, sl.lits, sl.zeros, sl.idx, gdim=sl.gdim, embed=(sl.geometry or {}).get("gdim"), zerofi=sl.zerofi)
    w.guard_inputs = guard_inputs
    if world_hook:
        world_hook(w)
    stats = {}
    seen_ops = {}
    seen = set()
    for rec in recs:
        key = repr(rec["prog"])
        if key in seen:
            continue
        if sl.only_final and rec["prog"][-1]["op"] not in sl.finalops:
            continue
        seen.add(key)
        status, detail = replay.compare(w, rec)
        if post is not None and status in ("ok", "undefined"):
            objs, err = replay.build(w, rec["prog"])
            if err is None:
                r = post(ctx, rec, objs[-1], w)
                if r is not None:
                    status, detail = "mismatch:" + r[0], r[1]
        stats[status] = stats.get(status, 0) + 1
        ctx.traces(1)
        ctx.evaluated(sum(len(t) for t in rec["val"]))
        last = rec["prog"][-1]["op"]
        seen_ops[last] = seen_ops.get(last, 0) + 1
        if status == "ok":
            ctx.distinct(sl.name + key)
            if len(ctx.cov["samples"]) < 4 and len(rec["prog"]) == sl.maxnodes:
                ctx.sample({"slice": sl.name, "program": replay.prog_text(rec["prog"], w), "shape": rec["sh"], "free_indices": rec["fi"], "value_env1": rec["val"][0][:4]})
        elif status == "undefined":
            ctx.count("undefined_skipped")
        elif status in ("refused-undefined", "prefix-refused"):
            ctx.count(status.replace("-", "_"))
        else:
            if status == "mismatch:raise" and any(r in (detail or "") for r in REFUSALS):
                # ufl deliberately refuses this (syntactically degenerate) input: no object is
                # built, so no shape/index/value can be wrong
                ctx.count("refused_by_design")
                continue
            if accept and accept(rec, status, detail, w):
                ctx.count("accepted_" + status.split(":")[1])
                continue
            if on_mismatch and on_mismatch(rec, status, detail, w):
                continue
            skel = ">".join(n["op"] for n in rec["prog"])
            ctx.violation(
                f"{pid}:{status.split(':')[1]}:{skel}",
                f"[{sl.name}] {replay.prog_text(rec['prog'], w)} -> {detail}",
                {"slice": slice_json(sl), "pool": pool.to_json(), "rec": rec, "status": status, "detail": detail},
            )
    for op in sl.ops | sl.finalops:
        if op not in seen_ops and not sl.simulate:
            # an enabled operation that never produced a live program: vacuous configuration
            ctx.count("ops_never_last:" + op)
    ctx.cov.setdefault("slices", []).append({"slice": sl.name, "programs": len(seen), "status": stats, "last_op_counts": seen_ops})
    return stats


def hash_name(s):
    h = 0
    for ch in s:
        h = (h * 131 + ord(ch)) % 100003
    return h


def slice_json(sl):
    return {
        "name": sl.name,
        "terminals": [[n, list(s)] for n, s in sl.terminals],
        "ops": sorted(sl.ops),
        "finalops": sorted(sl.finalops),
        "maxnodes": sl.maxnodes,
        "lits": [[n, str(v)] for n, v in sl.lits],
        "zeros": [list(z) for z in sl.zeros],
        "zerofi": [[list(p) for p in z] for z in sl.zerofi],
        "idx": sl.idx,
        "maxrank": sl.maxrank,
        "maxdim": sl.maxdim,
        "gdim": sl.gdim,
        "nenv": sl.nenv,
        "complex_env": sl.complex_env,
        "replacements": [[src, list(img)] for src, img in sl.replacements],
    }


def replay_doc(ctx, doc, pid):
    """Re-execute one recorded disagreement (./check Cxx --replay file)."""
    r = doc["replay"]
    s = r["slice"]
    from .scalar import Cx

    pool = Pool([(n, tuple(sh)) for n, sh in s["terminals"]], nenv=s["nenv"], seed=0, complex_env=s["complex_env"])
    for src, img in s.get("replacements", []):
        pool.add_replacement(src, tuple(img))
    # restore the recorded environments exactly
    for e, env in enumerate(r["pool"]["values"]):
        for n, ents in env.items():
            pool.values[e][n] = {tuple(c): _cx(v) for c, v in ents}
    lits = [(n, _parse_num(v)) for n, v in s["lits"]]
    w = replay.World(pool, lits, [tuple(z) for z in s["zeros"]], s["idx"], gdim=s["gdim"], zerofi=[tuple(tuple(p) for p in z) for z in s.get("zerofi", [])])
    status, detail = replay.compare(w, r["rec"])
    print(f"replay {pid}: {replay.prog_text(r['rec']['prog'], w)} -> {status} {detail or ''}")
    if status.startswith("mismatch"):
        ctx.violation(doc["fingerprint"], doc["what"], r)
    return status


def _cx(v):
    from .scalar import Cx

    def f(x):
        return Fraction(x[0], x[1]) if isinstance(x, list) else x

    return Cx(f(v[0]), f(v[1]))


def _parse_num(s):
    try:
        return Fraction(s)
    except Exception:
        return complex(s)
