"""./check <Cxx> ... dispatch."""

import importlib
import json
import sys


def main():
    if len(sys.argv) < 2:
        print("usage: check <Cxx> [--tier quick|thorough] [--replay path] [--selftest]")
        sys.exit(2)
    pid = sys.argv[1].upper()
    try:
        mod = importlib.import_module(f"vf.checks.{pid.lower()}")
    except ModuleNotFoundError as e:
        print(f"MACHINERY-FAILURE property={pid}: no check module ({e})")
        sys.exit(2)
    argv = sys.argv[2:]
    if "--replay" in argv and hasattr(mod, "replay"):
        from vf.common import Ctx

        path = argv[argv.index("--replay") + 1]
        with open(path) as f:
            doc = json.load(f)
        ctx = Ctx(pid)
        mod.replay(ctx, doc)
        sys.exit(1 if ctx.n_viol else 0)
    mod.main(argv)


if __name__ == "__main__":
    main()
