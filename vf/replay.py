"""Spec -> code binding for UFLBuild: generate the MC module, run TLC, replay every dumped
program through ufl's PUBLIC API and compare the predicted observables of its last node.
"""

from __future__ import annotations

import json

from . import tlc
from .common import MachineryError
from .envs import Pool, TermEnv, comps
from .scalar import Cx, Undefined, close, from_tla, to_tla
from .sem import Unsupported, eval_table

MATH_OPS = ("exp", "ln", "sin", "cos", "tan", "sinh", "cosh", "tanh", "asin", "atan")
IDX0 = 10  # index names in the spec are 10, 11, 12, ...


def mc_module(name, pool, lits, zeros, idxpool, opset, maxnodes, maxrank, maxdim, finalops=(), levels=(), replmaps=(), zerofi=()):
    jets = hasattr(pool, "mode")
    if jets:
        from .envs import bd_tla

        lit_txt = "<<" + ", ".join(f'[nm |-> "{n}", v |-> {bd_tla(v)}]' for n, v in lits) + ">>"
    else:
        lit_txt = "<<" + ", ".join(f'[nm |-> "{n}", v |-> {to_tla(Cx.of(v))}]' for n, v in lits) + ">>"
    zero_txt = "<<" + ", ".join("<<" + ", ".join(map(str, z)) + ">>" for z in zeros) + ">>"
    return f"""---- MODULE {name} ----
EXTENDS UFLBuild
MC_Terminals == {pool.tla_terminals()}
MC_TermVal ==
  {pool.tla_termval()}
MC_Lits == {lit_txt}
MC_Zeros == {zero_txt}
MC_VarSizes == <<{", ".join(map(str, getattr(pool, "varsizes", ())))}>>
MC_ZeroFi == <<{", ".join("<<" + ", ".join(f"<<{i}, {d}>>" for i, d in z) + ">>" for z in zerofi)}>>
MC_IdxPool == <<{", ".join(map(str, idxpool))}>>
MC_OpSet == {{{", ".join(json.dumps(o) for o in sorted(opset))}}}
MC_FinalOps == {{{", ".join(json.dumps(o) for o in sorted(finalops))}}}
MC_EnvDirs == {pool.tla_envdirs() if jets else "<< >>"}
MC_PipeScale == {getattr(pool, "tla_pipescale", lambda: "<< >>")()}
MC_ReplMaps == <<{", ".join(f"[src |-> {m['src']}, sub |-> <<{', '.join(map(str, m['sub']))}>>]" for m in replmaps)}>>
MC_OpLevels == <<{", ".join("{" + ", ".join(json.dumps(o) for o in sorted(l)) + "}" for l in levels)}>>
====
"""


def mc_cfg(pool, maxnodes, maxrank, maxdim, final_only=False, mikinds=("fixed", "name", "slice"), chain=False, dump=True, invariants=("WellFormed",), props=("AppendOnly",)):
    lines = [
        "CONSTANTS",
        "Terminals <- MC_Terminals",
        "TermVal <- MC_TermVal",
        f"NEnv = {getattr(pool, 'ntlc', pool.nenv)}",
        "EnvDirs <- MC_EnvDirs",
        f"NDir = {getattr(pool, 'ndir', 0)}",
        f"NSpat = {getattr(pool, 'nspat', 0)}",
        "VarSizes <- MC_VarSizes",
        f"SeedTerm = \"{getattr(pool, 'seed_term', '') or ''}\"",
        "Lits <- MC_Lits",
        "Zeros <- MC_Zeros",
        "ZeroFi <- MC_ZeroFi",
        "IdxPool <- MC_IdxPool",
        "OpSet <- MC_OpSet",
        "FinalOps <- MC_FinalOps",
        "OpLevels <- MC_OpLevels",
        "ReplMaps <- MC_ReplMaps",
        "PipeScale <- MC_PipeScale",
        f"DumpFinalOnly = {'TRUE' if final_only else 'FALSE'}",
        'ChainMode = "' + ("off" if not chain else "loose" if chain is True else chain) + '"',
        "MiKinds = {" + ", ".join(json.dumps(k) for k in mikinds) + "}",
        f"MaxNodes = {maxnodes}",
        f"MaxRank = {maxrank}",
        f"MaxDim = {maxdim}",
        "SPECIFICATION Spec",
    ]
    import os as _os

    if _os.environ.get("VERIF_NODUMP"):
        dump, invariants, props = False, (), ()
    for i in invariants:
        lines.append(f"INVARIANT {i}")
    if dump:
        lines.append("INVARIANT DumpInv")
    for p in props:
        lines.append(f"PROPERTY {p}")
    return "\n".join(lines) + "\n"


class World:
    """Real ufl objects for a pool: one Coefficient per terminal, Index objects per pool name."""

    def __init__(self, pool, lits, zeros, idxpool, gdim=2, embed=None, zerofi=()):
        import ufl
        from ufl.core.multiindex import Index

        from .elements import LagrangeElement

        self.ufl = ufl
        self.pool = pool
        self.gdim = gdim
        cell = {1: ufl.interval, 2: ufl.triangle, 3: ufl.tetrahedron}[gdim]
        self.mesh = ufl.Mesh(LagrangeElement(cell, 1, (embed or gdim,)))
        self.terms = []
        opts = getattr(pool, "opts", {})
        byname = {}
        for name, shape in pool.terminals:
            o = opts.get(name, {})
            if "grad_of" in o:
                obj = ufl.grad(byname[o["grad_of"]])  # data terminal: the gradient of another terminal
            elif o.get("kind") in ("J", "K", "detJ", "I", "x", "vol", "h"):
                obj = {
                    "J": lambda: ufl.Jacobian(self.mesh),
                    "K": lambda: ufl.JacobianInverse(self.mesh),
                    "detJ": lambda: ufl.JacobianDeterminant(self.mesh),
                    "I": lambda: ufl.Identity(tuple(shape)[0]),
                    "x": lambda: ufl.SpatialCoordinate(self.mesh),
                    "vol": lambda: ufl.CellVolume(self.mesh),
                    "h": lambda: ufl.Circumradius(self.mesh),
                }[o["kind"]]()
            else:
                el = LagrangeElement(cell, 2, tuple(shape))
                if o.get("pullback"):
                    # a Piola-mapped field: the pool holds its PHYSICAL value, gradient and Hessian
                    import ufl.pullback as _pb
                    from ufl.sobolevspace import L2, HCurl, HDiv, HDivDiv, HEin

                    from .elements import FiniteElement

                    fam, pull, sob = {
                        "contravariant": ("RT", _pb.contravariant_piola, HDiv),
                        "covariant": ("N1curl", _pb.covariant_piola, HCurl),
                        "double_contravariant": ("HHJ", _pb.double_contravariant_piola, HDivDiv),
                        "double_covariant": ("Regge", _pb.double_covariant_piola, HEin),
                        "covariant_contravariant": ("GLS", _pb.covariant_contravariant_piola, HDiv),
                        "l2": ("DPC", _pb.l2_piola, L2),
                    }[o["pullback"]]
                    el = FiniteElement(fam, cell, 2, tuple(shape), pull, sob)
                V = ufl.FunctionSpace(self.mesh, el)
                kind = o.get("kind", "coef")
                obj = ufl.Coefficient(V) if kind == "coef" else ufl.Argument(V, 0 if kind == "arg0" else 1)
            byname[name] = obj
            self.terms.append(obj)
        self.byname = byname
        self.lits = [ufl.as_ufl(_pynum(v)) for _, v in lits]
        self.zeros = [ufl.zero(*z) if z else ufl.zero() for z in zeros]
        # created in increasing count order so that ufl's ordering of free indices (by count)
        # equals the spec's ordering (by name)
        self.idx = {n: Index() for n in sorted(idxpool)}
        self.idxname = {i.count(): n for n, i in self.idx.items()}
        from ufl.classes import Zero

        self.zerofi = [Zero((), tuple(self.idx[i].count() for i, _ in z), tuple(d for _, d in z)) for z in zerofi]
        self.init = self.terms + self.lits + self.zeros + self.zerofi
        self.envs = []
        mode = getattr(pool, "mode", None)
        for e in range(getattr(pool, "nbase", pool.nenv) if mode else pool.nenv):
            vals = {}
            dvals = {}
            for t, (name, shape) in zip(self.terms, pool.terminals):
                o = opts.get(name, {})
                if "grad_of" in o:
                    base = byname[o["grad_of"]]
                    bshape = tuple(shape)[:-1]
                    for m in range(tuple(shape)[-1]):
                        dvals[(base, (m,))] = {c: pool.values[e][name][c + (m,)] for c in comps(bshape)}
                    continue
                vals[t] = pool.values[e][name]
                if mode in ("spatial", "mixed"):
                    for m in range(pool.nspat):
                        dvals[(t, (m,))] = {c: pool.d1[e][name][c + (m,)] for c in comps(shape)}
                        for n in range(m, pool.nspat):
                            dvals[(t, (m, n))] = {c: pool.d2[e][name][c + (m, n)] for c in comps(shape)}
            self.envs.append(TermEnv(vals, dvals))
        # TLC environment whose values are those of python environment e
        self.tlc_env = [pool.tlc_env_of_base(e) if mode else e for e in range(len(self.envs))]
        self.cache = {}
        self.guard_inputs = False
        self.replmaps = getattr(pool, "replmaps", [])

    def image(self, m):
        """The image expression of a replacement map, built through the public API."""
        t = {name: obj for obj, (name, _) in zip(self.terms, self.pool.terminals)}
        kind = m["img"][0]
        if kind == "term":
            return t[m["img"][1]]
        if kind == "scale":
            return m["img"][1] * t[m["img"][2]]
        if kind == "sum":
            return t[m["img"][1]] + t[m["img"][2]]
        if kind == "prod":
            return t[m["img"][1]] * t[m["img"][2]]
        if kind == "const":
            src = self.terms[m["src"] - 1]
            k = m["img"][1]
            if src.ufl_shape == ():
                return k  # a plain Python number, as users write {f: 0}
            if k == 0:
                return self.ufl.zero(*src.ufl_shape)
            import itertools

            def nest(sh):
                return k if not sh else [nest(sh[1:]) for _ in range(sh[0])]

            return self.ufl.as_tensor(nest(src.ufl_shape))
        raise MachineryError("unknown image kind " + kind)

    def pipeline(self, a, k):
        """compute_form_data(a*dx, options k): the preprocessed integrand of the cell integral."""
        from ufl.algorithms import compute_form_data

        from .pipeenv import Preprocessed

        ufl = self.ufl
        opts = dict(self.pool.pipe_options[k])
        form = a * ufl.dx(domain=self.mesh)
        rec = getattr(self, "recorder", None)
        try:
            fd = compute_form_data(form, **opts)
        except KeyboardInterrupt:
            raise
        except BaseException as exc:  # ArityMismatch derives from BaseException
            if rec is not None:
                rec.mark_raised()
            raise RuntimeError(f"compute_form_data raised {type(exc).__name__}: {exc}") from exc
        integrands = [i.integrand() for d in fd.integral_data for i in d.integrals]
        if not integrands:
            return Preprocessed(ufl.zero())
        total = integrands[0]
        for x in integrands[1:]:
            total = total + x
        return Preprocessed(total)

    def gateaux_coefficient(self, wname):
        """The coefficient (or a fixed component u[k], or a tuple) that derivative() differentiates by."""
        if isinstance(wname, (list, tuple)) and wname and wname[0] == "comp":
            return self.byname[wname[2]][tuple(wname[1])]
        if isinstance(wname, (list, tuple)) and wname and wname[0] == "tuple":
            return tuple(self.gateaux_coefficient(x) for x in wname[1])
        if isinstance(wname, (list, tuple)):
            return tuple(self.byname[n] for n in wname)
        return self.byname[wname]

    def mi(self, mi):
        out = []
        for m in mi:
            if m == -1:
                out.append(slice(None))
            elif m < IDX0:
                out.append(int(m))
            else:
                out.append(self.idx[m])
        return tuple(out)


def _pynum(v):
    v = Cx.of(v)
    if v.im != 0:
        return complex(v)
    if v.re.denominator == 1:
        return int(v.re)
    return float(v.re)


def apply_op(w, op, args, mi):
    """Execute one spec action through the public API."""
    ufl = w.ufl
    a = args[0] if args else None
    b = args[1] if len(args) > 1 else None
    if op == "add":
        return a + b
    if op == "sub":
        return a - b
    if op == "neg":
        return -a
    if op == "mul":
        return a * b
    if op == "div":
        return a / b
    if op == "pow":
        return a**b
    if op == "abs":
        return abs(a)
    if op == "conj":
        return ufl.conj(a)
    if op == "real":
        return ufl.real(a)
    if op == "imag":
        return ufl.imag(a)
    if op == "sqrt":
        return ufl.sqrt(a)
    if op == "sign":
        return ufl.sign(a)
    if op in MATH_OPS:
        return getattr(ufl, op)(a)
    if op == "atan2":
        return ufl.atan2(a, b)
    if op == "variable":
        return ufl.variable(a)
    if op in ("grad", "nabla_grad", "div", "nabla_div", "curl"):
        return getattr(ufl, op)(a)
    if op == "dx":
        return a.dx(int(mi[0]))
    if op in ("gateaux1", "gateaux2"):
        g = w.pool.gateaux[0 if op == "gateaux1" else 1]
        cd = None
        if len(g) > 2 and g[2]:
            cd = {w.byname[k]: w.byname[v] for k, v in g[2].items()}
        direction = tuple(w.byname[n] for n in g[1]) if isinstance(g[1], (list, tuple)) else w.byname[g[1]]
        return ufl.derivative(a, w.gateaux_coefficient(g[0]), direction, coefficient_derivatives=cd)
    if op == "seedvar":
        return ufl.variable(a)
    if op == "diff":
        return ufl.diff(a, b)
    if op == "pipeline":
        return w.pipeline(a, mi[0] - 1)
    if op == "replace":
        m = w.replmaps[mi[0] - 1]
        return ufl.replace(a, {w.terms[m["src"] - 1]: w.image(m)})
    if op == "index":
        return a[w.mi(mi)]
    if op == "as_tensor":
        return ufl.as_tensor(a, tuple(w.idx[m] for m in mi))
    if op == "list":
        return ufl.as_tensor(list(args))
    if op in ("dot", "inner", "outer", "cross"):
        return getattr(ufl, op)(a, b)
    if op in ("perp", "transpose", "tr", "det", "inv", "cofac", "dev", "skew", "sym"):
        return getattr(ufl, op)(a)
    if op in ("lt", "gt", "le", "ge", "eq", "ne"):
        return getattr(ufl, op)(a, b)
    if op == "and":
        return ufl.And(a, b)
    if op == "or":
        return ufl.Or(a, b)
    if op == "not":
        return ufl.Not(a)
    if op == "cond":
        return ufl.conditional(args[0], args[1], args[2])
    if op == "max":
        return ufl.max_value(a, b)
    if op == "min":
        return ufl.min_value(a, b)
    if op in ("xdet", "xinv", "xadj", "xcofac"):
        import ufl.compound_expressions as ce

        return {"xdet": ce.determinant_expr, "xinv": ce.inverse_expr, "xadj": ce.adj_expr, "xcofac": ce.cofactor_expr}[op](a)
    if op in PASSES:
        return PASSES[op](a)
    raise MachineryError(f"replay: unknown op {op}")


def _lower(e):
    from ufl.algorithms.apply_algebra_lowering import apply_algebra_lowering

    return apply_algebra_lowering(e)


def _expand_indices(e):
    from ufl.algorithms import expand_indices

    return expand_indices(_lower(e))


def _remove_ct(e):
    from ufl.algorithms.remove_component_tensors import remove_component_tensors

    return remove_component_tensors(_lower(e))


def _renumber(e):
    from ufl.algorithms.renumbering import renumber_indices

    return renumber_indices(e)


def _expand_derivatives(e):
    from ufl.algorithms import expand_derivatives

    return expand_derivatives(e)


def _apply_derivatives(e):
    from ufl.algorithms.apply_algebra_lowering import apply_algebra_lowering
    from ufl.algorithms.apply_derivatives import apply_derivatives

    return apply_derivatives(apply_algebra_lowering(e))


def _cancelj(e):
    from ufl.algorithms.cancel_jacobian_products import cancel_jacobian_products
    from ufl.algorithms.remove_component_tensors import remove_component_tensors

    return cancel_jacobian_products(remove_component_tensors(_lower(e)))


def _remove_complex(e):
    from ufl.algorithms.remove_complex_nodes import remove_complex_nodes

    return remove_complex_nodes(e)


class InputMutated(Exception):
    """An operation changed one of its input objects (op, type, repr before, repr after)."""


def _snap(a):
    """What must not change about an input: repr, hash, shape, free indices, operand identities."""
    try:
        r = repr(a)
    except RecursionError:
        r = "<cyclic: repr recursed without end>"
    try:
        h = hash(a)
    except Exception:  # noqa: BLE001
        h = None
    return (r, h, getattr(a, "ufl_shape", None), getattr(a, "ufl_free_indices", None))


class RealCodeError(Exception):
    """The real code raised while being observed (an observable, not a machinery failure)."""


class PointEval:
    """Result of the action point_eval: the object whose __call__ is the system under test."""

    def __init__(self, obj):
        self.obj = obj
        self.ufl_shape = obj.ufl_shape
        self.ufl_free_indices = ()
        self.ufl_index_dimensions = ()


def _nested(tab, shape):
    """{comp: Cx} -> nested tuples of python numbers (Fraction or complex), as users pass them."""
    def num(v):
        if v.im == 0:
            return v.re
        return complex(v)

    def rec(prefix, sh):
        if not sh:
            return num(tab[prefix])
        return tuple(rec(prefix + (k,), sh[1:]) for k in range(sh[0]))

    return rec((), tuple(shape))


def point_tables(w, pe):
    """Evaluate the real object with ufl's own point evaluation e(x, mapping, component)."""
    from .envs import comps as _comps

    tabs = []
    x = (0.25, 0.5, 0.125)[: w.gdim]
    for e in range(w.pool.nenv):
        mapping = {t: _nested(w.pool.values[e][name], shape) for t, (name, shape) in zip(w.terms, w.pool.terminals)}
        tab = {}
        for c in _comps(pe.obj.ufl_shape):
            try:
                v = pe.obj(x, mapping, component=c) if c else pe.obj(x, mapping)
                tab[((), c)] = Cx.of(v if not hasattr(v, "_value") else v._value)
            except (ZeroDivisionError, OverflowError):
                tab[((), c)] = None
            except ValueError as exc:
                if "math domain error" not in str(exc):
                    raise RealCodeError(f"e(x, mapping, component={c}) raised ValueError: {exc}") from exc
                tab[((), c)] = None  # e.g. sqrt of a negative number: no real value at this point
            except Exception as exc:  # noqa: BLE001 - the system under test failed
                raise RealCodeError(f"e(x, mapping, component={c}) raised {type(exc).__name__}: {exc}") from exc
        tabs.append(tab)
    return tabs


PASSES = {
    "point_eval": PointEval,
    "lower": _lower,
    "expand_indices": _expand_indices,
    "remove_ct": _remove_ct,
    "renumber": _renumber,
    "remove_complex": _remove_complex,
    "cancelj": _cancelj,
    "expand_derivatives": _expand_derivatives,
    "apply_derivatives": _apply_derivatives,
    "identity": lambda e: e,
}


def build(w, prog):
    """Build the real objects of a program; returns list (one per program node).  Uses a
    prefix cache so shared prefixes are built once.  Raises the ufl exception of the failing
    step as (index, exc)."""
    objs = list(w.init)
    ninit = len(objs)
    key = ()
    for k, node in enumerate(prog):
        key = key + ((node["op"], tuple(node["args"]), tuple(node["mi"])),)
        hit = w.cache.get(key)
        if hit is None:
            try:
                args = [objs[i - 1] for i in node["args"]]
                pre = [_snap(a) for a in args] if w.guard_inputs else None
                res = apply_op(w, node["op"], args, node["mi"])
                if isinstance(res, (int, float, complex)) and not isinstance(res, bool):
                    # ufl's math functions fold literals to python numbers (operators._mathfunction)
                    res = w.ufl.as_ufl(res)
                hit = ("ok", res)
                if pre is not None:
                    for a, p in zip(args, pre):
                        q = _snap(a)
                        if q != p:
                            hit = ("mutated", (node["op"], type(a).__name__, p[0][:160], q[0][:160]))
                            break
            except (MachineryError, Unsupported):
                raise
            except Exception as exc:  # noqa: BLE001 - ufl's refusal is an observable
                hit = ("raise", exc)
            if len(w.cache) < 400000:
                w.cache[key] = hit
        if hit[0] == "raise":
            return objs[ninit:], (k, hit[1])
        if hit[0] == "mutated":
            return objs[ninit:], (k, InputMutated(hit[1]))
        objs.append(hit[1])
    return objs[ninit:], None


def observe_type(w, obj, is_bool=False):
    """(shape, fi) of a real object, free indices renamed to spec names (fi None: a foreign index)."""
    sh = tuple(obj.ufl_shape) if not is_bool else ()
    fi_counts = tuple(obj.ufl_free_indices) if not is_bool else ()
    fid = tuple(obj.ufl_index_dimensions) if not is_bool else ()
    fi = []
    for c, d in zip(fi_counts, fid):
        if c not in w.idxname:
            return sh, None  # a foreign index leaked into the result
        fi.append((w.idxname[c], d))
    return sh, fi


def observe(w, obj, is_bool=False):
    """(shape, fi, [table per env]) of a real object, free indices renamed to spec names."""
    sh, fi = observe_type(w, obj, is_bool)
    if fi is None:
        return sh, None, None
    if isinstance(obj, PointEval):
        return sh, fi, point_tables(w, obj)
    if type(obj).__name__ == "Preprocessed":
        from .pipeenv import RefEnv

        if not hasattr(w, "refenvs"):
            w.refenvs = [RefEnv(w, e) for e in range(len(w.envs))]
        return sh, fi, [eval_table(obj.expr, env) for env in w.refenvs]
    tabs = [eval_table(obj, env) for env in w.envs]
    return sh, fi, tabs


class _Timeout(Exception):
    pass


def _alarm(signum, frame):
    raise _Timeout()


def compare(w, rec, limit=60):
    """compare_inner under a wall-clock limit: a hang of the real code is an observable."""
    import signal

    old = signal.signal(signal.SIGALRM, _alarm)
    signal.alarm(limit)
    try:
        return compare_inner(w, rec)
    except _Timeout:
        return "mismatch:hang", f"building or reading the result did not finish within {limit}s"
    finally:
        signal.alarm(0)
        signal.signal(signal.SIGALRM, old)


def compare_inner(w, rec):
    """Compare one dumped state with the real code.  Returns (status, detail):
    status in ok | undefined | refused-undefined | mismatch:<kind>"""
    prog = rec["prog"]
    objs, err = build(w, prog)
    pred_tabs = rec["val"]
    # is the prediction defined anywhere?
    if hasattr(w, "tlc_env") and len(pred_tabs) != len(w.envs):
        pred_tabs = [pred_tabs[k] for k in w.tlc_env]
    any_def = any(from_tla(v) is not None for tab in pred_tabs for _, v in tab)
    if err is not None:
        k, exc = err
        if k < len(prog) - 1:
            # an earlier step was refused: that state was judged on its own; nothing to add
            return "prefix-refused", None
        if isinstance(exc, InputMutated):
            op, tname, before, after = exc.args[0]
            return "mismatch:input-mutated", f"{op} changed its input {tname}: repr was {before} now {after}"
        if not any_def:
            return "refused-undefined", None
        return "mismatch:raise", f"{type(exc).__name__}: {exc}"
    obj = objs[-1]
    if not hasattr(obj, "ufl_shape"):
        return "mismatch:non-ufl-result", f"the operation returned a {type(obj).__name__} ({obj!r}), not a UFL expression"
    # shape and free indices first: the value tables are read at the predicted components
    sh, fi = observe_type(w, obj, rec.get("bool", False))
    if list(sh) != list(rec["sh"]):
        return "mismatch:shape", f"shape {sh} expected {tuple(rec['sh'])}"
    if fi is None or [list(p) for p in fi] != [list(p) for p in rec["fi"]]:
        return "mismatch:free-indices", f"free indices {fi} expected {rec['fi']}"
    try:
        sh, fi, tabs = observe(w, obj, rec.get("bool", False))
    except RealCodeError as exc:
        return "mismatch:raise", str(exc)
    except RecursionError:
        return "mismatch:cyclic-object", "reading the result recursed without end (an expression became its own operand)"
    if list(sh) != list(rec["sh"]):
        return "mismatch:shape", f"shape {sh} expected {tuple(rec['sh'])}"
    if fi is None or [list(p) for p in fi] != [list(p) for p in rec["fi"]]:
        return "mismatch:free-indices", f"free indices {fi} expected {rec['fi']}"
    nfi = len(fi)
    undefined = 0
    total = 0
    for e, ptab in enumerate(pred_tabs):
        for t, v in ptab:
            total += 1
            pv = from_tla(v)
            rv = tabs[e][(tuple(t[:nfi]), tuple(t[nfi:]))]
            if pv is None:
                undefined += 1
                continue
            if rv is None:
                return "mismatch:value", f"env {e} comp {t}: spec {pv} but real object is undefined"
            if not close(pv, rv):
                return "mismatch:value", f"env {e} comp {t}: spec {pv} real {rv}"
    if undefined == total:
        return "undefined", None
    return "ok", None


def prog_text(prog, w=None):
    lines = []
    n0 = len(w.init) if w else 0
    for k, n in enumerate(prog):
        lines.append(f"n{n0 + k + 1} = {n['op']}({', '.join('n' + str(a) for a in n['args'])}{', mi=' + str(n['mi']) if n['mi'] else ''})")
    return "; ".join(lines)
