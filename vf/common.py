"""Shared run context: verdict discipline, known findings, replay files, evidence.

Exit codes: 0 = property held on everything explored (KNOWN-FINDING lines allowed),
1 = unlisted violation (a line `VIOLATION property=<id> replay=<path>` is printed),
2 = machinery failure (TLC crash, parser error, vacuous configuration).
"""

from __future__ import annotations

import hashlib
import json
import os
import sys
import time
import traceback

ROOT = os.path.dirname(os.path.dirname(os.path.abspath(__file__)))
SPEC = os.path.join(ROOT, "spec")
EVIDENCE = os.path.join(ROOT, "evidence")
REPLAY = os.path.join(ROOT, "replay")
FINDINGS = os.path.join(ROOT, "known_findings.json")


class MachineryError(Exception):
    """Raised when the checking machinery itself fails (never a verdict about ufl)."""


def ufl_head():
    try:
        import subprocess

        return subprocess.run(
            ["git", "-C", "/repo", "rev-parse", "--short", "HEAD"],
            capture_output=True,
            text=True,
            timeout=10,
        ).stdout.strip()
    except Exception:
        return "?"


def load_findings():
    with open(FINDINGS) as f:
        return json.load(f)


class Ctx:
    """One run of one property's check."""

    def __init__(self, pid, tier=None, seed=None, level="model_checking"):
        self.pid = pid
        self.tier = tier or os.environ.get("VERIF_TIER") or "quick"
        if self.tier not in ("quick", "thorough"):
            self.tier = "quick"
        self.seed = int(seed if seed is not None else os.environ.get("VERIF_SEED", "0") or 0)
        self.level = level
        self.t0 = time.time()
        self.cov = {
            "states": 0,
            "transitions": 0,
            "traces_validated_against_impl": 0,
            "evaluations": 0,
            "samples": [],
            "tlc_runs": [],
            "actions": {},
            "undefined_skipped": 0,
            "exhaustive": False,
        }
        self._distinct = set()
        self.assumptions = []
        self.n_viol = 0
        self.n_known = 0
        self._known_printed = set()
        self._viol_printed = set()
        self.findings = [f for f in load_findings().get("findings", []) if f["property"] == pid]
        self.rule = ""

    # ---- coverage bookkeeping -------------------------------------------------------------
    def add_tlc(self, res):
        """Account a TLC run (vf.tlc.TLCResult)."""
        self.cov["states"] += res.distinct
        self.cov["transitions"] += res.generated
        self.cov["tlc_runs"].append(
            {
                "module": res.module,
                "cfg": res.cfg_name,
                "mode": res.mode,
                "distinct_states": res.distinct,
                "generated_states": res.generated,
                "depth": res.depth,
                "wall_s": round(res.wall, 2),
                "outcome": res.outcome,
            }
        )
        for k, v in res.actions.items():
            self.cov["actions"][res.module + "." + k] = self.cov["actions"].get(res.module + "." + k, 0) + v

    def count(self, key, n=1):
        self.cov[key] = self.cov.get(key, 0) + n

    def evaluated(self, n=1):
        self.cov["evaluations"] += n

    def traces(self, n=1):
        self.cov["traces_validated_against_impl"] += n

    def distinct(self, key):
        """Register one distinct non-trivial case (key must identify the case)."""
        if not isinstance(key, (str, bytes)):
            key = json.dumps(key, sort_keys=True, default=str)
        if isinstance(key, str):
            key = key.encode()
        self._distinct.add(hashlib.blake2b(key, digest_size=8).digest())

    def sample(self, obj, limit=5):
        if len(self.cov["samples"]) < limit:
            self.cov["samples"].append(obj)

    def assume(self, text):
        if text not in self.assumptions:
            self.assumptions.append(text)

    # ---- verdicts ---------------------------------------------------------------------------
    def violation(self, fingerprint, what, replay, detail=None):
        """Report an established violation.

        `fingerprint` is a structural identifier of the failing input class; if
        known_findings.json lists it for this property, a KNOWN-FINDING line is printed instead
        (once per fingerprint) and the run stays green.
        """
        for f in self.findings:
            if f.get("status", "open") == "open" and f["fingerprint"] == fingerprint:
                self.n_known += 1
                if fingerprint not in self._known_printed:
                    self._known_printed.add(fingerprint)
                    print(f"KNOWN-FINDING: property={self.pid} {f['what']} [{fingerprint}]", flush=True)
                return False
        self.n_viol += 1
        if fingerprint in self._viol_printed and self.n_viol > 20:
            return True
        self._viol_printed.add(fingerprint)
        os.makedirs(os.path.join(REPLAY, self.pid), exist_ok=True)
        doc = {
            "property": self.pid,
            "tier": self.tier,
            "seed": self.seed,
            "fingerprint": fingerprint,
            "what": what,
            "ufl_head": ufl_head(),
            "replay": replay,
        }
        if detail is not None:
            doc["detail"] = detail
        blob = json.dumps(doc, sort_keys=True, default=str, indent=1)
        h = hashlib.blake2b(blob.encode(), digest_size=6).hexdigest()
        path = os.path.join(REPLAY, self.pid, h + ".json")
        with open(path, "w") as f:
            f.write(blob)
        if self.n_viol <= 20:
            print(f"  violation: {what} [{fingerprint}]", flush=True)
            print(f"VIOLATION property={self.pid} replay={path}", flush=True)
        return True

    def unmatched_findings(self):
        return [f for f in self.findings if f.get("status", "open") == "open" and f["fingerprint"] not in self._known_printed]

    def finish(self, write=True):
        cov = self.cov
        cov["distinct_nontrivial"] = len(self._distinct)
        cov["rule"] = self.rule
        cov["known_findings_hit"] = sorted(self._known_printed)
        stale = [f["fingerprint"] for f in self.unmatched_findings()]
        if stale:
            cov["known_findings_not_reached_this_run"] = stale
        if not cov["samples"]:
            cov["samples"] = ["(no sample recorded)"]
        doc = {
            "property_id": self.pid,
            "tier": self.tier,
            "seed": self.seed,
            "level": self.level,
            "coverage": cov,
            "assumptions": self.assumptions,
            "wall_s": round(time.time() - self.t0, 2),
            "violations": self.n_viol,
            "known_finding_hits": self.n_known,
            "ufl_head": ufl_head(),
        }
        if write and not os.environ.get("VERIF_NO_EVIDENCE"):  # set by tools/seeded_run.py: runs against a changed tree
            os.makedirs(EVIDENCE, exist_ok=True)
            tmp = os.path.join(EVIDENCE, f".{self.pid}.json.tmp")
            with open(tmp, "w") as f:
                json.dump(doc, f, indent=1, default=str)
            os.replace(tmp, os.path.join(EVIDENCE, f"{self.pid}.json"))
        print(
            f"[{self.pid}] tier={self.tier} seed={self.seed} states={cov['states']} "
            f"traces={cov['traces_validated_against_impl']} evals={cov['evaluations']} "
            f"distinct={cov['distinct_nontrivial']} violations={self.n_viol} known={self.n_known} "
            f"wall={doc['wall_s']}s",
            flush=True,
        )
        return 1 if self.n_viol else 0


def main_wrapper(pid, run, argv=None):
    """Common CLI for a check module: run(ctx, args) -> None."""
    import argparse

    ap = argparse.ArgumentParser(prog=f"check {pid}")
    ap.add_argument("--tier", default=None)
    ap.add_argument("--replay", default=None)
    ap.add_argument("--selftest", action="store_true")
    ap.add_argument("--seed", default=None)
    args = ap.parse_args(argv)
    ctx = Ctx(pid, tier=args.tier, seed=args.seed)
    try:
        run(ctx, args)
        rc = ctx.finish(write=not args.selftest)  # a self-test never overwrites the evidence
    except MachineryError as e:
        print(f"MACHINERY-FAILURE property={pid}: {e}", flush=True)
        traceback.print_exc()
        rc = 2
    except Exception as e:  # noqa: BLE001
        print(f"MACHINERY-FAILURE property={pid}: unexpected {type(e).__name__}: {e}", flush=True)
        traceback.print_exc()
        rc = 2
    sys.exit(rc)
