"""Verification harness for FEniCS/ufl: TLA+ specifications bound to the implementation."""
