"""Run TLC on modules of /verif/spec and parse what it says.

Every run happens in a private scratch directory (removed afterwards) that contains only the
generated MC module/cfg; the specification modules are found through -DTLA-Library=/verif/spec, so
the specs themselves are the single source of truth.
"""

from __future__ import annotations

import json
import os
import re
import shutil
import subprocess
import tempfile
import time

from .common import SPEC, MachineryError

JAR = "/opt/veriftools/tla/tla2tools.jar:/opt/veriftools/tla/CommunityModules-deps.jar"


# loaded at import time: the function below runs in the forked child, where an import could block for ever on an
# import lock that another thread of the parent held at fork time
try:
    import ctypes as _ctypes

    _LIBC = _ctypes.CDLL("libc.so.6", use_errno=True)
except Exception:  # noqa: BLE001 - best effort
    _LIBC = None


def _die_with_parent():
    """The JVM gets SIGKILL when the checking process dies (a killed check must not leave a model checker running)."""
    if _LIBC is not None:
        try:
            _LIBC.prctl(1, 9)  # PR_SET_PDEATHSIG, SIGKILL
        except Exception:  # noqa: BLE001 - best effort
            pass


class TLCResult:
    def __init__(self):
        self.module = ""
        self.cfg_name = ""
        self.mode = "check"
        self.generated = 0
        self.distinct = 0
        self.depth = 0
        self.wall = 0.0
        self.outcome = "?"  # ok | invariant | property | deadlock | assert | error | timeout
        self.violated = None  # name of the violated invariant/property
        self.trace = []  # list of (action_label, {var: text}) for a counterexample
        self.prints = []  # PrintT output lines (raw strings)
        self.actions = {}  # action name -> number of times taken (from -coverage)
        self.stdout = ""
        self.rc = 0

    @property
    def ok(self):
        return self.outcome == "ok"


_RE_STATS = re.compile(r"(\d+) states generated, (\d+) distinct states found")
_RE_DEPTH = re.compile(r"The depth of the complete state graph search is (\d+)")
_RE_INV = re.compile(r"Error: Invariant (\S+) is violated")
_RE_PROP = re.compile(r"Error: (?:Action|Temporal) property (\S+) (?:is|was) violated")
_RE_COV = re.compile(r"^<(\w+) line \d+, col \d+ to line \d+, col \d+ of module (\w+)>: (\d+):(\d+)", re.M)
_RE_STATE = re.compile(r"^State (\d+): <(.*?)>$")
_RE_SIMSTAT = re.compile(r"The number of states generated: (\d+)")


def _java_opts(extra_lib=None, dfs=False, heap=None):
    # directories given in extra_lib take precedence over /verif/spec (module variants)
    libs = list(extra_lib or []) + [SPEC]
    opts = ["-DTLA-Library=" + os.pathsep.join(libs), "-XX:ParallelGCThreads=4"]
    if dfs:
        opts.append("-Dtlc2.tool.queue.IStateQueue=StateDeque")
    if heap:
        opts.append("-Xmx" + heap)
    return " ".join(opts)


def run(
    module,
    cfg,
    *,
    mc_text=None,
    mc_name=None,
    workers=16,
    mode="check",
    simulate=None,
    depth=None,
    seed=None,
    coverage=False,
    timeout=600,
    env=None,
    dfs=False,
    deadlock=False,
    heap="8g",
    keep=None,
    extra_files=None,
    continue_=False,
    max_print=None,
    lib_first=None,
):
    """Run TLC.

    module   -- name of the root module (in /verif/spec) unless mc_text is given, in which case
                mc_text is written as <mc_name>.tla into the scratch dir and is the root.
    cfg      -- text of the .cfg file.
    simulate -- e.g. "num=1000" (mode becomes simulate); depth -> -depth.
    env      -- extra environment variables (read in specs through IOEnv).
    keep     -- path of a directory to copy the scratch dir to (debugging).
    """
    work = tempfile.mkdtemp(prefix="vftlc_")
    res = TLCResult()
    try:
        root = mc_name or module
        if mc_text is not None:
            with open(os.path.join(work, root + ".tla"), "w") as f:
                f.write(mc_text)
        else:
            # TLC wants the root module in the working directory: a one-line wrapper is not
            # possible (module name = file name), so copy the root module; everything it EXTENDS
            # is resolved through TLA-Library.
            shutil.copy(os.path.join(SPEC, module + ".tla"), os.path.join(work, module + ".tla"))
        for name, text in (extra_files or {}).items():
            with open(os.path.join(work, name), "w") as f:
                f.write(text)
        with open(os.path.join(work, root + ".cfg"), "w") as f:
            f.write(cfg)
        args = [
            "java",
            "-XX:+UseParallelGC",
            "-cp",
            JAR,
            "tlc2.TLC",
            "-metadir",
            os.path.join(work, "states"),
            "-noGenerateSpecTE",
            "-workers",
            str(workers),
        ]
        if not deadlock:
            args.append("-deadlock")  # -deadlock DISABLES deadlock checking
        if coverage:
            args += ["-coverage", "1"]
        if continue_:
            args.append("-continue")
        if simulate is not None:
            res.mode = "simulate"
            args += ["-simulate", simulate]
            if depth:
                args += ["-depth", str(depth)]
        elif mode == "dfid":
            args += ["-dfid", str(depth or 10)]
        if seed is not None:
            args += ["-seed", str(seed)]
        args += ["-config", root + ".cfg", root + ".tla"]
        e = dict(os.environ)
        e["JAVA_TOOL_OPTIONS"] = _java_opts(extra_lib=lib_first, dfs=dfs, heap=heap)
        if env:
            e.update({k: str(v) for k, v in env.items()})
        t0 = time.time()
        try:
            p = subprocess.run(args, cwd=work, env=e, capture_output=True, text=True, timeout=timeout, preexec_fn=_die_with_parent)
            out = p.stdout + "\n" + p.stderr
            res.rc = p.returncode
        except subprocess.TimeoutExpired as te:
            out = (te.stdout or b"").decode(errors="replace") if isinstance(te.stdout, bytes) else (te.stdout or "")
            res.outcome = "timeout"
            res.rc = -1
        res.wall = time.time() - t0
        res.module = root
        res.cfg_name = root + ".cfg"
        res.stdout = out
        _parse(res, out, max_print=max_print)
        if keep:
            shutil.rmtree(keep, ignore_errors=True)
            shutil.copytree(work, keep, ignore=shutil.ignore_patterns("states"))
        return res
    finally:
        shutil.rmtree(work, ignore_errors=True)


def _parse(res, out, max_print=None):
    m = None
    for m in _RE_STATS.finditer(out):
        pass
    if m:
        res.generated, res.distinct = int(m.group(1)), int(m.group(2))
    else:
        m2 = _RE_SIMSTAT.search(out)
        if m2:
            res.generated = int(m2.group(1))
            res.distinct = res.generated
    m = _RE_DEPTH.search(out)
    if m:
        res.depth = int(m.group(1))
    for m in _RE_COV.finditer(out):
        name, cnt = m.group(1), int(m.group(4))
        res.actions[name] = max(res.actions.get(name, 0), cnt)
    # PrintT lines: TLC prints values one per line; we tag ours with a leading marker by
    # convention:  PrintT(<<"@@", payload>>) or a JSON string starting with "{ / "[
    for line in out.splitlines():
        s = line.strip()
        if s.startswith('"{') or s.startswith('"[') or s.startswith('<<"@@'):
            res.prints.append(s)
            if max_print and len(res.prints) >= max_print:
                break
    if res.outcome == "timeout":
        return
    mi = _RE_INV.search(out)
    mp = _RE_PROP.search(out)
    if mi:
        res.outcome, res.violated = "invariant", mi.group(1)
    elif mp:
        res.outcome, res.violated = "property", mp.group(1)
    elif "Error: Deadlock reached" in out:
        res.outcome = "deadlock"
    elif "The first argument of Assert evaluated to FALSE" in out or "Assumption" in out and "is false" in out:
        res.outcome = "assert"
    elif "Error:" in out or res.rc not in (0,):
        # rc 12 = safety violation, 13 = liveness; otherwise a real error
        res.outcome = "error"
    elif "Model checking completed. No error has been found." in out or "Finished in" in out or res.mode == "simulate":
        res.outcome = "ok"
    else:
        res.outcome = "error"
    if res.outcome in ("invariant", "property", "deadlock", "assert"):
        res.trace = _parse_trace(out)


def _parse_trace(out):
    trace = []
    cur = None
    for line in out.splitlines():
        m = _RE_STATE.match(line.strip())
        if m:
            cur = (m.group(2), [])
            trace.append(cur)
        elif cur is not None:
            if line.strip() == "" and cur[1]:
                cur = None
            elif line.startswith("/\\ ") or (cur[1] and line.startswith(" ")):
                cur[1].append(line)
    return [(a, "\n".join(ls)) for a, ls in trace]


def require_ok(res, what=""):
    if res.outcome == "ok":
        return res
    tail = "\n".join(res.stdout.splitlines()[-40:])
    raise MachineryError(f"TLC {what or res.module}: outcome={res.outcome} violated={res.violated}\n{tail}")


def decode_prints(res):
    """Decode PrintT(ToJson(x)) lines: a TLA+ string literal containing JSON."""
    outl = []
    for s in res.prints:
        if s.startswith('"'):
            try:
                outl.append(json.loads(json.loads(s)))
            except Exception:
                # TLA+ string escaping differs slightly from JSON for backslashes
                outl.append(json.loads(s[1:-1].replace('\\"', '"').replace("\\\\", "\\")))
    return outl


# ------------------------------------------------------------------------------------------
# A small parser for TLA+ values as printed by TLC (records, sequences, sets, functions, strings,
# integers, booleans, model values) -> Python objects.
# ------------------------------------------------------------------------------------------


class _P:
    def __init__(self, s):
        self.s = s
        self.i = 0

    def ws(self):
        while self.i < len(self.s) and self.s[self.i] in " \t\r\n":
            self.i += 1

    def peek(self, k=1):
        return self.s[self.i : self.i + k]

    def expect(self, t):
        self.ws()
        if not self.s.startswith(t, self.i):
            raise MachineryError(f"TLA value parse: expected {t!r} at {self.i}: {self.s[self.i:self.i+40]!r}")
        self.i += len(t)

    def value(self):
        self.ws()
        c = self.peek()
        if self.peek(2) == "<<":
            self.i += 2
            items = self.seq(">>")
            return items
        if c == "{":
            self.i += 1
            return {"@set": self.seq("}")}
        if c == "[":
            self.i += 1
            return self.record()
        if c == "(":
            self.i += 1
            return self.func()
        if c == '"':
            return self.string()
        m = re.compile(r"-?\d+").match(self.s, self.i)
        if m:
            self.i = m.end()
            return int(m.group(0))
        m = re.compile(r"[A-Za-z_][A-Za-z0-9_]*").match(self.s, self.i)
        if m:
            self.i = m.end()
            w = m.group(0)
            return True if w == "TRUE" else False if w == "FALSE" else {"@mv": w}
        raise MachineryError(f"TLA value parse: unexpected at {self.i}: {self.s[self.i:self.i+40]!r}")

    def string(self):
        j = self.i + 1
        buf = []
        while self.s[j] != '"':
            if self.s[j] == "\\":
                j += 1
                buf.append({"n": "\n", "t": "\t"}.get(self.s[j], self.s[j]))
            else:
                buf.append(self.s[j])
            j += 1
        self.i = j + 1
        return "".join(buf)

    def seq(self, close):
        items = []
        self.ws()
        if self.s.startswith(close, self.i):
            self.i += len(close)
            return items
        while True:
            items.append(self.value())
            self.ws()
            if self.s.startswith(close, self.i):
                self.i += len(close)
                return items
            self.expect(",")

    def record(self):
        d = {}
        self.ws()
        while True:
            self.ws()
            m = re.compile(r"[A-Za-z_][A-Za-z0-9_]*").match(self.s, self.i)
            if not m:
                raise MachineryError("TLA record parse")
            self.i = m.end()
            self.expect("|->")
            d[m.group(0)] = self.value()
            self.ws()
            if self.peek() == "]":
                self.i += 1
                return d
            self.expect(",")

    def func(self):
        pairs = []
        while True:
            k = self.value()
            self.expect(":>")
            v = self.value()
            pairs.append((k, v))
            self.ws()
            if self.peek() == ")":
                self.i += 1
                return {"@fn": pairs}
            self.expect("@@")


def parse_value(text):
    p = _P(text)
    v = p.value()
    return v


def parse_state(text):
    """Parse a TLC state printout (`/\\ var = value` lines) into {var: python value}."""
    out = {}
    parts = re.split(r"^/\\ ", text, flags=re.M)
    for part in parts:
        part = part.strip()
        if not part:
            continue
        name, _, val = part.partition("=")
        out[name.strip()] = parse_value(val.strip())
    return out


def tla(v):
    """Python value -> TLA+ literal (ints, bools, strings, lists->sequences, dict->record,
    frozenset/set -> set, tuple -> sequence)."""
    if isinstance(v, bool):
        return "TRUE" if v else "FALSE"
    if isinstance(v, int):
        return str(v)
    if isinstance(v, str):
        return '"' + v.replace("\\", "\\\\").replace('"', '\\"') + '"'
    if isinstance(v, (list, tuple)):
        return "<<" + ", ".join(tla(x) for x in v) + ">>"
    if isinstance(v, (set, frozenset)):
        return "{" + ", ".join(tla(x) for x in sorted(v, key=repr)) + "}"
    if isinstance(v, dict):
        if not v:
            raise MachineryError("empty record has no TLA+ literal")
        return "[" + ", ".join(f"{k} |-> {tla(x)}" for k, x in v.items()) + "]"
    raise MachineryError(f"no TLA+ literal for {type(v)}")
