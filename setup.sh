#!/bin/sh
# Offline setup: nothing to fetch. Byte-compile the harness and sanity-check the tools.
cd "$(dirname "$0")" || exit 1
/venv/bin/python -m compileall -q vf >/dev/null 2>&1
mkdir -p evidence replay
command -v java >/dev/null || { echo "java missing"; exit 1; }
test -f /opt/veriftools/tla/tla2tools.jar || { echo "tla2tools.jar missing"; exit 1; }
/venv/bin/python -c "import ufl, numpy" || exit 1
echo "setup ok"
