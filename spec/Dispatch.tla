------------------------------- MODULE Dispatch -------------------------------
(***************************************************************************)
(* C20.  Type dispatch of UFL algorithm classes while new expression types *)
(* are registered.                                                         *)
(*                                                                         *)
(* The machine is structured like the code:                                *)
(*                                                                         *)
(*   registry   UFLType._ufl_all_classes_ (ufl/core/ufl_type.py): position *)
(*              = typecode.  An entry records the handler name of the type *)
(*              (camel2underscore of the class name) and its parent = the  *)
(*              nearest registered ancestor (0 for the root Expr).         *)
(*   cacheMF    MultiFunction._handlers_cache (corealg/multifunction.py):  *)
(*              per algorithm class the list handler_names, one entry per  *)
(*              typecode that existed WHEN IT WAS BUILT; << >> = no entry. *)
(*   cacheTR    Transformer._handlers_cache (algorithms/transformer.py),   *)
(*              same idea, but built over ufl.classes.all_ufl_classes,     *)
(*              which is a set computed once when ufl.classes is imported  *)
(*              (Frozen below).                                            *)
(*   insts      algorithm objects, per class in order of creation; each    *)
(*              holds self._handlers = the table copied from the cache in  *)
(*              __init__.                                                  *)
(*                                                                         *)
(* Actions = API calls:                                                    *)
(*   Register(p)       @ufl_type() applied to a new subclass of type p     *)
(*   Instantiate(a)    a()  (MultiFunction.__init__ / Transformer.__init__ *)
(*                     build the table iff the class has no cache entry)   *)
(*   Apply(a, k, t, via)  x(o) / map_expr_dag(x, o) / x.visit(o) for x the *)
(*                     k-th object of class a and o an object of type t:   *)
(*                     self._handlers[o._ufl_typecode_]                    *)
(*                                                                         *)
(* DAGTraverser (corealg/dag_traverser.py) is the third family ("DT"): it  *)
(* dispatches with functools.singledispatchmethod, i.e. by a walk over the *)
(* MRO of type(o) at call time; it keeps no typecode-indexed table.        *)
(*                                                                         *)
(* Refresh = FALSE is the behaviour AS CODED (a cached table is never      *)
(* rebuilt).  Refresh = TRUE is the INTENDED behaviour, implemented the    *)
(* way the proposed repair does: a table is rebuilt over the whole         *)
(* registry whenever its length differs from the registry's.  The          *)
(* specification of both is the pure function Nearest: the handler of the  *)
(* nearest ancestor (the type itself included) for which the algorithm     *)
(* class defines a handler, else the fallback "ufl_type".                  *)
(***************************************************************************)
EXTENDS Naturals, Sequences, FiniteSets, TLC, Json

CONSTANTS
  Base,      \* registry before any late registration:
             \*   Seq of [name : STRING, parent : Nat, abstract : BOOLEAN]
  NewNames,  \* handler names of the 1st, 2nd, ... late type; Len = max number of registrations
  Algs,      \* algorithm classes (strings)
  Kind,      \* [Algs -> {"MF", "TR", "DT"}]
  Defs,      \* [Algs -> SUBSET STRING]: handler names the class defines or inherits
             \*   ("ufl_type" need not be listed: both base classes define it)
  MaxInst,   \* max number of objects per algorithm class
  Refresh,   \* FALSE = as coded, TRUE = intended (tables follow the registry)
  MaxHist    \* bound on the recorded history (emission configurations only)

VARIABLES registry, cacheMF, cacheTR, insts, obs, hist

vars == <<registry, cacheMF, cacheTR, insts, obs, hist>>
\* the exhaustive checks identify states up to the history
View == <<registry, cacheMF, cacheTR, insts, obs>>
\* ... and, where only the state invariants are checked, up to the last observation
ViewNoObs == <<registry, cacheMF, cacheTR, insts>>

MFAlgs == {a \in Algs : Kind[a] = "MF"}
TRAlgs == {a \in Algs : Kind[a] = "TR"}
DTAlgs == {a \in Algs : Kind[a] = "DT"}

Fallback == "ufl_type"      \* UFLType._ufl_handler_name_; MultiFunction.ufl_type = undefined
Frozen   == Len(Base)       \* len(ufl.classes.all_ufl_classes)
MaxTypes == Len(Base) + Len(NewNames)
BaseNames == {Base[k].name : k \in DOMAIN Base}

ASSUME /\ \A k \in DOMAIN Base : Base[k].parent < k          \* parents are registered first
       /\ Base[1].parent = 0
       /\ \A a \in Algs : Kind[a] \in {"MF", "TR", "DT"}
       \* singledispatch registers handlers on class objects, so a DAGTraverser subclass can only
       \* have rules for types that exist when the class is defined
       /\ \A a \in DTAlgs : Defs[a] \subseteq BaseNames

(***************************************************************************)
(* The specification: the loop `for c in classobject.mro(): if hasattr(    *)
(* self, c._ufl_handler_name_)` of both __init__ methods (and the MRO walk *)
(* of singledispatch) finds the nearest ancestor with a handler; `object`  *)
(* at the end of every MRO yields the fallback name.                       *)
(***************************************************************************)
RECURSIVE Nearest(_, _, _)
Nearest(reg, defs, t) ==
  IF t = 0 THEN Fallback
  ELSE IF reg[t].name \in defs THEN reg[t].name
  ELSE Nearest(reg, defs, reg[t].parent)

Want(a, t) == Nearest(registry, Defs[a], t)

\* handler_names = [None] * n; for classobject in <first n classes>: ...
TableFor(a, n) == [t \in 1..n |-> Want(a, t)]

Init ==
  /\ registry = Base
  /\ cacheMF = [a \in MFAlgs |-> << >>]
  /\ cacheTR = [a \in TRAlgs |-> << >>]
  /\ insts = [a \in Algs |-> << >>]
  /\ obs = [op |-> "none", alg |-> "", i |-> 0, t |-> 0, via |-> "", out |-> "", h |-> "", want |-> ""]
  /\ hist = << >>

\* One event of the recorded history (uniform record so that ToJson gives a list of objects):
\*   register:    t = position (typecode) of the new type, i = position of its parent
\*   instantiate: alg = class, i = number of the new object within its class
\*   apply:       alg, i = object, t = type of the argument, via = call path,
\*                out/h = what THIS machine does ("ok"/handler or "IndexError"/"-"),
\*                want = the handler the specification demands (Nearest)
Ev(op, a, i, t, via, out, h, want) ==
  [op |-> op, alg |-> a, i |-> i, t |-> t, via |-> via, out |-> out, h |-> h, want |-> want]

(***************************************************************************)
(* Register(p): update_ufl_type_attributes appends the class; its typecode *)
(* is the old length.  The decorator demands Terminal/Operator ancestry,   *)
(* so the root itself cannot be the parent.  Nothing else is touched: no   *)
(* cache is told.                                                          *)
(***************************************************************************)
Register(p) ==
  /\ Len(registry) < MaxTypes
  /\ p \in 2..Len(registry)
  /\ registry' = Append(registry, [name |-> NewNames[Len(registry) - Len(Base) + 1],
                                    parent |-> p, abstract |-> FALSE])
  /\ UNCHANGED <<cacheMF, cacheTR, insts, obs>>
  /\ hist' = Append(hist, Ev("register", "", p, Len(registry) + 1, "", "", "", ""))

(***************************************************************************)
(* Table (re)construction, shared by Instantiate and (Refresh only) Apply. *)
(*   as coded:   `if not cache_data:` build                                *)
(*   intended:   build also when len(table) # len(registry)                *)
(* MultiFunction iterates Expr._ufl_all_classes_ (the live registry);      *)
(* Transformer iterates all_ufl_classes (the frozen import-time set).      *)
(***************************************************************************)
Stale(tab) == Len(tab) = 0 \/ (Refresh /\ Len(tab) # Len(registry))

BuildLen(a) == IF Kind[a] = "TR" /\ ~Refresh THEN Frozen ELSE Len(registry)

Cached(a) == IF Kind[a] = "MF" THEN cacheMF[a] ELSE IF Kind[a] = "TR" THEN cacheTR[a] ELSE << >>

Fresh(a) == IF Stale(Cached(a)) THEN TableFor(a, BuildLen(a)) ELSE Cached(a)

StoreCache(a, tab) ==
  /\ cacheMF' = IF Kind[a] = "MF" THEN [cacheMF EXCEPT ![a] = tab] ELSE cacheMF
  /\ cacheTR' = IF Kind[a] = "TR" THEN [cacheTR EXCEPT ![a] = tab] ELSE cacheTR

Instantiate(a) ==
  /\ Len(insts[a]) < MaxInst
  /\ LET tab == IF Kind[a] = "DT" THEN << >> ELSE Fresh(a) IN
       /\ StoreCache(a, tab)
       /\ insts' = [insts EXCEPT ![a] = Append(@, tab)]
  /\ UNCHANGED <<registry, obs>>
  /\ hist' = Append(hist, Ev("instantiate", a, Len(insts[a]) + 1, 0, "", "", "", ""))

(***************************************************************************)
(* Apply(a, k, t, via): h = self._handlers[o._ufl_typecode_].              *)
(*   as coded:  index the table the object copied in __init__.             *)
(*   intended:  an object whose table is shorter than the registry first   *)
(*              rebuilds it (through the class cache), then indexes.       *)
(* DT objects walk the MRO at call time.                                   *)
(***************************************************************************)
Vias(a) == IF Kind[a] = "MF" THEN {"call", "dag"} ELSE IF Kind[a] = "TR" THEN {"visit"} ELSE {"call"}

\* does the k-th object of class a rebuild its table before this call?
Rebuilds(a, k) == Refresh /\ Kind[a] # "DT" /\ Len(insts[a][k]) # Len(registry)

\* the table the object uses for this call
UseTab(a, k) == IF Rebuilds(a, k) THEN Fresh(a) ELSE insts[a][k]

\* self._handlers[o._ufl_typecode_] on table tab
Look(a, tab, t) ==
  IF Kind[a] = "DT" THEN [out |-> "ok", h |-> Want(a, t)]
  ELSE IF t > Len(tab) THEN [out |-> "IndexError", h |-> "-"]
  ELSE [out |-> "ok", h |-> tab[t]]

Outcome(a, k, t) == Look(a, UseTab(a, k), t)

Apply(a, k, t, via) ==
  /\ k \in DOMAIN insts[a]
  /\ t \in DOMAIN registry
  /\ ~registry[t].abstract               \* only concrete types have objects
  /\ via \in Vias(a)
  /\ LET tab == UseTab(a, k)
         r == Look(a, tab, t) IN
       /\ insts' = [insts EXCEPT ![a][k] = tab]
       \* a rebuild goes through (and updates) the class cache; otherwise nothing is written
       /\ IF Rebuilds(a, k) /\ Stale(Cached(a)) THEN StoreCache(a, tab)
                                                ELSE UNCHANGED <<cacheMF, cacheTR>>
       /\ obs' = Ev("apply", a, k, t, via, r.out, r.h, Want(a, t))
       /\ hist' = Append(hist, obs')
  /\ UNCHANGED registry

DoRegister    == \E p \in 2..Len(registry) : Register(p)
DoInstantiate == \E a \in Algs : Instantiate(a)
DoApply       == \E a \in Algs : \E k \in DOMAIN insts[a] : \E t \in DOMAIN registry : \E via \in Vias(a) :
                   Apply(a, k, t, via)

Next == DoRegister \/ DoInstantiate \/ DoApply

Spec == Init /\ [][Next]_vars

(***************************************************************************)
(* Properties.                                                             *)
(***************************************************************************)
TypeOK ==
  /\ Len(registry) \in Len(Base)..MaxTypes
  /\ \A t \in DOMAIN registry : registry[t].parent < t
  /\ \A a \in MFAlgs : Len(cacheMF[a]) <= Len(registry)
  /\ \A a \in TRAlgs : Len(cacheTR[a]) <= Len(registry)
  /\ \A a \in Algs : Len(insts[a]) <= MaxInst
  /\ \A a \in Algs : \A k \in DOMAIN insts[a] : Len(insts[a][k]) <= Len(registry)

\* C20, first half: every Apply reaches a handler (never indexes past the table)
ApplyInRange == obs.op = "apply" => obs.out = "ok"

\* C20: the handler is the one of the nearest ancestor that has one
NearestHandler == obs.op = "apply" /\ obs.out = "ok" => obs.h = obs.want

\* C20, second half, stated on every reachable state rather than on the last call: whatever
\* object of a class is used (made before or after a registration) and whichever type it is
\* applied to, the result is the same and is the specified one
OrderIndependent ==
  \A a \in Algs : \A k \in DOMAIN insts[a] :
    LET tab == UseTab(a, k) IN
    \A t \in DOMAIN registry :
      ~registry[t].abstract => Look(a, tab, t) = [out |-> "ok", h |-> Want(a, t)]

\* what staleness can and cannot be (holds in both modes): entries of a table never go wrong,
\* a table can only be too short
EntriesSound ==
  /\ \A a \in MFAlgs : \A t \in DOMAIN cacheMF[a] : cacheMF[a][t] = Want(a, t)
  /\ \A a \in TRAlgs : \A t \in DOMAIN cacheTR[a] : cacheTR[a][t] = Want(a, t)
  /\ \A a \in Algs : \A k \in DOMAIN insts[a] : \A t \in DOMAIN insts[a][k] : insts[a][k][t] = Want(a, t)

(***************************************************************************)
(* Emission of behaviours for the replay into the real code.               *)
(***************************************************************************)
HistBound == Len(hist) <= MaxHist
\* optional restriction of an enumeration: behaviours that use objects of one class only
OneClass == Cardinality({a \in Algs : Len(insts[a]) > 0}) <= 1
\* a behaviour is handed over when it has the full length and ends with an observation
Emit == (Len(hist) = MaxHist /\ hist[MaxHist].op = "apply") => PrintT(ToJson(hist))
=============================================================================
