------------------------------ MODULE Traversal ------------------------------
(***************************************************************************)
(* C19.  The explicit-stack traversals of ufl/corealg/traversal.py, the    *)
(* hash walk of ufl/core/compute_expr_hash.py and map_expr_dags of         *)
(* ufl/corealg/map_dag.py, AS CODED: one action (Loop) per iteration of    *)
(* the `while lifo` loop of a generator, and one action (Body) per         *)
(* iteration of `for v in traversal(expression)` in map_expr_dags, which   *)
(* runs while the generator is suspended at its `yield` and then lets it   *)
(* run the statements after the `yield` (AfterYield).                      *)
(*                                                                         *)
(* Objects.  `heap` is a sequence of objects [lab, ops]; `ops` are object  *)
(* ids (positions in heap).  Objects 1..N are the input DAG (operands have *)
(* smaller ids), N+1 and N+2 are the two terminals owned by the handler    *)
(* tables, objects created by handlers (`_ufl_expr_reconstruct_`) are      *)
(* appended.  lab < 10: terminal (Coefficient with that count); lab = 10:  *)
(* ExprList, lab = 11: ExprMapping (the "cutoff type" of the cutoff jobs). *)
(*                                                                         *)
(* Structural equality.  ufl's `==`/hash on expressions is structural:     *)
(* Eq(h,x,y) <=> Term(h,x) = Term(h,y).  Distinct objects may be equal.    *)
(* The `visited` sets and the `vcache`/`rcache` dicts are keyed by `==`.   *)
(* A successful `stored == probe` between two DISTINCT operator objects    *)
(* has a side effect in ufl (exprequals.py, "eagerly DAGify"):             *)
(*     stored.ufl_operands = probe.ufl_operands                            *)
(* which is visible through object identity (which object is yielded       *)
(* next), so the model carries it: see Probe/Dagify.                       *)
(*                                                                         *)
(* A behaviour = one DAG (built node by node by AddNode, then Commit) on   *)
(* which the jobs of the constant `Jobs` are run one after the other, each *)
(* on a fresh copy of the DAG; the outputs are accumulated in `results`    *)
(* and printed as one JSON line per DAG by the last action.  Everything is *)
(* deterministic after Commit.                                             *)
(*                                                                         *)
(* Handlers with context arguments (fn = "dt").  DAGTraverser.__call__ of  *)
(* ufl/corealg/dag_traverser.py is a memoised RECURSION: the rule bound to *)
(* the node type (`process`) calls self(operand, **kwargs) for the         *)
(* operands it wants, with the keyword arguments it chooses.  The model    *)
(* keeps the Python call stack explicitly (`stk`) and takes one action per *)
(* `self(node, **kwargs)` call made by a rule (cache hit, or cache miss =  *)
(* entering `process`) and one per rule that returns (compress, store).    *)
(* The context of a call is the ordered sequence of <<name, value>> pairs  *)
(* (a Python kwargs dict); the memoisation key is (node, full context).    *)
(* The property is the same as for map_expr_dags: the memoised result is   *)
(* the result of applying the rules recursively to the TREE, where the     *)
(* context travels down the tree (RecApplyKw).  `J.key` other than "full"  *)
(* gives deliberately weakened cache keys: those jobs are not bound to the *)
(* code, they show that the DAGs and rule tables of a run tell a full key  *)
(* from a weaker one.                                                      *)
(***************************************************************************)
EXTENDS Naturals, Sequences, FiniteSets, TLC, Json

CONSTANTS NMin, NMax,   \* DAGs have NMin..NMax nodes
          MaxArity,     \* operators have 1..MaxArity operands
          Jobs,         \* sequence of [fn, table, compress, mode, top, key]
          Shard, NShards, \* this run explores the DAGs d with ShardOf(d) = Shard (see ShardOf)
          OnlyConnected,  \* TRUE: only DAGs whose nodes are all reachable from the roots N, N-1
          Emit          \* TRUE: print one JSON line per DAG

LeafLabels   == {1, 2}
OpTypes      == {10, 11}
CutType      == 11
LabRenFrom   == 1
LabRenTo     == 2
LabConst     == 3

Fns    == {"pre", "post", "cutpost", "upre", "upost", "cutupost", "hash", "map", "dt"}
MapTables == {"reuse", "rename", "renamenc", "const", "constcut"}
KwTables  == {"kwset", "kwadd", "kwfirst"}     \* rule tables whose rules take keyword arguments
Tables == {"none"} \cup MapTables \cup KwTables
MapModes == {"list", "rlist", "calls"}
DtModes  == {"reuse", "shared", "fresh"}
Modes  == {"none"} \cup MapModes \cup DtModes
KeyAbs == {"full", "values", "names", "node", "valsorted"}

ASSUME /\ NMin \in Nat /\ NMax \in Nat /\ 1 <= NMin /\ NMin <= NMax
       /\ \A j \in DOMAIN Jobs : /\ Jobs[j].fn \in Fns /\ Jobs[j].table \in Tables
                                 /\ Jobs[j].mode \in Modes /\ Jobs[j].compress \in BOOLEAN
                                 /\ Jobs[j].top \in 0..3 /\ Jobs[j].key \in KeyAbs
                                 /\ (Jobs[j].fn = "map") = (Jobs[j].table \in MapTables)
                                 /\ (Jobs[j].fn = "map") = (Jobs[j].mode \in MapModes)
                                 /\ (Jobs[j].fn = "dt") = (Jobs[j].table \in KwTables)
                                 /\ (Jobs[j].fn = "dt") = (Jobs[j].mode \in DtModes)
                                 /\ (Jobs[j].fn # "dt") => (Jobs[j].top = 0 /\ Jobs[j].key = "full")

----------------------------------------------------------------------------
(* generic helpers *)
Last(s)    == s[Len(s)]
Front(s)   == SubSeq(s, 1, Len(s) - 1)
Reverse(s) == [i \in 1..Len(s) |-> s[Len(s) + 1 - i]]
Range(s)   == {s[i] : i \in DOMAIN s}
MinOf(S)   == CHOOSE x \in S : \A y \in S : x <= y
RECURSIVE Flatten(_)
Flatten(ss) == IF ss = <<>> THEN <<>> ELSE Head(ss) \o Flatten(Tail(ss))

----------------------------------------------------------------------------
(* all DAGs *)
OpSeqs(n) == UNION {[1..k -> 1..(n - 1)] : k \in 1..MaxArity}
NodeChoices(n) == {[lab |-> l, ops |-> <<>>] : l \in LeafLabels}
                  \cup {[lab |-> t, ops |-> o] : t \in OpTypes, o \in OpSeqs(n)}
RECURSIVE DagsOfSize(_)
DagsOfSize(n) == IF n = 0 THEN {<<>>}
                 ELSE {Append(d, c) : d \in DagsOfSize(n - 1), c \in NodeChoices(n)}
RECURSIVE SumSeq(_)
SumSeq(s) == IF s = <<>> THEN 0 ELSE Head(s) + SumSeq(Tail(s))
\* Sharding: a run explores the DAGs whose first NMax-1 nodes hash to `Shard`, so that a shard is
\* pruned while the DAGs are built (AddNode) and not only when they are complete.
PrefixLen(d) == IF Len(d) < NMax - 1 THEN Len(d) ELSE NMax - 1
HashOf(d) == SumSeq([n \in DOMAIN d |-> n * d[n].lab + SumSeq([i \in DOMAIN d[n].ops |-> (i + n) * d[n].ops[i]])])
ShardOf(d) == HashOf(SubSeq(d, 1, PrefixLen(d))) % NShards
RECURSIVE ReachIn(_, _)
ReachIn(d, n) == {n} \cup UNION {ReachIn(d, d[n].ops[i]) : i \in DOMAIN d[n].ops}
Connected(d) == ReachIn(d, Len(d)) \cup (IF Len(d) > 1 THEN ReachIn(d, Len(d) - 1) ELSE {}) = 1..Len(d)
Selected(d) == ShardOf(d) = Shard /\ (OnlyConnected => Connected(d))
AllDags == UNION {{d \in DagsOfSize(n) : Selected(d)} : n \in NMin..NMax}   \* the DAGs of a run

----------------------------------------------------------------------------
(* structural equality, and what `==` does to the objects *)
RECURSIVE Term(_, _)
Term(h, x) == <<h[x].lab, [i \in 1..Len(h[x].ops) |-> Term(h, h[x].ops[i])]>>
Eq(h, x, y)  == Term(h, x) = Term(h, y)
IsLeaf(h, x) == h[x].lab < 10

\* membership test / lookup of x in a set or dict whose keys are the objects S (keyed by ==)
Hit(h, S, x)   == {s \in S : Eq(h, s, x)}
Found(h, S, x) == Hit(h, S, x) # {}
Stored(h, S, x) == CHOOSE s \in Hit(h, S, x) : TRUE
\* expr_equals(stored, probe) returned True: stored.ufl_operands = probe.ufl_operands
\* (CPython tests identity first, so nothing happens for the same object; Coefficient.__eq__ has
\* no side effect)
Dagify(h, s, x) == IF s # x /\ ~IsLeaf(h, s) THEN [h EXCEPT ![s].ops = h[x].ops] ELSE h
\* heap after `x in S` / `S[x]` / `S.get(x)` / `S.add(x)`
Probe(h, S, x) == IF Found(h, S, x) THEN Dagify(h, Stored(h, S, x), x) ELSE h
\* S.add(x): an equal stored element is kept
AddTo(h, S, x) == IF Found(h, S, x) THEN [h |-> Probe(h, S, x), s |-> S] ELSE [h |-> h, s |-> S \cup {x}]

----------------------------------------------------------------------------
VARIABLES dag,      \* the pristine input DAG (never changes)
          heap,     \* the objects of the running job
          job,      \* index into Jobs
          pc,       \* control location
          lifo,     \* the explicit stack: sequence of frames [e, deps]
          visited,  \* set of objects (keyed by ==)
          out,      \* yielded objects (hash job: objects in the order their hash is computed)
          cur,      \* the object being yielded to the consumer
          vcache,   \* map_expr_dags: sequence of [k, v]
          rcache,   \* map_expr_dags: set of result objects (r -> r)
          calls,    \* map_expr_dags: handler invocations <<v, <<transformed operands>>, r>>
          ei,       \* map_expr_dags: index of the expression being traversed
          callno,   \* map_expr_dags: which call (mode "calls" makes two calls sharing the caches)
          res,      \* map_expr_dags: returned objects
          hashed,   \* compute_expr_hash: objects whose _hash is set
          results,  \* outputs of the finished jobs
          steps,    \* actions taken by the running job
          jrec,     \* the running job = Jobs[job]
          stk       \* DAGTraverser: the Python call stack, frames [e, kw, i, vals] (one per running rule)
vars == <<dag, heap, job, pc, lifo, visited, out, cur, vcache, rcache, calls, ei, callno, res,
          hashed, results, steps, jrec, stk>>

N        == Len(dag)
ConstRen == N + 1
ConstZ   == N + 2
FreshHeap(d) == d \o <<[lab |-> LabRenTo, ops |-> <<>>], [lab |-> LabConst, ops |-> <<>>]>>
J == jrec

\* which labels are cutoff types for the running job.  For a MultiFunction a type is a cutoff
\* type when its handler takes only `o` (multifunction.py: get_num_args(handler) == 2).
CutLabJ(jb, l) ==
  CASE jb.fn \in {"cutpost", "cutupost"} -> l = CutType
    [] jb.fn = "map" /\ jb.table = "rename" -> l < 10       \* def coefficient(self, o)
    [] jb.fn = "map" /\ jb.table = "constcut" -> l = CutType \* def expr_mapping(self, o)
    [] OTHER -> FALSE
CutLab(l) == CutLabJ(J, l)
IsCut(h, x) == CutLab(h[x].lab)
\* map_expr_dags: `if any(cutoff_types)` picks the traversal
TravJ(jb) == IF jb.fn = "map"
             THEN (IF jb.table \in {"rename", "constcut"} THEN "cutupost" ELSE "upost")
             ELSE jb.fn
Trav == TravJ(J)

\* expressions argument of call c of the map job
MapExprs(mode, c) ==
  CASE mode = "list"  -> IF N = 1 THEN <<1>> ELSE <<N - 1, N>>
    [] mode = "rlist" -> IF N = 1 THEN <<1, 1>> ELSE <<N, N - 1>>
    [] mode = "calls" -> IF c = 1 THEN <<IF N = 1 THEN 1 ELSE N - 1>> ELSE <<N>>
NCalls(mode) == IF mode = "calls" THEN 2 ELSE 1
Exprs == MapExprs(J.mode, callno)

Frame(h, e, rev) == [e |-> e, deps |-> IF rev THEN Reverse(h[e].ops) ELSE h[e].ops]
BareFrame(e)     == [e |-> e, deps |-> <<>>]

----------------------------------------------------------------------------
\* ---- choosing the DAG: one node per step (so that TLC builds the DAGs in parallel) ----
Init ==
  /\ dag = <<>> /\ heap = <<>>
  /\ job = 1 /\ pc = "build"
  /\ lifo = <<>> /\ visited = {} /\ out = <<>> /\ cur = 0
  /\ vcache = <<>> /\ rcache = {} /\ calls = <<>> /\ ei = 0 /\ callno = 0 /\ res = <<>>
  /\ hashed = {} /\ results = <<>> /\ steps = 0 /\ jrec = Jobs[1] /\ stk = <<>>

AddNode ==
  /\ pc = "build" /\ Len(dag) < NMax
  /\ Len(dag) >= NMax - 1 => ShardOf(dag) = Shard       \* nothing below here belongs to this shard
  /\ \E c \in NodeChoices(Len(dag) + 1) : dag' = Append(dag, c)
  /\ UNCHANGED <<heap, job, pc, lifo, visited, out, cur, vcache, rcache, calls, ei, callno, res,
                 hashed, results, steps, jrec, stk>>

\* a prefix of another shard that is too short to be a DAG of this run
Prune ==
  /\ pc = "build" /\ Len(dag) < NMin /\ Len(dag) >= NMax - 1 /\ ShardOf(dag) # Shard
  /\ pc' = "skipped"
  /\ UNCHANGED <<dag, heap, job, lifo, visited, out, cur, vcache, rcache, calls, ei, callno, res,
                 hashed, results, steps, jrec, stk>>

Commit ==
  /\ pc = "build" /\ Len(dag) >= NMin
  /\ IF Selected(dag) THEN pc' = "start" /\ heap' = FreshHeap(dag)
                             ELSE pc' = "skipped" /\ UNCHANGED heap
  /\ UNCHANGED <<dag, job, lifo, visited, out, cur, vcache, rcache, calls, ei, callno, res,
                 hashed, results, steps, jrec, stk>>

\* ---- the first statements of a traversal generator (they run at the first next()) ----
\* returns [h, vis, lifo]
Begin(kind, h, vis, r) ==
  CASE kind = "pre"      -> [h |-> h, vis |-> vis, lifo |-> <<BareFrame(r)>>]
    [] kind = "upre"     -> LET a == AddTo(h, vis, r) IN        \* lifo = [expr]; visited.add(expr)
                            [h |-> a.h, vis |-> a.s, lifo |-> <<BareFrame(r)>>]
    [] kind \in {"post", "cutpost", "cutupost"} ->              \* list(reversed(expr.ufl_operands))
                            [h |-> h, vis |-> vis, lifo |-> <<Frame(h, r, TRUE)>>]
    [] kind = "upost"    -> LET a == AddTo(h, vis, r) IN        \* list(expr.ufl_operands); visited.add(expr)
                            [h |-> a.h, vis |-> a.s, lifo |-> <<Frame(h, r, FALSE)>>]
    [] kind = "hash"     -> [h |-> h, vis |-> vis, lifo |-> <<Frame(h, r, FALSE)>>]

StartJob ==
  /\ pc = "start"
  /\ steps' = steps + 1
  /\ IF J.fn \in {"map", "dt"}
     THEN \* first call of map_expr_dags: vcache = {}; rcache = {}; visited = set();
          \* for expression in expressions: ...
          \* DAGTraverser.__init__: self._visited_cache = {}; self._result_cache = {}
          /\ vcache' = <<>> /\ rcache' = {} /\ callno' = 1 /\ visited' = {} /\ ei' = 1
          /\ pc' = (IF J.fn = "map" THEN "mapfor" ELSE "dtfor") /\ UNCHANGED <<heap, lifo>>
     ELSE LET b == Begin(J.fn, heap, {}, N) IN
          /\ heap' = b.h /\ visited' = b.vis /\ lifo' = b.lifo /\ pc' = "loop"
          /\ UNCHANGED <<vcache, rcache, callno, ei>>
  /\ UNCHANGED <<dag, job, out, cur, calls, res, hashed, results, jrec, stk>>

\* map_expr_dags: `for expression in expressions:` -- start the traversal of the next expression
MapFor ==
  /\ pc = "mapfor"
  /\ steps' = steps + 1
  /\ IF ei <= Len(Exprs)
     THEN LET b == Begin(Trav, heap, visited, Exprs[ei]) IN
          /\ heap' = b.h /\ visited' = b.vis /\ lifo' = b.lifo /\ pc' = "loop"
     ELSE /\ pc' = "mapret" /\ UNCHANGED <<heap, visited, lifo>>
  /\ UNCHANGED <<dag, job, out, cur, vcache, rcache, calls, ei, callno, res, hashed, results, jrec, stk>>

\* ---- helpers of the loop bodies ----
FirstSet(deps) == {i \in DOMAIN deps : deps[i] # 0}

\* the `for i, dep in enumerate(deps)` scan of the unique post traversals: each `dep not in visited`
\* is a probe; stops at the first dep that is not None and not visited.  [h, i]  (i = 0: for-else)
RECURSIVE Scan(_, _, _, _)
Scan(h, vis, deps, i) ==
  IF i > Len(deps) THEN [h |-> h, i |-> 0]
  ELSE IF deps[i] = 0 THEN Scan(h, vis, deps, i + 1)
  ELSE IF Found(h, vis, deps[i]) THEN Scan(Probe(h, vis, deps[i]), vis, deps, i + 1)
  ELSE [h |-> h, i |-> i]

\* unique_pre_traversal: for op in expr.ufl_operands: if op not in visited: lifo.append(op); visited.add(op)
RECURSIVE PushNew(_, _, _, _, _)
PushNew(h, vis, lf, ops, i) ==
  IF i > Len(ops) THEN [h |-> h, vis |-> vis, lifo |-> lf]
  ELSE IF Found(h, vis, ops[i]) THEN PushNew(Probe(h, vis, ops[i]), vis, lf, ops, i + 1)
  ELSE PushNew(h, vis \cup {ops[i]}, Append(lf, BareFrame(ops[i])), ops, i + 1)

PushDep(lf, i, rev, h) ==
  Append([lf EXCEPT ![Len(lf)].deps[i] = 0], Frame(h, Last(lf).deps[i], rev))

\* one iteration of `while lifo:` up to (and excluding) a `yield`:  [h, lifo, y]; y = 0: no yield
\* in this iteration, else the object that is yielded
Iteration(kind, h, vis, lf) ==
  LET top == Last(lf) IN
  CASE kind \in {"pre", "upre"} ->
         \* expr = lifo.pop(); yield expr
         [h |-> h, lifo |-> Front(lf), y |-> top.e]
    [] kind \in {"post", "cutpost"} ->
         IF (kind = "cutpost" /\ IsCut(h, top.e)) \/ FirstSet(top.deps) = {}
         THEN [h |-> h, lifo |-> lf, y |-> top.e]
         ELSE [h |-> h, lifo |-> PushDep(lf, MinOf(FirstSet(top.deps)), TRUE, h), y |-> 0]
    [] kind \in {"upost", "cutupost"} ->
         IF kind = "cutupost" /\ IsCut(h, top.e)
         THEN [h |-> h, lifo |-> lf, y |-> top.e]
         ELSE LET sc == Scan(h, vis, top.deps, 1) IN
              IF sc.i = 0 THEN [h |-> sc.h, lifo |-> lf, y |-> top.e]
              ELSE [h |-> sc.h, lifo |-> PushDep(lf, sc.i, kind = "cutupost", sc.h), y |-> 0]

\* the statements after `yield e` up to the end of the iteration:  [h, vis, lifo]
AfterYield(kind, h, vis, lf, e) ==
  CASE kind = "pre" ->
         \* for op in expr.ufl_operands: lifo.append(op)
         [h |-> h, vis |-> vis, lifo |-> lf \o [i \in 1..Len(h[e].ops) |-> BareFrame(h[e].ops[i])]]
    [] kind = "upre" -> PushNew(h, vis, lf, h[e].ops, 1)
    [] kind \in {"post", "cutpost"} -> [h |-> h, vis |-> vis, lifo |-> Front(lf)]     \* lifo.pop()
    [] kind \in {"upost", "cutupost"} ->
         \* visited.add(expr); lifo.pop()
         LET a == AddTo(h, vis, e) IN [h |-> a.h, vis |-> a.s, lifo |-> Front(lf)]

\* ---- one iteration of `while lifo:` ----
\* A plain traversal job consumes the generator with list(): the element is collected and the
\* generator continues at once.  In a map job the generator stays suspended at the `yield` while
\* the body of `for v in traversal(expression)` runs (action Body, which also lets it continue).
Loop ==
  /\ pc = "loop"
  /\ steps' = steps + 1
  /\ IF lifo = <<>>
     THEN \* the generator is exhausted
          /\ IF J.fn = "map" THEN ei' = ei + 1 /\ pc' = "mapfor" ELSE pc' = "jobdone" /\ UNCHANGED ei
          /\ UNCHANGED <<heap, lifo, visited, out, cur, hashed>>
     ELSE IF Trav = "hash"
     THEN \* compute_expr_hash, identity based: dep._hash is None
          LET top == Last(lifo)
              todo == {i \in FirstSet(top.deps) : top.deps[i] \notin hashed} IN
          /\ IF todo # {}
             THEN /\ lifo' = PushDep(lifo, MinOf(todo), FALSE, heap) /\ UNCHANGED <<out, hashed>>
             ELSE \* if expr._hash is None: expr._hash = expr._ufl_compute_hash_() ; lifo.pop()
                  /\ hashed' = hashed \cup {top.e}
                  /\ out' = IF top.e \in hashed THEN out ELSE Append(out, top.e)
                  /\ lifo' = Front(lifo)
          /\ pc' = "loop" /\ UNCHANGED <<heap, visited, cur, ei>>
     ELSE LET it == Iteration(Trav, heap, visited, lifo) IN
          /\ UNCHANGED <<ei, hashed>>
          /\ IF it.y = 0
             THEN /\ heap' = it.h /\ lifo' = it.lifo /\ pc' = "loop" /\ UNCHANGED <<visited, out, cur>>
             ELSE IF J.fn = "map"
             THEN /\ heap' = it.h /\ lifo' = it.lifo /\ cur' = it.y /\ pc' = "body"
                  /\ UNCHANGED <<visited, out>>
             ELSE LET a == AfterYield(Trav, it.h, visited, it.lifo, it.y) IN
                  /\ heap' = a.h /\ visited' = a.vis /\ lifo' = a.lifo
                  /\ out' = Append(out, it.y) /\ cur' = it.y /\ pc' = "loop"
  /\ UNCHANGED <<dag, job, vcache, rcache, calls, callno, res, results, jrec, stk>>

\* ---- map_expr_dags: the body of `for v in traversal(expression)` ----
Keys(vc) == {vc[i].k : i \in DOMAIN vc}
ValOf(vc, h, x) == vc[CHOOSE i \in DOMAIN vc : Eq(h, vc[i].k, x)].v
\* (vcache[u] for u in ops): [h, vals, ok]; ok = FALSE is a KeyError
RECURSIVE LookupAll(_, _, _, _, _)
LookupAll(h, vc, ops, i, acc) ==
  IF i > Len(ops) THEN [h |-> h, vals |-> acc, ok |-> TRUE]
  ELSE IF ~Found(h, Keys(vc), ops[i]) THEN [h |-> h, vals |-> acc, ok |-> FALSE]
  ELSE LookupAll(Probe(h, Keys(vc), ops[i]), vc, ops, i + 1, Append(acc, ValOf(vc, h, ops[i])))

\* MultiFunction.reuse_if_untouched(o, *ops): `a is b` on zip(o.ufl_operands, ops)
ReuseIfUntouched(h, v, args) ==
  LET m == IF Len(args) < Len(h[v].ops) THEN Len(args) ELSE Len(h[v].ops) IN
  IF \A i \in 1..m : h[v].ops[i] = args[i]
  THEN [h |-> h, r |-> v]
  ELSE [h |-> Append(h, [lab |-> h[v].lab, ops |-> args]), r |-> Len(h) + 1]

\* the handler tables (mirrored by MultiFunction subclasses in vf/checks/c19.py)
Handler(table, h, v, args) ==
  LET l == h[v].lab IN
  CASE table = "reuse" -> ReuseIfUntouched(h, v, args)
    [] table \in {"rename", "renamenc"} ->
         IF l = LabRenFrom THEN [h |-> h, r |-> ConstRen]
         ELSE IF l < 10 THEN [h |-> h, r |-> v]
         ELSE ReuseIfUntouched(h, v, args)
    [] table \in {"const", "constcut"} ->
         IF l = CutType THEN [h |-> h, r |-> ConstZ] ELSE ReuseIfUntouched(h, v, args)

\* One iteration of `for v in traversal(expression)`: the body runs while the generator is
\* suspended at its `yield`; asking for the next element then lets the generator run the statements
\* after the `yield` (AfterYield) before it loops again.
Body ==
  /\ pc = "body"
  /\ steps' = steps + 1
  /\ LET v == cur IN
     IF Found(heap, Keys(vcache), v)
     THEN \* if v in vcache: continue
          LET a == AfterYield(Trav, Probe(heap, Keys(vcache), v), visited, lifo, v) IN
          /\ heap' = a.h /\ visited' = a.vis /\ lifo' = a.lifo /\ pc' = "loop"
          /\ UNCHANGED <<vcache, rcache, calls>>
     ELSE LET lk == IF IsCut(heap, v) THEN [h |-> heap, vals |-> <<>>, ok |-> TRUE]
                    ELSE LookupAll(heap, vcache, heap[v].ops, 1, <<>>) IN
          IF ~lk.ok
          THEN /\ pc' = "KeyError" /\ UNCHANGED <<heap, visited, lifo, vcache, rcache, calls>>
          ELSE LET hr == Handler(J.table, lk.h, v, lk.vals)
                   hit == J.compress /\ Found(hr.h, rcache, hr.r)
                   \* r2 = rcache.get(r)
                   r2 == IF hit THEN Stored(hr.h, rcache, hr.r) ELSE hr.r
                   h2 == IF J.compress THEN Probe(hr.h, rcache, hr.r) ELSE hr.h
                   a  == AfterYield(Trav, h2, visited, lifo, v)
               IN
               /\ heap' = a.h /\ visited' = a.vis /\ lifo' = a.lifo
               /\ rcache' = IF J.compress /\ ~hit THEN rcache \cup {hr.r} ELSE rcache
               /\ vcache' = Append(vcache, [k |-> v, v |-> r2])
               /\ calls' = Append(calls, <<v, lk.vals, hr.r>>)
               /\ pc' = "loop"
  /\ UNCHANGED <<dag, job, out, cur, ei, callno, res, hashed, results, jrec, stk>>

\* return [vcache[expression] for expression in expressions]
MapRet ==
  /\ pc = "mapret"
  /\ steps' = steps + 1
  /\ LET lk == LookupAll(heap, vcache, Exprs, 1, <<>>) IN
     IF ~lk.ok THEN pc' = "KeyError" /\ UNCHANGED <<heap, res, callno, visited, ei>>
     ELSE /\ heap' = lk.h /\ res' = res \o lk.vals
          /\ IF callno < NCalls(J.mode)
             THEN \* the next call (same vcache and rcache): visited = set(); for expression in ...
                  callno' = callno + 1 /\ visited' = {} /\ ei' = 1 /\ pc' = "mapfor"
             ELSE pc' = "jobdone" /\ UNCHANGED <<callno, visited, ei>>
  /\ UNCHANGED <<dag, job, lifo, out, cur, vcache, rcache, calls, hashed, results, jrec, stk>>

\* ---- DAGTraverser: memoised recursion with keyword arguments ----
\* A context (the **kwargs of one call) is a sequence of <<name, value>> pairs in the order of the
\* Python dict; names are KA, KB ("ka", "kb" in vf/checks/c19.py), values are small naturals.
KA == 1
KB == 2
KwHas(kw, nm) == \E i \in DOMAIN kw : kw[i][1] = nm
KwGet(kw, nm) == IF KwHas(kw, nm) THEN kw[CHOOSE i \in DOMAIN kw : kw[i][1] = nm][2] ELSE 0   \* kw.get(nm, 0)
\* {**kw, nm: v}: an existing name keeps its position
KwUpd(kw, nm, v) == IF KwHas(kw, nm) THEN [i \in DOMAIN kw |-> IF kw[i][1] = nm THEN <<nm, v>> ELSE kw[i]]
                    ELSE Append(kw, <<nm, v>>)

\* The rule tables (mirrored by DAGTraverser subclasses in vf/checks/c19.py).  A rule is given by the
\* operand positions it passes to self(...), in call order, the keyword arguments of each of those
\* calls, and what it builds from the processed operands.
\*   all tables  terminal (label l): a terminal labelled LeafEnc(l, ka, kb); itself when ka = kb = 0
\*   kwset       ExprList: reuse_if_untouched(o, **kwargs);
\*               ExprMapping: operand 1, 3, .. with ONLY ka=1, operand 2, 4, .. with ONLY kb=1
\*   kwadd       ExprList: @postorder rule, kwargs passed on;
\*               ExprMapping: odd operands with {**kwargs, ka: ka+1}, even ones with {**kwargs, kb: kb+1}
\*   kwfirst     ExprList: @postorder_only_children([0]) rule (the other operands are kept as they are);
\*               ExprMapping of k operands: operand i with ka=i, kb=k+1-i
KwChildren(table, lab, k) ==
  IF table = "kwfirst" /\ lab = 10 THEN <<1>> ELSE [i \in 1..k |-> i]
KwChild(table, lab, kw, i, k) ==
  IF lab # CutType THEN kw
  ELSE CASE table = "kwset"   -> IF i % 2 = 1 THEN << <<KA, 1>> >> ELSE << <<KB, 1>> >>
         [] table = "kwadd"   -> IF i % 2 = 1 THEN KwUpd(kw, KA, KwGet(kw, KA) + 1)
                                               ELSE KwUpd(kw, KB, KwGet(kw, KB) + 1)
         [] table = "kwfirst" -> << <<KA, i>>, <<KB, k + 1 - i>> >>
LeafEnc(l, kw) == IF KwGet(kw, KA) = 0 /\ KwGet(kw, KB) = 0 THEN l
                  ELSE 10000 * l + 100 * KwGet(kw, KA) + KwGet(kw, KB)

\* DAGTraverser.reuse_if_untouched and the rules of c19.py compare with `==`:
\* all(nc == c for nc, c in zip(new, o.ufl_operands))
ReuseIfEqual(h, v, args) ==
  IF \A i \in DOMAIN args : Eq(h, h[v].ops[i], args[i])
  THEN [h |-> h, r |-> v]
  ELSE [h |-> Append(h, [lab |-> h[v].lab, ops |-> args]), r |-> Len(h) + 1]

\* what the rule for node v returns once the operands it asked for are processed: [h, r]
KwCombine(table, h, v, kw, vals) ==
  LET l == h[v].lab IN
  IF l < 10
  THEN IF LeafEnc(l, kw) = l THEN [h |-> h, r |-> v]
       ELSE [h |-> Append(h, [lab |-> LeafEnc(l, kw), ops |-> <<>>]), r |-> Len(h) + 1]
  ELSE ReuseIfEqual(h, v, IF table = "kwfirst" /\ l = 10
                          THEN <<vals[1]>> \o SubSeq(h[v].ops, 2, Len(h[v].ops)) ELSE vals)

\* the memoisation key: cache_key = (node, tuple((k, v) for k, v in kwargs.items())).
\* J.key # "full": deliberately weakened keys (not bound to the code, see InvDt and c19.py)
KeyOf(key, kw) ==
  CASE key = "full"      -> kw
    [] key = "values"    -> [i \in DOMAIN kw |-> <<0, kw[i][2]>>]       \* tuple(kwargs.values())
    [] key = "names"     -> [i \in DOMAIN kw |-> <<kw[i][1], 0>>]       \* tuple(kwargs)
    [] key = "node"      -> <<>>                                        \* node alone
    [] key = "valsorted" -> LET s == SortSeq([i \in DOMAIN kw |-> kw[i][2]], LAMBDA a, b : a < b)
                            IN [i \in DOMAIN s |-> <<0, s[i]>>]         \* tuple(sorted(kwargs.values()))
\* self._visited_cache[cache_key]: dict lookup by == on (node, context).  The identity side effect
\* of a successful == (Dagify) is not carried for these jobs: their observables are structural.
DtHits(vc, h, x, ck) == {j \in DOMAIN vc : vc[j].c = ck /\ Eq(h, vc[j].k, x)}
DtVal(vc, h, x, ck)  == vc[CHOOSE j \in DtHits(vc, h, x, ck) : TRUE].v

\* the expressions the traverser is applied to, and the keyword arguments of those top-level calls
DtExprs == IF N = 1 THEN <<1, 1>> ELSE <<N - 1, N>>
TopKw(top, i) ==
  CASE top = 0 -> <<>>
    [] top = 1 -> IF i = 1 THEN << <<KB, 1>> >> ELSE << <<KA, 1>> >>
    [] top = 2 -> IF i = 1 THEN << <<KA, 1>>, <<KB, 2>> >> ELSE << <<KB, 2>>, <<KA, 1>> >>
    [] top = 3 -> IF i = 1 THEN << <<KA, 2>>, <<KB, 1>> >> ELSE << <<KA, 1>>, <<KB, 2>> >>

\* `for e, kw in zip(exprs, top-level kwargs): res.append(traverser(e, **kw))`.  Mode "reuse": one
\* traverser object; "shared": one object per expression, all given the same visited_cache and
\* result_cache dicts; "fresh": one object per expression with its own caches.
DtFor ==
  /\ pc = "dtfor"
  /\ steps' = steps + 1
  /\ IF ei <= Len(DtExprs)
     THEN LET x  == DtExprs[ei]
              kw == TopKw(J.top, ei)
              new == J.mode = "fresh" /\ ei > 1
              vc == IF new THEN <<>> ELSE vcache
              rc == IF new THEN {} ELSE rcache
          IN
          /\ vcache' = vc /\ rcache' = rc
          /\ IF DtHits(vc, heap, x, KeyOf(J.key, kw)) # {}
             THEN /\ res' = Append(res, DtVal(vc, heap, x, KeyOf(J.key, kw))) /\ ei' = ei + 1
                  /\ UNCHANGED <<stk, pc>>
             ELSE /\ stk' = <<[e |-> x, kw |-> kw, i |-> 1, vals |-> <<>>]>> /\ pc' = "dtrun"
                  /\ UNCHANGED <<res, ei>>
     ELSE pc' = "jobdone" /\ UNCHANGED <<vcache, rcache, stk, res, ei>>
  /\ UNCHANGED <<dag, heap, job, lifo, visited, out, cur, calls, callno, hashed, results, jrec>>

\* The rule on top of the call stack either makes its next call self(operand, **kwargs) -- a cache
\* hit hands the stored value back at once, a miss enters `process` for the operand (new frame) --
\* or, all its calls made, returns: __call__ compresses the result, stores it under the key and
\* returns it to the rule below (or to the top level).
DtStep ==
  /\ pc = "dtrun"
  /\ steps' = steps + 1
  /\ LET f    == Last(stk)
         l    == heap[f.e].lab
         k    == Len(heap[f.e].ops)
         todo == KwChildren(J.table, l, k)
     IN
     IF f.i <= Len(todo)
     THEN LET p   == todo[f.i]
              x   == heap[f.e].ops[p]
              ckw == KwChild(J.table, l, f.kw, p, k)
              ck  == KeyOf(J.key, ckw)
          IN
          /\ IF DtHits(vcache, heap, x, ck) # {}
             THEN stk' = [stk EXCEPT ![Len(stk)] =
                            [f EXCEPT !.i = f.i + 1, !.vals = Append(f.vals, DtVal(vcache, heap, x, ck))]]
             ELSE stk' = Append(stk, [e |-> x, kw |-> ckw, i |-> 1, vals |-> <<>>])
          /\ UNCHANGED <<heap, vcache, rcache, calls, res, ei, pc>>
     ELSE LET hr  == KwCombine(J.table, heap, f.e, f.kw, f.vals)
              hit == J.compress /\ Found(hr.h, rcache, hr.r)
              \* result = self._result_cache[result]  /  self._result_cache[result] = result
              r2  == IF hit THEN Stored(hr.h, rcache, hr.r) ELSE hr.r
              below == Front(stk)
          IN
          /\ heap' = hr.h
          /\ rcache' = IF J.compress /\ ~hit THEN rcache \cup {hr.r} ELSE rcache
          /\ vcache' = Append(vcache, [k |-> f.e, c |-> KeyOf(J.key, f.kw), v |-> r2])
          /\ calls' = Append(calls, <<f.e, f.kw, hr.r>>)
          /\ IF below = <<>>
             THEN stk' = <<>> /\ res' = Append(res, r2) /\ ei' = ei + 1 /\ pc' = "dtfor"
             ELSE /\ stk' = [below EXCEPT ![Len(below)] =
                              [e |-> Last(below).e, kw |-> Last(below).kw, i |-> Last(below).i + 1,
                               vals |-> Append(Last(below).vals, r2)]]
                  /\ UNCHANGED <<res, ei, pc>>
  /\ UNCHANGED <<dag, job, lifo, visited, out, cur, callno, hashed, results, jrec>>

\* ---- bookkeeping between jobs ----
JobDone ==
  /\ pc = "jobdone"
  /\ results' = Append(results,
        [out |-> out,
         \* traverse_terminals / traverse_unique_terminals: the same generator, filtered
         leaves |-> IF J.fn \in {"pre", "upre"} THEN SelectSeq(out, LAMBDA x : IsLeaf(dag, x)) ELSE <<>>,
         res |-> res,
         \* dt: <<node, context, term of what the rule returned>> in the order the rules return
         calls |-> IF J.fn = "dt"
                   THEN [i \in DOMAIN calls |-> <<calls[i][1], calls[i][2], Term(heap, calls[i][3])>>]
                   ELSE calls,
         rterms |-> [i \in 1..Len(res) |-> Term(heap, res[i])],
         fin |-> [n \in 1..N |-> heap[n].ops]])
  /\ heap' = FreshHeap(dag)
  /\ job' = job + 1
  /\ pc' = IF job = Len(Jobs) THEN "finish" ELSE "start"
  /\ lifo' = <<>> /\ visited' = {} /\ out' = <<>> /\ cur' = 0
  /\ vcache' = <<>> /\ rcache' = {} /\ calls' = <<>> /\ ei' = 0 /\ callno' = 0 /\ res' = <<>>
  /\ hashed' = {} /\ steps' = 0 /\ stk' = <<>>
  /\ jrec' = IF job = Len(Jobs) THEN jrec ELSE Jobs[job + 1]
  /\ UNCHANGED dag

Finish ==
  /\ pc = "finish"
  /\ pc' = "done"
  /\ UNCHANGED <<dag, heap, job, lifo, visited, out, cur, vcache, rcache, calls, ei, callno, res,
                 hashed, results, steps, jrec, stk>>
  /\ Emit => PrintT(ToJson([dag |-> dag, results |-> results]))

Done == pc \in {"done", "skipped"} /\ UNCHANGED vars

Next == AddNode \/ Prune \/ Commit \/ StartJob \/ MapFor \/ Loop \/ Body \/ MapRet
        \/ DtFor \/ DtStep \/ JobDone \/ Finish \/ Done
Spec == Init /\ [][Next]_vars /\ WF_vars(Next)

----------------------------------------------------------------------------
(* The properties.  Reference (recursive, tree) definitions on the PRISTINE DAG `dag`. *)
Ops(n) == dag[n].ops
Lab(n) == dag[n].lab
Cls(n) == Term(dag, n)            \* the structural class of an input node
ROps(n) == Reverse(Ops(n))

\* pre_traversal pushes the operands in order and pops the last one first; post_traversal and the
\* cutoff variants work on reversed(operands): the as-coded sibling order is right-to-left.  The
\* property only fixes parent/child order, which is checked separately below.
RECURSIVE PreTree(_)
PreTree(n) == <<n>> \o Flatten([i \in 1..Len(Ops(n)) |-> PreTree(ROps(n)[i])])
RECURSIVE PostTree(_)
PostTree(n) == Flatten([i \in 1..Len(Ops(n)) |-> PostTree(ROps(n)[i])]) \o <<n>>
RECURSIVE CutPostTree(_)
CutPostTree(n) == IF Lab(n) = CutType THEN <<n>>
                  ELSE Flatten([i \in 1..Len(Ops(n)) |-> CutPostTree(ROps(n)[i])]) \o <<n>>

\* depth-first search with a set of visited CLASSES, a node is marked when it is completed;
\* rev: operands right-to-left; cut: do not descend below CutType nodes.   [out, vis]
RECURSIVE UFold(_, _, _, _, _, _)
UFold(n, i, acc, vis, rev, cut) ==
  LET os == IF rev THEN ROps(n) ELSE Ops(n) IN
  IF (cut /\ Lab(n) = CutType) \/ i > Len(os)
  THEN [out |-> Append(acc, n), vis |-> vis \cup {Cls(n)}]
  ELSE IF Cls(os[i]) \in vis THEN UFold(n, i + 1, acc, vis, rev, cut)
  ELSE LET r == UFold(os[i], 1, <<>>, vis, rev, cut) IN
       UFold(n, i + 1, acc \o r.out, r.vis, rev, cut)
UPostRec(n)    == UFold(n, 1, <<>>, {}, FALSE, FALSE).out
CutUPostRec(n) == UFold(n, 1, <<>>, {}, TRUE, TRUE).out

RECURSIVE Desc(_)
Desc(n) == {n} \cup UNION {Desc(Ops(n)[i]) : i \in DOMAIN Ops(n)}
RECURSIVE CutDesc(_)
CutDesc(n) == {n} \cup (IF Lab(n) = CutType THEN {} ELSE UNION {CutDesc(Ops(n)[i]) : i \in DOMAIN Ops(n)})
RECURSIVE NPaths(_, _)
NPaths(n, m) == IF n = m THEN 1 ELSE SumSeq([i \in 1..Len(Ops(n)) |-> NPaths(Ops(n)[i], m)])
RECURSIVE TreeSize(_)
TreeSize(n) == 1 + SumSeq([i \in 1..Len(Ops(n)) |-> TreeSize(Ops(n)[i])])
Count(s, x) == Cardinality({i \in DOMAIN s : s[i] = x})
ClsSet(S) == {Cls(m) : m \in S}
DistinctClasses(s) == \A i, j \in DOMAIN s : i # j => Cls(s[i]) # Cls(s[j])

\* applying a handler table recursively to the TREE
RECURSIVE RecApply(_, _)
RecApply(table, n) ==
  LET sub == [i \in 1..Len(Ops(n)) |-> RecApply(table, Ops(n)[i])] IN
  CASE table = "reuse" -> <<Lab(n), sub>>
    [] table \in {"rename", "renamenc"} ->
         IF Lab(n) = LabRenFrom THEN <<LabRenTo, <<>>>> ELSE <<Lab(n), sub>>
    [] table \in {"const", "constcut"} ->
         IF Lab(n) = CutType THEN <<LabConst, <<>>>> ELSE <<Lab(n), sub>>

\* applying a rule table with keyword arguments recursively to the TREE: the context travels down
\* the tree, nothing is remembered
RECURSIVE RecApplyKw(_, _, _)
RecApplyKw(table, n, kw) ==
  IF Lab(n) < 10 THEN <<LeafEnc(Lab(n), kw), <<>>>>
  ELSE LET k == Len(Ops(n)) IN
       <<Lab(n), [i \in 1..k |-> IF i \in Range(KwChildren(table, Lab(n), k))
                                 THEN RecApplyKw(table, Ops(n)[i], KwChild(table, Lab(n), kw, i, k))
                                 ELSE Cls(Ops(n)[i])]>>

Working == pc \in {"start", "mapfor", "loop", "body", "mapret", "dtfor", "dtrun", "jobdone", "KeyError"}
AtEnd(f) == pc = "jobdone" /\ J.fn = f

InvPre ==
  AtEnd("pre") =>
    /\ out = PreTree(N)
    /\ \A m \in 1..N : Count(out, m) = IF m \in Desc(N) THEN NPaths(N, m) ELSE 0
    /\ \A i \in 2..Len(out) : \E j \in 1..(i - 1) : out[i] \in Range(Ops(out[j]))
InvPost ==
  AtEnd("post") =>
    /\ out = PostTree(N)
    /\ \A m \in 1..N : Count(out, m) = IF m \in Desc(N) THEN NPaths(N, m) ELSE 0
    /\ \A i \in DOMAIN out : \A op \in Range(Ops(out[i])) : \E j \in 1..(i - 1) : out[j] = op
InvCutPost ==
  AtEnd("cutpost") =>
    /\ out = CutPostTree(N)
    /\ Range(out) = CutDesc(N)
    /\ \A i \in DOMAIN out : Lab(out[i]) # CutType =>
          \A op \in Range(Ops(out[i])) : \E j \in 1..(i - 1) : out[j] = op
InvUPre ==
  AtEnd("upre") =>
    /\ DistinctClasses(out)
    /\ ClsSet(Range(out)) = ClsSet(Desc(N))
    /\ out[1] = N
    /\ \A i \in 2..Len(out) : \E j \in 1..(i - 1) : Cls(out[i]) \in ClsSet(Range(Ops(out[j])))
InvUPost ==
  AtEnd("upost") =>
    /\ out = UPostRec(N)
    /\ DistinctClasses(out)
    /\ ClsSet(Range(out)) = ClsSet(Desc(N))
    /\ \A i \in DOMAIN out : \A op \in Range(Ops(out[i])) : \E j \in 1..(i - 1) : Cls(out[j]) = Cls(op)
InvCutUPost ==
  AtEnd("cutupost") =>
    /\ out = CutUPostRec(N)
    /\ DistinctClasses(out)
    /\ ClsSet(Range(out)) = ClsSet(CutDesc(N))
    /\ \A i \in DOMAIN out : Lab(out[i]) # CutType =>
          \A op \in Range(Ops(out[i])) : \E j \in 1..(i - 1) : Cls(out[j]) = Cls(op)
\* cutoff variants never descend below a cutoff node: nothing is ever stacked on top of one
InvNeverBelowCut ==
  Working => \A i \in 1..(Len(lifo) - 1) : ~IsCut(heap, lifo[i].e)
InvHash ==
  (Working /\ J.fn = "hash") =>
    /\ \A e \in hashed : Range(heap[e].ops) \subseteq hashed     \* operands are hashed before users
    /\ Len(out) = Cardinality(hashed) /\ Range(out) = hashed   \* every hash is computed once
    /\ (pc = "jobdone" => hashed = Desc(N))                    \* and every node gets one
AllMapExprs(mode) == IF mode = "calls" THEN MapExprs(mode, 1) \o MapExprs(mode, 2) ELSE MapExprs(mode, 1)
InvMap ==
  AtEnd("map") =>
    /\ Len(res) = Len(AllMapExprs(J.mode))
    /\ \A i \in DOMAIN res : Term(heap, res[i]) = RecApply(J.table, AllMapExprs(J.mode)[i])
InvMapCache ==
  (Working /\ J.fn = "map") =>
    /\ \A i \in DOMAIN vcache : /\ vcache[i].k \in 1..N
                                /\ Term(heap, vcache[i].v) = RecApply(J.table, vcache[i].k)
    \* the handler runs once per structurally distinct node
    /\ \A i, j \in DOMAIN calls : i # j => Cls(calls[i][1]) # Cls(calls[j][1])
    /\ Len(calls) = Len(vcache)
    \* compress: structurally equal results are one object
    /\ J.compress => \A i, j \in DOMAIN vcache :
                        Eq(heap, vcache[i].v, vcache[j].v) => vcache[i].v = vcache[j].v
\* DAGTraverser with keyword arguments: the memoised result is the result of the tree recursion
InvDt ==
  (AtEnd("dt") /\ J.key = "full") =>
    /\ Len(res) = Len(DtExprs)
    /\ \A i \in DOMAIN res : Term(heap, res[i]) = RecApplyKw(J.table, DtExprs[i], TopKw(J.top, i))
InvDtCache ==
  (Working /\ J.fn = "dt" /\ J.key = "full") =>
    \* every cache entry is keyed by (node, full context) and holds the tree-recursive result
    /\ \A i \in DOMAIN vcache : /\ vcache[i].k \in 1..N
                                /\ Term(heap, vcache[i].v) = RecApplyKw(J.table, vcache[i].k, vcache[i].c)
    \* a rule runs once per (structurally distinct node, context)
    /\ \A i, j \in DOMAIN vcache :
          i # j => ~(vcache[i].c = vcache[j].c /\ Cls(vcache[i].k) = Cls(vcache[j].k))
    /\ J.mode # "fresh" => Len(calls) = Len(vcache)
    /\ J.compress => \A i, j \in DOMAIN vcache :
                        Eq(heap, vcache[i].v, vcache[j].v) => vcache[i].v = vcache[j].v
    \* the running rules: results collected so far are those of the tree recursion
    /\ \A d \in DOMAIN stk :
          LET f == stk[d]
              k == Len(Ops(f.e))
              todo == KwChildren(J.table, Lab(f.e), k) IN
          /\ f.e \in 1..N /\ f.i \in 1..(Len(todo) + 1) /\ Len(f.vals) = f.i - 1
          /\ \A m \in DOMAIN f.vals :
                Term(heap, f.vals[m]) =
                  RecApplyKw(J.table, Ops(f.e)[todo[m]], KwChild(J.table, Lab(f.e), f.kw, todo[m], k))
InvNoKeyError == pc # "KeyError"
\* `==` never changes the value of an object, and the sets stay keyed by ==
InvStructure ==
  pc \notin {"build", "skipped"} =>
  /\ \A n \in 1..N : Term(heap, n) = Term(dag, n)
  /\ \A a, b \in visited : Eq(heap, a, b) => a = b
  /\ \A a, b \in rcache : Eq(heap, a, b) => a = b
InvSteps == Working => steps <= IF J.fn = "dt"
                                THEN 2 * (TreeSize(N) + TreeSize(IF N = 1 THEN 1 ELSE N - 1)) + 6
                                ELSE 8 * TreeSize(N) + 20
InvType ==
  /\ pc \in {"build", "skipped", "start", "mapfor", "loop", "body", "mapret", "dtfor", "dtrun", "jobdone",
            "KeyError", "finish", "done"}
  /\ (stk # <<>>) = (pc = "dtrun")
  /\ job \in 1..(Len(Jobs) + 1)
  /\ visited \subseteq 1..Len(heap) /\ rcache \subseteq 1..Len(heap) /\ hashed \subseteq 1..N
  /\ \A i \in DOMAIN lifo : lifo[i].e \in 1..N
  /\ Len(results) = job - 1

\* with InvSteps (no cycles) and deadlock checking this is termination; also checked as a
\* temporal property on small configurations
Termination == <>(pc \in {"done", "skipped"})
============================================================================
