----------------------------- MODULE ArityRules -----------------------------
(***************************************************************************)
(* C14.  ufl/algorithms/check_arities.py transcribed AS CODED: one operator *)
(* per handler of `ArityChecker`, the dispatch of handlers over the UFL     *)
(* class hierarchy, and the final test of `check_integrand_arity`.          *)
(*                                                                         *)
(* An ARITY is what a handler returns or the fact that it raised            *)
(* ArityMismatch:   [rej |-> BOOLEAN, s |-> set of <<number, conj, part>>,  *)
(*                   m |-> set of arguments <<number, part>> mentioned      *)
(*                         below]                                           *)
(* An Argument object is identified by <<number, part>> (part = -1 for      *)
(* part None: the arguments of one number either all carry a part - block   *)
(* systems - or none does); several handlers look at the NUMBER only.       *)
(* `s` is the tuple of (Argument, conjugated?) pairs of the code, as a set  *)
(* (the code keeps these tuples duplicate free and sorted by (number,       *)
(* part), the order-sensitive comparisons `a != b` in `sum` and             *)
(* `conditional` therefore compare sets; a tuple holding one argument with  *)
(* both conjugation states is rejected by every consumer and by the final   *)
(* test).  conj is 0 / 1.                                                   *)
(* `m` is what `traverse_unique_terminals` finds (used by the handler       *)
(* `nonlinear_operator`, which does not visit operands).  An exception      *)
(* raised below propagates: see Lift.                                       *)
(*                                                                         *)
(* The module has no constants: the mode (complex or real) and the rule    *)
(* used for list tensors ("as_coded" = the pinned code, "intended" = the   *)
(* rule the handler's own comment describes: components without arguments  *)
(* must be the literal zero, exactly as `conditional` demands) are          *)
(* parameters.  Used by Arity.tla (the state machine that builds terms and *)
(* knows what they MEAN) and by ArityTrace.tla (validation of the verdicts *)
(* of the real checker on real lowered integrands).                        *)
(***************************************************************************)
EXTENDS Integers, Sequences, FiniteSets

Rej(m)   == [rej |-> TRUE, s |-> {}, m |-> m]
Ok(s, m) == [rej |-> FALSE, s |-> s, m |-> m]
Nums(s)  == {p[1] : p \in s}               \* x[0].number() for x in s
ArgsOf(s) == {<<p[1], p[3]>> : p \in s}     \* {x[0] for x in s}: the Argument objects
NoPart == 0 - 1                             \* Argument.part() is None
SeqRange(q) == {q[k] : k \in DOMAIN q}
Mentions(ops) == UNION {ops[k].m : k \in DOMAIN ops}
\* an ArityMismatch raised while an operand was visited propagates through every handler that
\* visits its operands (map_expr_dag is a post-order traversal)
Lift(ops, r) == IF \E k \in DOMAIN ops : ops[k].rej THEN Rej(Mentions(ops)) ELSE r

-----------------------------------------------------------------------------
(* The handlers, in the order of the class body *)

\* def terminal(self, o): return self._et
H_terminal == Ok({}, {})

\* def argument(self, o): return ((o, False),)         o = Argument(V, n, part p)
H_argument(n, p) == Ok({<<n, 0, p>>}, {<<n, p>>})

\* def nonlinear_operator(self, o): no operands are visited; raises iff an Argument is among the
\* terminals of o.   expr = nonlinear_operator
H_nonlinear_operator(ops) ==
  IF Mentions(ops) # {} THEN Rej(Mentions(ops)) ELSE Ok({}, {})

\* def sum(self, o, a, b): if a != b: raise;  return a
H_sum(a, b) ==
  Lift(<<a, b>>, IF a.s # b.s THEN Rej(a.m \cup b.m) ELSE Ok(a.s, a.m \cup b.m))

\* def division(self, o, a, b): if b: raise;  return a
H_division(a, b) ==
  Lift(<<a, b>>, IF b.s # {} THEN Rej(a.m \cup b.m) ELSE Ok(a.s, a.m \cup b.m))

\* def product(self, o, a, b)
H_product(a, b) ==
  LET m == a.m \cup b.m IN
  Lift(<<a, b>>,
    IF a.s # {} /\ b.s # {} THEN
      \* overlapping argument NUMBERS ("test*test, trial*trial, even for different parts in a
      \* block system")
      IF Nums(a.s) \cap Nums(b.s) # {} THEN Rej(m)
      ELSE LET c == a.s \cup b.s IN                     \* set(a + b)
           IF Cardinality(c) # Cardinality(a.s) + Cardinality(b.s)
              \/ Cardinality(c) # Cardinality(ArgsOf(c)) \* len(c) != len({x[0] for x in c})
           THEN Rej(m) ELSE Ok(c, m)
    ELSE IF a.s # {} THEN Ok(a.s, m) ELSE Ok(b.s, m))

\* def conj(self, o, a): return tuple((a_[0], not a_[1]) for a_ in a)
H_conj(a) == Lift(<<a>>, Ok({<<p[1], 1 - p[2], p[3]>> : p \in a.s}, a.m))

\* inner = dot: product(a, conj(b));  outer: product(conj(a), b)
H_inner(a, b) == H_product(a, H_conj(b))
H_dot(a, b)   == H_inner(a, b)
H_outer(a, b) == H_product(H_conj(a), b)

\* def linear_operator(self, o, a): return a
\* positive_restricted, negative_restricted, cell_avg, facet_avg, grad, reference_grad,
\* reference_value
H_linear_operator(a) == a

\* def variable(self, o, f, a): return f
H_variable(f, l) == Lift(<<f, l>>, f)

\* def conditional(self, o, c, a, b);  tz / fz: the true / false operand is an instance of Zero
H_conditional(c, a, b, tz, fz) ==
  LET m == c.m \cup a.m \cup b.m IN
  Lift(<<c, a, b>>,
    IF c.s # {} THEN Rej(m)
    ELSE IF a.s # {} /\ fz THEN Ok(a.s, m)
    ELSE IF b.s # {} /\ tz THEN Ok(b.s, m)
    ELSE IF a.s = b.s THEN Ok(a.s, m)
    ELSE Rej(m))

\* def linear_indexed_type(self, o, a, i): return a      indexed, index_sum, component_tensor
H_linear_indexed_type(a, i) == Lift(<<a, i>>, Ok(a.s, a.m))

\* def list_tensor(self, o, *ops);  zs[k]: operand k is an instance of Zero
\* The components must depend on the same argument NUMBERS ("ignoring parts": <v_part0, v_part1>
\* is the test function of a block system); the result is the union of the components' tuples.
\* as coded: components WITHOUT arguments are ignored whatever they are.
\* intended: "Allow e.g. <v[0], 0, v[1]> but not <v[0], u[0]>": a component without arguments
\*           must be the literal zero (the rule `conditional` applies to its branches).
H_list_tensor(rule, ops, zs) ==
  LET args == UNION {ops[k].s : k \in DOMAIN ops}
      m == Mentions(ops)
      numbers == {Nums(ops[k].s) : k \in DOMAIN ops} \ {{}} IN
  Lift(ops,
    IF args # {} THEN
      IF Cardinality(numbers) > 1 THEN Rej(m)
      ELSE IF rule = "intended" /\ \E k \in DOMAIN ops : ops[k].s = {} /\ ~zs[k] THEN Rej(m)
      ELSE Ok(args, m)
    ELSE Ok({}, m))

-----------------------------------------------------------------------------
(* check_integrand_arity(expr, arguments, complex_mode): A is the arity of expr, formargs the *)
(* set of `arguments` (pairs <<number, part>>).                                              *)
\* args = tuple(a[0] for a in arg_tuples); if args != arguments: raise
ExactlyFormArgs(A, formargs) ==
  Cardinality(A.s) = Cardinality(ArgsOf(A.s)) /\ ArgsOf(A.s) = formargs
\* complex mode: the test function (number 0, every part of it) conjugated, every other argument
\* (number 1, 2, ...) not
ConjDiscipline(A) == \A p \in A.s : IF p[1] = 0 THEN p[2] = 1 ELSE p[2] = 0
Accepted(A, formargs, complex) ==
  ~A.rej /\ ExactlyFormArgs(A, formargs) /\ (complex => ConjDiscipline(A))

-----------------------------------------------------------------------------
(* Dispatch over the class hierarchy, as MultiFunction does it: the handler of a node is the   *)
(* method named after the nearest class in the node's MRO for which the ArityChecker class     *)
(* body defines one (`terminal` for Terminal, `expr` = nonlinear_operator for Expr).           *)
(* A lowered term is a sequence of nodes, operands before users:                              *)
(*   [h |-> handler names along the MRO of the node's class, nearest first (ends in "expr"),  *)
(*    n |-> argument number (or -1), p |-> its part (-1: None), z |-> 1 iff instance of Zero,  *)
(*    a |-> sequence of operand positions]                                                    *)
LinearKinds == {"positive_restricted", "negative_restricted", "cell_avg", "facet_avg", "grad",
                "reference_grad", "reference_value"}
IndexedKinds == {"indexed", "index_sum", "component_tensor"}
Handlers == {"terminal", "argument", "expr", "sum", "division", "product", "inner", "dot", "outer",
             "conj", "variable", "conditional", "list_tensor"} \cup LinearKinds \cup IndexedKinds
Resolve(h) == h[CHOOSE j \in 1..Len(h) : h[j] \in Handlers /\ \A l \in 1..(j - 1) : h[l] \notin Handlers]

NodeArity(nd, ops, zs, rule) ==
  LET k == Resolve(nd.h) IN
  CASE k = "terminal"         -> H_terminal
    [] k = "argument"         -> H_argument(nd.n, nd.p)
    [] k = "expr"             -> H_nonlinear_operator(ops)
    [] k = "sum"              -> H_sum(ops[1], ops[2])
    [] k = "division"         -> H_division(ops[1], ops[2])
    [] k = "product"          -> H_product(ops[1], ops[2])
    [] k = "inner"            -> H_inner(ops[1], ops[2])
    [] k = "dot"              -> H_dot(ops[1], ops[2])
    [] k = "outer"            -> H_outer(ops[1], ops[2])
    [] k \in LinearKinds      -> H_linear_operator(ops[1])
    [] k = "conj"             -> H_conj(ops[1])
    [] k = "variable"         -> H_variable(ops[1], ops[2])
    [] k = "conditional"      -> H_conditional(ops[1], ops[2], ops[3], zs[2], zs[3])
    [] k \in IndexedKinds     -> H_linear_indexed_type(ops[1], ops[2])
    [] k = "list_tensor"      -> H_list_tensor(rule, ops, zs)

\* arities of all nodes of a term, left to right
RECURSIVE TermArities(_, _, _)
TermArities(nodes, acc, rule) ==
  IF Len(acc) = Len(nodes) THEN acc
  ELSE LET nd == nodes[Len(acc) + 1]
           ops == [j \in 1..Len(nd.a) |-> acc[nd.a[j]]]
           zs == [j \in 1..Len(nd.a) |-> nodes[nd.a[j]].z = 1]
       IN TermArities(nodes, Append(acc, NodeArity(nd, ops, zs, rule)), rule)
TermArity(nodes, rule) == TermArities(nodes, << >>, rule)[Len(nodes)]
=============================================================================
