----------------------------- MODULE ArityTrace -----------------------------
(***************************************************************************)
(* C14, code -> spec direction.  terms.json holds, for every integrand the  *)
(* harness pushed through the real pipeline, the DAG that was handed to     *)
(* check_integrand_arity (nodes: MRO handler names, argument number, Zero   *)
(* flag, operand positions), the form's argument numbers and the mode.      *)
(* The handlers of ArityRules.tla are evaluated on exactly that DAG; the    *)
(* verdict under both list-tensor rules is printed and compared by the      *)
(* harness with what the real checker did (accept / ArityMismatch).         *)
(***************************************************************************)
EXTENDS ArityRules, TLC, Json

Verdict(T, rule) == Accepted(TermArity(T.nodes, rule), SeqRange(T.fa), T.cm)
Out(T) == [id |-> T.id, c |-> Verdict(T, "as_coded"), i |-> Verdict(T, "intended")]
Table == LET Ts == JsonDeserialize("terms.json") IN [k \in 1..Len(Ts) |-> Out(Ts[k])]
ASSUME PrintT(ToJson(Table))

VARIABLE dummy
Init == dummy = 0
Next == UNCHANGED dummy
Spec == Init /\ [][Next]_dummy
=============================================================================
