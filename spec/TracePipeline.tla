--------------------------- MODULE TracePipeline ---------------------------
(***************************************************************************)
(* Validation of recorded executions of compute_form_data (hook H1) against *)
(* the actions of Pipeline.tla.  A trace is                                *)
(*   [opts |-> option record, ev |-> sequence of [stage, feat]]            *)
(* where ev[1] is the "entry" event (the user's form) and every further    *)
(* event is one pass reported by the code after it ran, with the feature   *)
(* set observed on the form it produced.  A trace is ACCEPTED iff          *)
(*   - the reported stages are exactly the stages Pipeline enables for the *)
(*     options, in order (no pass skipped, added, or moved);               *)
(*   - every step is a Step of Pipeline: the new feature set lies between  *)
(*     (old \ MustRemove) and (old \ MustRemove) \cup MayIntroduce;        *)
(*   - the final state satisfies Pipeline's promises for the options.      *)
(* The verdict names the first failing clause.                             *)
(***************************************************************************)
EXTENDS Pipeline, Json, IOUtils

Traces == JsonDeserialize("traces.json")

\* stages Pipeline enables for the options, in order
RECURSIVE Enabled(_, _)
Enabled(o, k) == IF k > NStages THEN << >>
                 ELSE (IF Stage(k, o)[2] THEN <<Stage(k, o)[1]>> ELSE << >>) \o Enabled(o, k + 1)

AsSet(s) == {s[i] : i \in 1..Len(s)}

FinalOk(o, f, sc) ==
  /\ "compound" \notin f
  /\ "deriv" \notin f
  /\ (~o["complex"] => "cplx" \notin f)
  /\ (o["pullbacks"] => "physarg" \notin f /\ "gradarg" \notin f)
  /\ (o["lowering"] => "geomhi" \notin f)
  /\ (o["lowering"] /\ ~o["preserve_jk"] => "jkdet" \notin f)

RECURSIVE Walk(_, _, _, _, _, _)
\* returns "ok" or the first failing clause; f = feature set before event k; raised: the call ended
\* with an exception (then the trace is a prefix and nothing is promised about the result)
Walk(o, ev, exp, k, f, raised) ==
  IF k > Len(ev)
  THEN (IF raised THEN "ok"
        ELSE IF k - 1 # Len(exp) + 1 THEN "missing-stage:" \o exp[k - 1]
        ELSE IF ~FinalOk(o, f, 0) THEN "final-promise-broken" ELSE "ok")
  ELSE IF k - 1 > Len(exp) THEN "extra-stage:" \o ev[k].stage
  ELSE IF ev[k].stage # exp[k - 1] THEN "stage-order:expected-" \o exp[k - 1] \o "-got-" \o ev[k].stage
  ELSE LET g == AsSet(ev[k].feat)
           base == f \ MustRemove(ev[k].stage, o)
       IN IF g \cap MustRemove(ev[k].stage, o) # {} THEN "not-removed-by:" \o ev[k].stage
          ELSE IF ~(g \subseteq base \cup MayIntroduce(ev[k].stage, o, f)) THEN "introduced-by:" \o ev[k].stage
          ELSE Walk(o, ev, exp, k + 1, g, raised)

Verdict(t) == IF Len(t.ev) = 0 \/ t.ev[1].stage # "entry" THEN "no-entry-event"
              ELSE Walk(t.opts, t.ev, Enabled(t.opts, 1), 2, AsSet(t.ev[1].feat), t.raised)

ASSUME PrintT(ToJson([i \in 1..Len(Traces) |-> Verdict(Traces[i])]))

\* trivial behaviour so that the module can be run by TLC (the verdicts are computed above)
TInit == opts = [n \in OptNames |-> FALSE] /\ pc = 1 /\ feat = {} /\ scaled = 0
TNext == UNCHANGED vars
=============================================================================
