------------------------------ MODULE FormOps ------------------------------
(***************************************************************************)
(* C27.  Histories of public algorithms / form operators applied to a pool  *)
(* of forms.  State: `pool`, the sequence of objects created so far (the    *)
(* initial forms, then one entry per operator application); every entry     *)
(* records the operation, the pool positions of its inputs, and the arity   *)
(* (number of form arguments) the specification predicts for the result.    *)
(* The property of the model is that history is append-only: applying an    *)
(* operator creates a new object and leaves every existing entry as it was  *)
(* (AppendOnly).  The harness replays every enumerated history on real ufl  *)
(* forms and checks after EVERY step that every object of the pool still    *)
(* has the repr, hash, signature, arguments, coefficients and integral      *)
(* metadata it had when it was created, and that the new object has the     *)
(* predicted arity.                                                         *)
(***************************************************************************)
EXTENDS Naturals, Sequences, SequencesExt, TLC, Json

CONSTANTS InitForms,   \* sequence of [name |-> STRING, ar |-> 0..2, lin |-> BOOLEAN]  (lin: affine in last arg)
          Ops,         \* enabled operations
          MaxSteps

VARIABLE pool
vars == <<pool>>

Entry(op, args, ar, kind) == [op |-> op, args |-> args, ar |-> ar, kind |-> kind]
Init == pool = [k \in 1..Len(InitForms) |-> Entry("init", <<k>>, InitForms[k].ar, "form")]

Ids == 1..Len(pool)
Room == Len(pool) < Len(InitForms) + MaxSteps
IsForm(i) == pool[i].kind = "form"
Push(e) == pool' = Append(pool, e)

\* unary form -> form operations and the arity they produce
Unary(op, i) ==
  /\ IsForm(i)
  /\ CASE op = "derivative"        -> pool[i].ar <= 1 /\ Push(Entry(op, <<i>>, pool[i].ar + 1, "form"))
       [] op = "adjoint"           -> pool[i].ar = 2 /\ Push(Entry(op, <<i>>, 2, "form"))
       [] op = "action"            -> pool[i].ar >= 1 /\ Push(Entry(op, <<i>>, pool[i].ar - 1, "form"))
       [] op = "lhs"               -> pool[i].ar = 2 /\ Push(Entry(op, <<i>>, 2, "form"))
       [] op = "rhs"               -> pool[i].ar = 2 /\ Push(Entry(op, <<i>>, 1, "form"))
       [] op = "functional"        -> Push(Entry(op, <<i>>, 0, "form"))
       [] op = "replace"           -> Push(Entry(op, <<i>>, pool[i].ar, "form"))
       [] op = "neg"               -> Push(Entry(op, <<i>>, pool[i].ar, "form"))
       [] op = "scale"             -> Push(Entry(op, <<i>>, pool[i].ar, "form"))
       [] op = "unit_scale"        -> Push(Entry(op, <<i>>, pool[i].ar, "form"))   \* 1.0 * a
       [] op = "expand_derivatives"-> Push(Entry(op, <<i>>, pool[i].ar, "form"))
       [] op = "lower"             -> Push(Entry(op, <<i>>, pool[i].ar, "form"))
       [] op = "renumber"          -> Push(Entry(op, <<i>>, pool[i].ar, "form"))
       [] op = "scaling"           -> Push(Entry(op, <<i>>, pool[i].ar, "form"))
       [] op = "restrictions"      -> Push(Entry(op, <<i>>, pool[i].ar, "form"))
       [] op = "remeasure"         -> Push(Entry(op, <<i>>, pool[i].ar, "form"))
       \* observations: produce a value, not a form
       [] op = "signature"         -> Push(Entry(op, <<i>>, 0, "value"))
       [] op = "hash"              -> Push(Entry(op, <<i>>, 0, "value"))
       [] op = "repr"              -> Push(Entry(op, <<i>>, 0, "value"))
       [] op = "form_data"         -> Push(Entry(op, <<i>>, 0, "value"))
       [] op = "form_data_opts"    -> Push(Entry(op, <<i>>, 0, "value"))
       [] op = "estimate_degree"   -> Push(Entry(op, <<i>>, 0, "value"))
       [] OTHER -> FALSE

Binary(op, i, j) ==
  /\ IsForm(i) /\ IsForm(j)
  /\ CASE op = "add" -> pool[i].ar = pool[j].ar /\ Push(Entry(op, <<i, j>>, pool[i].ar, "form"))
       [] op = "sub" -> pool[i].ar = pool[j].ar /\ Push(Entry(op, <<i, j>>, pool[i].ar, "form"))
       [] op = "eq"  -> Push(Entry(op, <<i, j>>, 0, "value"))
       [] op = "equals" -> Push(Entry(op, <<i, j>>, 0, "value"))
       [] OTHER -> FALSE

Next == /\ Room
        /\ \E op \in Ops : \E i \in Ids : Unary(op, i) \/ \E j \in Ids : Binary(op, i, j)
Spec == Init /\ [][Next]_vars

\* nothing ever rewrites history
AppendOnly == [][IsPrefix(pool, pool')]_vars
TypeOK == \A i \in Ids : pool[i].ar \in 0..3 /\ \A k \in 1..Len(pool[i].args) : pool[i].args[k] < i \/ pool[i].op = "init"

Hist == [k \in 1..(Len(pool) - Len(InitForms)) |->
          [op |-> pool[Len(InitForms) + k].op, args |-> pool[Len(InitForms) + k].args, ar |-> pool[Len(InitForms) + k].ar]]
DumpInv == Len(pool) = Len(InitForms) + MaxSteps => PrintT(ToJson(Hist))
=============================================================================
