------------------------------ MODULE UFLBuild ------------------------------
(***************************************************************************)
(* The UFL expression language as a state machine.                         *)
(*                                                                         *)
(* State:  store = the construction history: a sequence of node records,   *)
(* one per call of a public constructor / operator / algorithm.  Every     *)
(* record carries the OBSERVABLES the specification predicts for the       *)
(* object that call returns: shape `sh`, free indices with dimensions `fi` *)
(* (sorted by index name) and the denotation `val[e]` under each model     *)
(* environment e: a table from "extended components" (values of the free   *)
(* indices in fi-order, followed by the tensor component) to exact         *)
(* Gaussian rationals (module CQ).                                         *)
(*                                                                         *)
(* Actions: one per public operation; the guard is the language's          *)
(* well-formedness rule (the ValueError sites of the entry point), the     *)
(* effect appends the record.  The specification is written from the       *)
(* mathematical definition of each operation and knows nothing about UFL's *)
(* node classes or construction-time simplifications.  Algorithms (passes) *)
(* are actions whose result has the same observables as their operand.     *)
(*                                                                         *)
(* Binding: every reachable state is a legal UFL program; the harness      *)
(* (vf/replay.py) executes it through ufl's public API and compares shape, *)
(* free indices and denotation of the last node with the prediction.       *)
(***************************************************************************)
EXTENDS Integers, Sequences, FiniteSets, FiniteSetsExt, SequencesExt, TLC, Json, CQ

CONSTANTS
  Terminals,   \* sequence of [nm |-> STRING, sh |-> shape]: symbolic terminals (coefficients)
  TermVal,     \* TermVal[e][k]: value table of Terminals[k] in environment e
  NEnv,        \* number of environments
  Lits,        \* sequence of [nm |-> STRING, v |-> C]: literal scalars available as operands
  Zeros,       \* sequence of shapes: zero tensors available as operands (ufl.zero(shape))
  ZeroFi,      \* sequence of free-index lists <<<<i, dim>>, ...>> (sorted by i): scalar zeros that carry free
               \* indices, as 0*u[i]*w[j] produces them (Zero((), (i, j), (dim_i, dim_j)))
  IdxPool,     \* sequence of index names (integers >= 10), reused across scopes
  OpSet,       \* set of enabled operation names
  MaxNodes,    \* maximal number of constructed (non-initial) nodes
  MaxRank,     \* maximal rank of any constructed tensor
  MaxDim,      \* maximal axis dimension
  FinalOps,    \* operations that may only be applied as the last step (passes etc.)
  OpLevels,    \* sequence of operation sets, one per program position (<< >>: use OpSet everywhere)
  EnvDirs,     \* << >> or, per environment e, <<E, a, b>>: e is base environment E with the terminals
               \* seeded along direction a (variable s) and direction b (variable t); jets variant only
  SeedTerm,    \* "" or the name of a terminal that the environments seed along its own components
               \* (diff with respect to a coefficient)
  NDir,        \* number of directions: NSpat spatial directions followed by the flattened components of the
               \* differentiation variables (VarSizes)
  NSpat,       \* number of spatial directions (0: no spatial derivatives in this model)
  VarSizes,    \* sequence: the k-th variable that is differentiated against has VarSizes[k] components
  PipeScale,   \* PipeScale[k][e]: the factor by which option vector k of compute_form_data scales the
               \* integrand of a cell integral in environment e (|detJ| w, or 1 without integral scaling)
  ReplMaps,    \* sequence of [src |-> terminal position, sub |-> Seq(env)]: replacement maps (C21):
               \* in environment sub[e] the terminal src has the value its image has in e (0: none)
  ChainMode,   \* "off" | "loose": a new node takes the previous constructed node as an operand unless all
               \* its operands are initial nodes | "semi": unless it is a subscript of an initial node |
               \* "strict": it always does (after the first node).
               \* Prunes programs whose nodes are combined out of order.
  MiKinds,     \* subset of {"fixed", "name", "slice"}: entries allowed in the multi-index of a[...]
  DumpFinalOnly \* TRUE: only programs whose last operation is in FinalOps are handed to the replay

VARIABLE store
vars == <<store>>

Envs == 1..NEnv

-----------------------------------------------------------------------------
(* Tuples, bindings, tables *)

Tup(dims) == {t \in [1..Len(dims) -> 0..(MaxDim - 1)] : \A k \in 1..Len(dims) : t[k] < dims[k]}
FiDims(fi) == [k \in 1..Len(fi) |-> fi[k][2]]
FiIdx(fi) == {fi[k][1] : k \in 1..Len(fi)}
FiPos(fi, i) == CHOOSE k \in 1..Len(fi) : fi[k][1] = i
FiDim(fi, i) == fi[FiPos(fi, i)][2]
SortFi(S) == SetToSortSeq(S, LAMBDA x, y : x[1] < y[1])
FiSet(fi) == {fi[k] : k \in 1..Len(fi)}
\* bindings of a set of <<idx, dim>> pairs
Binds(S) == LET I == {p[1] : p \in S} IN
            {b \in [I -> 0..(MaxDim - 1)] : \A p \in S : b[p[1]] < p[2]}

\* value of node n in environment e at binding b (a function defined at least on n's free
\* indices) and component c
At(n, e, b, c) == n.val[e][[k \in 1..Len(n.fi) |-> b[n.fi[k][1]]] \o c]

\* build a table for free indices fi and shape sh from a pointwise definition F(binding, comp)
MkTab(fi, sh, F(_, _)) ==
  [t \in Tup(FiDims(fi) \o sh) |->
     F([i \in FiIdx(fi) |-> t[FiPos(fi, i)]], SubSeq(t, Len(fi) + 1, Len(t)))]

CSumSet(S, F(_)) == FoldSet(LAMBDA x, acc : CAdd(F(x), acc), C0, S)

Node(op, args, mi, nm, sh, fi, val) ==
  [op |-> op, args |-> args, mi |-> mi, nm |-> nm, sh |-> sh, fi |-> fi, val |-> val]

\* a node whose value is given pointwise, in every environment
Mk(op, args, mi, sh, fi, F(_, _, _)) ==
  Node(op, args, mi, "", sh, fi, [e \in Envs |-> MkTab(fi, sh, LAMBDA b, c : F(e, b, c))])

Rank(n) == Len(n.sh)
IsScalar(n) == n.sh = << >>
TrueScalar(n) == n.sh = << >> /\ n.fi = << >>
IsBool(n) == n.op \in {"lt", "gt", "le", "ge", "eq", "ne", "and", "or", "not"}
IsVal(n) == ~IsBool(n)

-----------------------------------------------------------------------------
(* Initial store: terminals, literals, zero tensors *)

TermNode(k) == Node("term", << >>, << >>, Terminals[k].nm, Terminals[k].sh, << >>,
                    [e \in Envs |-> TermVal[e][k]])
LitNode(k) == Node("lit", << >>, << >>, Lits[k].nm, << >>, << >>,
                   [e \in Envs |-> (<< >> :> Lits[k].v)])
ZeroNode(k) == Node("zero", << >>, Zeros[k], "", Zeros[k], << >>,
                    [e \in Envs |-> [t \in Tup(Zeros[k]) |-> C0]])
ZeroFiNode(k) == Node("zerofi", << >>, << >>, "", << >>, ZeroFi[k],
                      [e \in Envs |-> [t \in Tup(FiDims(ZeroFi[k])) |-> C0]])
InitStore == [k \in 1..Len(Terminals) |-> TermNode(k)]
             \o [k \in 1..Len(Lits) |-> LitNode(k)]
             \o [k \in 1..Len(Zeros) |-> ZeroNode(k)]
             \o [k \in 1..Len(ZeroFi) |-> ZeroFiNode(k)]
NInit == Len(Terminals) + Len(Lits) + Len(Zeros) + Len(ZeroFi)

Init == store = InitStore

Ids == 1..Len(store)
Room == Len(store) < NInit + MaxNodes
\* a "final" operation (a pass) ends the program: nothing is built on top of its result
NotFinal(a) == store[a].op \notin FinalOps
ChainOk(n) == \/ Len(store) = NInit
              \/ ChainMode = "loose" /\ \A k \in 1..Len(n.args) : n.args[k] <= NInit
              \/ ChainMode = "semi" /\ n.op = "index" /\ \A k \in 1..Len(n.args) : n.args[k] <= NInit
              \/ \E k \in 1..Len(n.args) : n.args[k] = Len(store)
Push(n) == Len(n.sh) <= MaxRank /\ (ChainMode # "off" => ChainOk(n)) /\ store' = Append(store, n)

-----------------------------------------------------------------------------
(* Arithmetic *)

\* a + b, a - b : same shape, same free indices with the same dimensions (algebra.py Sum.__new__)
AddOk(x, y) == IsVal(x) /\ IsVal(y) /\ x.sh = y.sh /\ x.fi = y.fi
DoAdd(a, b) == LET x == store[a]  y == store[b] IN
  /\ AddOk(x, y)
  /\ Push(Mk("add", <<a, b>>, << >>, x.sh, x.fi, LAMBDA e, bd, c : CAdd(At(x, e, bd, c), At(y, e, bd, c))))
DoSub(a, b) == LET x == store[a]  y == store[b] IN
  /\ AddOk(x, y)
  /\ Push(Mk("sub", <<a, b>>, << >>, x.sh, x.fi, LAMBDA e, bd, c : CSub(At(x, e, bd, c), At(y, e, bd, c))))
DoNeg(a) == LET x == store[a] IN
  /\ IsVal(x)
  /\ Push(Mk("neg", <<a>>, << >>, x.sh, x.fi, LAMBDA e, bd, c : CNeg(At(x, e, bd, c))))

\* a * b (exproperators._mult): scalar*scalar, scalar*tensor, tensor*scalar, matrix*vector,
\* matrix*matrix; an index free in both operands is summed (implicit summation); a non-scalar
\* product must not have repeated indices.
MulRep(x, y) == FiIdx(x.fi) \cap FiIdx(y.fi)
MulOk(x, y) ==
  /\ IsVal(x) /\ IsVal(y)
  /\ \A i \in MulRep(x, y) : FiDim(x.fi, i) = FiDim(y.fi, i)
  /\ \/ Rank(x) = 0 \/ Rank(y) = 0
     \/ Rank(x) = 2 /\ Rank(y) \in {1, 2} /\ x.sh[2] = y.sh[1] /\ MulRep(x, y) = {}
MulSh(x, y) == IF Rank(x) = 0 THEN y.sh ELSE IF Rank(y) = 0 THEN x.sh
               ELSE SubSeq(x.sh, 1, 1) \o SubSeq(y.sh, 2, Len(y.sh))
MulFi(x, y) == SortFi({p \in FiSet(x.fi) \cup FiSet(y.fi) : p[1] \notin MulRep(x, y)})
MulAt(x, y, e, bd, c) ==
  IF Rank(x) = 0 THEN CMul(At(x, e, bd, << >>), At(y, e, bd, c))
  ELSE IF Rank(y) = 0 THEN CMul(At(x, e, bd, c), At(y, e, bd, << >>))
  ELSE CSumSet(0..(x.sh[2] - 1),
               LAMBDA k : CMul(At(x, e, bd, <<c[1], k>>), At(y, e, bd, <<k>> \o SubSeq(c, 2, Len(c)))))
DoMul(a, b) == LET x == store[a]  y == store[b]
                   R == {p \in FiSet(x.fi) : p[1] \in MulRep(x, y)} IN
  /\ MulOk(x, y)
  /\ Push(Mk("mul", <<a, b>>, << >>, MulSh(x, y), MulFi(x, y),
             LAMBDA e, bd, c : CSumSet(Binds(R), LAMBDA r : MulAt(x, y, e, bd @@ r, c))))

\* a / b : b a true scalar (no shape, no free indices); tensor / scalar is componentwise
DoDiv(a, b) == LET x == store[a]  y == store[b] IN
  /\ IsVal(x) /\ IsVal(y) /\ TrueScalar(y)
  /\ Push(Mk("div", <<a, b>>, << >>, x.sh, x.fi, LAMBDA e, bd, c : CDiv(At(x, e, bd, c), At(y, e, << >>, << >>))))

\* a ** b : both true scalars; tensor ** 2 (literal 2) means inner(a, a)
IsLit2(y) == y.op = "lit" /\ y.val[1][<< >>] = CI(2)
DoPow(a, b) == LET x == store[a]  y == store[b] IN
  /\ IsVal(x) /\ IsVal(y)
  /\ \/ TrueScalar(x) /\ TrueScalar(y)
        /\ Push(Mk("pow", <<a, b>>, << >>, << >>, << >>,
                   LAMBDA e, bd, c : CPow(At(x, e, bd, c), At(y, e, bd, c))))
     \/ Rank(x) > 0 /\ IsLit2(y) /\ x.fi = << >>      \* inner(a, a) refuses repeated free indices
        /\ Push(Mk("pow", <<a, b>>, << >>, << >>, x.fi,
                   LAMBDA e, bd, c : CSumSet(Tup(x.sh), LAMBDA t : CMul(At(x, e, bd, t), CConj(At(x, e, bd, t))))))

Un(op, a, F(_)) == LET x == store[a] IN
  /\ IsVal(x)
  /\ Push(Mk(op, <<a>>, << >>, x.sh, x.fi, LAMBDA e, bd, c : F(At(x, e, bd, c))))
DoAbs(a)  == Un("abs", a, CAbs)
DoConj(a) == Un("conj", a, CConj)
DoReal(a) == Un("real", a, CRe)
DoImag(a) == Un("imag", a, CIm)
\* sqrt and sign act on scalars (mathfunctions.py: MathFunction requires a true scalar)
DoSqrt(a) == TrueScalar(store[a]) /\ Un("sqrt", a, CSqrt)
DoSign(a) == TrueScalar(store[a]) /\ Un("sign", a, CSignum)
\* exp, ln, sin, ... (mathfunctions.py); f is the operation name
DoMath(f, a) == TrueScalar(store[a]) /\ Un(f, a, LAMBDA z : CMath(f, z))
MathOps == {"exp", "ln", "sin", "cos", "tan", "sinh", "cosh", "tanh", "asin", "atan"}

-----------------------------------------------------------------------------
(* Indexing  a[mi]  (exproperators._getitem).  Entries of mi: 0..9 a fixed index, >= 10 an   *)
(* index name, -1 a full slice.  An index name that occurs twice (in mi, or once in mi and  *)
(* once free in a) is summed.  Slices become axes of the result, in order.                 *)

MiNames(mi) == {mi[k] : k \in {j \in 1..Len(mi) : mi[j] >= 10}}
MiCount(mi, i) == Cardinality({k \in 1..Len(mi) : mi[k] = i})
IdxOk(x, mi) ==
  /\ IsVal(x) /\ Len(mi) = Rank(x) /\ Rank(x) > 0
  /\ \A k \in 1..Len(mi) : mi[k] < 10 => mi[k] < x.sh[k]
  \* every name: consistent dimension wherever it occurs, at most two occurrences in total
  /\ \A i \in MiNames(mi) :
       /\ \A k, l \in 1..Len(mi) : mi[k] = i /\ mi[l] = i => x.sh[k] = x.sh[l]
       /\ i \in FiIdx(x.fi) => \A k \in 1..Len(mi) : mi[k] = i => x.sh[k] = FiDim(x.fi, i)
       /\ MiCount(mi, i) + (IF i \in FiIdx(x.fi) THEN 1 ELSE 0) <= 2
MiDimOf(x, mi, i) == x.sh[CHOOSE k \in 1..Len(mi) : mi[k] = i]
IdxRep(x, mi) == {i \in MiNames(mi) : MiCount(mi, i) + (IF i \in FiIdx(x.fi) THEN 1 ELSE 0) = 2}
IdxFi(x, mi) == SortFi({p \in FiSet(x.fi) : p[1] \notin IdxRep(x, mi)}
                       \cup {<<i, MiDimOf(x, mi, i)>> : i \in MiNames(mi) \ IdxRep(x, mi)})
SlicePos(mi) == SelectSeq([k \in 1..Len(mi) |-> k], LAMBDA k : mi[k] = -1)
IdxSh(x, mi) == [s \in 1..Len(SlicePos(mi)) |-> x.sh[SlicePos(mi)[s]]]
\* component of x selected by mi under binding bd and slice values c
IdxComp(mi, bd, c) == [k \in 1..Len(mi) |->
                         IF mi[k] = -1 THEN c[CHOOSE s \in 1..Len(SlicePos(mi)) : SlicePos(mi)[s] = k]
                         ELSE IF mi[k] < 10 THEN mi[k] ELSE bd[mi[k]]]
DoIndex(a, mi) == LET x == store[a]
                      R == {<<i, MiDimOf(x, mi, i)>> : i \in IdxRep(x, mi)} IN
  /\ IdxOk(x, mi)
  /\ Push(Mk("index", <<a>>, mi, IdxSh(x, mi), IdxFi(x, mi),
             LAMBDA e, bd, c : CSumSet(Binds(R), LAMBDA r : At(x, e, bd @@ r, IdxComp(mi, bd @@ r, c)))))

\* as_tensor(a, ii) / a^(ii): a scalar valued with all of ii among its free indices, ii distinct
AsTensorOk(x, ii) ==
  /\ IsVal(x) /\ IsScalar(x) /\ Len(ii) > 0
  /\ \A k \in 1..Len(ii) : ii[k] \in FiIdx(x.fi)
  /\ \A k, l \in 1..Len(ii) : k # l => ii[k] # ii[l]
DoAsTensor(a, ii) == LET x == store[a] IN
  /\ AsTensorOk(x, ii)
  /\ Push(Mk("as_tensor", <<a>>, ii, [k \in 1..Len(ii) |-> FiDim(x.fi, ii[k])],
             SortFi({p \in FiSet(x.fi) : \A k \in 1..Len(ii) : ii[k] # p[1]}),
             LAMBDA e, bd, c : At(x, e, bd @@ [i \in {ii[k] : k \in 1..Len(ii)} |-> c[CHOOSE k \in 1..Len(ii) : ii[k] = i]], << >>)))

\* as_tensor([a1, ..., an]) : equal shapes and equal free indices
ListOk(as) == /\ Len(as) >= 1 /\ Rank(store[as[1]]) < MaxRank
              /\ \A k \in 1..Len(as) : IsVal(store[as[k]]) /\ store[as[k]].sh = store[as[1]].sh
                                       /\ store[as[k]].fi = store[as[1]].fi
DoList(as) == LET x == store[as[1]] IN
  /\ ListOk(as)
  /\ Push(Mk("list", as, << >>, <<Len(as)>> \o x.sh, x.fi,
             LAMBDA e, bd, c : At(store[as[c[1] + 1]], e, bd, SubSeq(c, 2, Len(c)))))

-----------------------------------------------------------------------------
(* Compound tensor algebra (tensoralgebra.py); free indices of the operands must be disjoint *)

Disjoint(x, y) == FiIdx(x.fi) \cap FiIdx(y.fi) = {}
UnionFi(x, y) == SortFi(FiSet(x.fi) \cup FiSet(y.fi))
Bin(op, a, b, sh, F(_, _, _)) ==
  Push(Mk(op, <<a, b>>, << >>, sh, UnionFi(store[a], store[b]), F))

\* dot(a, b): contraction of the last axis of a with the first of b, no conjugation
DoDot(a, b) == LET x == store[a]  y == store[b] IN
  /\ IsVal(x) /\ IsVal(y)
  /\ \/ Rank(x) = 0 /\ Rank(y) = 0 /\ MulOk(x, y)
        /\ LET R == {p \in FiSet(x.fi) : p[1] \in MulRep(x, y)} IN
           Push(Mk("dot", <<a, b>>, << >>, << >>, MulFi(x, y),
                   LAMBDA e, bd, c : CSumSet(Binds(R), LAMBDA r : MulAt(x, y, e, bd @@ r, c))))
     \/ /\ Rank(x) >= 1 /\ Rank(y) >= 1 /\ x.sh[Len(x.sh)] = y.sh[1] /\ Disjoint(x, y)
        /\ Bin("dot", a, b, SubSeq(x.sh, 1, Len(x.sh) - 1) \o SubSeq(y.sh, 2, Len(y.sh)),
               LAMBDA e, bd, c : CSumSet(0..(y.sh[1] - 1),
                   LAMBDA k : CMul(At(x, e, bd, SubSeq(c, 1, Rank(x) - 1) \o <<k>>),
                                   At(y, e, bd, <<k>> \o SubSeq(c, Rank(x), Len(c))))))
\* inner(a, b) = sum_c a_c conj(b_c)
DoInner(a, b) == LET x == store[a]  y == store[b] IN
  /\ IsVal(x) /\ IsVal(y) /\ x.sh = y.sh
  /\ \/ Rank(x) = 0 /\ MulOk(x, y)
        /\ LET R == {p \in FiSet(x.fi) : p[1] \in MulRep(x, y)} IN
           Push(Mk("inner", <<a, b>>, << >>, << >>, MulFi(x, y),
                   LAMBDA e, bd, c : CSumSet(Binds(R),
                       LAMBDA r : CMul(At(x, e, bd @@ r, << >>), CConj(At(y, e, bd @@ r, << >>))))))
     \/ /\ Rank(x) >= 1 /\ Disjoint(x, y)
        /\ Bin("inner", a, b, << >>,
               LAMBDA e, bd, c : CSumSet(Tup(x.sh), LAMBDA t : CMul(At(x, e, bd, t), CConj(At(y, e, bd, t)))))
\* outer(a, b) = conj(a) (x) b
DoOuter(a, b) == LET x == store[a]  y == store[b] IN
  /\ IsVal(x) /\ IsVal(y)
  /\ \/ Rank(x) = 0 /\ Rank(y) = 0 /\ MulOk(x, y)
        /\ LET R == {p \in FiSet(x.fi) : p[1] \in MulRep(x, y)} IN
           Push(Mk("outer", <<a, b>>, << >>, << >>, MulFi(x, y),
                   LAMBDA e, bd, c : CSumSet(Binds(R),
                       LAMBDA r : CMul(CConj(At(x, e, bd @@ r, << >>)), At(y, e, bd @@ r, << >>)))))
     \/ /\ Rank(x) + Rank(y) >= 1 /\ Rank(x) + Rank(y) <= MaxRank /\ Disjoint(x, y)
        /\ Bin("outer", a, b, x.sh \o y.sh,
               LAMBDA e, bd, c : CMul(CConj(At(x, e, bd, SubSeq(c, 1, Rank(x)))),
                                      At(y, e, bd, SubSeq(c, Rank(x) + 1, Len(c)))))
DoCross(a, b) == LET x == store[a]  y == store[b] IN
  /\ IsVal(x) /\ IsVal(y) /\ x.sh = <<3>> /\ y.sh = <<3>> /\ Disjoint(x, y)
  /\ Bin("cross", a, b, <<3>>,
         LAMBDA e, bd, c : LET p == (c[1] + 1) % 3  q == (c[1] + 2) % 3 IN
            CSub(CMul(At(x, e, bd, <<p>>), At(y, e, bd, <<q>>)), CMul(At(x, e, bd, <<q>>), At(y, e, bd, <<p>>))))
\* perp(v) = (-v1, v0)
DoPerp(a) == LET x == store[a] IN
  /\ IsVal(x) /\ x.sh = <<2>>
  /\ Push(Mk("perp", <<a>>, << >>, <<2>>, x.fi,
             LAMBDA e, bd, c : IF c[1] = 0 THEN CNeg(At(x, e, bd, <<1>>)) ELSE At(x, e, bd, <<0>>)))
DoTranspose(a) == LET x == store[a] IN
  /\ IsVal(x) /\ Rank(x) = 2
  /\ Push(Mk("transpose", <<a>>, << >>, <<x.sh[2], x.sh[1]>>, x.fi, LAMBDA e, bd, c : At(x, e, bd, <<c[2], c[1]>>)))
DoTr(a) == LET x == store[a] IN
  /\ IsVal(x) /\ Rank(x) = 2 /\ x.sh[1] = x.sh[2]
  /\ Push(Mk("tr", <<a>>, << >>, << >>, x.fi, LAMBDA e, bd, c : CSumSet(0..(x.sh[1] - 1), LAMBDA k : At(x, e, bd, <<k, k>>))))

\* determinant by Laplace expansion along the first row, on explicit row/column lists
RECURSIVE DetRC(_, _, _)
DetRC(M, rows, cols) ==
  IF Len(rows) = 0 THEN C1
  ELSE CSumSet(1..Len(cols), LAMBDA j :
         LET s == IF j % 2 = 1 THEN C1 ELSE CI(-1)
             rest == [k \in 1..(Len(cols) - 1) |-> IF k < j THEN cols[k] ELSE cols[k + 1]]
         IN CMul(s, CMul(M[<<rows[1], cols[j]>>], DetRC(M, Tail(rows), rest))))
Range0(n) == [k \in 1..n |-> k - 1]
Without(s, v) == SelectSeq(s, LAMBDA z : z # v)
MatOf(x, e) == [t \in Tup(x.sh) |-> x.val[e][t]]
DetOf(M, n) == DetRC(M, Range0(n), Range0(n))
CofOf(M, n, i, j) == CMul(IF (i + j) % 2 = 0 THEN C1 ELSE CI(-1),
                          DetRC(M, Without(Range0(n), i), Without(Range0(n), j)))
SquareNoFi(x) == IsVal(x) /\ Rank(x) = 2 /\ x.sh[1] = x.sh[2] /\ x.fi = << >>
DoDet(a) == LET x == store[a] IN
  /\ SquareNoFi(x)
  /\ Push(Mk("det", <<a>>, << >>, << >>, << >>, LAMBDA e, bd, c : DetOf(MatOf(x, e), x.sh[1])))
DoInv(a) == LET x == store[a] IN
  /\ SquareNoFi(x)
  /\ Push(Mk("inv", <<a>>, << >>, x.sh, << >>,
             LAMBDA e, bd, c : CDiv(CofOf(MatOf(x, e), x.sh[1], c[2], c[1]), DetOf(MatOf(x, e), x.sh[1]))))
\* cofac(A) = det(A) inv(A)^T : the matrix of cofactors
DoCofac(a) == LET x == store[a] IN
  /\ SquareNoFi(x)
  /\ Push(Mk("cofac", <<a>>, << >>, x.sh, << >>, LAMBDA e, bd, c : CofOf(MatOf(x, e), x.sh[1], c[1], c[2])))
DoDev(a) == LET x == store[a] IN
  /\ SquareNoFi(x)
  /\ Push(Mk("dev", <<a>>, << >>, x.sh, << >>,
             LAMBDA e, bd, c : IF c[1] = c[2]
                THEN CSub(At(x, e, bd, c), CDiv(CSumSet(0..(x.sh[1] - 1), LAMBDA k : At(x, e, bd, <<k, k>>)), CI(x.sh[1])))
                ELSE At(x, e, bd, c)))
DoSkew(a) == LET x == store[a] IN
  /\ SquareNoFi(x)
  /\ Push(Mk("skew", <<a>>, << >>, x.sh, << >>,
             LAMBDA e, bd, c : CDiv(CSub(At(x, e, bd, c), At(x, e, bd, <<c[2], c[1]>>)), CI(2))))
DoSym(a) == LET x == store[a] IN
  /\ SquareNoFi(x)
  /\ Push(Mk("sym", <<a>>, << >>, x.sh, << >>,
             LAMBDA e, bd, c : CDiv(CAdd(At(x, e, bd, c), At(x, e, bd, <<c[2], c[1]>>)), CI(2))))

\* ---- (pseudo-)determinant, (pseudo-)inverse, adjugate of m x n matrices, n <= m, as provided by
\* ufl.compound_expressions (used by geometry lowering): pdet(A) = sqrt(det(A^T A)),
\* pinv(A) = (A^T A)^-1 A^T  (real data: no conjugation, as in the code)
MatNoFi(x) == IsVal(x) /\ Rank(x) = 2 /\ x.fi = << >> /\ x.sh[2] <= x.sh[1]
GramOf(x, e) == [t \in Tup(<<x.sh[2], x.sh[2]>>) |->
                   CSumSet(0..(x.sh[1] - 1), LAMBDA k : CMul(x.val[e][<<k, t[1]>>], x.val[e][<<k, t[2]>>]))]
DoXDet(a) == LET x == store[a] IN
  /\ MatNoFi(x)
  /\ Push(Mk("xdet", <<a>>, << >>, << >>, << >>,
             LAMBDA e, bd, c : IF x.sh[1] = x.sh[2] THEN DetOf(MatOf(x, e), x.sh[1])
                               ELSE CSqrt(DetOf(GramOf(x, e), x.sh[2]))))
DoXInv(a) == LET x == store[a] IN
  /\ MatNoFi(x)
  /\ Push(Mk("xinv", <<a>>, << >>, <<x.sh[2], x.sh[1]>>, << >>,
             LAMBDA e, bd, c :
               IF x.sh[1] = x.sh[2]
               THEN CDiv(CofOf(MatOf(x, e), x.sh[1], c[2], c[1]), DetOf(MatOf(x, e), x.sh[1]))
               ELSE LET G == GramOf(x, e)  n == x.sh[2] IN
                    CSumSet(0..(n - 1), LAMBDA q :
                       CMul(CDiv(CofOf(G, n, q, c[1]), DetOf(G, n)), x.val[e][<<c[2], q>>]))))
\* adjugate = transpose of the cofactor matrix
DoXAdj(a) == LET x == store[a] IN
  /\ SquareNoFi(x) /\ x.sh[1] >= 2
  /\ Push(Mk("xadj", <<a>>, << >>, x.sh, << >>, LAMBDA e, bd, c : CofOf(MatOf(x, e), x.sh[1], c[2], c[1])))
DoXCofac(a) == LET x == store[a] IN
  /\ SquareNoFi(x) /\ x.sh[1] >= 2
  /\ Push(Mk("xcofac", <<a>>, << >>, x.sh, << >>, LAMBDA e, bd, c : CofOf(MatOf(x, e), x.sh[1], c[1], c[2])))

-----------------------------------------------------------------------------
(* Derivatives.  Only meaningful with the scalar domain spec/jets/CQ.tla, where every terminal is  *)
(* seeded as f + s d_a f + t d_b f + st d_a d_b f in environment e = <<E, a, b>> (EnvDirs).        *)
(* By Taylor's theorem the t-coefficient of ANY expression x in environment <<E, a, m>> is its     *)
(* derivative along direction m, and the st-coefficient is d_a d_m x.  The derivative operators    *)
(* are defined from that, not from differentiation rules.                                         *)

EnvAt(E, a, b) == CHOOSE e \in Envs : EnvDirs[e] = <<E, a, b>>
\* d_m x as a series in s (the variable t is used up): value, d_a d_m x; in t: d_b d_m x
DirDeriv(x, e, bd, c, m) ==
  LET E == EnvDirs[e][1]  a == EnvDirs[e][2]  b == EnvDirs[e][3]
      za == At(x, EnvAt(E, a, m), bd, c)          \* x seeded along (a, m)
      zb == At(x, EnvAt(E, b, m), bd, c)          \* x seeded along (b, m)
  IN <<za[3], za[4], zb[4], CU[1]>>
HasDirs == Jets /\ NDir > 0 /\ Len(EnvDirs) = NEnv
HasSpat == HasDirs /\ NSpat > 0
\* grad(x)[..., m] = d_m x
DoGrad(a) == LET x == store[a] IN
  /\ HasSpat /\ IsVal(x)
  /\ Push(Mk("grad", <<a>>, << >>, x.sh \o <<NSpat>>, x.fi,
             LAMBDA e, bd, c : DirDeriv(x, e, bd, SubSeq(c, 1, Len(c) - 1), c[Len(c)])))
\* nabla_grad(x)[m, ...] = d_m x
DoNablaGrad(a) == LET x == store[a] IN
  /\ HasSpat /\ IsVal(x)
  /\ Push(Mk("nabla_grad", <<a>>, << >>, <<NSpat>> \o x.sh, x.fi,
             LAMBDA e, bd, c : DirDeriv(x, e, bd, Tail(c), c[1])))
\* div(x) = sum_m d_m x[..., m]  (contraction with the LAST axis)
DoDivergence(a) == LET x == store[a] IN
  /\ HasSpat /\ IsVal(x) /\ Rank(x) >= 1 /\ x.sh[Len(x.sh)] = NSpat
  /\ Push(Mk("div", <<a>>, << >>, SubSeq(x.sh, 1, Len(x.sh) - 1), x.fi,
             LAMBDA e, bd, c : FoldSet(LAMBDA m, acc : CAdd(DirDeriv(x, e, bd, c \o <<m>>, m), acc), C0, 0..(NSpat - 1))))
\* nabla_div(x) = sum_m d_m x[m, ...]  (contraction with the FIRST axis)
DoNablaDiv(a) == LET x == store[a] IN
  /\ HasSpat /\ IsVal(x) /\ Rank(x) >= 1 /\ x.sh[1] = NSpat
  /\ Push(Mk("nabla_div", <<a>>, << >>, Tail(x.sh), x.fi,
             LAMBDA e, bd, c : FoldSet(LAMBDA m, acc : CAdd(DirDeriv(x, e, bd, <<m>> \o c, m), acc), C0, 0..(NSpat - 1))))
\* curl: 3D vector -> vector, 2D vector -> scalar (d_0 x_1 - d_1 x_0), 2D scalar -> vector (d_1 x, -d_0 x)
DoCurl(a) == LET x == store[a] IN
  /\ HasSpat /\ IsVal(x) /\ x.fi = << >>
  /\ \/ NSpat = 3 /\ x.sh = <<3>>
        /\ Push(Mk("curl", <<a>>, << >>, <<3>>, << >>,
                   LAMBDA e, bd, c : LET p == (c[1] + 1) % 3  q == (c[1] + 2) % 3 IN
                      CSub(DirDeriv(x, e, bd, <<q>>, p), DirDeriv(x, e, bd, <<p>>, q))))
     \/ NSpat = 2 /\ x.sh = <<2>>
        /\ Push(Mk("curl", <<a>>, << >>, << >>, << >>,
                   LAMBDA e, bd, c : CSub(DirDeriv(x, e, bd, <<1>>, 0), DirDeriv(x, e, bd, <<0>>, 1))))
     \/ NSpat = 2 /\ x.sh = << >>
        /\ Push(Mk("curl", <<a>>, << >>, <<2>>, << >>,
                   LAMBDA e, bd, c : IF c[1] = 0 THEN DirDeriv(x, e, bd, << >>, 1) ELSE CNeg(DirDeriv(x, e, bd, << >>, 0))))
\* x.dx(m) = d_m x
DoDx(a, m) == LET x == store[a] IN
  /\ HasSpat /\ IsVal(x)
  /\ Push(Mk("dx", <<a>>, <<m>>, x.sh, x.fi, LAMBDA e, bd, c : DirDeriv(x, e, bd, c, m)))
\* Gateaux derivatives: the harness seeds the coefficient w1 as w1 + s v1 and w2 as w2 + t v2;
\* derivative(x, w1, v1) is the s-coefficient, derivative(x, w2, v2) the t-coefficient.
DoGateaux(k, a) == LET x == store[a] IN
  /\ Jets /\ IsVal(x)
  /\ Push(Mk(IF k = 1 THEN "gateaux1" ELSE "gateaux2", <<a>>, << >>, x.sh, x.fi,
             LAMBDA e, bd, c : IF k = 1 THEN CSelS(At(x, e, bd, c)) ELSE CSelT(At(x, e, bd, c))))
\* variable(e) whose VALUE is the differentiation variable: component number a of it is seeded
\* with s and component number b with t (directions = flattened components of the variable)
FlatPos(sh, c) == LET RECURSIVE Go(_, _)
                      Go(k, acc) == IF k > Len(sh) THEN acc ELSE Go(k + 1, acc * sh[k] + c[k])
                  IN Go(1, 0)
SeedVars == {n \in Ids : store[n].op = "seedvar"}
SeedUsed == FoldSet(LAMBDA n, acc : acc + Cardinality(Tup(store[n].sh)), 0, SeedVars)
DoSeedVariable(a) == LET x == store[a]  k == Cardinality(SeedVars) + 1  off == NSpat + SeedUsed IN
  /\ HasDirs /\ IsVal(x) /\ x.fi = << >> /\ k <= Len(VarSizes)
  /\ Cardinality(Tup(x.sh)) = VarSizes[k]
  /\ Push(Mk("seedvar", <<a>>, <<off>>, x.sh, << >>,
             LAMBDA e, bd, c : CSeed(At(x, e, bd, c),
                                     IF off + FlatPos(x.sh, c) = EnvDirs[e][2] THEN C1[1] ELSE C0[1],
                                     IF off + FlatPos(x.sh, c) = EnvDirs[e][3] THEN C1[1] ELSE C0[1])))
\* diff(f, v)[cf, cv] = derivative of f with respect to component cv of the value of the variable v
DoDiff(a, v) == LET x == store[a]  y == store[v] IN
  /\ HasDirs /\ IsVal(x) /\ (y.op = "seedvar" \/ (y.op = "term" /\ y.nm = SeedTerm /\ SeedTerm # ""))
  /\ Push(Mk("diff", <<a, v>>, << >>, x.sh \o y.sh, x.fi,
             LAMBDA e, bd, c : DirDeriv(x, e, bd, SubSeq(c, 1, Rank(x)),
                                        (IF y.op = "seedvar" THEN y.mi[1] ELSE NSpat) + FlatPos(y.sh, SubSeq(c, Rank(x) + 1, Len(c))))))

-----------------------------------------------------------------------------
(* Conditions and conditionals (conditional.py).  A condition is a node with IsBool; its    *)
(* value is 1 / 0, undefined when an operand is undefined or (for <, >, <=, >=) not real.   *)

CmpVal(op, z, w) ==
  IF op \in {"eq", "ne"} THEN (IF CDef(z) /\ CDef(w) THEN CBool(CSame(z, w) = (op = "eq")) ELSE CU)
  ELSE IF ~CCmpDef(z, w) THEN CU
  ELSE CBool(CASE op = "lt" -> CLt(z, w) [] op = "gt" -> CLt(w, z)
               [] op = "le" -> ~CLt(w, z) [] op = "ge" -> ~CLt(z, w))
\* operands of a comparison are true scalars (conditional.py: BinaryCondition)
DoCmp(op, a, b) == LET x == store[a]  y == store[b] IN
  /\ IsVal(x) /\ IsVal(y) /\ TrueScalar(x) /\ TrueScalar(y)
  /\ Push(Mk(op, <<a, b>>, << >>, << >>, << >>, LAMBDA e, bd, c : CmpVal(op, At(x, e, bd, c), At(y, e, bd, c))))
DoAndOr(op, a, b) == LET x == store[a]  y == store[b] IN
  /\ IsBool(x) /\ IsBool(y)
  /\ Push(Mk(op, <<a, b>>, << >>, << >>, << >>,
             LAMBDA e, bd, c : LET p == At(x, e, bd, c)  q == At(y, e, bd, c) IN
                IF ~CDef(p) \/ ~CDef(q) THEN CU
                ELSE CBool(IF op = "and" THEN p = C1 /\ q = C1 ELSE p = C1 \/ q = C1)))
DoNot(a) == LET x == store[a] IN
  /\ IsBool(x)
  /\ Push(Mk("not", <<a>>, << >>, << >>, << >>,
             LAMBDA e, bd, c : LET p == At(x, e, bd, c) IN IF CDef(p) THEN CBool(p = C0) ELSE CU))
\* conditional(c, t, f): t and f of equal shape and free indices
DoCond(k, a, b) == LET cnd == store[k]  x == store[a]  y == store[b] IN
  /\ IsBool(cnd) /\ AddOk(x, y)
  /\ Push(Mk("cond", <<k, a, b>>, << >>, x.sh, x.fi,
             LAMBDA e, bd, c : LET p == cnd.val[e][<< >>] IN
                IF ~CDef(p) THEN CU ELSE IF p = C1 THEN At(x, e, bd, c) ELSE At(y, e, bd, c)))
\* atan2(f, g) for true scalars: for g > 0 it is atan(f / g); rational exactly when f = 0 there
Atan2Val(z, w) == IF CDef(z) /\ CDef(w) /\ CIsReal(w) /\ CCmpDef(C0, w) /\ CLt(C0, w)
                  THEN CMath("atan", CDiv(z, w)) ELSE CU
DoAtan2(a, b) == LET x == store[a]  y == store[b] IN
  /\ IsVal(x) /\ IsVal(y) /\ TrueScalar(x) /\ TrueScalar(y)
  /\ Push(Mk("atan2", <<a, b>>, << >>, << >>, << >>, LAMBDA e, bd, c : Atan2Val(At(x, e, bd, c), At(y, e, bd, c))))
DoMaxMin(op, a, b) == LET x == store[a]  y == store[b] IN
  /\ IsVal(x) /\ IsVal(y) /\ TrueScalar(x) /\ TrueScalar(y)
  /\ Push(Mk(op, <<a, b>>, << >>, << >>, << >>,
             LAMBDA e, bd, c : LET z == At(x, e, bd, c)  w == At(y, e, bd, c) IN
                IF ~CCmpDef(z, w) THEN CU
                ELSE IF op = "max" THEN (IF CLt(w, z) THEN z ELSE w) ELSE (IF CLt(z, w) THEN z ELSE w)))

-----------------------------------------------------------------------------
(* Algorithms: the result denotes what the operand denotes (same shape, free indices, value). *)
(* `op` names the pass; the harness maps it to the real function.                           *)
\* expand_indices works on scalar expressions without free indices (IndexExpander.terminal raises
\* "Component size mismatch" otherwise); renumber_indices renames free indices, so it is only
\* comparable on expressions without free indices.
PassOk(op, x) == /\ IsVal(x)
                 /\ op = "expand_indices" => TrueScalar(x)
                 /\ op = "renumber" => x.fi = << >>
                 /\ op = "point_eval" => x.fi = << >>      \* e(x, mapping, component): no index values given
DoPass(op, a) == LET x == store[a] IN
  /\ PassOk(op, x)
  /\ Push(Node(op, <<a>>, << >>, "", x.sh, x.fi, x.val))
\* replace(e, {src: image}) denotes e evaluated where src takes the value of its image: by
\* construction of the environments that is the value of e in environment sub[e].
DoReplace(a, p) == LET x == store[a]  m == ReplMaps[p] IN
  /\ IsVal(x)
  /\ Push(Node("replace", <<a>>, <<p>>, "", x.sh, x.fi,
               [e \in Envs |-> IF m.sub[e] = 0 THEN [t \in DOMAIN x.val[e] |-> CU] ELSE x.val[m.sub[e]]]))
\* compute_form_data(e*dx, options k): the preprocessed integrand, evaluated with reference-frame
\* data, is the original integrand evaluated with physical data times the measure's scaling factor
DoPipeline(a, k) == LET x == store[a] IN
  /\ IsVal(x) /\ TrueScalar(x)
  /\ Push(Node("pipeline", <<a>>, <<k>>, "", << >>, << >>,
               [e \in Envs |-> (<< >> :> CMul(x.val[e][<< >>], PipeScale[k][e]))]))
\* variable(e): a labelled expression; denotes what e denotes
DoVariable(a) == LET x == store[a] IN
  /\ IsVal(x) /\ x.op # "variable" /\ x.fi = << >>   \* variable.py: "Variable cannot wrap an expression with free indices"
  /\ Push(Node("variable", <<a>>, << >>, "", x.sh, x.fi, x.val))

-----------------------------------------------------------------------------
Mis(r) == [1..r -> (IF "fixed" \in MiKinds THEN 0..(MaxDim - 1) ELSE {})
                   \cup (IF "name" \in MiKinds THEN {IdxPool[k] : k \in 1..Len(IdxPool)} ELSE {})
                   \cup (IF "slice" \in MiKinds THEN {-1} ELSE {})]
IdxSeqs == UNION {[1..r -> {IdxPool[k] : k \in 1..Len(IdxPool)}] : r \in 1..MaxRank}
\* the operations enabled for the next constructed node: OpLevels[k] for the k-th constructed node
\* (the last entry repeats), or OpSet when no levels are given
CurOps == IF Len(OpLevels) = 0 THEN OpSet
          ELSE LET k == Len(store) - NInit + 1 IN OpLevels[IF k <= Len(OpLevels) THEN k ELSE Len(OpLevels)]
PassOps == {"lower", "expand_indices", "remove_ct", "renumber", "expand_derivatives", "apply_derivatives", "strip_variables", "cancelj",
            "remove_complex", "point_eval", "identity"} \cap CurOps

Next ==
  /\ Room
  /\ \E a \in Ids : NotFinal(a) /\
       \/ "neg" \in CurOps /\ DoNeg(a)
       \/ "abs" \in CurOps /\ DoAbs(a)
       \/ "conj" \in CurOps /\ DoConj(a)
       \/ "real" \in CurOps /\ DoReal(a)
       \/ "imag" \in CurOps /\ DoImag(a)
       \/ "sqrt" \in CurOps /\ DoSqrt(a)
       \/ "sign" \in CurOps /\ DoSign(a)
       \/ \E f \in MathOps \cap CurOps : DoMath(f, a)
       \/ "perp" \in CurOps /\ DoPerp(a)
       \/ "transpose" \in CurOps /\ DoTranspose(a)
       \/ "tr" \in CurOps /\ DoTr(a)
       \/ "det" \in CurOps /\ DoDet(a)
       \/ "inv" \in CurOps /\ DoInv(a)
       \/ "cofac" \in CurOps /\ DoCofac(a)
       \/ "dev" \in CurOps /\ DoDev(a)
       \/ "skew" \in CurOps /\ DoSkew(a)
       \/ "sym" \in CurOps /\ DoSym(a)
       \/ "not" \in CurOps /\ DoNot(a)
       \/ "variable" \in CurOps /\ DoVariable(a)
       \/ "grad" \in CurOps /\ DoGrad(a)
       \/ "nabla_grad" \in CurOps /\ DoNablaGrad(a)
       \/ "div" \in CurOps /\ DoDivergence(a)
       \/ "nabla_div" \in CurOps /\ DoNablaDiv(a)
       \/ "curl" \in CurOps /\ DoCurl(a)
       \/ "dx" \in CurOps /\ \E m \in 0..(NSpat - 1) : DoDx(a, m)
       \/ "gateaux1" \in CurOps /\ DoGateaux(1, a)
       \/ "gateaux2" \in CurOps /\ DoGateaux(2, a)
       \/ "seedvar" \in CurOps /\ DoSeedVariable(a)
       \/ "diff" \in CurOps /\ \E v \in Ids : DoDiff(a, v)
       \/ "replace" \in CurOps /\ \E p \in 1..Len(ReplMaps) : DoReplace(a, p)
       \/ "pipeline" \in CurOps /\ \E k \in 1..Len(PipeScale) : DoPipeline(a, k)
       \/ "xdet" \in CurOps /\ DoXDet(a)
       \/ "xinv" \in CurOps /\ DoXInv(a)
       \/ "xadj" \in CurOps /\ DoXAdj(a)
       \/ "xcofac" \in CurOps /\ DoXCofac(a)
       \/ "index" \in CurOps /\ Rank(store[a]) \in 1..MaxRank /\ \E mi \in Mis(Rank(store[a])) : DoIndex(a, mi)
       \/ "as_tensor" \in CurOps /\ \E ii \in IdxSeqs : DoAsTensor(a, ii)
       \/ \E op \in PassOps : DoPass(op, a)
       \/ \E b \in Ids : NotFinal(b) /\
            \/ "add" \in CurOps /\ DoAdd(a, b)
            \/ "sub" \in CurOps /\ DoSub(a, b)
            \/ "mul" \in CurOps /\ DoMul(a, b)
            \/ "div" \in CurOps /\ DoDiv(a, b)
            \/ "pow" \in CurOps /\ DoPow(a, b)
            \/ "dot" \in CurOps /\ DoDot(a, b)
            \/ "inner" \in CurOps /\ DoInner(a, b)
            \/ "outer" \in CurOps /\ DoOuter(a, b)
            \/ "cross" \in CurOps /\ DoCross(a, b)
            \/ \E op \in {"lt", "gt", "le", "ge", "eq", "ne"} \cap CurOps : DoCmp(op, a, b)
            \/ \E op \in {"and", "or"} \cap CurOps : DoAndOr(op, a, b)
            \/ \E op \in {"max", "min"} \cap CurOps : DoMaxMin(op, a, b)
            \/ "atan2" \in CurOps /\ DoAtan2(a, b)
            \/ "list" \in CurOps /\ DoList(<<a, b>>)
            \/ "list" \in CurOps /\ MaxDim >= 3 /\ \E c \in Ids : NotFinal(c) /\ DoList(<<a, b, c>>)
            \/ "cond" \in CurOps /\ \E k \in Ids : DoCond(k, a, b)

Spec == Init /\ [][Next]_vars

-----------------------------------------------------------------------------
(* Invariants of the specification itself (type soundness of the predicted observables) *)

WellFormed ==
  \A n \in Ids : LET x == store[n] IN
    /\ Len(x.sh) <= MaxRank
    /\ \A k \in 1..Len(x.sh) : x.sh[k] \in 1..MaxDim
    /\ \A k \in 1..Len(x.fi) : x.fi[k][1] >= 10 /\ x.fi[k][2] \in 1..MaxDim
    /\ \A k \in 1..(Len(x.fi) - 1) : x.fi[k][1] < x.fi[k + 1][1]
    /\ \A e \in Envs : DOMAIN x.val[e] = Tup(FiDims(x.fi) \o x.sh)
    /\ \A k \in 1..Len(x.args) : x.args[k] < n
\* nothing ever rewrites history: constructors and algorithms never change existing objects (C27)
AppendOnly == [][IsPrefix(store, store')]_vars

-----------------------------------------------------------------------------
(* Dump for the replay binding: the program and the predicted observables of the LAST node. *)
(* Only states whose constructed nodes are all ancestors of the last node are dumped (a     *)
(* state with a dead node checks the same last node as the state without it).               *)

RECURSIVE Anc(_, _)
Anc(n, acc) == IF n \in acc THEN acc
               ELSE LET as == store[n].args
                        RECURSIVE Go(_, _)
                        Go(k, s) == IF k > Len(as) THEN s ELSE Go(k + 1, Anc(as[k], s))
                    IN Go(1, acc \cup {n})
Live == Len(store) > NInit /\ (NInit + 1)..Len(store) \subseteq Anc(Len(store), {})

TabSeq(tab) == SetToSeq({<<t, tab[t]>> : t \in DOMAIN tab})
Prog == [k \in (NInit + 1)..Len(store) |->
           [op |-> store[k].op, args |-> store[k].args, mi |-> store[k].mi]]
DumpRec == LET x == store[Len(store)] IN
  [prog |-> [k \in 1..(Len(store) - NInit) |-> Prog[NInit + k]],
   sh |-> x.sh, fi |-> x.fi, bool |-> IsBool(x),
   val |-> [e \in Envs |-> TabSeq(x.val[e])]]
DumpInv == (Live /\ (DumpFinalOnly => store[Len(store)].op \in FinalOps)) => PrintT(ToJson(DumpRec))
=============================================================================
