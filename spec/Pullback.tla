------------------------------ MODULE Pullback ------------------------------
(***************************************************************************)
(* C08.  Push-forwards of finite element functions (ufl/pullback.py,       *)
(* ufl/algorithms/apply_function_pullbacks.py).                            *)
(*                                                                         *)
(* An element declares how a reference value r (a tensor on the reference  *)
(* cell) becomes the physical value f on a cell that is the image of the   *)
(* reference cell under an affine map X |-> x0 + J X.  J is gdim x tdim of *)
(* full column rank, K is its Moore-Penrose left inverse (= J^-1 when      *)
(* square), detJ the signed determinant (square) or the positive           *)
(* pseudo-determinant sqrt(det(J^T J)) (immersed manifold), as documented  *)
(* by geometry.py.  The formulas below are the TEXTBOOK definitions,       *)
(* written with matrix algebra and never by looking at the index notation  *)
(* of the implementation:                                                  *)
(*                                                                         *)
(*   identity                 f = r                                        *)
(*   covariant Piola          f = K^T r            (H(curl), Nedelec;      *)
(*                                Rognes-Kirby-Logg 2009, eq. (3.2))       *)
(*   contravariant Piola      f = (1/detJ) J r     (H(div), Raviart-Thomas;*)
(*                                Rognes-Kirby-Logg 2009, eq. (3.1))       *)
(*   L2 Piola                 f = r / detJ         (densities / n-forms)   *)
(*   double covariant         f = K^T R K          (Regge; Christiansen    *)
(*                                2011, Li 2018: pullback of a metric)     *)
(*   double contravariant     f = (1/detJ^2) J R J^T   (Hellan-Herrmann-   *)
(*                                Johnson; Pechstein-Schoeberl 2011)       *)
(*   covariant-contravariant  f = (1/detJ) K^T R J^T   (MCS stress space;  *)
(*                                Gopalakrishnan-Lederer-Schoeberl 2020)   *)
(*                                                                         *)
(* Blocked ("row-wise") elements of reference shape pre x (t) or           *)
(* pre x (t, t) apply the map to the last one / two axes of every block.   *)
(* mixed:     concatenation of the flattened PHYSICAL values of the        *)
(*            sub-elements in order (nested), each computed from its own   *)
(*            slice of the flattened REFERENCE value;                      *)
(* symmetric: the element is DECLARED by a dictionary {block component ->  *)
(*            sub-element}; a dictionary is written down in some order, so *)
(*            the model keeps it as the ordered list of its entries        *)
(*            (e.symmetry, the dict as written).  The physical tensor has  *)
(*            the block shape spanned by the keys (any rank: n, n x n,     *)
(*            n x m, n x n x n); block c is the push-forward of the        *)
(*            sub-element that the dictionary gives for the KEY c.  The    *)
(*            order of the entries is not observable (DeclOrderIrrelevant).*)
(*                                                                         *)
(* Tensors are flat row-major sequences of exact rationals (CQ.tla's Q     *)
(* layer; everything here is real) together with a shape.                  *)
(* State machine: PickMap, PickElement, Apply.  Apply prints               *)
(* (map, element, predicted physical shape and table) as JSON; the harness *)
(* (vf/checks/c08.py) compares the table with what the real                *)
(* apply_function_pullbacks / pullback.apply denote.                       *)
(***************************************************************************)
EXTENDS CQ, FiniteSets, TLC, Json

CONSTANTS Tier,        \* 1 = quick universe, 2 = thorough universe
          MapSel       \* subset of 1..Len(Maps): the cell maps explored by this run

\* ---------------------------------------------------------------------------------------------
\* integer and rational sequence helpers (index recursion: works for tuples and for functions)
\* ---------------------------------------------------------------------------------------------
RECURSIVE SumIntN(_, _)
SumIntN(s, n) == IF n = 0 THEN 0 ELSE SumIntN(s, n - 1) + s[n]
SumInt(s) == SumIntN(s, Len(s))
RECURSIVE ProdIntN(_, _)
ProdIntN(s, n) == IF n = 0 THEN 1 ELSE ProdIntN(s, n - 1) * s[n]
ProdInt(s) == ProdIntN(s, Len(s))
RECURSIVE QSumN(_, _)
QSumN(s, n) == IF n = 0 THEN Q0 ELSE QAdd(QSumN(s, n - 1), s[n])
QSum(s) == QSumN(s, Len(s))
RECURSIVE ConcatN(_, _)
ConcatN(ss, n) == IF n = 0 THEN << >> ELSE ConcatN(ss, n - 1) \o ss[n]
Concat(ss) == ConcatN(ss, Len(ss))
ButLast(s, k) == SubSeq(s, 1, Len(s) - k)

\* matrices: sequences of rows
Rows(A) == Len(A)
Cols(A) == Len(A[1])
Transpose(A) == [j \in 1..Cols(A) |-> [i \in 1..Rows(A) |-> A[i][j]]]
MatMul(A, B) == [i \in 1..Rows(A) |-> [j \in 1..Cols(B) |->
                   QSum([k \in 1..Cols(A) |-> QMul(A[i][k], B[k][j])])]]
MatVec(A, v) == [i \in 1..Rows(A) |-> QSum([k \in 1..Len(v) |-> QMul(A[i][k], v[k])])]
ScaleV(c, v) == [i \in 1..Len(v) |-> QMul(c, v[i])]
ScaleM(c, A) == [i \in 1..Rows(A) |-> ScaleV(c, A[i])]
Dot(v, w) == QSum([k \in 1..Len(v) |-> QMul(v[k], w[k])])
IdM(n) == [i \in 1..n |-> [j \in 1..n |-> IF i = j THEN Q1 ELSE Q0]]
Unit(n, a) == [k \in 1..n |-> IF k = a THEN Q1 ELSE Q0]
IM(A) == [i \in 1..Len(A) |-> [j \in 1..Len(A[1]) |-> QI(A[i][j])]]          \* integer matrix
RM(A) == [i \in 1..Len(A) |-> [j \in 1..Len(A[1]) |-> QN(A[i][j][1], A[i][j][2])]]
Det(A) ==
  CASE Rows(A) = 1 -> A[1][1]
    [] Rows(A) = 2 -> QSub(QMul(A[1][1], A[2][2]), QMul(A[1][2], A[2][1]))
    [] Rows(A) = 3 ->
         QAdd(QSub(QMul(A[1][1], QSub(QMul(A[2][2], A[3][3]), QMul(A[2][3], A[3][2]))),
                   QMul(A[1][2], QSub(QMul(A[2][1], A[3][3]), QMul(A[2][3], A[3][1])))),
              QMul(A[1][3], QSub(QMul(A[2][1], A[3][2]), QMul(A[2][2], A[3][1]))))

\* ---------------------------------------------------------------------------------------------
\* the affine cell maps (concrete, generic: no zero / equal entries that could hide a transposition)
\* kind: "square" (gdim = tdim, detJ > 0), "negdet" (gdim = tdim, detJ < 0), "immersed" (gdim > tdim)
\* ---------------------------------------------------------------------------------------------
Maps == <<
  [name |-> "tri2d", kind |-> "square", cell |-> "triangle", g |-> 2, t |-> 2,
   J |-> IM(<< <<2, 1>>, <<-1, 3>> >>),
   K |-> RM(<< << <<3, 7>>, <<-1, 7>> >>, << <<1, 7>>, <<2, 7>> >> >>),
   detJ |-> QI(7)],
  [name |-> "tri2d_neg", kind |-> "negdet", cell |-> "triangle", g |-> 2, t |-> 2,
   J |-> IM(<< <<1, 2>>, <<3, 1>> >>),
   K |-> RM(<< << <<-1, 5>>, <<2, 5>> >>, << <<3, 5>>, <<-1, 5>> >> >>),
   detJ |-> QI(-5)],
  [name |-> "tri3d", kind |-> "immersed", cell |-> "triangle", g |-> 3, t |-> 2,
   J |-> IM(<< <<-2, -2>>, <<1, 2>>, <<2, 0>> >>),        \* J^T J = [[9, 6], [6, 8]], det 36
   K |-> RM(<< << <<-1, 9>>, <<-1, 9>>, <<4, 9>> >>, << <<-1, 6>>, <<1, 3>>, <<-1, 3>> >> >>),
   detJ |-> QI(6)],
  [name |-> "int2d", kind |-> "immersed", cell |-> "interval", g |-> 2, t |-> 1,
   J |-> IM(<< <<3>>, <<4>> >>),
   K |-> RM(<< << <<3, 25>>, <<4, 25>> >> >>),
   detJ |-> QI(5)],
  [name |-> "int3d", kind |-> "immersed", cell |-> "interval", g |-> 3, t |-> 1,
   J |-> IM(<< <<1>>, <<-2>>, <<2>> >>),
   K |-> RM(<< << <<1, 9>>, <<-2, 9>>, <<2, 9>> >> >>),
   detJ |-> QI(3)],
  [name |-> "int1d_neg", kind |-> "negdet", cell |-> "interval", g |-> 1, t |-> 1,
   J |-> IM(<< <<-2>> >>),
   K |-> RM(<< << <<-1, 2>> >> >>),
   detJ |-> QI(-2)],
  [name |-> "tet3d", kind |-> "square", cell |-> "tetrahedron", g |-> 3, t |-> 3,
   J |-> IM(<< <<-1, -1, -1>>, <<1, 3, 2>>, <<2, 3, 1>> >>),
   K |-> RM(<< << <<-1, 1>>, <<-2, 3>>, <<1, 3>> >>,
               << <<1, 1>>, <<1, 3>>, <<1, 3>> >>,
               << <<-1, 1>>, <<1, 3>>, <<-2, 3>> >> >>),
   detJ |-> QI(3)],
  [name |-> "quad2d", kind |-> "square", cell |-> "quadrilateral", g |-> 2, t |-> 2,
   J |-> IM(<< <<3, -1>>, <<2, 1>> >>),                    \* parallelogram
   K |-> RM(<< << <<1, 5>>, <<1, 5>> >>, << <<-2, 5>>, <<3, 5>> >> >>),
   detJ |-> QI(5)],
  [name |-> "tet3d_neg", kind |-> "negdet", cell |-> "tetrahedron", g |-> 3, t |-> 3,
   J |-> IM(<< <<-1, -1, -1>>, <<1, 2, 3>>, <<2, 1, 3>> >>),
   K |-> RM(<< << <<-1, 1>>, <<-2, 3>>, <<1, 3>> >>,
               << <<-1, 1>>, <<1, 3>>, <<-2, 3>> >>,
               << <<1, 1>>, <<1, 3>>, <<1, 3>> >> >>),
   detJ |-> QI(-3)]
>>

\* K is THE Moore-Penrose inverse of the full-column-rank J iff K J = I and J K is symmetric;
\* detJ is the signed determinant (square) / the positive root of det(J^T J) (immersed).
MapOK(m) ==
  /\ Rows(m.J) = m.g /\ Cols(m.J) = m.t /\ Rows(m.K) = m.t /\ Cols(m.K) = m.g /\ m.t <= m.g
  /\ MatMul(m.K, m.J) = IdM(m.t)
  /\ MatMul(m.J, m.K) = Transpose(MatMul(m.J, m.K))
  /\ QMul(m.detJ, m.detJ) = Det(MatMul(Transpose(m.J), m.J))
  /\ (m.g = m.t => m.detJ = Det(m.J))
  /\ (m.g # m.t => QSign(m.detJ) = 1)
  /\ m.kind = (IF m.g # m.t THEN "immersed" ELSE IF QSign(m.detJ) < 0 THEN "negdet" ELSE "square")
  /\ ~QIsZero(QSub(QAbs(m.detJ), Q1))          \* |detJ| # 1: a wrong power of detJ is visible

\* ---------------------------------------------------------------------------------------------
\* elements: [kind, refshape, subs, symmetry]
\* ---------------------------------------------------------------------------------------------
VecKinds == {"covariant", "contravariant"}
TenKinds == {"dcov", "dcontra", "covcontra"}
PlainKinds == {"identity", "l2"}
LeafKinds == PlainKinds \cup VecKinds \cup TenKinds

RefSize(e) == ProdInt(e.refshape)

L(kind, shape) == [kind |-> kind, refshape |-> shape, subs |-> << >>, symmetry |-> << >>]
Mix(subs) == [kind |-> "mixed",
              refshape |-> << SumInt([s \in 1..Len(subs) |-> RefSize(subs[s])]) >>,
              subs |-> subs, symmetry |-> << >>]
\* symm: the symmetry dictionary as written, << [comp |-> <<i, j>>, sub |-> s], ... >> (1-based)
Sym(symm, subs) == [kind |-> "symmetric",
                    refshape |-> << SumInt([s \in 1..Len(subs) |-> RefSize(subs[s])]) >>,
                    subs |-> subs, symmetry |-> symm]

\* row-major (un)flattening of block components; k0 is 0-based, components are 1-based
RECURSIVE Unflat(_, _)
Unflat(bs, k0) == IF Len(bs) = 0 THEN << >>
                  ELSE LET n == ProdInt(Tail(bs)) IN << k0 \div n + 1 >> \o Unflat(Tail(bs), k0 % n)
MaxOf(S) == CHOOSE x \in S : \A y \in S : y <= x
\* the block shape spanned by the declared keys, and the dictionary lookup
SymRank(e) == Len(e.symmetry[1].comp)
BlockShape(e) == LET D == e.symmetry
                 IN [a \in 1..SymRank(e) |-> MaxOf({D[d].comp[a] : d \in 1..Len(D)})] \o << >>
SubAt(e, c) == LET D == e.symmetry IN D[CHOOSE d \in 1..Len(D) : D[d].comp = c].sub
NBlocks(e) == ProdInt(BlockShape(e))
SymAt(e, k) == SubAt(e, Unflat(BlockShape(e), k - 1))        \* sub-element of the k-th block, row-major

\* physical value shape
RECURSIVE PhysShape(_, _)
PhysShape(e, m) ==
  CASE e.kind \in PlainKinds -> e.refshape
    [] e.kind \in VecKinds   -> ButLast(e.refshape, 1) \o << m.g >>
    [] e.kind \in TenKinds   -> ButLast(e.refshape, 2) \o << m.g, m.g >>
    [] e.kind = "mixed"      -> << SumInt([s \in 1..Len(e.subs) |-> ProdInt(PhysShape(e.subs[s], m))]) >>
    [] e.kind = "symmetric"  -> BlockShape(e) \o PhysShape(e.subs[1], m)
PhysSize(e, m) == ProdInt(PhysShape(e, m))

\* which elements make sense on the cell map m (what ufl documents as valid input)
RECURSIVE Legal(_, _)
Legal(e, m) ==
  CASE e.kind \in PlainKinds -> e.subs = << >>
    [] e.kind \in VecKinds   -> Len(e.refshape) >= 1 /\ e.refshape[Len(e.refshape)] = m.t
    [] e.kind \in TenKinds   -> /\ Len(e.refshape) >= 2
                                /\ e.refshape[Len(e.refshape)] = m.t
                                /\ e.refshape[Len(e.refshape) - 1] = m.t
    [] e.kind = "mixed"      -> /\ Len(e.subs) >= 1
                                /\ \A s \in 1..Len(e.subs) : Legal(e.subs[s], m)
                                /\ e.refshape = << SumInt([s \in 1..Len(e.subs) |-> RefSize(e.subs[s])]) >>
    [] e.kind = "symmetric"  ->
         LET D == e.symmetry  n == Len(e.symmetry) IN
         /\ n >= 1 /\ Len(D[1].comp) >= 1
         /\ \A d \in 1..n : /\ Len(D[d].comp) = Len(D[1].comp)
                            /\ \A a \in 1..Len(D[d].comp) : D[d].comp[a] >= 1
         /\ \A d1, d2 \in 1..n : D[d1].comp = D[d2].comp => d1 = d2  \* a dictionary: the keys are distinct
         /\ {D[d].comp : d \in 1..n} = {Unflat(BlockShape(e), k - 1) : k \in 1..NBlocks(e)}  \* every block is declared
         /\ \A s \in 1..Len(e.subs) :
              /\ Legal(e.subs[s], m)
              /\ e.subs[s].refshape = e.subs[1].refshape               \* required by SymmetricPullback
              /\ PhysShape(e.subs[s], m) = PhysShape(e.subs[1], m)     \* the blocks form a tensor
         /\ {D[d].sub : d \in 1..n} = 1..Len(e.subs)
         /\ e.refshape = << SumInt([s \in 1..Len(e.subs) |-> RefSize(e.subs[s])]) >>

\* ---------------------------------------------------------------------------------------------
\* the push-forward
\* ---------------------------------------------------------------------------------------------
CovVec(m, v)     == MatVec(Transpose(m.K), v)                                  \* K^T v
ContraVec(m, v)  == ScaleV(QInv(m.detJ), MatVec(m.J, v))                       \* J v / detJ
DCov(m, R)       == MatMul(MatMul(Transpose(m.K), R), m.K)                     \* K^T R K
DContra(m, R)    == ScaleM(QInv(QMul(m.detJ, m.detJ)),
                           MatMul(MatMul(m.J, R), Transpose(m.J)))             \* J R J^T / detJ^2
CovContra(m, R)  == ScaleM(QInv(m.detJ),
                           MatMul(MatMul(Transpose(m.K), R), Transpose(m.J)))  \* K^T R J^T / detJ

Blocks(r, n) == [p \in 1..(Len(r) \div n) |-> SubSeq(r, (p - 1) * n + 1, p * n)]
AsMat(v, rows, cols) == [a \in 1..rows |-> [b \in 1..cols |-> v[(a - 1) * cols + b]]]

RefOff(e, s) == SumInt([q \in 1..(s - 1) |-> RefSize(e.subs[q])])
RefSlice(e, r, s) == SubSeq(r, RefOff(e, s) + 1, RefOff(e, s) + RefSize(e.subs[s]))

VecMap(kind, m, v) == IF kind = "covariant" THEN CovVec(m, v) ELSE ContraVec(m, v)
TenMap(kind, m, R) == CASE kind = "dcov" -> DCov(m, R)
                        [] kind = "dcontra" -> DContra(m, R)
                        [] kind = "covcontra" -> CovContra(m, R)

RECURSIVE Push(_, _, _)
Push(e, m, r) ==
  CASE e.kind = "identity" -> r
    [] e.kind = "l2" -> [k \in 1..Len(r) |-> QDiv(r[k], m.detJ)]
    [] e.kind \in VecKinds ->
         LET B == Blocks(r, m.t) IN Concat([p \in 1..Len(B) |-> VecMap(e.kind, m, B[p])])
    [] e.kind \in TenKinds ->
         LET B == Blocks(r, m.t * m.t)
         IN Concat([p \in 1..Len(B) |-> Concat(TenMap(e.kind, m, AsMat(B[p], m.t, m.t)))])
    [] e.kind = "mixed" ->
         Concat([s \in 1..Len(e.subs) |-> Push(e.subs[s], m, RefSlice(e, r, s))])
    [] e.kind = "symmetric" ->
         \* block by block in row-major order of the block COMPONENTS; each block looks its sub-element up by key
         LET bs == BlockShape(e)
             S == [k \in 1..ProdInt(bs) |-> SubAt(e, Unflat(bs, k - 1))] \o << >>
         IN Concat([k \in 1..Len(S) |-> Push(e.subs[S[k]], m, RefSlice(e, r, S[k]))])

\* ---------------------------------------------------------------------------------------------
\* the universes
\* ---------------------------------------------------------------------------------------------
Primes == <<2, 3, 5, 7, 11, 13, 17, 19, 23, 29, 31, 37, 41, 43, 47, 53, 59, 61, 67, 71,
            73, 79, 83, 89, 97, 101, 103, 107, 109, 113, 127, 131, 137, 139, 149, 151, 157, 163, 167, 173,
            179, 181, 191, 193, 197, 199, 211, 223, 227, 229, 233, 239, 241, 251, 257, 263, 269, 271, 277, 281,
            283, 293, 307, 311, 313, 317, 331, 337, 347, 349, 353, 359, 367, 373, 379, 383, 389, 397, 401, 409,
            419, 421, 431, 433, 439, 443, 449, 457, 461, 463, 467, 479, 487, 491, 499, 503, 509, 521, 523, 541,
            547, 557, 563, 569, 571, 577, 587, 593, 599, 601, 607, 613, 617, 619, 631, 641, 643, 647, 653, 659>>
RefValues(e) == [k \in 1..RefSize(e) |-> QI(Primes[k])]

IdShapes(m)  == {<< >>, <<m.g>>, <<m.g, m.g>>, <<2, 3>>}
L2Shapes(m)  == {<< >>, <<m.g>>, <<2, 2>>}
VecShapes(m) == {<<m.t>>, <<2, m.t>>, <<m.g, m.t>>}
TenShapes(m) == {<<m.t, m.t>>, <<2, m.t, m.t>>}
AllLeaves(m) == {L("identity", s) : s \in IdShapes(m)} \cup {L("l2", s) : s \in L2Shapes(m)}
                \cup {L(k, s) : k \in VecKinds, s \in VecShapes(m)}
                \cup {L(k, s) : k \in TenKinds, s \in TenShapes(m)}
Core(m)  == {L("identity", << >>), L("identity", <<m.g>>), L("identity", <<m.g, m.g>>), L("l2", << >>),
             L("covariant", <<m.t>>), L("contravariant", <<m.t>>),
             L("dcov", <<m.t, m.t>>), L("dcontra", <<m.t, m.t>>), L("covcontra", <<m.t, m.t>>)}
Small(m) == {L("identity", << >>), L("l2", << >>), L("covariant", <<m.t>>), L("contravariant", <<m.t>>)}
Medium(m) == Small(m) \cup {L("identity", <<m.g>>), L("dcontra", <<m.t, m.t>>)}

Pairs(S)   == {<<a, b>> : a \in S, b \in S}
Triples(S) == {<<a, b, c>> : a \in S, b \in S, c \in S}

\* symmetry numberings: block shape + the (1-based) sub-element number of every block component in row-major
\* order: row-major upper triangle ("tri"), Voigt order, a rectangular block with identified entries, a vector
\* of sub-elements with an identification, a fully symmetric rank-3 block
T(bs, num) == [bs |-> bs, num |-> num]
SymTri2   == T(<<2, 2>>, <<1, 2, 2, 3>>)
SymVoigt2 == T(<<2, 2>>, <<1, 3, 3, 2>>)
SymTri3   == T(<<3, 3>>, <<1, 2, 3, 2, 4, 5, 3, 5, 6>>)
SymVoigt3 == T(<<3, 3>>, <<1, 6, 5, 6, 2, 4, 5, 4, 3>>)
SymRect23 == T(<<2, 3>>, <<1, 2, 1, 3, 2, 3>>)
SymVec3   == T(<<3>>, <<1, 2, 1>>)
SymCube2  == T(<<2, 2, 2>>, <<1, 2, 2, 3, 2, 3, 3, 4>>)
NSub(tab) == Cardinality({tab.num[k] : k \in 1..Len(tab.num)})
DiagSubs(tab) == {tab.num[k] : k \in {q \in 1..Len(tab.num) :
                                        LET c == Unflat(tab.bs, q - 1) IN \A a \in 1..Len(c) : c[a] = c[1]}}
\* The dictionary of a numbering written in the order ord (a permutation of the row-major positions):
\* the d-th entry written is  Unflat(ord[d]) : num[ord[d]].
RowMajor(tab) == [k \in 1..Len(tab.num) |-> k]
Decl(tab, ord) == [d \in 1..Len(ord) |-> [comp |-> Unflat(tab.bs, ord[d] - 1), sub |-> tab.num[ord[d]]]]
AllOrders(n) == {p \in [1..n -> 1..n] : \A i, j \in 1..n : p[i] = p[j] => i = j}
\* diagonal blocks use element A, the other blocks element B
SymABO(tab, ord, A, B) == Sym(Decl(tab, ord), [k \in 1..NSub(tab) |-> IF k \in DiagSubs(tab) THEN A ELSE B])
SymAB(tab, A, B) == SymABO(tab, RowMajor(tab), A, B)
Compat(S, m) == {ab \in Pairs(S) : ab[1].refshape = ab[2].refshape /\ PhysShape(ab[1], m) = PhysShape(ab[2], m)}
SymElems(tabs, S, m) == {SymAB(tab, ab[1], ab[2]) : tab \in tabs, ab \in Compat(S, m)}
SymOrdElems(TOs, ABs) == {SymABO(to[1], to[2], ab[1], ab[2]) : to \in TOs, ab \in ABs}
\* ways people write such a dictionary down
NamedOrders == {
  <<SymVoigt2, <<1, 2, 4, 3>>>>,                    \* upper triangle first, then the mirrored entries
  <<SymVoigt2, <<1, 4, 2, 3>>>>,                    \* diagonal first
  <<SymTri3, <<1, 4, 7, 2, 5, 8, 3, 6, 9>>>>,       \* column-major
  <<SymTri3, <<9, 8, 7, 6, 5, 4, 3, 2, 1>>>>,       \* reversed
  <<SymTri3, <<1, 5, 9, 2, 3, 6, 4, 7, 8>>>>,       \* diagonal, upper triangle, lower triangle
  <<SymTri3, <<1, 2, 3, 5, 6, 9, 4, 7, 8>>>>,       \* upper triangle, then the mirrored entries
  <<SymRect23, <<1, 2, 3, 4, 5, 6>>>>,
  <<SymRect23, <<1, 4, 2, 5, 3, 6>>>>,              \* column-major
  <<SymRect23, <<3, 1, 5, 2, 6, 4>>>>,
  <<SymVec3, <<1, 2, 3>>>>,
  <<SymVec3, <<3, 1, 2>>>>,
  <<SymCube2, <<1, 2, 3, 4, 5, 6, 7, 8>>>>,
  <<SymCube2, <<1, 8, 2, 3, 5, 4, 6, 7>>>> }        \* the two "diagonal" entries, then by sub-element
AllOrders2 == {<<SymTri2, p>> : p \in AllOrders(4)}    \* every way of writing a 2 x 2 dictionary
OrdAB(m) == {<<L("identity", << >>), L("l2", << >>)>>, <<L("contravariant", <<m.t>>), L("covariant", <<m.t>>)>>}
\* composite sub-elements of a symmetric element (its blocks are then themselves mixed / symmetric values)
CompositeSubs(m) == {Mix(<<L("identity", << >>), L("contravariant", <<m.t>>)>>),
                     Mix(<<L("l2", << >>), L("covariant", <<m.t>>)>>),
                     Sym(Decl(SymVec3, <<3, 1, 2>>), <<L("identity", << >>), L("l2", << >>)>>),
                     Sym(Decl(SymVec3, <<1, 2, 3>>), <<L("l2", << >>), L("l2", << >>)>>)}
SymOfComposite(TOs, m) == SymOrdElems(TOs, Compat(CompositeSubs(m), m))

NestQ(m) == {Mix(<<a, b>>) : a \in {L("identity", << >>), L("covariant", <<m.t>>)},
                             b \in {L("contravariant", <<m.t>>), L("l2", << >>)}}
            \cup {SymAB(SymTri2, L("identity", << >>), L("identity", << >>)),
                  SymABO(SymTri2, <<1, 4, 2, 3>>, L("dcov", <<m.t, m.t>>), L("dcov", <<m.t, m.t>>))}
NestT(m) == {Mix(s) : s \in Pairs(Small(m))}
            \cup {Mix(<<L("identity", <<m.g>>), a, L("l2", << >>)>>) : a \in Small(m)}
            \cup {SymABO(to[1], to[2], a, a) : to \in {<<SymTri2, <<1, 2, 4, 3>>>>, <<SymVoigt3, RowMajor(SymVoigt3)>>},
                                    a \in {L("identity", << >>), L("dcov", <<m.t, m.t>>), L("contravariant", <<m.t>>)}}

Quick(m) ==
  AllLeaves(m)
  \cup {Mix(s) : s \in Pairs(Core(m))}
  \cup {Mix(s) : s \in Triples(Small(m))}
  \cup SymElems({SymTri2, SymVoigt2, SymTri3}, Medium(m) \cup {L("dcov", <<m.t, m.t>>)}, m)
  \cup SymOrdElems(AllOrders2, {<<L("identity", << >>), L("l2", << >>)>>})
  \cup SymOrdElems(NamedOrders, OrdAB(m))
  \cup SymOfComposite({<<SymTri2, <<1, 2, 4, 3>>>>}, m)
  \cup {Mix(<<x, y>>) : x \in NestQ(m), y \in Small(m)}
  \cup {Mix(<<y, x>>) : x \in NestQ(m), y \in Small(m)}
  \cup {Mix(s) : s \in Pairs(NestQ(m))}

Thorough(m) ==
  AllLeaves(m)
  \cup {Mix(s) : s \in Pairs(AllLeaves(m))}
  \cup {Mix(s) : s \in Triples(Core(m))}
  \cup SymElems({SymTri2, SymVoigt2, SymTri3, SymVoigt3}, Core(m) \cup {L("l2", <<m.g>>), L("l2", <<2, 2>>)}, m)
  \cup SymOrdElems(AllOrders2, Compat(Small(m), m))
  \cup SymOrdElems(NamedOrders, Compat(Medium(m) \cup {L("dcov", <<m.t, m.t>>)}, m))
  \cup SymOfComposite({<<SymTri2, <<1, 2, 3, 4>>>>, <<SymTri2, <<1, 2, 4, 3>>>>, <<SymVoigt2, <<1, 4, 2, 3>>>>,
                        <<SymVec3, <<2, 3, 1>>>>}, m)
  \cup {Mix(<<x, y>>) : x \in NestT(m), y \in Medium(m)}
  \cup {Mix(<<y, x>>) : x \in NestT(m), y \in Medium(m)}
  \cup {Mix(<<y, x, z>>) : x \in NestT(m), y \in Small(m), z \in Small(m)}
  \cup {Mix(s) : s \in Pairs(NestT(m))}

Elements(m) == IF Tier = 1 THEN Quick(m) ELSE Thorough(m)

\* ---------------------------------------------------------------------------------------------
\* state machine
\* ---------------------------------------------------------------------------------------------
VARIABLES stage, map, elem, ref, phys, pshape
vars == <<stage, map, elem, ref, phys, pshape>>

Init == stage = "start" /\ map = << >> /\ elem = << >> /\ ref = << >> /\ phys = << >> /\ pshape = << >>

PickMap ==
  /\ stage = "start"
  /\ \E i \in MapSel :
       /\ map' = Maps[i]
       /\ PrintT(ToJson([mapdef |-> Maps[i]]))
  /\ stage' = "map"
  /\ UNCHANGED <<elem, ref, phys, pshape>>

PickElement ==
  /\ stage = "map"
  /\ \E e \in Elements(map) :
       /\ elem' = e
       /\ ref' = RefValues(e)
  /\ stage' = "elem"
  /\ UNCHANGED <<map, phys, pshape>>

Apply ==
  /\ stage = "elem"
  /\ phys' = Push(elem, map, ref) \o << >>
  /\ pshape' = PhysShape(elem, map)
  /\ stage' = "done"
  /\ UNCHANGED <<map, elem, ref>>
  /\ PrintT(ToJson([pair |-> [map |-> map.name, elem |-> elem, pshape |-> pshape', phys |-> phys']]))

Next == PickMap \/ PickElement \/ Apply
Spec == Init /\ [][Next]_vars

\* ---------------------------------------------------------------------------------------------
\* invariants
\* ---------------------------------------------------------------------------------------------
MapSane == stage = "map" => MapOK(map)

ElementLegal == stage \in {"elem", "done"} => Legal(elem, map) /\ Len(ref) = RefSize(elem)

AllDefined == stage = "done" => \A k \in 1..Len(phys) : QDef(phys[k])

\* --- shape algebra ---------------------------------------------------------------------------
\* pieces of a composite element in physical order: (sub-element number, physical size)
PieceSeq(e, m) ==
  IF e.kind = "mixed"
  THEN [s \in 1..Len(e.subs) |-> [sub |-> s, n |-> PhysSize(e.subs[s], m)]]
  ELSE [k \in 1..NBlocks(e) |-> [sub |-> SymAt(e, k), n |-> PhysSize(e.subs[1], m)]]
PieceOffs(P) == [p \in 1..(Len(P) + 1) |-> SumInt([q \in 1..(p - 1) |-> P[q].n])]     \* prefix sums
Glob(O, pc) == O[pc[1]] + pc[2]                                  \* (piece, local component) -> component
Loc(P, O, k) == LET p == CHOOSE q \in 1..Len(P) : O[q] < k /\ k <= O[q] + P[q].n
                IN <<p, k - O[p]>>                               \* component -> (piece, local component)
PieceBijection(e, m) ==
  LET P == PieceSeq(e, m) \o << >>            \* (\o forces TLC's lazy function values into tuples)
      O == PieceOffs(P) \o << >>
      N == PhysSize(e, m)
      PCs == UNION {{<<p, c>> : c \in 1..P[p].n} : p \in 1..Len(P)}
  IN /\ O[Len(P) + 1] = N                                      \* the sizes add up to the declared shape
     /\ Cardinality(PCs) = N
     /\ \A k \in 1..N : Loc(P, O, k) \in PCs /\ Glob(O, Loc(P, O, k)) = k
     /\ \A pc \in PCs : Glob(O, pc) \in 1..N /\ Loc(P, O, Glob(O, pc)) = pc
RECURSIVE ShapeOK(_, _)
ShapeOK(e, m) ==
  CASE e.kind \in PlainKinds -> PhysSize(e, m) = RefSize(e)
    [] e.kind \in VecKinds   -> PhysSize(e, m) * m.t = RefSize(e) * m.g
    [] e.kind \in TenKinds   -> PhysSize(e, m) * m.t * m.t = RefSize(e) * m.g * m.g
    [] OTHER -> PieceBijection(e, m) /\ \A s \in 1..Len(e.subs) : ShapeOK(e.subs[s], m)
ShapeAlgebra ==
  stage = "done" => /\ pshape = PhysShape(elem, map)
                    /\ Len(phys) = ProdInt(pshape)
                    /\ Len(ref) = RefSize(elem)
                    /\ ShapeOK(elem, map)

\* a symmetric numbering yields a symmetric block tensor
SymmetricBlocks ==
  (/\ stage = "done" /\ elem.kind = "symmetric" /\ SymRank(elem) = 2
   /\ BlockShape(elem)[1] = BlockShape(elem)[2]
   /\ \A i, j \in 1..BlockShape(elem)[1] : SubAt(elem, <<i, j>>) = SubAt(elem, <<j, i>>)) =>
    LET n == BlockShape(elem)[1]  b == PhysSize(elem.subs[1], map)
    IN \A i \in 1..n, j \in 1..n, c \in 1..b :
         phys[((i - 1) * n + (j - 1)) * b + c] = phys[((j - 1) * n + (i - 1)) * b + c]

\* the order in which a symmetry dictionary was written is not observable: the element re-declared in
\* row-major order (at every level of the tree) has the same physical shape and the same push-forward
RECURSIVE Canon(_)
Canon(e) ==
  CASE e.kind \in LeafKinds -> e
    [] e.kind = "mixed" -> Mix([s \in 1..Len(e.subs) |-> Canon(e.subs[s])])
    [] e.kind = "symmetric" ->
         LET bs == BlockShape(e)
         IN Sym([k \in 1..ProdInt(bs) |-> [comp |-> Unflat(bs, k - 1), sub |-> SubAt(e, Unflat(bs, k - 1))]],
                [s \in 1..Len(e.subs) |-> Canon(e.subs[s])])
DeclOrderIrrelevant ==
  (stage = "done" /\ Canon(elem) # elem) =>
     /\ Legal(Canon(elem), map)
     /\ pshape = PhysShape(Canon(elem), map)
     /\ phys = Push(Canon(elem), map, ref)

\* --- covariant . contravariant duality:  (K^T r) . (J s / detJ) detJ = r . s ------------------
Duality ==
  stage = "map" =>
    LET r == [k \in 1..map.t |-> QI(Primes[k])]
        s == [k \in 1..map.t |-> QI(Primes[k + 3])]
    IN QMul(Dot(CovVec(map, r), ContraVec(map, s)), map.detJ) = Dot(r, s)

\* --- a double Piola map is the single Piola maps applied to each index -----------------------
First(kind, m, v)  == IF kind = "dcontra" THEN ContraVec(m, v) ELSE CovVec(m, v)
Second(kind, m, v) == IF kind = "dcov" THEN CovVec(m, v) ELSE ContraVec(m, v)
ViaSingle(kind, m, R) ==
  [i \in 1..m.g |-> [j \in 1..m.g |->
     QSum([ab \in 1..(m.t * m.t) |->
        LET a == (ab - 1) \div m.t + 1  b == ((ab - 1) % m.t) + 1
        IN QMul(R[a][b], QMul(First(kind, m, Unit(m.t, a))[i], Second(kind, m, Unit(m.t, b))[j]))])]]
DoubleViaSingle ==
  (stage = "done" /\ elem.kind \in TenKinds) =>
    LET B == Blocks(ref, map.t * map.t)
    IN phys = Concat([p \in 1..Len(B) |-> Concat(ViaSingle(elem.kind, map, AsMat(B[p], map.t, map.t)))])
\* ... and on outer products r (x) s it factorises
OuterFactorises ==
  stage = "map" =>
    LET r == [k \in 1..map.t |-> QI(Primes[k])]
        s == [k \in 1..map.t |-> QI(Primes[k + 3])]
        R == [a \in 1..map.t |-> [b \in 1..map.t |-> QMul(r[a], s[b])]]
        Out(v, w) == [i \in 1..Len(v) |-> [j \in 1..Len(w) |-> QMul(v[i], w[j])]]
    IN /\ DCov(map, R) = Out(CovVec(map, r), CovVec(map, s))
       /\ DContra(map, R) = Out(ContraVec(map, r), ContraVec(map, s))
       /\ CovContra(map, R) = Out(CovVec(map, r), ContraVec(map, s))
=============================================================================
