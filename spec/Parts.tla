------------------------------- MODULE Parts -------------------------------
(***************************************************************************)
(* C16 / C22.  Forms "assembled at a point", the part extraction of        *)
(* ufl/algorithms/formtransformations.py AS CODED, and what lhs / rhs /    *)
(* system / functional / action / adjoint / energy_norm / extract_blocks   *)
(* MEAN.                                                                   *)
(*                                                                         *)
(* (a) TERM ALGEBRA.  `store` is the construction history of integrand     *)
(* expressions (one record per constructor call, as in UFLBuild): argument *)
(* terminals (number 0 = test, 1 = trial; part 0 = none, p >= 1 = the      *)
(* (p-1)-th sub-space of a MixedFunctionSpace), coefficients, literals,    *)
(* + - * / neg conj real imag abs pow inner dot outer index list var isum   *)
(* (isum(a, b) = a[i]*b[i], an IndexSum over a free index), and the        *)
(* restrictions rp(a) = a('+'), rm(a) = a('-') to the two sides of an      *)
(* interior facet (Sides = 2: every slot of the test / trial value vector  *)
(* names a side; a node also carries `sv` = its value with every terminal  *)
(* replaced by its '+' / '-' trace and `rs`, its restriction state).       *)
(* Every record carries its shape, `degs` = the set of degrees of          *)
(* homogeneity <<deg in test, deg in trial>> of its monomials (3 = under a *)
(* nonlinear operator) and `val` = its exact value (module CQ) at every    *)
(* evaluation point <<e, i, j>>: coefficient environment e, the test       *)
(* value vector = i-th unit vector (0: zero vector), the trial value       *)
(* vector = j-th unit vector (0: zero).  The value vector of a mixed space *)
(* is the concatenation of the sub-function values (VSlot / USlot).        *)
(*                                                                         *)
(* (c) MEANING.  For a multi-affine integrand F the table F(e, i, j)       *)
(* decomposes uniquely into  Const + Lin(v) + Bilin(v, u)  (tensors T0,    *)
(* T1[i], T2[i][j]).  lhs = Bilin, rhs = -Lin, functional = Const,         *)
(* action = contraction of the last argument with a coefficient, adjoint   *)
(* = conjugate transpose, energy_norm = w^T T2 w, block (i, j) = the       *)
(* restriction of T2 to the rows of sub-space i and the columns of j.      *)
(*                                                                         *)
(* (b) CODE.  PE transcribes PartExtracter handler by handler on abstract  *)
(* parts [rej, z, prov, val, degs] (rej: the visit raised; z: the returned *)
(* expression is a Zero node; prov: the provides-set), Split transcribes   *)
(* FormSplitter (arguments replaced by Zero and the constructors' zero     *)
(* propagation), and the form operators are built on top exactly like      *)
(* compute_form_lhs / _rhs / _functional / _action / _adjoint /            *)
(* compute_energy_norm / extract_blocks.                                   *)
(* The sub-elements of a MixedElement space carry their physical and their *)
(* reference value size (VSub / USub); the offset loop of                  *)
(* FormSplitter.argument (replace_argument = False) is transcribed next to *)
(* extract_blocks (PosOff / CntOff / KeptPos, invariant SplitterKeepsOwn). *)
(*                                                                         *)
(* State machine: Build (one action per constructor) -> MkForm (one or two *)
(* integrals) -> Apply(form operator).  The invariants relate (b) to (c)   *)
(* for every form in the bound; DumpInv prints (program, operator,         *)
(* predicted tables) for the replay into real ufl.                         *)
(***************************************************************************)
EXTENDS Integers, Sequences, FiniteSets, FiniteSetsExt, SequencesExt, TLC, Json, CQ

CONSTANTS
  Args,      \* sequence of [nm, num, part, sh], ordered by (num, part); sh = << >> or <<n>>
  Coefs,     \* sequence of [nm, sh]
  CoefVal,   \* CoefVal[e][k] : component -> C
  NEnv,
  Lits,      \* sequence of [nm, v]
  Prelude,   \* sequence of [op, args, mi]: nodes built in Init (the pieces of ufl.split)
  Usable,    \* set of initial node ids that constructors may use as operands
  OpSet,     \* enabled constructors
  MaxNodes,  \* number of constructor calls
  FormOps,   \* enabled form operators
  KeyPairs,  \* set of <<k1, k2>>: integral keys of two-integral forms ({} = single integrals only)
  VSlot, USlot,      \* sequences of <<argument id, component>>: the test / trial value vector
  NV, NU,            \* their lengths
  VPartOf, UPartOf,  \* sub-space (1..) of every slot (all 1 when the space is not mixed)
  KV, KU,            \* number of sub-spaces of the test / trial space
  Mixed,     \* "none" | "element" (MixedElement + split) | "space" (MixedFunctionSpace)
  ActCoef,   \* ActCoef[a]: index in Coefs of the coefficient that action / energy_norm put for argument a (0: none)
  SameSpace, \* test space = trial space
  AsCoded,   \* TRUE: adjoint part labels and extract_blocks structure as coded; FALSE: as intended
  VSub, USub,        \* Mixed = "element": <<physical value size, reference value size>> of every sub-element of
                     \* the test / trial MixedElement (<< >>: the space of that side is not a MixedElement space).
                     \* The two sizes differ for symmetric tensor sub-elements (2x2: 4 / 3) and for Piola mapped
                     \* vector sub-elements on an immersed mesh (3 / 2).
  OffsetBy,  \* "physical": FormSplitter.argument advances its offset into the flattened original argument by the
             \* physical value size of each sub-element (as coded, as intended); "reference": by the reference
             \* value size (the model-level counterexample: SplitterKeepsOwn fails)
  Programs,  \* {}: every term of the bound is built step by step; otherwise a set of [prog, ints]:
             \* sampled programs (drawn by the harness), each validated against the constructors'
             \* guards and taken as an initial state
  Sides      \* 1: no interior facets.  2: the value vectors are those of the macro element of an interior facet:
             \* VSlot / USlot (and VPartOf / UPartOf) list the components twice, slots 1..NV/2 are the '+' traces,
             \* slots NV/2+1..NV the '-' traces of the same components; the constructors rp / rm (restriction to
             \* '+' / '-') and the interior facet integral keys (FacetKeys) are available

VARIABLES store, form, res
vars == <<store, form, res>>

ASSUME NV = Len(VSlot) /\ NU = Len(USlot) /\ Len(VPartOf) = NV /\ Len(UPartOf) = NU
\* sides: the second half of the slots mirrors the first half
NVh == NV \div Sides
NUh == NU \div Sides
ASSUME /\ Sides \in {1, 2} /\ NVh * Sides = NV /\ NUh * Sides = NU
       /\ \A s \in (NVh + 1)..NV : VSlot[s] = VSlot[s - NVh] /\ VPartOf[s] = VPartOf[s - NVh]
       /\ \A s \in (NUh + 1)..NU : USlot[s] = USlot[s - NUh] /\ UPartOf[s] = UPartOf[s - NUh]
SideV(s) == IF s <= NVh THEN 1 ELSE 2          \* 1: '+', 2: '-'
SideU(s) == IF s <= NUh THEN 1 ELSE 2
PlainV(s) == IF s <= NVh THEN s ELSE s - NVh   \* the slot of the same component on the '+' side
PlainU(s) == IF s <= NUh THEN s ELSE s - NUh
SvN == IF Sides = 2 THEN 2 ELSE 0               \* number of restriction contexts (length of `sv`)
FacetKeys == {5, 6}                             \* integral keys of interior facet integrals
\* the flattened value vector of a MixedElement space: sub-element i occupies Phys(i) consecutive slots
SubOk(sub, K, N, PartOf) ==
  sub = << >> \/ /\ Len(sub) = K
                 /\ \A i \in 1..K : sub[i][1] >= 1 /\ sub[i][2] >= 1 /\ sub[i][2] <= sub[i][1]
                 /\ LET off[k \in 0..K] == IF k = 0 THEN 0 ELSE off[k - 1] + sub[k][1]
                        Nh == N \div Sides
                    IN off[K] = Nh /\ \A i \in 1..K, s \in 1..Nh : (PartOf[s] = i) <=> (s > off[i - 1] /\ s <= off[i])
ASSUME (Mixed # "element" => VSub = << >> /\ USub = << >>) /\ OffsetBy \in {"physical", "reference"}
ASSUME SubOk(VSub, KV, NV, VPartOf) /\ SubOk(USub, KU, NU, UPartOf)

Envs == 1..NEnv
Pts == Envs \X (0..NV) \X (0..NU)
Tup(sh) == IF Len(sh) = 0 THEN {<< >>}
           ELSE IF Len(sh) = 1 THEN {<<c>> : c \in 0..(sh[1] - 1)}
           ELSE {<<c, d>> : c \in 0..(sh[1] - 1), d \in 0..(sh[2] - 1)}
PW(sh, F(_, _)) == [p \in Pts |-> [c \in Tup(sh) |-> F(p, c)]]
ZVal(sh) == PW(sh, LAMBDA p, c : C0)
CSumSet(S, F(_)) == FoldSet(LAMBDA x, acc : CAdd(F(x), acc), C0, S)
\* equality of exact values; an undefined value (division by zero, overflow of the 32 bit
\* range) is never compared
Eq(z, w) == ~CDef(z) \/ ~CDef(w) \/ z = w

-----------------------------------------------------------------------------
(* Degrees of homogeneity *)
DZ == {<<0, 0>>}
NLD == {<<3, 3>>}
Cap(n) == IF n > 3 THEN 3 ELSE n
DMul(A, B) == {<<Cap(a[1] + b[1]), Cap(a[2] + b[2])>> : a \in A, b \in B}
ValidDegs == {<<0, 0>>, <<1, 0>>, <<1, 1>>}

OpDegs(op, ds) ==
  LET A == ds[1]  B == ds[Len(ds)] IN
  CASE op \in {"add", "sub"} -> A \cup B
    [] op \in {"neg", "conj", "real", "imag", "var", "index", "rp", "rm"} -> A
    [] op \in {"mul", "inner", "dot", "outer", "isum"} -> DMul(A, B)
    [] op = "div" -> IF B = DZ THEN A ELSE NLD
    [] op = "abs" -> IF A = DZ THEN DZ ELSE NLD
    [] op = "pow" -> IF A = DZ /\ B = DZ THEN DZ ELSE NLD
    [] op \in {"list", "rows"} -> UNION {ds[k] : k \in 1..Len(ds)}

-----------------------------------------------------------------------------
(* Values: every constructor as a function of operand records with fields sh, val *)
OpSh(op, mi, xs) ==
  LET x == xs[1]  y == xs[Len(xs)] IN
  CASE op \in {"add", "sub", "neg", "conj", "real", "imag", "abs", "var", "div", "rp", "rm"} -> x.sh
    [] op = "mul" -> IF x.sh = << >> THEN y.sh ELSE x.sh
    [] op \in {"pow", "inner", "dot", "index", "isum"} -> << >>
    [] op = "outer" -> x.sh \o y.sh
    [] op = "list" -> <<Len(xs)>>
    [] op = "rows" -> <<Len(xs)>> \o x.sh

OpVal(op, mi, xs) ==
  LET x == xs[1]  y == xs[Len(xs)] IN
  CASE op = "add" -> PW(x.sh, LAMBDA p, c : CAdd(x.val[p][c], y.val[p][c]))
    [] op = "sub" -> PW(x.sh, LAMBDA p, c : CSub(x.val[p][c], y.val[p][c]))
    [] op = "neg" -> PW(x.sh, LAMBDA p, c : CNeg(x.val[p][c]))
    [] op = "mul" -> PW(OpSh(op, mi, xs), LAMBDA p, c :
                         IF x.sh = << >> THEN CMul(x.val[p][<< >>], y.val[p][c])
                         ELSE CMul(x.val[p][c], y.val[p][<< >>]))
    [] op = "div" -> PW(x.sh, LAMBDA p, c : CDiv(x.val[p][c], y.val[p][<< >>]))
    [] op = "pow" -> PW(<< >>, LAMBDA p, c : CPow(x.val[p][c], y.val[p][c]))
    [] op = "abs" -> PW(x.sh, LAMBDA p, c : CAbs(x.val[p][c]))
    [] op = "conj" -> PW(x.sh, LAMBDA p, c : CConj(x.val[p][c]))
    [] op = "real" -> PW(x.sh, LAMBDA p, c : CRe(x.val[p][c]))
    [] op = "imag" -> PW(x.sh, LAMBDA p, c : CIm(x.val[p][c]))
    [] op = "var" -> x.val
    \* a('+') / a('-'): the value of a with every terminal replaced by its trace on that side
    [] op = "rp" -> x.sv[1]
    [] op = "rm" -> x.sv[2]
    \* inner(a, b) = sum_c a_c conj(b_c);  dot: no conjugation;  outer(a, b) = conj(a) (x) b
    [] op = "inner" -> PW(<< >>, LAMBDA p, c : CSumSet(Tup(x.sh), LAMBDA t : CMul(x.val[p][t], CConj(y.val[p][t]))))
    \* isum(a, b) = a[i]*b[i] (IndexSum of a Product of Indexed with a free index): the value of dot
    [] op \in {"dot", "isum"} -> PW(<< >>, LAMBDA p, c : CSumSet(Tup(x.sh), LAMBDA t : CMul(x.val[p][t], y.val[p][t])))
    [] op = "outer" -> PW(x.sh \o y.sh, LAMBDA p, c :
                           CMul(CConj(x.val[p][SubSeq(c, 1, Len(x.sh))]), y.val[p][SubSeq(c, Len(x.sh) + 1, Len(c))]))
    [] op = "index" -> PW(<< >>, LAMBDA p, c : x.val[p][mi])
    [] op = "list" -> PW(<<Len(xs)>>, LAMBDA p, c : xs[c[1] + 1].val[p][<< >>])
    \* a list tensor of vectors of equal length (the matrix-valued pieces of ufl.split; only built in the prelude)
    [] op = "rows" -> PW(<<Len(xs)>> \o x.sh, LAMBDA p, c : xs[c[1] + 1].val[p][Tail(c)])

\* sv: << >> (Sides = 1, or the node contains a restriction: it cannot be restricted again), otherwise
\*     <<value on the '+' side, value on the '-' side>>
\* rs: restriction state: "lit" (no Argument / Coefficient below), "free" (none of them restricted: an
\*     integrand of a cell / exterior facet integral, and what rp / rm may be applied to), "done" (each of
\*     them below exactly one restriction: an integrand of an interior facet integral)
N(op, args, mi, sh, val, degs, sv, rs) ==
  [op |-> op, args |-> args, mi |-> mi, sh |-> sh, val |-> val, degs |-> degs, sv |-> sv, rs |-> rs]

OpRs(op, rss) == IF op \in {"rp", "rm"} \/ "done" \in rss THEN "done" ELSE IF "free" \in rss THEN "free" ELSE "lit"
MkNode(s, op, args, mi) ==
  LET xs == [k \in 1..Len(args) |-> s[args[k]]]
      rs == OpRs(op, {xs[k].rs : k \in 1..Len(args)})
  IN N(op, args, mi, OpSh(op, mi, xs), OpVal(op, mi, xs), OpDegs(op, [k \in 1..Len(args) |-> xs[k].degs]),
       IF rs = "done" THEN << >>
       ELSE [c \in 1..SvN |-> OpVal(op, mi, [k \in 1..Len(args) |-> [sh |-> xs[k].sh, val |-> xs[k].sv[c]]])],
       rs)

\* the language's well-formedness rules, restricted to constructions whose real object has the
\* same operator structure (no construction-time rewriting other than operand sorting)
IsLit(x) == x.op = "lit"
IndexableOps == {"arg", "coef", "outer", "var", "conj", "real", "imag", "rp", "rm"}
FreeIndexableOps == {"arg", "coef", "var", "conj", "real", "imag", "list", "rp", "rm"}
\* restrictions: only of an expression without restrictions that has an Argument or a Coefficient (ufl returns
\* a restricted literal unchanged and refuses to restrict twice); no operator mixes restricted and
\* unrestricted Arguments / Coefficients (such an expression is an integrand of no integral type)
RsOk(s, op, args) ==
  IF op \in {"rp", "rm"} THEN Sides = 2 /\ s[args[1]].rs = "free"
  ELSE ~({"free", "done"} \subseteq {s[args[k]].rs : k \in 1..Len(args)})
OkNode(s, op, args, mi) ==
  LET x == s[args[1]]  y == s[args[Len(args)]] IN
  RsOk(s, op, args) /\
  CASE op \in {"add", "sub"} -> x.sh = y.sh /\ ~(IsLit(x) /\ IsLit(y))
    [] op = "neg" -> ~IsLit(x)
    [] op = "mul" -> (x.sh = << >> \/ y.sh = << >>) /\ ~(IsLit(x) /\ IsLit(y)) /\ Len(x.sh) < 2 /\ Len(y.sh) < 2
    [] op = "div" -> y.sh = << >> /\ ~(IsLit(x) /\ IsLit(y)) /\ Len(x.sh) < 2
    [] op = "pow" -> x.sh = << >> /\ ~IsLit(x) /\ IsLit(y) /\ Lits[y.mi[1]].nm = "two"
    [] op = "abs" -> x.sh = << >> /\ x.op \notin {"lit", "abs", "conj"}
    [] op = "conj" -> x.op \notin {"lit", "abs", "real", "imag", "conj"}
    [] op \in {"real", "imag"} -> x.op \notin {"lit", "abs", "real", "imag", "conj"}
    [] op = "var" -> ~IsLit(x) /\ x.op # "var"
    [] op \in {"rp", "rm"} -> TRUE
    [] op = "inner" -> x.sh = y.sh /\ Len(x.sh) >= 1
    [] op = "dot" -> x.sh = y.sh /\ Len(x.sh) = 1
    [] op = "outer" -> Len(x.sh) = 1 /\ Len(y.sh) = 1
    \* a[k] with fixed indices; only where ufl builds an Indexed node (it rewrites indexed
    \* sums, list tensors and component tensors at construction)
    \* (a Variable / Conj / Real / Imag node is indexed as it is: the Indexed node then wraps an
    \* expression whose extracted part may differ from the expression itself)
    [] op = "index" -> /\ x.op \in IndexableOps /\ Len(mi) = Len(x.sh) /\ Len(mi) >= 1
                       /\ \A k \in 1..Len(mi) : mi[k] \in 0..(x.sh[k] - 1)
    [] op = "list" -> \A k \in 1..Len(args) : s[args[k]].sh = << >> /\ ~IsLit(s[args[k]])
    \* a[i]*b[i]: only operands that ufl indexes with a free index without rewriting them
    [] op = "isum" -> /\ x.sh = y.sh /\ Len(x.sh) = 1
                      /\ x.op \in FreeIndexableOps /\ y.op \in FreeIndexableOps

-----------------------------------------------------------------------------
(* Initial store *)
\* side = 0: the unrestricted value (in a cell integral: the unit vector, whichever side the slot names);
\* side = 1 / 2: the trace on the '+' / '-' side (the unit vector on the slot's side, zero on the other side)
ArgVal(a, side) == [p \in Pts |-> [c \in Tup(Args[a].sh) |->
                IF Args[a].num = 0 THEN (IF p[2] > 0 /\ VSlot[p[2]] = <<a, c>> /\ side \in {0, SideV(p[2])} THEN C1 ELSE C0)
                ELSE (IF p[3] > 0 /\ USlot[p[3]] = <<a, c>> /\ side \in {0, SideU(p[3])} THEN C1 ELSE C0)]]
ArgNode(a) == N("arg", << >>, <<a>>, Args[a].sh, ArgVal(a, 0), {IF Args[a].num = 0 THEN <<1, 0>> ELSE <<0, 1>>},
                [c \in 1..SvN |-> ArgVal(a, c)], "free")
\* the '-' trace of a coefficient in environment e is its value in the next environment (cyclically)
CoefNode(k) == N("coef", << >>, <<k>>, Coefs[k].sh, [p \in Pts |-> CoefVal[p[1]][k]], DZ,
                 [c \in 1..SvN |-> [p \in Pts |-> CoefVal[IF c = 2 THEN (p[1] % NEnv) + 1 ELSE p[1]][k]]], "free")
LitNode(k) == N("lit", << >>, <<k>>, << >>, [p \in Pts |-> (<< >> :> Lits[k].v)], DZ,
                [c \in 1..SvN |-> [p \in Pts |-> (<< >> :> Lits[k].v)]], "lit")
Base == [a \in 1..Len(Args) |-> ArgNode(a)] \o [k \in 1..Len(Coefs) |-> CoefNode(k)]
        \o [k \in 1..Len(Lits) |-> LitNode(k)]
RECURSIVE WithPrelude(_, _)
WithPrelude(s, k) == IF k > Len(Prelude) THEN s
                     ELSE WithPrelude(Append(s, MkNode(s, Prelude[k].op, Prelude[k].args, Prelude[k].mi)), k + 1)
NInit == Len(Args) + Len(Coefs) + Len(Lits) + Len(Prelude)
Store0 == WithPrelude(Base, 1)     \* (a constant: evaluated once, not once per sampled program)
CoefId(k) == Len(Args) + k

\* a sampled program: every step must satisfy the constructor's guard
RECURSIVE RunProg(_, _, _)
RunProg(s, prog, k) ==
  IF k > Len(prog) THEN s
  ELSE LET n == prog[k] IN
       IF /\ n.op \in OpSet
          /\ Len(n.args) = (IF n.op \in {"neg", "abs", "conj", "real", "imag", "var", "index", "rp", "rm"} THEN 1 ELSE 2)
          /\ \A j \in 1..Len(n.args) : n.args[j] \in 1..Len(s) /\ (n.args[j] > NInit \/ n.args[j] \in Usable)
          /\ OkNode(s, n.op, n.args, n.mi)
       THEN RunProg(Append(s, MkNode(s, n.op, n.args, n.mi)), prog, k + 1)
       ELSE << >>
\* interior facet integrals take the integrands in which everything is restricted, the others those without restrictions
KeyOk(s, key, n) == (key \in FacetKeys) <=> (s[n].rs = "done")
FormOk(s, ints) == /\ Len(ints) \in {1, 2}
                   /\ \A k \in 1..Len(ints) : /\ ints[k].root \in 1..Len(s) /\ ints[k].key \in 1..6
                                               /\ s[ints[k].root].sh = << >> /\ s[ints[k].root].op # "lit"
                                               /\ KeyOk(s, ints[k].key, ints[k].root)

Init == IF Programs = {}
        THEN store = Store0 /\ form = << >> /\ res = "none"
        ELSE \E pr \in Programs :
               LET s == RunProg(Store0, pr.prog, 1) IN
               /\ s # << >> /\ FormOk(s, pr.ints)
               /\ store = s /\ form = pr.ints /\ res = "none"

-----------------------------------------------------------------------------
(* FormSplitter as coded: the arguments outside the requested block are replaced by Zero and  *)
(* the expression is rebuilt through the constructors, which propagate Zero.  DV / DU are the  *)
(* dead slots of the test / trial value vector.                                               *)
ArgSlots(a) == IF Args[a].num = 0 THEN {s \in 1..NV : VSlot[s][1] = a} ELSE {s \in 1..NU : USlot[s][1] = a}
ArgDead(a, DV, DU) == IF Args[a].num = 0 THEN ArgSlots(a) \subseteq DV ELSE ArgSlots(a) \subseteq DU
SlotDead(a, c, DV, DU) == IF Args[a].num = 0 THEN \E s \in DV : VSlot[s] = <<a, c>>
                          ELSE \E s \in DU : USlot[s] = <<a, c>>
RECURSIVE SZ(_, _, _)
SZ(n, DV, DU) ==            \* the rebuilt node n is a Zero
  LET x == store[n] IN
  CASE x.op = "arg" -> ArgDead(x.mi[1], DV, DU)
    [] x.op \in {"coef", "lit"} -> FALSE
    [] x.op = "index" -> IF store[x.args[1]].op = "arg" THEN SlotDead(store[x.args[1]].mi[1], x.mi, DV, DU)
                         ELSE SZ(x.args[1], DV, DU)
    [] x.op \in {"add", "sub"} -> SZ(x.args[1], DV, DU) /\ SZ(x.args[2], DV, DU)
    [] x.op \in {"mul", "inner", "dot", "outer", "isum"} -> SZ(x.args[1], DV, DU) \/ SZ(x.args[2], DV, DU)
    [] x.op \in {"list", "rows"} -> \A k \in 1..Len(x.args) : SZ(x.args[k], DV, DU)
    \* neg conj real imag abs pow(base) div(numerator) var; rp rm (FormSplitter.restricted: the operand is split,
    \* a Zero is returned as it is, anything else is restricted to the side of the visited node)
    [] OTHER -> SZ(x.args[1], DV, DU)
RECURSIVE ArgsIn(_, _, _)
ArgsIn(n, DV, DU) ==        \* the Arguments left in the rebuilt node n
  LET x == store[n] IN
  IF SZ(n, DV, DU) THEN {}
  ELSE CASE x.op = "arg" -> {x.mi[1]}
         [] x.op \in {"coef", "lit"} -> {}
         [] OTHER -> UNION {ArgsIn(x.args[k], DV, DU) : k \in 1..Len(x.args)}
HasArg(n, DV, DU) == ArgsIn(n, DV, DU) # {}        \* _expr_has_terminal_types(x, Argument)
MaskPt(p, DV, DU) == <<p[1], IF p[2] \in DV THEN 0 ELSE p[2], IF p[3] \in DU THEN 0 ELSE p[3]>>
ValD(x, DV, DU) == [p \in Pts |-> x.val[MaskPt(p, DV, DU)]]

-----------------------------------------------------------------------------
(* PartExtracter as coded.  One operator per handler; a handler returns (part, provides).     *)
Part(z, prov, sh, val, degs) == [rej |-> FALSE, z |-> z, prov |-> prov, sh |-> sh, val |-> val, degs |-> degs]
RejPart == [rej |-> TRUE, z |-> FALSE, prov |-> {}, sh |-> << >>, val |-> ZVal(<< >>), degs |-> {}]
ZeroPart(sh) == Part(TRUE, {}, sh, ZVal(sh), {})                 \* (zero_expr(x), set())
ZeroProv(sh, prov) == Part(TRUE, prov, sh, ZVal(sh), {})         \* (zero_expr(x), provides)
LitPart(v) == Part(FALSE, {}, << >>, [p \in Pts |-> (<< >> :> v)], DZ)
Built(op, mi, ps, prov) ==                                       \* reuse_if_possible(x, *parts)
  Part(FALSE, prov, OpSh(op, mi, ps), OpVal(op, mi, ps), OpDegs(op, [k \in 1..Len(ps) |-> ps[k].degs]))

\* argument(x)
HArgument(x, W) == IF {x.mi[1]} \ W # {} THEN ZeroPart(x.sh)
                   ELSE Part(FALSE, {x.mi[1]}, x.sh, x.val, x.degs)
\* expr(x) = terminal(x): nonlinear operators and terminals
HExpr(n, DV, DU) == IF HasArg(n, DV, DU) THEN RejPart
                    ELSE Part(FALSE, {}, store[n].sh, ValD(store[n], DV, DU), DZ)
\* sum(x): p1, p2 = the visited operands, in operand order
HSum(sh, p1, p2, W) ==
  IF p1.rej \/ p2.rej THEN RejPart
  ELSE LET keep == SelectSeq(<<p1, p2>>, LAMBDA p : ~(p.z \/ (p.prov \ W # {}))) IN
       IF Len(keep) = 0 THEN ZeroPart(sh)
       ELSE IF Len(keep) = 1 THEN keep[1]
       ELSE IF keep[1].prov = keep[2].prov THEN Built("add", << >>, keep, keep[1].prov)
       ELSE LET A == keep[1].prov  B == keep[2].prov
                \* the loop over parts_that_provide (insertion order), most_provided = {} initially
                m1 == IF A # {} THEN A ELSE {}
            IN IF Cardinality(B) = Cardinality(m1) /\ m1 # {} THEN RejPart
               ELSE IF m1 \subseteq B /\ m1 # B THEN keep[2] ELSE keep[1]
\* product(x, *ops), also inner / outer / dot
HProduct(op, sh, p1, p2, W) ==
  IF p1.rej \/ p2.rej THEN RejPart
  ELSE IF p1.z THEN ZeroPart(sh)
  ELSE IF p1.prov \ W # {} THEN ZeroProv(sh, p1.prov)
  ELSE IF p2.z THEN ZeroPart(sh)
  ELSE IF (p1.prov \cup p2.prov) \ W # {} THEN ZeroProv(sh, p1.prov \cup p2.prov)
  ELSE Built(op, << >>, <<p1, p2>>, p1.prov \cup p2.prov)
\* linear_operator(x, arg): conj real imag (grad, restrictions, averages)
HLinear(op, p) == IF p.rej THEN RejPart ELSE IF p.z THEN ZeroPart(p.sh) ELSE Built(op, << >>, <<p>>, p.prov)
\* linear_indexed_type(x): indexed index_sum component_tensor
HIndexed(mi, p) == IF p.rej THEN RejPart ELSE IF p.z THEN ZeroPart(<< >>) ELSE Built("index", mi, <<p>>, p.prov)
HIndexedFree(p) == IF p.rej THEN RejPart ELSE IF p.z THEN ZeroPart(p.sh) ELSE p
\* list_tensor(x, *ops)
HList(ps) ==
  IF \E k \in 1..Len(ps) : ps[k].rej THEN RejPart
  ELSE LET RECURSIVE Most(_, _)
           Most(k, m) == IF k > Len(ps) THEN m ELSE Most(k + 1, IF ps[k].prov \ m # {} THEN ps[k].prov ELSE m)
           most == Most(1, ps[1].prov)
       IN IF \E k \in 1..Len(ps) : ps[k].prov # most /\ ~ps[k].z THEN RejPart
          ELSE [Built("list", << >>, ps, most) EXCEPT !.z = \A k \in 1..Len(ps) : ps[k].z]
\* variable(x)
HVariable(p, W) == IF p.rej THEN RejPart ELSE IF p.z \/ p.prov \ W # {} THEN ZeroPart(p.sh) ELSE p

MinusOne == LitPart(CI(-1))
RECURSIVE PE(_, _, _, _)
PE(n, W, DV, DU) ==
  LET x == store[n]
      P(k) == PE(x.args[k], W, DV, DU)
      Vec(k) == Len(store[x.args[k]].sh) > 0
      \* scalar * tensor and tensor / scalar are component tensors of indexed operands
      Ix(k) == IF Vec(k) THEN HIndexedFree(P(k)) ELSE P(k)
  IN
  IF SZ(n, DV, DU) THEN ZeroPart(x.sh)
  ELSE CASE x.op = "arg" -> HArgument(x, W)
         [] x.op \in {"coef", "lit", "abs", "pow"} -> HExpr(n, DV, DU)
         [] x.op = "add" -> HSum(x.sh, P(1), P(2), W)
         [] x.op = "sub" -> HSum(x.sh, P(1), HIndexedFree(HProduct("mul", x.sh, MinusOne, Ix(2), W)), W)
         [] x.op = "neg" -> HIndexedFree(HProduct("mul", x.sh, MinusOne, Ix(1), W))
         [] x.op = "mul" -> HIndexedFree(HProduct("mul", x.sh, Ix(1), Ix(2), W))
         \* division(x): the denominator is inspected, not visited
         [] x.op = "div" -> IF HasArg(x.args[2], DV, DU) THEN RejPart
                            ELSE LET pn == Ix(1) IN
                                 IF pn.rej THEN RejPart ELSE IF pn.z THEN ZeroPart(x.sh)
                                 ELSE HIndexedFree(Built("div", << >>,
                                        <<pn, [sh |-> << >>, val |-> ValD(store[x.args[2]], DV, DU), degs |-> DZ]>>, pn.prov))
         [] x.op \in {"inner", "dot", "outer"} -> HProduct(x.op, x.sh, P(1), P(2), W)
         \* IndexSum(Product(Indexed(a, i), Indexed(b, i)), i): indexed, product, index_sum
         [] x.op = "isum" -> HIndexedFree(HProduct("isum", x.sh, HIndexedFree(P(1)), HIndexedFree(P(2)), W))
         [] x.op \in {"conj", "real", "imag"} -> HLinear(x.op, P(1))
         [] x.op = "index" -> HIndexed(x.mi, P(1))
         [] x.op = "list" -> HList([k \in 1..Len(x.args) |-> P(k)])
         [] x.op = "var" -> HVariable(P(1), W)

-----------------------------------------------------------------------------
(* Forms: a sequence of integrals [key, root]; results: [rej, ints] with one value table per  *)
(* integral of the input form (an integral that vanished has the zero table).                *)
NInt == Len(form)
FormArgs(DV, DU) == UNION {ArgsIn(form[k].root, DV, DU) : k \in 1..NInt}
ArgSeq(S) == SetToSortSeq(S, LAMBDA a, b : a < b)     \* Form.arguments(): sorted by (number, part)
NoDead == {}
AllU == 1..NU
DeadV(i) == {s \in 1..NV : VPartOf[s] # i}
DeadU(j) == {s \in 1..NU : UPartOf[s] # j}           \* j = 0 (None): every slot
\* args: the Arguments of the result form (None integrals dropped)
ZeroRes == [rej |-> FALSE, ints |-> [k \in 1..NInt |-> ZVal(<< >>)], args |-> {}]
RejRes == [rej |-> TRUE, ints |-> [k \in 1..NInt |-> ZVal(<< >>)], args |-> {}]
SVal(f(_)) == [p \in Pts |-> (<< >> :> f(p))]
AddRes(r1, r2) == [rej |-> r1.rej \/ r2.rej,
                   ints |-> [k \in 1..NInt |-> SVal(LAMBDA p : CAdd(r1.ints[k][p][<< >>], r2.ints[k][p][<< >>]))],
                   args |-> r1.args \cup r2.args]
NegRes(r) == [rej |-> r.rej, ints |-> [k \in 1..NInt |-> SVal(LAMBDA p : CNeg(r.ints[k][p][<< >>]))], args |-> r.args]

\* compute_form_with_arity(form, arity) on the form split with (DV, DU)
CFA(arity, DV, DU) ==
  LET A == ArgSeq(FormArgs(DV, DU)) IN
  IF Len(A) < arity THEN ZeroRes                                   \* 0 * form
  ELSE LET W == {A[k] : k \in 1..arity}
           ps == [k \in 1..NInt |-> PE(form[k].root, W, DV, DU)]
           keep(k) == ~ps[k].rej /\ ~ps[k].z /\ ps[k].prov = W
       IN [rej |-> \E k \in 1..NInt : ps[k].rej,
           ints |-> [k \in 1..NInt |-> IF keep(k) THEN ps[k].val ELSE ZVal(<< >>)],
           args |-> IF \E k \in 1..NInt : keep(k) THEN W ELSE {}]
\* the degrees of the monomials kept by compute_form_with_arity
CFADegs(arity) ==
  LET A == ArgSeq(FormArgs(NoDead, NoDead)) IN
  IF Len(A) < arity THEN {}
  ELSE LET W == {A[k] : k \in 1..arity} IN
       UNION {LET p == PE(form[k].root, W, NoDead, NoDead) IN IF ~p.rej /\ p.prov = W THEN p.degs ELSE {} : k \in 1..NInt}

HasParts == \E a \in FormArgs(NoDead, NoDead) : Args[a].part # 0
NP == IF HasParts THEN Max({Args[a].part : a \in FormArgs(NoDead, NoDead)}) ELSE 0
BlockEmpty(DV, DU) == \A k \in 1..NInt : SZ(form[k].root, DV, DU)
SumRes(S, F(_)) == FoldSet(LAMBDA x, acc : AddRes(F(x), acc), ZeroRes, S)

\* compute_form_lhs / compute_form_rhs / compute_form_functional
LhsOut ==
  IF ~HasParts THEN CFA(2, NoDead, NoDead)
  ELSE SumRes({ij \in (1..NP) \X (1..NP) :
                 ~BlockEmpty(DeadV(ij[1]), DeadU(ij[2])) /\ Cardinality(FormArgs(DeadV(ij[1]), DeadU(ij[2]))) = 2},
              LAMBDA ij : CFA(2, DeadV(ij[1]), DeadU(ij[2])))
RhsOut ==
  IF ~HasParts THEN NegRes(CFA(1, NoDead, NoDead))
  ELSE NegRes(SumRes({i \in 1..NP : ~BlockEmpty(DeadV(i), AllU) /\ Cardinality(FormArgs(DeadV(i), AllU)) = 1},
                     LAMBDA i : CFA(1, DeadV(i), AllU)))
FunOut == CFA(0, NoDead, NoDead)

\* replace(form, {argument: coefficient}): the value with the arguments in R substituted
RECURSIVE EvalWith(_, _)
EvalWith(n, R) ==
  LET x == store[n] IN
  CASE x.op = "arg" -> IF x.mi[1] \in R THEN store[CoefId(ActCoef[x.mi[1]])].val ELSE x.val
    [] x.op \in {"coef", "lit"} -> x.val
    [] OTHER -> OpVal(x.op, x.mi, [k \in 1..Len(x.args) |-> [sh |-> store[x.args[k]].sh, val |-> EvalWith(x.args[k], R)]])
ReplaceOut(R) == [rej |-> FALSE, ints |-> [k \in 1..NInt |-> EvalWith(form[k].root, R)], args |-> {}]

\* compute_form_action
ActOut ==
  LET A == ArgSeq(FormArgs(NoDead, NoDead)) IN
  IF ~HasParts THEN (IF Len(A) = 0 THEN RejRes                       \* arguments[-1]: IndexError
                     ELSE ReplaceOut({A[Len(A)]}))
  \* the arguments with the highest number of the highest-arity part: lhs, else rhs
  ELSE IF LhsOut.rej THEN RejRes
  ELSE IF LhsOut.args # {} THEN ReplaceOut({a \in LhsOut.args : Args[a].num = 1})
  ELSE IF RhsOut.rej THEN RejRes
  ELSE IF RhsOut.args # {} THEN ReplaceOut(RhsOut.args)
  ELSE RejRes                                                        \* "No arguments to replace in form."

\* compute_energy_norm
EnOut ==
  LET A == ArgSeq(FormArgs(NoDead, NoDead)) IN
  IF HasParts \/ Len(A) # 2 \/ ~SameSpace THEN RejRes
  ELSE ReplaceOut({A[1], A[2]})

\* compute_form_adjoint; the result lives on swapped spaces: its table is indexed
\* <<e, i', j'>> with i' a trial slot (the new test function) and j' a test slot.
APts == Envs \X (0..NU) \X (0..NV)
AdjSwap(val) == [q \in APts |-> (<< >> :> CConj(val[<<q[1], q[3], q[2]>>][<< >>]))]
\* as coded for parts: block (i, j) keeps its part labels: the new test function has the space of
\* u_j but the part of v_i.  Representable when all sub-spaces have one size n: slot (p, c) = (p-1) n + c.
PartSize == NV \div KV
AdjCodedParts(val) ==
  [q \in APts |-> (<< >> :>
     IF q[2] = 0 \/ q[3] = 0 THEN CConj(val[<<q[1], q[3], q[2]>>][<< >>])
     ELSE LET i == UPartOf[q[2]]  c2 == q[2] - (i - 1) * PartSize       \* new test: part i, component c2 (of u_j's space)
              j == VPartOf[q[3]]  c1 == q[3] - (j - 1) * PartSize       \* new trial: part j, component c1 (of v_i's space)
          IN CConj(val[<<q[1], (i - 1) * PartSize + c1, (j - 1) * PartSize + c2>>][<< >>]))]
RejResA == [rej |-> TRUE, ints |-> [k \in 1..NInt |-> [q \in APts |-> (<< >> :> C0)]], args |-> {}]
AdjOut ==
  LET A == ArgSeq(FormArgs(NoDead, NoDead)) IN
  IF ~HasParts THEN (IF Len(A) # 2 THEN RejResA
                     ELSE [rej |-> FALSE, ints |-> [k \in 1..NInt |-> AdjSwap(store[form[k].root].val)], args |-> {}])
  ELSE [rej |-> FALSE, args |-> {},
        ints |-> [k \in 1..NInt |-> IF AsCoded THEN AdjCodedParts(store[form[k].root].val)
                                    ELSE AdjSwap(store[form[k].root].val)]]

-----------------------------------------------------------------------------
(* MEANING: the decomposition of a table into its constant, linear and bilinear parts *)
FVal(k) == store[form[k].root].val
At(val, e, i, j) == val[<<e, i, j>>][<< >>]
ConstOf(val) == SVal(LAMBDA p : At(val, p[1], 0, 0))
LinOf(val) == SVal(LAMBDA p : IF p[2] = 0 THEN C0 ELSE CSub(At(val, p[1], p[2], 0), At(val, p[1], 0, 0)))
LinUOf(val) == SVal(LAMBDA p : IF p[3] = 0 THEN C0 ELSE CSub(At(val, p[1], 0, p[3]), At(val, p[1], 0, 0)))
BilinOf(val) == SVal(LAMBDA p : IF p[2] = 0 \/ p[3] = 0 THEN C0
                                ELSE CAdd(CSub(CSub(At(val, p[1], p[2], p[3]), At(val, p[1], p[2], 0)), At(val, p[1], 0, p[3])),
                                          At(val, p[1], 0, 0)))
SameTab(S, v1, v2) == \A p \in S : Eq(v1[p][<< >>], v2[p][<< >>])
IsZeroTab(S, v) == \A p \in S : Eq(v[p][<< >>], C0)

FormDegs == UNION {store[form[k].root].degs : k \in 1..NInt}
Valid == FormDegs \subseteq ValidDegs                  \* affine in the trial function, a(v, u) + L(v) + c
PureBilinear == FormDegs = {<<1, 1>>}
PureLinear == FormDegs = {<<1, 0>>}
RECURSIVE MixedList(_)
MixedList(n) == LET x == store[n] IN
  \/ x.op = "list" /\ \E k, l \in 1..Len(x.args) : store[x.args[k]].degs # store[x.args[l]].degs
  \/ \E k \in 1..Len(x.args) : MixedList(x.args[k])

\* the substituted coefficient vector of action / energy_norm: component of slot s in environment e
WV(e, s) == store[CoefId(ActCoef[VSlot[s][1]])].val[<<e, 0, 0>>][VSlot[s][2]]
WU(e, s) == store[CoefId(ActCoef[USlot[s][1]])].val[<<e, 0, 0>>][USlot[s][2]]
\* Arguments are real valued (their conjugate is themselves) but coefficients need not be: the
\* contraction formulas describe the substitution in the environments with a real coefficient
RealW(e) == /\ \A s \in 1..NV : ActCoef[VSlot[s][1]] # 0 => CIsReal(WV(e, s))
            /\ \A s \in 1..NU : ActCoef[USlot[s][1]] # 0 => CIsReal(WU(e, s))

-----------------------------------------------------------------------------
(* extract_blocks *)
Arity == Cardinality({Args[a].num : a \in FormArgs(NoDead, NoDead)})
\* rows, columns (0 columns: a vector of blocks)
EBShape ==
  IF Mixed = "element" THEN (IF AsCoded THEN <<KV, KV>> ELSE IF Arity = 2 THEN <<KV, KU>> ELSE <<KV, 0>>)
  ELSE (IF Arity = 2 THEN <<NP, NP>> ELSE <<NP, 0>>)
EBDead(i, j) == <<DeadV(i), IF Arity = 2 THEN DeadU(j) ELSE NoDead>>
EBNone(i, j) ==
  LET d == EBDead(i, j) IN
  \/ BlockEmpty(d[1], d[2])
  \/ Mixed = "space" /\ Cardinality(FormArgs(d[1], d[2])) # Arity
EBVal(k, i, j) == LET d == EBDead(i, j) IN IF EBNone(i, j) THEN ZVal(<< >>) ELSE ValD(store[form[k].root], d[1], d[2])
EBCols == IF EBShape[2] = 0 THEN {1} ELSE 1..EBShape[2]
(* FormSplitter.argument on a MixedElement argument `obj` with replace_argument = False, as coded: one   *)
(* loop iteration per sub-element k.  The rebuilt vector `args` grows by the PHYSICAL value size of      *)
(* sub-element k in every iteration (one entry per np.ndindex(a.ufl_shape)); for the requested           *)
(* sub-element the entries are obj[counter + d - 1], d = 1..Phys(k), for the others Zero; then `counter` *)
(* advances by Adv(k).  The split form is the form with obj replaced by `args`.  PosOff / CntOff: the    *)
(* length of `args` / the value of `counter` at the start of iteration i.  KeptPos: the position of      *)
(* `args` that carries component s (1-based) of obj in block i (0: none).  At the point where obj is    *)
(* the s-th unit vector `args` is therefore the KeptPos-th unit vector (the zero vector when 0).        *)
(* (replace_argument = True puts the components of a NEW Argument on the sub-element's space at the     *)
(* positions PosOff + d: no counter, EBVal.)                                                            *)
Adv(sz) == IF OffsetBy = "reference" THEN sz[2] ELSE sz[1]
PosOff(sub, i) == LET f[k \in 0..Len(sub)] == IF k = 0 THEN 0 ELSE f[k - 1] + sub[k][1] IN f[i - 1]
CntOff(sub, i) == LET f[k \in 0..Len(sub)] == IF k = 0 THEN 0 ELSE f[k - 1] + Adv(sub[k]) IN f[i - 1]
KeptPos(sub, i, s) == LET d == s - CntOff(sub, i) IN IF s > 0 /\ d >= 1 /\ d <= sub[i][1] THEN PosOff(sub, i) + d ELSE 0
\* (Sides = 2: the same component on the same side)
OnSide(k, s, plain) == IF k = 0 THEN 0 ELSE k + (s - plain)
VKeep(i, s) == IF VSub = << >> THEN (IF s \in DeadV(i) THEN 0 ELSE s) ELSE OnSide(KeptPos(VSub, i, PlainV(s)), s, PlainV(s))
UKeep(j, t) == IF Arity # 2 THEN t
               ELSE IF USub = << >> THEN (IF t \in DeadU(j) THEN 0 ELSE t) ELSE OnSide(KeptPos(USub, j, PlainU(t)), t, PlainU(t))
EBValKeep(k, i, j) ==
  IF EBNone(i, j) THEN ZVal(<< >>)
  ELSE [p \in Pts |-> store[form[k].root].val[<<p[1], VKeep(i, p[2]), UKeep(j, p[3])>>]]
EBSum(k) == SVal(LAMBDA p : CSumSet((1..EBShape[1]) \X EBCols, LAMBDA ij : EBVal(k, ij[1], ij[2])[p][<< >>]))

-----------------------------------------------------------------------------
(* Actions *)
Ids == 1..Len(store)
Avail == (Usable \cup ((NInit + 1)..Len(store)))
Un1 == {"neg", "abs", "conj", "real", "imag", "var", "rp", "rm"} \cap OpSet
Bin2 == {"add", "sub", "mul", "div", "pow", "inner", "dot", "outer", "isum"} \cap OpSet
Comm == {"add", "mul", "dot", "isum"}
Push(op, args, mi) == OkNode(store, op, args, mi) /\ store' = Append(store, MkNode(store, op, args, mi))
Build ==
  /\ form = << >> /\ Len(store) < NInit + MaxNodes
  /\ UNCHANGED <<form, res>>
  /\ \E a \in Avail :
       \/ \E op \in Un1 : Push(op, <<a>>, << >>)
       \/ "index" \in OpSet /\ Len(store[a].sh) = 1 /\ \E k \in 0..(store[a].sh[1] - 1) : Push("index", <<a>>, <<k>>)
       \/ "index" \in OpSet /\ Len(store[a].sh) = 2
            /\ \E k \in 0..(store[a].sh[1] - 1), l \in 0..(store[a].sh[2] - 1) : Push("index", <<a>>, <<k, l>>)
       \/ \E b \in Avail :
            \/ \E op \in Bin2 : (op \in Comm => a <= b) /\ Push(op, <<a, b>>, << >>)
            \/ "list" \in OpSet /\ Push("list", <<a, b>>, << >>)

RECURSIVE Anc(_, _)
Anc(n, acc) == IF n \in acc THEN acc
               ELSE LET as == store[n].args
                        RECURSIVE Go(_, _)
                        Go(k, s) == IF k > Len(as) THEN s ELSE Go(k + 1, Anc(as[k], s))
                    IN Go(1, acc \cup {n})
LastId == Len(store)
IsIntegrand(n) == store[n].sh = << >> /\ store[n].op \notin {"lit"}
MkForm ==
  /\ form = << >> /\ Len(store) > NInit /\ IsIntegrand(LastId)
  /\ UNCHANGED <<store, res>>
  /\ \/ /\ (NInit + 1)..LastId \subseteq Anc(LastId, {})
        /\ form' = <<[key |-> IF store[LastId].rs = "done" THEN 5 ELSE 1, root |-> LastId]>>
     \/ \E r \in Avail \ {LastId}, kp \in KeyPairs :
          /\ IsIntegrand(r) /\ store[r].degs # DZ
          /\ KeyOk(store, kp[1], r) /\ KeyOk(store, kp[2], LastId)
          /\ (NInit + 1)..LastId \subseteq Anc(LastId, Anc(r, {}))
          /\ form' = <<[key |-> kp[1], root |-> r], [key |-> kp[2], root |-> LastId]>>

\* the documented domain of each operator (everything else is not applied)
Applicable(op) ==
  CASE op \in {"lhs", "rhs", "system", "functional"} -> TRUE
    [] op = "action" -> Valid /\ \A a \in FormArgs(NoDead, NoDead) : ActCoef[a] # 0
    [] op \in {"adjoint", "energy_norm"} ->
         /\ PureBilinear \/ (Valid /\ Arity < 2 /\ ~HasParts)
         /\ op = "energy_norm" => \A a \in FormArgs(NoDead, NoDead) : ActCoef[a] # 0
         /\ (op = "adjoint" /\ HasParts /\ AsCoded) => \A s \in 1..KV : Cardinality({t \in 1..NV : VPartOf[t] = s}) = PartSize
    [] op = "extract_blocks" -> Mixed # "none" /\ (PureBilinear \/ PureLinear)
Apply == /\ form # << >> /\ res = "none"
         /\ UNCHANGED <<store, form>>
         /\ \E op \in FormOps : Applicable(op) /\ res' = op

Next == Build \/ MkForm \/ Apply
Spec == Init /\ [][Next]_vars

-----------------------------------------------------------------------------
(* Invariants *)
Done(ops) == res \in ops
AllK(P(_)) == \A k \in 1..NInt : P(k)

WellFormed == \A n \in Ids : LET x == store[n] IN
  /\ DOMAIN x.val = Pts /\ \A p \in Pts : DOMAIN x.val[p] = Tup(x.sh)
  /\ Len(x.sv) = (IF x.rs = "done" THEN 0 ELSE SvN) /\ \A c \in 1..Len(x.sv) : DOMAIN x.sv[c] = Pts
  /\ \A k \in 1..Len(x.args) : x.args[k] < n
\* the meaning is well defined: a form of the valid class is the sum of its three parts
MeaningSound == (form # << >> /\ Valid) =>
  AllK(LAMBDA k : /\ IsZeroTab(Pts, LinUOf(FVal(k)))
                  /\ \A p \in Pts : Eq(FVal(k)[p][<< >>],
                        CAdd(CAdd(ConstOf(FVal(k))[p][<< >>], LinOf(FVal(k))[p][<< >>]), BilinOf(FVal(k))[p][<< >>])))
\* (PartExtracter only ever runs with at most two live Arguments -- one test, one trial function,
\* per block for MixedFunctionSpace -- so HSum never sees incomparable provides-sets of different
\* size, the one case in which the coded result depends on the operand order.)
\* F = lhs(F) - rhs(F) (+ the argument-free part), lhs bilinear, rhs linear
SystemSplits == (Done({"lhs", "rhs", "system"}) /\ Valid) =>
  LET L == LhsOut  R == RhsOut IN
  (~L.rej /\ ~R.rej) =>
  /\ AllK(LAMBDA k : /\ SameTab(Pts, L.ints[k], BilinOf(FVal(k)))
                     /\ SameTab(Pts, R.ints[k], SVal(LAMBDA p : CNeg(LinOf(FVal(k))[p][<< >>])))
                     /\ \A p \in Pts : Eq(FVal(k)[p][<< >>],
                           CAdd(CSub(L.ints[k][p][<< >>], R.ints[k][p][<< >>]), ConstOf(FVal(k))[p][<< >>])))
  /\ HasParts \/ (CFADegs(2) \subseteq {<<1, 1>>} /\ CFADegs(1) \subseteq {<<1, 0>>})
FunctionalIsConstant == (Done({"functional"}) /\ Valid) =>
  LET Fn == FunOut IN
  ~Fn.rej => AllK(LAMBDA k : SameTab(Pts, Fn.ints[k], ConstOf(FVal(k)))) /\ CFADegs(0) \subseteq DZ
\* a form of the class is refused only for the documented list-tensor limitation
RefusalOnlyMixedList == (Done({"lhs", "rhs", "system", "functional"}) /\ Valid /\ ~(\E k \in 1..NInt : MixedList(form[k].root))) =>
  ~(LhsOut.rej \/ RhsOut.rej \/ FunOut.rej)
\* action = contraction of the last argument with the coefficient
ActionContracts == Done({"action"}) =>
  LET Ac == ActOut IN
  ~Ac.rej => AllK(LAMBDA k : \A e \in {e \in Envs : RealW(e)} :
     IF \E a \in FormArgs(NoDead, NoDead) : Args[a].num = 1
     THEN \A i \in 0..NV : Eq(At(Ac.ints[k], e, i, 0),
            CAdd(At(FVal(k), e, i, 0), CSumSet(1..NU, LAMBDA j : CMul(WU(e, j), CSub(At(FVal(k), e, i, j), At(FVal(k), e, i, 0))))))
     ELSE Eq(At(Ac.ints[k], e, 0, 0),
            CAdd(At(FVal(k), e, 0, 0), CSumSet(1..NV, LAMBDA i : CMul(WV(e, i), CSub(At(FVal(k), e, i, 0), At(FVal(k), e, 0, 0)))))))
\* adjoint = conjugate transpose of T2
AdjointTransposes == Done({"adjoint"}) =>
  LET Ad == AdjOut IN
  ~Ad.rej => AllK(LAMBDA k : \A q \in APts : Eq(Ad.ints[k][q][<< >>], CConj(At(FVal(k), q[1], q[3], q[2]))))
AdjointGuard == Done({"adjoint"}) => (AdjOut.rej <=> (~HasParts /\ Arity # 2))
\* energy_norm(a, w) = w^T T2 w
EnergyIsQuadratic == Done({"energy_norm"}) =>
  LET En == EnOut IN
  ~En.rej => AllK(LAMBDA k : \A e \in {e \in Envs : RealW(e)} : Eq(At(En.ints[k], e, 0, 0),
     CSumSet((1..NV) \X (1..NU), LAMBDA ij : CMul(CMul(WV(e, ij[1]), At(FVal(k), e, ij[1], ij[2])), WU(e, ij[2])))))
\* the blocks partition the tensor, and block (i, j) lives on rows i / columns j only
BlocksPartition == Done({"extract_blocks"}) => AllK(LAMBDA k : SameTab(Pts, EBSum(k), FVal(k)))
BlocksLocal == Done({"extract_blocks"}) =>
  AllK(LAMBDA k : \A i \in 1..EBShape[1], j \in EBCols : \A p \in Pts :
     (p[2] > 0 /\ VPartOf[p[2]] # i) \/ (Arity = 2 /\ p[3] > 0 /\ UPartOf[p[3]] # j) => Eq(EBVal(k, i, j)[p][<< >>], C0))
\* replace_argument = False keeps exactly the components of the requested sub-functions: the block is the
\* one that replace_argument = True builds, whatever the reference value sizes of the sub-elements are
SplitterKeepsOwn == Done({"extract_blocks"}) =>
  AllK(LAMBDA k : \A i \in 1..EBShape[1], j \in EBCols : EBValKeep(k, i, j) = EBVal(k, i, j))
BlocksShape == Done({"extract_blocks"}) =>
  EBShape = (IF Mixed = "element" THEN (IF Arity = 2 THEN <<KV, KU>> ELSE <<KV, 0>>)
             ELSE (IF Arity = 2 THEN <<NP, NP>> ELSE <<NP, 0>>))

-----------------------------------------------------------------------------
(* Dump for the replay: program, integrals, operator, predicted tables *)
Tab(val) == [e \in 1..NEnv |-> [i \in 1..(NV + 1) |-> [j \in 1..(NU + 1) |-> val[<<e, i - 1, j - 1>>][<< >>]]]]
ATab(val) == [e \in 1..NEnv |-> [i \in 1..(NU + 1) |-> [j \in 1..(NV + 1) |-> val[<<e, i - 1, j - 1>>][<< >>]]]]
OutTabs(r) == [k \in 1..NInt |-> Tab(r.ints[k])]
Prog == [k \in 1..(Len(store) - NInit) |->
           [op |-> store[NInit + k].op, args |-> store[NInit + k].args, mi |-> store[NInit + k].mi]]
Outs ==
  CASE res = "lhs" -> <<LhsOut>>
    [] res = "rhs" -> <<RhsOut>>
    [] res = "system" -> <<LhsOut, RhsOut>>
    [] res = "functional" -> <<FunOut>>
    [] res = "action" -> <<ActOut>>
    [] res = "energy_norm" -> <<EnOut>>
    [] res = "adjoint" -> <<AdjOut>>
    [] res = "extract_blocks" -> << >>
DumpRec ==
  LET O == Outs  sh == EBShape IN
  [prog |-> Prog, ints |-> form, fop |-> res,
   valid |-> Valid, degs |-> SetToSeq(FormDegs), arity |-> Arity, parts |-> HasParts,
   F |-> [k \in 1..NInt |-> Tab(FVal(k))],
   rej |-> [o \in 1..Len(O) |-> O[o].rej],
   out |-> [o \in 1..Len(O) |-> IF res = "adjoint" THEN [k \in 1..NInt |-> ATab(O[o].ints[k])] ELSE OutTabs(O[o])],
   shape |-> IF res = "extract_blocks" THEN sh ELSE <<0, 0>>,
   blocks |-> IF res = "extract_blocks"
              THEN [i \in 1..sh[1] |-> [j \in 1..Cardinality(EBCols) |-> [k \in 1..NInt |-> Tab(EBVal(k, i, j))]]]
              ELSE << >>]
DumpInv == res # "none" => PrintT(ToJson(DumpRec))
=============================================================================
