------------------------------ MODULE Signature ------------------------------
(***************************************************************************)
(* C11.  Forms with different compiled meaning never share a signature;    *)
(* equal forms always have equal signatures.                               *)
(*                                                                         *)
(* A FORM PROGRAM is what a user writes through the public API:            *)
(*   p = [doms, elems, coefs, csts, itgs]                                  *)
(*   doms   <<cell, gdim, coordinate degree, ufl_id>>          (Mesh)      *)
(*   elems  <<family, degree, shape, pullback, sobolev, symmetric, dom>>   *)
(*          = a FunctionSpace(doms[dom], element)                          *)
(*   coefs  <<count, elem, cls>>       cls(space, count): cls 0 is         *)
(*                                     ufl.Coefficient, 1 and 2 are user   *)
(*                                     subclasses of it (the "Function" of *)
(*                                     a problem solving environment)      *)
(*   csts   <<count, shape, dom, cls>> cls(mesh, shape, count): cls 0 is   *)
(*                                     ufl.Constant, 1 a user subclass     *)
(*   itgs   [itype, sid, md, dom, g, xm]                                   *)
(*                                     g * Measure(itype, domain = dom,    *)
(*                                     subdomain_id = sid, metadata = md,  *)
(*                                     intersect_measures = xm)            *)
(*          xm = sequence of <<itype, dom>>: Measure(itype, domain = dom), *)
(*          the integral types on the other meshes of a multi-domain       *)
(*          integral (Integral.extra_domain_integral_type_map)             *)
(* Integrands g and metadata md are trees of nodes [op, a, s]: operator    *)
(* name, integer attributes, ordered children.  Alphabet of g:             *)
(*   int <<v>>  flt <<id>>          literals (floats: ids of distinct      *)
(*                                  IEEE doubles, table in vf/checks/c11)  *)
(*   coef <<c>>  cst <<c>>          table references                       *)
(*   arg <<number, part, elem>>     part 0 = None, else part-1             *)
(*   geo <<kind, dom>>              kind < 10 scalar, >= 10 vector valued  *)
(*   sum prod (the two operators whose operands ufl sorts), div pow inner  *)
(*   (ordered operands), sin cos exp abs, idx <<i1..in>> (entry >= 0 fixed *)
(*   index, < 0 free index NAME; a name occurring twice is summed),        *)
(*   cond <<cmp>> (l, r, t, f), res <<side>>, dx <<dir>>, grad,            *)
(*   var <<label count>>, ext <<elem, n, d1..dn>> (n operands followed by  *)
(*   the extra argument slots), itp <<elem>> (Interpolate into a space).   *)
(* Alphabet of md: dict <<key ids>> (values), mint mflt mstr mbool mnone   *)
(* marr <<id>> (numpy arrays: ids of arrays with distinct dtype/shape/     *)
(* bytes), mlist (values).                                                 *)
(*                                                                         *)
(* Canon(p) is p modulo EXACTLY what the signature is specified to ignore  *)
(* (Form.signature docstring: "independent of incidental numbering of      *)
(* indices etc", Form._compute_renumbering, _sorted_integrals, Sum/Product *)
(* operand sorting, canonicalize_metadata key sorting):                    *)
(*   - counts of coefficients / constants / labels: only their relative    *)
(*     ORDER among the objects of the form (those found only in an         *)
(*     argument slot without Argument come after); ufl_ids of meshes: only *)
(*     the order among the integration domains and among the other meshes  *)
(*     (Form.domain_numbering);                                            *)
(*   - names of free indices: only the pattern (first-occurrence order)    *)
(*     and, where one product sums over several names, the order of their  *)
(*     counts (it fixes the nesting of the IndexSums ufl builds);          *)
(*   - the Python class of a coefficient / constant (all subclasses of    *)
(*     Coefficient share one counter and one numbering: _counted_class);  *)
(*   - the order of integrals with different (domain, type, intersect      *)
(*     measures, subdomain id); integrals of one key keep their order (as  *)
(*     coded: not canonicalised);                                          *)
(*   - the order in which the intersect measures of a measure are given    *)
(*     (the map mesh -> integral type is what the compiler gets);          *)
(*   - a tuple subdomain id is the sum of the integrals over its members;  *)
(*   - operand order of sum / prod when the operands differ by more than   *)
(*     free-index names or labels (what sorted_expr can decide; operands   *)
(*     that tie keep the order in which they were written, as coded);      *)
(*   - the order of the keys of a metadata dict;                           *)
(*   - table positions and unused table entries (model artefacts).         *)
(* Nothing else is ignored.                                                *)
(*                                                                         *)
(* State machine: Init picks a program of a bounded universe; Mutate makes *)
(* one single-site change, Rename changes only ignorable numbering (also   *)
(* after a mutation).  Invariants: every Rename leaves Canon unchanged,    *)
(* every mutation of a kind declared semantic changes Canon.  Every state  *)
(* is printed (program, kind, canonical representative) and replayed on    *)
(* real ufl: signatures must induce the same partition of each             *)
(* neighbourhood as Canon.                                                 *)
(***************************************************************************)
EXTENDS Integers, Sequences, FiniteSets, TLC, Json, SequencesExt

CONSTANTS Univ,      \* name of the generator universe ("seeds": programs from seeds.json)
          Lvl,       \* 1 = small, 2 = large sub-universes
          Ren2,      \* TRUE: renamings are also applied after a mutation
          DumpOn     \* TRUE: print every state as JSON

N(op, a, s) == [op |-> op, a |-> a, s |-> s]

\* field positions in the tables
D_CELL == 1  D_GDIM == 2  D_CDEG == 3  D_UID == 4
E_FAM == 1  E_DEG == 2  E_SHAPE == 3  E_MAP == 4  E_SOB == 5  E_SYM == 6  E_DOM == 7
C_K == 1  C_E == 2  C_CLS == 3
K_K == 1  K_SH == 2  K_D == 3  K_CLS == 4
X_IT == 1  X_D == 2
CoefClasses == 3           \* ufl.Coefficient and two user subclasses
CstClasses  == 2           \* ufl.Constant and one user subclass

UnaryMath == {"sin", "cos", "exp", "abs"}
Binary    == {"sum", "prod", "div", "pow"}
Comm      == {"sum", "prod"}
Ordered   == {"div", "pow", "inner"}
Leaves    == {"int", "flt", "coef", "arg", "cst", "geo"}
LitInts   == {2, 3, 7}
FltIds    == 1..5          \* 0.5, 0.1, nextafter(0.1), 2.0, 0.1000001
ScalarGeo == {1, 2, 3}     \* CellVolume, Circumradius, FacetArea
VectorGeo == {10, 11}      \* SpatialCoordinate, FacetNormal
MdKeys    == 1..8
MdStrs    == 1..3
MdArrs    == 1..10

-----------------------------------------------------------------------------
(* generic tree / sequence helpers *)
Rng(s) == {s[i] : i \in DOMAIN s}
RECURSIVE Concat(_)
Concat(ss) == IF ss = <<>> THEN <<>> ELSE Head(ss) \o Concat(Tail(ss))
RECURSIVE Dedup(_)
Dedup(s) == IF s = <<>> THEN <<>>
            ELSE LET r == Dedup(Front(s)) IN
                 IF \E i \in DOMAIN r : r[i] = Last(s) THEN r ELSE Append(r, Last(s))
Pos(s, x) == CHOOSE i \in DOMAIN s : s[i] = x
DropAt(s, i) == [j \in 1..(Len(s) - 1) |-> IF j < i THEN s[j] ELSE s[j + 1]]
SwapAt(s, i, j) == [s EXCEPT ![i] = s[j], ![j] = s[i]]
RECURSIVE Perms(_)
Perms(s) == IF Len(s) <= 1 THEN {s}
            ELSE UNION {{<<s[i]>> \o r : r \in Perms(DropAt(s, i))} : i \in DOMAIN s}

RECURSIVE Paths(_)
Paths(t) == {<<>>} \cup UNION {{<<i>> \o q : q \in Paths(t.s[i])} : i \in DOMAIN t.s}
RECURSIVE At(_, _)
At(t, path) == IF path = <<>> THEN t ELSE At(t.s[Head(path)], Tail(path))
RECURSIVE Put(_, _, _)
Put(t, path, u) == IF path = <<>> THEN u
                   ELSE [t EXCEPT !.s = [@ EXCEPT ![Head(path)] = Put(@, Tail(path), u)]]
RECURSIVE Nodes(_)
Nodes(t) == {t} \cup UNION {Nodes(t.s[i]) : i \in DOMAIN t.s}

IsLit(t) == t.op \in {"int", "flt"}
NegOf(t) == IF t.op = "idx" THEN SelectSeq(t.a, LAMBDA x : x < 0) ELSE <<>>
RECURSIVE NegSeq(_)        \* free index names in traversal order
NegSeq(t) == NegOf(t) \o Concat([i \in DOMAIN t.s |-> NegSeq(t.s[i])])
HasFree(t) == NegSeq(t) # <<>>
\* a term is closed when every free index name in it occurs twice (is summed inside it)
Closed(t) == LET ns == NegSeq(t) IN \A x \in Rng(ns) : Cardinality({i \in DOMAIN ns : ns[i] = x}) = 2
Open(t) == LET ns == NegSeq(t) IN {x \in Rng(ns) : Cardinality({i \in DOMAIN ns : ns[i] = x}) = 1}

-----------------------------------------------------------------------------
(* well-formedness: ufl's shape rules and "no constructor simplification fires" *)
BAD == 99
RECURSIVE Rank(_, _)
Rank(p, t) ==
  LET r(i) == Rank(p, t.s[i]) IN
  CASE t.op \in {"int", "flt"} -> 0
    [] t.op = "coef" -> p.elems[p.coefs[t.a[1]][C_E]][E_SHAPE]
    [] t.op = "arg"  -> p.elems[t.a[3]][E_SHAPE]
    [] t.op = "cst"  -> p.csts[t.a[1]][K_SH]
    [] t.op = "geo"  -> IF t.a[1] < 10 THEN 0 ELSE 1
    [] t.op = "sum"  -> IF r(1) = r(2) THEN r(1) ELSE BAD
    [] t.op \in {"prod", "div", "pow"} -> IF r(1) = 0 /\ r(2) = 0 THEN 0 ELSE BAD
    [] t.op = "inner" -> IF r(1) = r(2) /\ r(1) # BAD THEN 0 ELSE BAD
    [] t.op \in UnaryMath -> IF r(1) = 0 THEN 0 ELSE BAD
    [] t.op = "idx"  -> IF r(1) = Len(t.a) THEN 0 ELSE BAD
    [] t.op = "cond" -> IF r(1) = 0 /\ r(2) = 0 /\ r(3) = r(4) THEN r(3) ELSE BAD
    [] t.op \in {"res", "var", "dx"} -> r(1)
    [] t.op = "grad" -> IF r(1) >= 2 THEN BAD ELSE r(1) + 1
    [] t.op = "ext"  -> IF \E i \in DOMAIN t.s : r(i) = BAD THEN BAD ELSE p.elems[t.a[1]][E_SHAPE]
    [] t.op = "itp"  -> IF r(1) = p.elems[t.a[1]][E_SHAPE] THEN r(1) ELSE BAD

RECURSIVE Diffable(_)
Diffable(t) == \/ t.op \in {"coef", "arg", "ext", "itp"}
               \/ t.op \in {"idx", "dx", "grad", "res"} /\ Diffable(t.s[1])

NodeOK(t) ==
  /\ t.op = "div" => t.s[1] # t.s[2]
  /\ t.op \in Binary => ~(IsLit(t.s[1]) /\ IsLit(t.s[2]))
  /\ t.op \in UnaryMath => ~IsLit(t.s[1])
  \* Abs(Abs(x)) = Abs(x); inner(b, a) with operands out of order is Conj(Inner(a, b)) and Abs drops the Conj
  /\ t.op = "abs" => t.s[1].op \notin {"abs", "inner"}
  /\ t.op \in {"dx", "grad"} => Diffable(t.s[1])
  /\ t.op = "cond" => t.s[3] # t.s[4] /\ t.s[1] # t.s[2]
  /\ t.op \in Ordered => t.s[1] # t.s[2]
  \* free indices cross only products (and the Indexed node that introduces them)
  /\ t.op # "prod" => \A i \in DOMAIN t.s : Closed(t.s[i])
  /\ t.op = "ext" => Len(t.a) = 2 + t.a[2] /\ Len(t.s) >= t.a[2]

UsedCoefs(p)  == UNION {{n.a[1] : n \in {m \in Nodes(p.itgs[j].g) : m.op = "coef"}} : j \in DOMAIN p.itgs}
UsedCsts(p)   == UNION {{n.a[1] : n \in {m \in Nodes(p.itgs[j].g) : m.op = "cst"}} : j \in DOMAIN p.itgs}
UsedLabels(p) == UNION {{n.a[1] : n \in {m \in Nodes(p.itgs[j].g) : m.op = "var"}} : j \in DOMAIN p.itgs}
UsedElems(p)  == {p.coefs[c][C_E] : c \in UsedCoefs(p)}
                 \cup UNION {{IF n.op = "arg" THEN n.a[3] ELSE n.a[1]
                              : n \in {m \in Nodes(p.itgs[j].g) : m.op \in {"arg", "ext", "itp"}}}
                             : j \in DOMAIN p.itgs}
XmDoms(I)     == {I.xm[i][X_D] : i \in DOMAIN I.xm}
UsedDoms(p)   == {p.itgs[j].dom : j \in DOMAIN p.itgs}
                 \cup UNION {XmDoms(p.itgs[j]) : j \in DOMAIN p.itgs}
                 \cup {p.elems[e][E_DOM] : e \in UsedElems(p)}
                 \cup {p.csts[c][K_D] : c \in UsedCsts(p)}
                 \cup UNION {{n.a[2] : n \in {m \in Nodes(p.itgs[j].g) : m.op = "geo"}} : j \in DOMAIN p.itgs}

ElemOK(p, e) ==
  /\ e[E_DOM] \in DOMAIN p.doms
  /\ e[E_SYM] = 1 => e[E_SHAPE] = 2
  /\ e[E_MAP] # 1 => e[E_SHAPE] = 1

ArgsOf(p) == UNION {{n \in Nodes(p.itgs[j].g) : n.op = "arg"} : j \in DOMAIN p.itgs}
HasRes(t) == \E n \in Nodes(t) : n.op = "res"

\* every free index name occurs exactly twice in an integrand
IndexOK(g) == LET ns == NegSeq(g) IN
              \A x \in Rng(ns) : Cardinality({i \in DOMAIN ns : ns[i] = x}) = 2

WellFormed(p) ==
  /\ \A i \in DOMAIN p.elems : ElemOK(p, p.elems[i])
  /\ \A c \in DOMAIN p.coefs : p.coefs[c][C_CLS] \in 0..(CoefClasses - 1)
  /\ \A c \in DOMAIN p.csts : p.csts[c][K_CLS] \in 0..(CstClasses - 1)
  /\ \A j \in DOMAIN p.itgs :
       LET I == p.itgs[j] IN
       /\ Rank(p, I.g) = 0
       /\ \A n \in Nodes(I.g) : NodeOK(n)
       /\ IndexOK(I.g)
       /\ HasRes(I.g) <=> I.itype = 3
       /\ I.dom \in DOMAIN p.doms
       \* intersect measures: one per other mesh, never the integration domain itself
       /\ \A i \in DOMAIN I.xm : I.xm[i][X_D] \in DOMAIN p.doms /\ I.xm[i][X_D] # I.dom /\ I.xm[i][X_IT] \in 1..4
       /\ Cardinality(XmDoms(I)) = Len(I.xm)
       /\ I.sid # <<>> /\ (Len(I.sid) > 1 => \A i \in DOMAIN I.sid : I.sid[i] >= 1)
       /\ I.md.op = "dict"
       /\ \A n \in Nodes(I.md) : n.op = "dict" => Cardinality(Rng(n.a)) = Len(n.a) /\ Len(n.a) = Len(n.s)
  \* join_domains: all meshes of a form have the same geometric dimension
  /\ \A x, y \in UsedDoms(p) : p.doms[x][D_GDIM] = p.doms[y][D_GDIM]
  \* one Argument per (number, part)
  /\ \A x, y \in ArgsOf(p) : (x.a[1] = y.a[1] /\ x.a[2] = y.a[2]) => x.a[3] = y.a[3]
  \* arguments of one number are either all without part or all with a part
  /\ \A x, y \in ArgsOf(p) : x.a[1] = y.a[1] => ((x.a[2] = 0) <=> (y.a[2] = 0))

-----------------------------------------------------------------------------
(* Canon *)
RankIn(S, x) == Cardinality({y \in S : y < x})

\* Form.terminal_numbering does not look into argument slots that hold no Argument (the result of
\* an action): coefficients / constants that occur only there are not coefficients of the form.
\* They are numbered after the form's own ones.
HasArg(t) == \E n \in Nodes(t) : n.op = "arg"
RECURSIVE NodesOut(_)
NodesOut(t) == {t} \cup UNION {NodesOut(t.s[i]) : i \in {x \in DOMAIN t.s : ~(t.op = "ext" /\ x > t.a[2] /\ ~HasArg(t.s[x]))}}
FormRefs(p, op) == UNION {{n.a[1] : n \in {m \in NodesOut(p.itgs[j].g) : m.op = op}} : j \in DOMAIN p.itgs}
CountNum(tbl, form, used, c) ==
  IF c \in form THEN RankIn({tbl[x][1] : x \in form}, tbl[c][1])
  ELSE Cardinality(form) + RankIn({tbl[x][1] : x \in used \ form}, tbl[c][1])

\* Form.domain_numbering: the integration domains sorted by (gdim, tdim, ufl_id) come first, then
\* the other domains of the form (those of the integrands and of the intersect measures) sorted
\* the same way (tdim is 2 for both cells of the model)
IntDoms(p) == {p.itgs[j].dom : j \in DOMAIN p.itgs}
DomLess(p, x, y) == \/ p.doms[x][D_GDIM] < p.doms[y][D_GDIM]
                    \/ p.doms[x][D_GDIM] = p.doms[y][D_GDIM] /\ p.doms[x][D_UID] < p.doms[y][D_UID]
DomNum(p, d) == IF d \in IntDoms(p) THEN Cardinality({x \in IntDoms(p) : DomLess(p, x, d)})
                ELSE Cardinality(IntDoms(p)) + Cardinality({x \in UsedDoms(p) \ IntDoms(p) : DomLess(p, x, d)})
DomVec(p, d) == LET D == p.doms[d] IN <<D[D_CELL], D[D_GDIM], D[D_CDEG], DomNum(p, d)>>
ElemVec(p, e) == LET E == p.elems[e] IN
  <<E[E_FAM], E[E_DEG], E[E_SHAPE], E[E_MAP], E[E_SOB], E[E_SYM]>> \o DomVec(p, E[E_DOM])
\* intersect measures: Measure sorts them by the sort key of their mesh (gdim, tdim, ufl_id); the
\* map mesh -> integral type is what is left of them in the Integral
XmSorted(p, I) == SortSeq(I.xm, LAMBDA x, y : DomLess(p, x[X_D], y[X_D]))
XmVec(p, I) == LET s == XmSorted(p, I) IN [i \in DOMAIN s |-> <<s[i][X_IT]>> \o DomVec(p, s[i][X_D])]
\* ... and _sorted_integrals compares the tuple of (mesh sort key, integral type name) pairs (the
\* names cell < exterior_facet < interior_facet < vertex sort like the ids 1..4; a tuple that is a
\* prefix of another one comes first: terminator 0, smaller than every gdim)
XmKey(p, I) == LET s == XmSorted(p, I) IN
               Concat([i \in DOMAIN s |-> <<p.doms[s[i][X_D]][D_GDIM], p.doms[s[i][X_D]][D_UID], s[i][X_IT]>>]) \o <<0>>

\* table references replaced by what they denote; counts by their rank
InlineNode(p, t) ==
  CASE t.op = "coef" -> [t EXCEPT !.a = <<CountNum(p.coefs, FormRefs(p, "coef"), UsedCoefs(p), t.a[1])>>
                                        \o ElemVec(p, p.coefs[t.a[1]][C_E])]
    [] t.op = "arg"  -> [t EXCEPT !.a = <<t.a[1], t.a[2]>> \o ElemVec(p, t.a[3])]
    [] t.op = "cst"  -> [t EXCEPT !.a = <<CountNum(p.csts, FormRefs(p, "cst"), UsedCsts(p), t.a[1]),
                                          p.csts[t.a[1]][K_SH]>> \o DomVec(p, p.csts[t.a[1]][K_D])]
    [] t.op = "geo"  -> [t EXCEPT !.a = <<t.a[1]>> \o DomVec(p, t.a[2])]
    [] t.op = "var"  -> [t EXCEPT !.a = <<RankIn(UsedLabels(p), t.a[1])>>]
    [] t.op = "ext"  -> [t EXCEPT !.a = Tail(t.a) \o ElemVec(p, t.a[1])]
    [] t.op = "itp"  -> [t EXCEPT !.a = ElemVec(p, t.a[1])]
    [] OTHER -> t

\* metadata: dict entries sorted by key
MdNormNode(t) ==
  IF t.op = "dict" THEN
    LET ord == SortSeq([i \in DOMAIN t.a |-> i], LAMBDA x, y : t.a[x] < t.a[y]) IN
    [t EXCEPT !.a = [i \in DOMAIN ord |-> t.a[ord[i]]], !.s = [i \in DOMAIN ord |-> t.s[ord[i]]]]
  ELSE t

EraseNode(t) == CASE t.op \in {"idx", "prod"} -> [t EXCEPT !.a = [i \in DOMAIN t.a |-> IF t.a[i] < 0 THEN 0 - 1 ELSE t.a[i]]]
                  [] t.op = "var" -> [t EXCEPT !.a = <<0>>]
                  [] OTHER -> t
ShiftIdx(t) == IF t.op = "idx" THEN [t EXCEPT !.a = [i \in DOMAIN t.a |-> IF t.a[i] < 0 THEN 2 * t.a[i] - 1 ELSE t.a[i]]] ELSE t
ShiftLbl(t) == IF t.op = "var" THEN [t EXCEPT !.a = <<2 * t.a[1] + 1>>] ELSE t
\* a product sums over the names open in both operands, nesting the sums in the order of the
\* index counts (name -1 is the oldest index): that order is part of the expression ufl builds
SumOrderNode(t) == IF t.op = "prod"
                   THEN [t EXCEPT !.a = SortSeq(SetToSeq(Open(t.s[1]) \cap Open(t.s[2])), LAMBDA x, y : x > y)]
                   ELSE t
\* base-form-operator data removed (used only to attribute a collision to that data)
StripNode(t) == CASE t.op = "ext" -> [op |-> "extS", a |-> <<t.a[2]>>, s |-> SubSeq(t.s, 1, t.a[2])]
                  [] t.op = "itp" -> [op |-> "itpS", a |-> <<>>, s |-> t.s]
                  [] OTHER -> t
RenNode(order, t) == IF t.op \in {"idx", "prod"} THEN [t EXCEPT !.a = [i \in DOMAIN t.a |-> IF t.a[i] < 0 THEN 0 - Pos(order, t.a[i]) ELSE t.a[i]]] ELSE t
\* a total order on terms (only used to order the operands of sums and products canonically)
OpNames == <<"int", "flt", "coef", "arg", "cst", "geo", "sum", "prod", "div", "pow", "inner", "sin", "cos", "exp", "abs",
             "idx", "cond", "res", "dx", "grad", "var", "ext", "itp", "extS", "itpS">>
OpRank(op) == Pos(OpNames, op)
RECURSIVE CmpInts(_, _)
CmpInts(a, b) == IF Len(a) # Len(b) THEN (IF Len(a) < Len(b) THEN 0 - 1 ELSE 1)
                 ELSE IF a = <<>> THEN 0
                 ELSE IF a[1] # b[1] THEN (IF a[1] < b[1] THEN 0 - 1 ELSE 1)
                 ELSE CmpInts(Tail(a), Tail(b))
RECURSIVE Cmp(_, _)
RECURSIVE CmpKids(_, _)
Cmp(x, y) == IF x.op # y.op THEN (IF OpRank(x.op) < OpRank(y.op) THEN 0 - 1 ELSE 1)
             ELSE LET c == CmpInts(x.a, y.a) IN
                  IF c # 0 THEN c
                  ELSE IF Len(x.s) # Len(y.s) THEN (IF Len(x.s) < Len(y.s) THEN 0 - 1 ELSE 1)
                  ELSE CmpKids(x.s, y.s)
CmpKids(s, t) == IF s = <<>> THEN 0
                 ELSE LET c == Cmp(s[1], t[1]) IN IF c # 0 THEN c ELSE CmpKids(Tail(s), Tail(t))

RECURSIVE MapT(_, _, _)
\* what sorted_expr cannot see: free-index names and labels
Erase(t) == MapT(t, "erase", <<>>)
\* sum / product operands that differ by more than that are put in a canonical order by ufl
Sortable(t) == t.op \in Comm /\ Erase(t.s[1]) # Erase(t.s[2])
CommSortNode(t) == IF t.op \in Comm /\ Cmp(Erase(t.s[1]), Erase(t.s[2])) = 1
                   THEN [t EXCEPT !.s = <<t.s[2], t.s[1]>>] ELSE t

NodeFn(mode, ctx, t) ==
  CASE mode = "inline"   -> InlineNode(ctx, t)
    [] mode = "md"       -> MdNormNode(t)
    [] mode = "erase"    -> EraseNode(t)
    [] mode = "sumorder" -> SumOrderNode(t)
    [] mode = "strip"    -> StripNode(t)
    [] mode = "commsort" -> CommSortNode(t)
    [] mode = "ren"      -> RenNode(ctx, t)
    [] mode = "shiftidx" -> ShiftIdx(t)
    [] mode = "shiftlbl" -> ShiftLbl(t)
\* apply NodeFn(mode, ctx, .) to every node, bottom up
MapT(t, mode, ctx) ==
  IF t.s = <<>> THEN NodeFn(mode, ctx, t)
  ELSE NodeFn(mode, ctx, [t EXCEPT !.s = [i \in DOMAIN t.s |-> MapT(t.s[i], mode, ctx)]])

\* integrals: tuple ids split, then a stable sort by (domain, type, intersect measures, id)
SplitSids(itgs) ==
  Concat([j \in DOMAIN itgs |-> [i \in DOMAIN itgs[j].sid |-> [itgs[j] EXCEPT !.sid = <<itgs[j].sid[i]>>]]])
RECURSIVE SeqLess(_, _)
SeqLess(a, b) == IF a = <<>> THEN b # <<>>
                 ELSE IF b = <<>> THEN FALSE
                 ELSE IF a[1] # b[1] THEN a[1] < b[1]
                 ELSE SeqLess(Tail(a), Tail(b))
\* "everywhere" (0) is a str, explicit ids are ints: keyfunc sorts by (type name, value)
SidKey(sid) == IF sid[1] = 0 THEN <<1, 0>> ELSE <<0, sid[1]>>
IKey(p, I) == <<p.doms[I.dom][D_GDIM], p.doms[I.dom][D_UID], I.itype>> \o XmKey(p, I) \o SidKey(I.sid)
RECURSIVE StableSort(_, _)   \* insertion sort of integrals by IKey, stable
StableSort(p, s) ==
  IF s = <<>> THEN <<>>
  ELSE LET r == StableSort(p, Front(s))
           x == Last(s)
           k == Cardinality({i \in DOMAIN r : ~SeqLess(IKey(p, x), IKey(p, r[i]))})   \* x goes after every element not greater
       IN SubSeq(r, 1, k) \o <<x>> \o SubSeq(r, k + 1, Len(r))

Inline(p) ==
  LET sorted == StableSort(p, SplitSids(p.itgs)) IN
  [j \in DOMAIN sorted |->
     [itype |-> sorted[j].itype, sid |-> sorted[j].sid,
      md |-> MapT(sorted[j].md, "md", <<>>),
      dom |-> DomVec(p, sorted[j].dom),
      xm |-> XmVec(p, sorted[j]),
      g |-> MapT(MapT(MapT(sorted[j].g, "inline", p), "sumorder", <<>>), "commsort", <<>>)]]

\* free index names -> first-occurrence numbers over the whole (sorted) form
IndexNorm(itgs) ==
  LET order == Dedup(Concat([j \in DOMAIN itgs |-> NegSeq(itgs[j].g)]))
  IN [j \in DOMAIN itgs |-> [itgs[j] EXCEPT !.g = MapT(itgs[j].g, "ren", order)]]

\* The normal form: tables inlined and counts ranked, integrals split and sorted, summation order
\* recorded, sortable sum / product operands ordered (bottom up, by their name-erased form, so the
\* result does not depend on the given order), free index names numbered by first occurrence.
Canon(p) == IndexNorm(Inline(p))
CanonRep(p) == Canon(p)

HasBfo(p) == \E j \in DOMAIN p.itgs : \E n \in Nodes(p.itgs[j].g) : n.op \in {"ext", "itp"}
Stripped(p) == [p EXCEPT !.itgs = [j \in DOMAIN @ |-> [@[j] EXCEPT !.g = MapT(@, "strip", <<>>)]]]
\* 0 when there is nothing to strip
StripRep(p) == IF HasBfo(p) THEN CanonRep(Stripped(p)) ELSE <<>>

-----------------------------------------------------------------------------
(* single-site mutations.  Each candidate is [kind, q]; kinds in SemanticKinds must change Canon. *)
K(kind, n) == [kind |-> kind, n |-> n]

NodeAlts(p, n) ==
  CASE n.op = "int" ->
         {K("literal-int", [n EXCEPT !.a = <<v>>]) : v \in LitInts \ {n.a[1]}}
         \cup (IF n.a[1] = 2 THEN {K("literal-int-to-float", N("flt", <<4>>, <<>>))} ELSE {})
    [] n.op = "flt" ->
         {K(IF {n.a[1], v} = {2, 3} THEN "literal-float-ulp" ELSE "literal-float", [n EXCEPT !.a = <<v>>])
          : v \in FltIds \ {n.a[1]}}
    [] n.op = "coef" ->
         {K(IF p.coefs[c][C_E] = p.coefs[n.a[1]][C_E] THEN "coef-identity" ELSE "coef-other-space",
            [n EXCEPT !.a = <<c>>]) : c \in DOMAIN p.coefs \ {n.a[1]}}
    [] n.op = "arg" ->
         {K("arg-number", [n EXCEPT !.a[1] = 1 - n.a[1]])}
         \cup {K("arg-part", [n EXCEPT !.a[2] = v]) : v \in {0, 1, 2} \ {n.a[2]}}
         \cup {K("arg-space", [n EXCEPT !.a[3] = e]) : e \in {x \in DOMAIN p.elems : p.elems[x] # p.elems[n.a[3]]}}
    [] n.op = "cst" ->
         {K("const-identity", [n EXCEPT !.a = <<c>>]) : c \in DOMAIN p.csts \ {n.a[1]}}
    [] n.op = "geo" ->
         {K("geo-kind", [n EXCEPT !.a[1] = v]) : v \in (IF n.a[1] < 10 THEN ScalarGeo ELSE VectorGeo) \ {n.a[1]}}
         \cup {K("geo-domain", [n EXCEPT !.a[2] = d]) : d \in {x \in DOMAIN p.doms : p.doms[x] # p.doms[n.a[2]]}}
    [] n.op \in UnaryMath ->
         {K("operator-swap-unary", [n EXCEPT !.op = o]) : o \in UnaryMath \ {n.op}}
    [] n.op \in Binary ->
         {K("operator-swap", [n EXCEPT !.op = o]) : o \in Binary \ {n.op}}
         \cup (IF n.op \in Ordered THEN {K("operand-order", [n EXCEPT !.s = <<n.s[2], n.s[1]>>])} ELSE {})
    [] n.op = "inner" ->
         {K("operand-order", [n EXCEPT !.s = <<n.s[2], n.s[1]>>])}
    [] n.op = "idx" ->
         \* a fixed index value; any permutation of the entries (i,j -> j,i; i,0 -> 0,i);
         \* the trace pattern i,i <-> two fixed indices
         UNION {{K("fixed-index-value", [n EXCEPT !.a[i] = 1 - n.a[i]])} : i \in {x \in DOMAIN n.a : n.a[x] \in {0, 1}}}
         \cup {K("index-pattern", [n EXCEPT !.a = q]) : q \in Perms(n.a) \ {n.a}}
         \cup (IF Len(n.a) = 2 /\ n.a[1] < 0 /\ n.a[1] = n.a[2]
               THEN {K("index-pattern-trace", [n EXCEPT !.a = <<0, 0>>]), K("index-pattern-trace", [n EXCEPT !.a = <<0, 1>>])}
               ELSE {})
         \cup (IF Len(n.a) = 2 /\ n.a[1] >= 0 /\ n.a[2] >= 0
               THEN {K("index-pattern-trace", [n EXCEPT !.a = <<0 - 9, 0 - 9>>])} ELSE {})
    [] n.op = "cond" ->
         {K("cond-operator", [n EXCEPT !.a = <<v>>]) : v \in (1..6) \ {n.a[1]}}
         \cup {K("cond-operand-order", [n EXCEPT !.s = <<n.s[2], n.s[1], n.s[3], n.s[4]>>]),
               K("cond-branch-order", [n EXCEPT !.s = <<n.s[1], n.s[2], n.s[4], n.s[3]>>])}
    [] n.op = "res" -> {K("restriction-side", [n EXCEPT !.a = <<3 - n.a[1]>>])}
    [] n.op = "dx"  -> {K("derivative-direction", [n EXCEPT !.a = <<1 - n.a[1]>>])}
    [] n.op = "ext" ->
         UNION {{K("extop-derivatives", [n EXCEPT !.a[2 + i] = v]) : v \in {0, 1, 2} \ {n.a[2 + i]}} : i \in 1..n.a[2]}
         \cup {K("extop-space", [n EXCEPT !.a[1] = e]) : e \in {x \in DOMAIN p.elems : p.elems[x] # p.elems[n.a[1]]}}
         \cup (IF Len(n.s) > n.a[2] THEN {K("extop-argslot-dropped", [n EXCEPT !.s = Front(n.s)])} ELSE {})
    [] n.op = "itp" ->
         {K("interp-space", [n EXCEPT !.a[1] = e]) : e \in {x \in DOMAIN p.elems : p.elems[x] # p.elems[n.a[1]]}}
    \* metadata
    [] n.op = "mint" -> {K("md-int", [n EXCEPT !.a = <<v>>]) : v \in {1, 2, 3} \ {n.a[1]}}
    [] n.op = "mflt" -> {K(IF {n.a[1], v} = {2, 3} THEN "md-float-ulp" ELSE "md-float", [n EXCEPT !.a = <<v>>]) : v \in FltIds \ {n.a[1]}}
    [] n.op = "mstr" -> {K("md-str", [n EXCEPT !.a = <<v>>]) : v \in MdStrs \ {n.a[1]}}
    [] n.op = "mbool" -> {K("md-bool", [n EXCEPT !.a = <<1 - n.a[1]>>])}
    [] n.op = "marr" -> {K("md-array", [n EXCEPT !.a = <<v>>]) : v \in MdArrs \ {n.a[1]}}
    [] n.op = "mnone" -> {K("md-none-to-int", N("mint", <<1>>, <<>>))}
    [] n.op = "dict" ->
         UNION {{K("md-key-rename", [n EXCEPT !.a[i] = k]) : k \in MdKeys \ Rng(n.a)} : i \in DOMAIN n.a}
         \cup {K("md-key-drop", [n EXCEPT !.a = DropAt(n.a, i), !.s = DropAt(n.s, i)]) : i \in DOMAIN n.a}
         \cup {K("md-key-add", [n EXCEPT !.a = Append(n.a, k), !.s = Append(n.s, N("mint", <<1>>, <<>>))])
               : k \in {CHOOSE x \in MdKeys \ Rng(n.a) : TRUE}}
    [] n.op = "mlist" ->
         (IF Len(n.s) >= 2 THEN {K("md-list-length", [n EXCEPT !.s = Front(n.s)])} ELSE {})
         \cup {K("md-list-order", [n EXCEPT !.s = SwapAt(n.s, i, i + 1)])
               : i \in {x \in 1..(Len(n.s) - 1) : n.s[x] # n.s[x + 1]}}
    [] OTHER -> {}

\* where a path leads through an external operator: its operands or its argument slots
RECURSIVE Where(_, _)
Where(t, path) ==
  IF path = <<>> THEN <<>>
  ELSE (IF t.op = "ext" THEN (IF Head(path) > t.a[2] THEN <<"extop-argslot">> ELSE <<"extop-operand">>)
        ELSE IF t.op = "itp" THEN <<"interp-operand">> ELSE <<>>)
       \o Where(t.s[Head(path)], Tail(path))
Outer(w) == IF w = <<>> THEN <<>> ELSE <<w[1]>>

C(kind, q) == [kind |-> kind, q |-> q]
SetItg(p, j, f, v) == [p EXCEPT !.itgs = [@ EXCEPT ![j] = [@ EXCEPT ![f] = v]]]
SetTbl(p, tbl, i, f, v) == [p EXCEPT ![tbl] = [@ EXCEPT ![i] = [@ EXCEPT ![f] = v]]]

TreeCands(p) ==
  UNION {UNION {{C(Outer(Where(p.itgs[j].g, path)) \o <<alt.kind>>, SetItg(p, j, "g", Put(p.itgs[j].g, path, alt.n)))
                 : alt \in NodeAlts(p, At(p.itgs[j].g, path))}
                : path \in Paths(p.itgs[j].g)}
         : j \in DOMAIN p.itgs}
  \cup
  UNION {UNION {{C(<<alt.kind>>, SetItg(p, j, "md", Put(p.itgs[j].md, path, alt.n)))
                 : alt \in NodeAlts(p, At(p.itgs[j].md, path))}
                : path \in Paths(p.itgs[j].md)}
         : j \in DOMAIN p.itgs}

Sids == {<<0>>, <<1>>, <<2>>, <<1, 2>>, <<2, 2>>}
\* meshes that an integral does not refer to yet (neither integration domain nor intersect measure)
FreeDoms(p, I) == DOMAIN p.doms \ ({I.dom} \cup XmDoms(I))
IntegralCands(p) ==
  UNION {
    {C(<<"integral-type">>, SetItg(p, j, "itype", v)) : v \in {1, 2, 4} \ {p.itgs[j].itype}}
    \cup {C(<<IF Len(v) = Len(p.itgs[j].sid) /\ (v[1] = 0) = (p.itgs[j].sid[1] = 0) THEN "subdomain-id" ELSE "subdomain-id-kind">>,
            SetItg(p, j, "sid", v)) : v \in Sids \ {p.itgs[j].sid}}
    \cup {C(<<"integral-domain">>, SetItg(p, j, "dom", d)) : d \in {x \in DOMAIN p.doms : p.doms[x] # p.doms[p.itgs[j].dom]}}
    \cup (IF Len(p.itgs) >= 2 THEN {C(<<"integral-dropped">>, [p EXCEPT !.itgs = DropAt(@, j)])} ELSE {})
    \cup {C(<<"integral-duplicated">>, [p EXCEPT !.itgs = Append(@, @[j])])}
    \* intersect measures: the type on one other mesh, WHICH other mesh, one measure less / more
    \cup UNION {
         {C(<<"xmeasure-type">>, SetItg(p, j, "xm", [p.itgs[j].xm EXCEPT ![i] = <<v, @[X_D]>>]))
          : v \in {1, 2, 3} \ {p.itgs[j].xm[i][X_IT]}}
         \cup {C(<<"xmeasure-domain">>, SetItg(p, j, "xm", [p.itgs[j].xm EXCEPT ![i] = <<@[X_IT], d>>]))
               : d \in FreeDoms(p, p.itgs[j])}
         \cup {C(<<"xmeasure-dropped">>, SetItg(p, j, "xm", DropAt(p.itgs[j].xm, i)))}
         : i \in DOMAIN p.itgs[j].xm}
    \cup {C(<<"xmeasure-added">>, SetItg(p, j, "xm", Append(p.itgs[j].xm, <<p.itgs[j].itype, d>>)))
          : d \in {x \in FreeDoms(p, p.itgs[j]) : \A y \in FreeDoms(p, p.itgs[j]) : x <= y}}
    : j \in DOMAIN p.itgs}

TableCands(p) ==
  UNION {
    {C(<<"element-family">>, SetTbl(p, "elems", e, E_FAM, v)) : v \in {1, 2, 3} \ {p.elems[e][E_FAM]}}
    \cup {C(<<"element-degree">>, SetTbl(p, "elems", e, E_DEG, v)) : v \in {1, 2, 3} \ {p.elems[e][E_DEG]}}
    \cup {C(<<"element-shape">>, SetTbl(p, "elems", e, E_SHAPE, v)) : v \in {0, 1, 2} \ {p.elems[e][E_SHAPE]}}
    \cup {C(<<"element-pullback">>, SetTbl(p, "elems", e, E_MAP, v)) : v \in {1, 2, 3} \ {p.elems[e][E_MAP]}}
    \cup {C(<<"element-sobolev">>, SetTbl(p, "elems", e, E_SOB, v)) : v \in {1, 2, 3, 4} \ {p.elems[e][E_SOB]}}
    \cup {C(<<"element-symmetry">>, SetTbl(p, "elems", e, E_SYM, 1 - p.elems[e][E_SYM]))}
    \cup {C(<<"space-domain">>, SetTbl(p, "elems", e, E_DOM, d))
          : d \in {x \in DOMAIN p.doms : p.doms[x] # p.doms[p.elems[e][E_DOM]]}}
    : e \in UsedElems(p)}
  \cup UNION {
    {C(<<"domain-cell">>, SetTbl(p, "doms", d, D_CELL, 3 - p.doms[d][D_CELL])),
     C(<<"domain-gdim">>, SetTbl(p, "doms", d, D_GDIM, 5 - p.doms[d][D_GDIM])),
     C(<<"domain-coordinate-degree">>, SetTbl(p, "doms", d, D_CDEG, 3 - p.doms[d][D_CDEG]))}
    : d \in UsedDoms(p)}
  \cup UNION {
    {C(<<"coef-space">>, SetTbl(p, "coefs", c, C_E, e)) : e \in {x \in DOMAIN p.elems : p.elems[x] # p.elems[p.coefs[c][C_E]]}}
    : c \in UsedCoefs(p)}
  \cup UNION {
    {C(<<"const-shape">>, SetTbl(p, "csts", c, K_SH, v)) : v \in {0, 1, 2} \ {p.csts[c][K_SH]}}
    \cup {C(<<"const-domain">>, SetTbl(p, "csts", c, K_D, d)) : d \in {x \in DOMAIN p.doms : p.doms[x] # p.doms[p.csts[c][K_D]]}}
    : c \in UsedCsts(p)}

Cands(p) == {c \in TreeCands(p) \cup IntegralCands(p) \cup TableCands(p) : WellFormed(c.q)}

\* kinds whose effect on Canon depends on the sharing pattern / relative order of the counts
\* (f*g -> f*h with a fresh h of the same space is the same form): Canon decides.
\* Likewise the other mesh of an intersect measure: replacing it by an equal mesh that occurs
\* nowhere else in the form is a renumbering of the meshes.
OrderKinds == {"coef-identity", "const-identity", "xmeasure-domain"}

-----------------------------------------------------------------------------
(* renamings: only ignorable numbering changes *)
Keys(p, I) == {<<p.doms[I.dom][D_UID], I.itype, I.sid[i]>> \o XmKey(p, I) : i \in DOMAIN I.sid}
ClassRenamings == {"rename-coefficient-classes-uniform", "rename-coefficient-classes-shift", "rename-constant-classes"}
UsesCls(p) == \E c \in UsedCoefs(p) : p.coefs[c][C_CLS] # 0

Renamings(p) ==
  (IF \E j \in DOMAIN p.itgs : HasFree(p.itgs[j].g)
   THEN {C(<<"rename-free-indices">>, [p EXCEPT !.itgs = [j \in DOMAIN @ |-> [@[j] EXCEPT !.g = MapT(@, "shiftidx", <<>>)]]])} ELSE {})
  \cup (IF UsedLabels(p) # {}
   THEN {C(<<"rename-labels">>, [p EXCEPT !.itgs = [j \in DOMAIN @ |-> [@[j] EXCEPT !.g = MapT(@, "shiftlbl", <<>>)]]])} ELSE {})
  \cup (IF UsedCoefs(p) # {}
   THEN {C(<<"rename-coefficient-counts">>, [p EXCEPT !.coefs = [c \in DOMAIN @ |-> [@[c] EXCEPT ![C_K] = 2 * @ + 1]]])} ELSE {})
  \cup (IF UsedCsts(p) # {}
   THEN {C(<<"rename-constant-counts">>, [p EXCEPT !.csts = [c \in DOMAIN @ |-> [@[c] EXCEPT ![K_K] = 3 * @]]])} ELSE {})
  \* the Python classes of the coefficients / constants: all of them plain ufl.Coefficient; another
  \* assignment of classes (coefficient c: class + c modulo the number of classes)
  \cup (IF UsesCls(p)
   THEN {C(<<"rename-coefficient-classes-uniform">>, [p EXCEPT !.coefs = [c \in DOMAIN @ |-> [@[c] EXCEPT ![C_CLS] = 0]]])} ELSE {})
  \cup (IF UsedCoefs(p) # {}
   THEN {C(<<"rename-coefficient-classes-shift">>, [p EXCEPT !.coefs = [c \in DOMAIN @ |-> [@[c] EXCEPT ![C_CLS] = (@ + c) % CoefClasses]]])} ELSE {})
  \cup (IF UsedCsts(p) # {}
   THEN {C(<<"rename-constant-classes">>, [p EXCEPT !.csts = [c \in DOMAIN @ |-> [@[c] EXCEPT ![K_CLS] = (@ + c) % CstClasses]]])} ELSE {})
  \cup {C(<<"rename-mesh-ids">>, [p EXCEPT !.doms = [d \in DOMAIN @ |-> [@[d] EXCEPT ![D_UID] = 2 * @ + 3]]])}
  \cup UNION {{C(<<"swap-commutative-operands">>,
                 SetItg(p, j, "g", Put(p.itgs[j].g, path, [At(p.itgs[j].g, path) EXCEPT !.s = <<@[2], @[1]>>])))
               : path \in {x \in Paths(p.itgs[j].g) : Sortable(At(p.itgs[j].g, x))}}
              : j \in DOMAIN p.itgs}
  \cup {C(<<"reorder-integrals">>, [p EXCEPT !.itgs = SwapAt(@, j, j + 1)])
        : j \in {x \in 1..(Len(p.itgs) - 1) : Keys(p, p.itgs[x]) \cap Keys(p, p.itgs[x + 1]) = {}}}
  \cup UNION {{C(<<"md-key-order">>,
                 SetItg(p, j, "md", Put(p.itgs[j].md, path,
                        LET n == At(p.itgs[j].md, path) IN [n EXCEPT !.a = Reverse(n.a), !.s = Reverse(n.s)])))
               : path \in {x \in Paths(p.itgs[j].md) : At(p.itgs[j].md, x).op = "dict" /\ Len(At(p.itgs[j].md, x).a) >= 2}}
              : j \in DOMAIN p.itgs}
  \cup {C(<<"subdomain-tuple-order">>, SetItg(p, j, "sid", Reverse(p.itgs[j].sid)))
        : j \in {x \in DOMAIN p.itgs : Len(p.itgs[x].sid) = 2 /\ p.itgs[x].sid[1] # p.itgs[x].sid[2]}}
  \cup {C(<<"intersect-measure-order">>, SetItg(p, j, "xm", Reverse(p.itgs[j].xm)))
        : j \in {x \in DOMAIN p.itgs : Len(p.itgs[x].xm) >= 2}}

-----------------------------------------------------------------------------
(* bounded generator *)
Doms0  == << <<1, 2, 1, 4>>, <<1, 2, 1, 7>> >>
Elems0 == << <<1, 1, 0, 1, 1, 0, 1>>,     \* 1  P1 scalar on mesh 1
             <<1, 2, 0, 1, 1, 0, 1>>,     \* 2  P2 scalar
             <<1, 1, 1, 1, 1, 0, 1>>,     \* 3  P1 vector
             <<1, 1, 2, 1, 1, 0, 1>>,     \* 4  P1 tensor
             <<1, 1, 0, 1, 1, 0, 2>>,     \* 5  P1 scalar on mesh 2
             <<1, 2, 1, 1, 1, 0, 1>> >>   \* 6  P2 vector
\* classes: coefficients 1, 2 (one space) plain / subclass; 4, 5 (one space) two different
\* subclasses; 6, 7 (one space) both plain
Coefs0 == << <<3, 1, 0>>, <<5, 1, 1>>, <<6, 2, 0>>, <<8, 3, 1>>, <<9, 3, 2>>, <<11, 4, 0>>, <<12, 4, 0>>, <<14, 5, 0>> >>
Csts0  == << <<2, 0, 1, 0>>, <<4, 0, 1, 1>>, <<6, 1, 1, 0>> >>
\* a third mesh, equal to the other two up to its id (multi-domain universe)
Doms3  == Doms0 \o << <<1, 2, 1, 9>> >>

I_(v) == N("int", <<v>>, <<>>)
R_(v) == N("flt", <<v>>, <<>>)
F_(c) == N("coef", <<c>>, <<>>)
A_(n, e) == N("arg", <<n, 0, e>>, <<>>)
K_(c) == N("cst", <<c>>, <<>>)
G_(k, d) == N("geo", <<k, d>>, <<>>)
X_(t, ix) == N("idx", ix, <<t>>)
U_(op, t) == N(op, <<>>, <<t>>)
B_(op, x, y) == N(op, <<>>, <<x, y>>)
Emp == N("dict", <<>>, <<>>)
MI(v) == N("mint", <<v>>, <<>>)
Itg(it, sid, md, d, g) == [itype |-> it, sid |-> sid, md |-> md, dom |-> d, g |-> g, xm |-> <<>>]
ItgX(it, sid, md, d, g, xm) == [itype |-> it, sid |-> sid, md |-> md, dom |-> d, g |-> g, xm |-> xm]
Prog(itgs) == [doms |-> Doms0, elems |-> Elems0, coefs |-> Coefs0, csts |-> Csts0, itgs |-> itgs]
One(g) == Prog(<<Itg(1, <<0>>, Emp, 1, g)>>)

i1 == 0 - 1
i2 == 0 - 2

\* scalar atoms
SA == IF Lvl = 1
      THEN {I_(2), R_(2), F_(1), F_(2), X_(F_(4), <<0>>), K_(1)}
      ELSE {I_(2), R_(1), R_(2), F_(1), F_(2), F_(3), X_(F_(4), <<0>>), K_(1), X_(K_(3), <<0>>),
            X_(G_(10, 1), <<1>>), A_(0, 1)}
SB == IF Lvl = 1 THEN {F_(1), I_(2), K_(1)} ELSE {F_(1), F_(2), I_(2), K_(1)}

AlgTerms ==
  {B_(op, x, y) : op \in (IF Lvl = 1 THEN {"sum", "div"} ELSE Binary), x \in SA, y \in SA}
  \cup {U_(op, x) : op \in {"sin", "abs"}, x \in SA}
  \cup {B_("prod", B_("sum", x, y), z) : x \in SB, y \in SB, z \in SB}
  \cup {B_("sum", U_("sin", x), U_("cos", y)) : x \in SB, y \in SB}
  \cup {B_("pow", x, I_(2)) : x \in SB}

IndexTerms ==
  {B_("prod", X_(F_(4), <<i1>>), X_(F_(5), <<i1>>)),                                    \* u[i] w[i]
   B_("prod", X_(F_(4), <<i1>>), X_(F_(4), <<i1>>)),                                    \* u[i] u[i]
   X_(F_(6), <<i1, i1>>),                                                                \* A[i,i]
   X_(F_(6), <<0, 1>>), X_(F_(6), <<0, 0>>),
   B_("prod", X_(F_(6), <<i1, i2>>), X_(F_(7), <<i1, i2>>)),                            \* A[i,j] B[i,j]
   B_("prod", X_(F_(6), <<i1, i2>>), X_(F_(6), <<i2, i1>>)),                            \* A[i,j] A[j,i]
   B_("prod", X_(F_(6), <<i1, 0>>), X_(F_(4), <<i1>>)),                                 \* A[i,0] u[i]
   B_("prod", X_(F_(6), <<i1, 0>>), X_(F_(6), <<0, i1>>)),                              \* A[i,0] A[0,i]  (a free index next to
   B_("prod", X_(F_(6), <<i1, 1>>), X_(F_(6), <<1, i1>>)),                              \* A[i,1] A[1,i]   the fixed indices 0 and 1)
   B_("prod", B_("prod", X_(F_(6), <<i1, i2>>), X_(F_(4), <<i1>>)), X_(F_(5), <<i2>>)), \* A[i,j] u[i] w[j]
   B_("prod", B_("prod", X_(F_(6), <<i1, i2>>), X_(F_(4), <<i1>>)), X_(F_(4), <<i2>>)), \* A[i,j] u[i] u[j]
   B_("sum", B_("prod", X_(F_(4), <<i1>>), X_(F_(5), <<i1>>)), X_(F_(6), <<i2, i2>>)),  \* u[i] w[i] + A[j,j]
   B_("prod", X_(F_(6), <<i1, i1>>), X_(F_(7), <<i2, i2>>)),                            \* A[i,i] B[j,j]
   B_("prod", X_(U_("grad", F_(4)), <<i1, i2>>), X_(U_("grad", A_(0, 3)), <<i1, i2>>)), \* grad(u)[i,j] grad(v)[i,j]
   B_("prod", X_(K_(3), <<i1>>), X_(G_(10, 1), <<i1>>))}                                \* c[i] x[i]
  \cup (IF Lvl = 1 THEN {} ELSE
       {B_("sum", x, F_(1)) : x \in {B_("prod", X_(F_(4), <<i1>>), X_(F_(5), <<i1>>)), X_(F_(6), <<i1, i1>>)}}
       \cup {B_("prod", B_("prod", X_(F_(4), <<i1>>), X_(F_(5), <<i1>>)), B_("prod", X_(F_(4), <<i2>>), X_(F_(5), <<i2>>)))})

CondTerms ==
  {N("cond", <<c>>, <<a, b, t, f>>) : c \in (IF Lvl = 1 THEN {1} ELSE {1, 5}),
                                      a \in {F_(1), I_(2)}, b \in {F_(2), F_(1)},
                                      t \in {F_(1), R_(1)}, f \in {F_(3), F_(1)}}

DerivTerms ==
  {B_("prod", N("dx", <<0>>, <<A_(1, 1)>>), N("dx", <<0>>, <<A_(0, 1)>>)),
   B_("prod", N("dx", <<0>>, <<F_(1)>>), N("dx", <<1>>, <<F_(2)>>)),
   B_("inner", U_("grad", A_(1, 1)), U_("grad", A_(0, 1))),
   B_("inner", U_("grad", F_(4)), U_("grad", A_(0, 3))),
   B_("inner", F_(4), A_(0, 3)), B_("inner", F_(6), F_(7)), B_("inner", A_(1, 6), A_(0, 6)),
   B_("prod", F_(1), B_("inner", A_(1, 3), A_(0, 3))),
   B_("prod", N("var", <<3>>, <<F_(1)>>), F_(2)),
   B_("sum", N("var", <<2>>, <<F_(1)>>), U_("sin", N("var", <<5>>, <<F_(2)>>)))}
ResTerms ==
  {B_("prod", N("res", <<1>>, <<F_(1)>>), N("res", <<2>>, <<F_(2)>>)),
   B_("prod", N("res", <<1>>, <<A_(1, 1)>>), N("res", <<2>>, <<A_(0, 1)>>)),
   B_("sum", N("res", <<1>>, <<F_(1)>>), N("res", <<2>>, <<F_(1)>>)),
   N("res", <<1>>, <<B_("prod", F_(1), X_(G_(11, 1), <<0>>))>>),
   B_("prod", N("res", <<1>>, <<N("dx", <<0>>, <<F_(1)>>)>>), N("res", <<2>>, <<A_(0, 1)>>))}

BfoTerms ==
  LET E1(e, d, x) == N("ext", <<e, 1, d>>, <<x>>)
  IN
  {B_("prod", E1(1, 0, F_(1)), A_(0, 1)),                                                \* N(f; v*) v
   B_("prod", E1(2, 1, F_(1)), A_(0, 1)),
   B_("prod", N("ext", <<1, 2, 0, 1>>, <<F_(1), F_(2)>>), A_(0, 1)),                      \* N(f, g; v*), derivatives (0,1)
   B_("prod", N("ext", <<1, 1, 1>>, <<F_(1), F_(2)>>), A_(0, 1)),                         \* dN/df(f; g, v*)  (action)
   B_("prod", N("ext", <<1, 1, 1>>, <<F_(1), A_(1, 1)>>), A_(0, 1)),                      \* dN/df(f; uhat, v*)
   B_("prod", N("ext", <<2, 2, 1, 1>>, <<F_(1), F_(3), F_(2), A_(1, 2)>>), A_(0, 2)),
   U_("sin", E1(1, 0, F_(1))),
   E1(1, 0, E1(2, 0, F_(1))),                                                             \* N1(N2(f))
   B_("prod", E1(1, 0, B_("prod", I_(2), F_(1))), F_(2)),
   B_("prod", E1(1, 0, K_(1)), A_(0, 1)),                                                 \* operand of any shape
   X_(E1(3, 0, F_(4)), <<0>>),
   B_("prod", N("itp", <<2>>, <<F_(1)>>), A_(0, 2)),                                       \* Interpolate(f, V2) v
   B_("prod", N("itp", <<1>>, <<B_("prod", F_(1), F_(3))>>), A_(0, 1)),
   B_("prod", N("itp", <<2>>, <<A_(1, 1)>>), A_(0, 2)),                                    \* Interpolate(u, V2) v
   B_("inner", N("itp", <<6>>, <<F_(4)>>), A_(0, 6))}

\* metadata values
MdSet ==
  LET D(ks, vs) == N("dict", ks, vs)
      S(v) == N("mstr", <<v>>, <<>>)
      Fl(v) == N("mflt", <<v>>, <<>>)
      Ar(v) == N("marr", <<v>>, <<>>)
      Li(vs) == N("mlist", <<>>, vs)
  IN
  {Emp, D(<<1>>, <<MI(2)>>), D(<<1, 2>>, <<MI(2), S(1)>>), D(<<3>>, <<Fl(2)>>),
   D(<<4>>, <<D(<<1, 3>>, <<MI(1), Fl(1)>>)>>),                  \* nested dict
   D(<<1>>, <<Li(<<MI(1), MI(2), MI(3)>>)>>),                    \* list
   D(<<7>>, <<N("mbool", <<1>>, <<>>)>>),
   D(<<7>>, <<N("mnone", <<>>, <<>>)>>),
   D(<<2, 6, 5>>, <<S(3), Ar(1), Ar(8)>>)}                       \* custom quadrature rule
  \cup (IF Lvl = 1 THEN {} ELSE
    {D(<<4, 1>>, <<D(<<2>>, <<S(2)>>), MI(3)>>),
     D(<<1>>, <<Li(<<MI(2), Fl(4)>>)>>),
     D(<<5>>, <<Ar(3)>>), D(<<5>>, <<Ar(5)>>), D(<<6>>, <<Ar(9)>>), D(<<5>>, <<Ar(7)>>),
     D(<<1, 5>>, <<MI(2), Li(<<Ar(2), Fl(3)>>)>>)})

MdProgs == {Prog(<<Itg(1, <<0>>, m, 1, B_("prod", F_(1), A_(0, 1)))>>) : m \in MdSet}

MeasureProgs ==
  LET gs == {F_(1), B_("prod", F_(2), A_(0, 1))}
      ms == {<<it, sid, d>> : it \in {1, 2}, sid \in (IF Lvl = 1 THEN {<<1>>, <<1, 2>>} ELSE {<<0>>, <<1>>, <<2>>, <<1, 2>>}),
                              d \in {1, 2}}
      mds == {Emp, N("dict", <<1>>, <<MI(2)>>)}
      one == {Itg(m[1], m[2], md, m[3], g) : m \in ms, md \in mds, g \in (IF Lvl = 1 THEN {F_(1)} ELSE gs)}
      two == {Itg(m[1], m[2], md, m[3], g)
              : m \in (IF Lvl = 1 THEN {<<1, <<0>>, 1>>, <<2, <<1>>, 1>>, <<1, <<1, 2>>, 2>>}
                       ELSE {<<1, <<0>>, 1>>, <<1, <<1>>, 1>>, <<2, <<1>>, 1>>, <<1, <<1, 2>>, 1>>, <<1, <<1>>, 2>>}),
                md \in {Emp}, g \in gs}
             \cup (IF Lvl = 1 THEN {} ELSE {Itg(1, <<1>>, N("dict", <<1>>, <<MI(2)>>), 1, F_(1)), Itg(1, <<0>>, N("dict", <<1>>, <<MI(3)>>), 2, F_(1))})
  IN {Prog(<<x>>) : x \in one} \cup {Prog(<<x, y>>) : x \in two, y \in two}
     \cup {Prog(<<Itg(3, <<0>>, Emp, 1, g)>>) : g \in ResTerms}

\* elements and domains: the same integrands over varied tables
ElemProgs ==
  LET tabs == {<<fam, deg, map, sob>> : fam \in {1, 2}, deg \in (IF Lvl = 1 THEN {1} ELSE {1, 2}), map \in {1, 2}, sob \in {1, 3}}
      T(x) == [Prog(<<Itg(1, <<0>>, Emp, 1, B_("inner", A_(1, 3), A_(0, 3)))>>)
               EXCEPT !.elems = [@ EXCEPT ![3] = <<x[1], x[2], 1, x[3], x[4], 0, 1>>]]
      doms == {<<c, g, k>> : c \in {1, 2}, g \in {2, 3}, k \in (IF Lvl = 1 THEN {1} ELSE {1, 2})}
      Dm(x, g) == [Prog(<<Itg(1, <<0>>, Emp, 1, g)>>) EXCEPT !.doms = [@ EXCEPT ![1] = <<x[1], x[2], x[3], 4>>]]
  IN {T(x) : x \in tabs}
     \cup {Dm(x, g) : x \in doms, g \in {B_("prod", A_(1, 1), A_(0, 1)), B_("prod", K_(1), G_(2, 2)), X_(G_(10, 1), <<0>>)}
                                        \cup (IF Lvl = 1 THEN {} ELSE {B_("prod", G_(1, 1), F_(8)), B_("inner", F_(6), F_(7))})}
     \cup {[One(B_("inner", F_(6), F_(7))) EXCEPT !.elems = [@ EXCEPT ![4] = <<1, d, 2, 1, 1, s, 1>>]] : d \in {1, 2}, s \in {0, 1}}

\* multi-domain integrals (measures with intersect measures) over three meshes that differ only in
\* their ids: alone (the other meshes are numbered by what the measure refers to) and in forms in
\* which the other meshes occur anyway, as integration domains or in the integrand (so that WHICH
\* mesh a measure is intersected with is not a renumbering)
XmProgs ==
  LET P3(itgs) == [Prog(itgs) EXCEPT !.doms = Doms3]
      vol(d) == G_(1, d)
      A  == ItgX(2, <<1>>, Emp, 1, F_(1), << <<3, 2>> >>)                     \* f ds(1; m1) & dS(m2)
      A3 == ItgX(2, <<1>>, Emp, 1, F_(2), << <<3, 3>> >>)                     \* g ds(1; m1) & dS(m3)
      A0 == Itg(2, <<1>>, Emp, 1, F_(2))                                       \* g ds(1; m1)
      B  == ItgX(2, <<1>>, Emp, 1, F_(1), << <<3, 2>>, <<2, 3>> >>)           \* & dS(m2) & ds(m3)
      Cc == ItgX(1, <<0>>, Emp, 1, B_("prod", F_(2), A_(0, 1)), << <<1, 2>> >>) \* dx(m1) & dx(m2)
      Gg == ItgX(2, <<0>>, Emp, 1, B_("div", vol(2), vol(3)), << <<3, 2>> >>)  \* both other meshes in the integrand (not in
                                                                               \* a product: its operands are sorted by raw mesh id)
      R(d) == Itg(1, <<0>>, Emp, d, vol(d))
  IN {P3(<<A>>), P3(<<B>>), P3(<<Cc>>), P3(<<Gg>>), P3(<<A, R(2), R(3)>>), P3(<<A, A3>>), P3(<<A0, A>>)}
     \cup (IF Lvl = 1 THEN {} ELSE
          {P3(<<A, R(2)>>), P3(<<B, R(3)>>), P3(<<Cc, R(3), R(2)>>), P3(<<A3, A, A0>>),
           P3(<<ItgX(3, <<0>>, Emp, 2, B_("prod", N("res", <<1>>, <<F_(8)>>), N("res", <<2>>, <<F_(8)>>)), << <<2, 1>> >>), R(3)>>),
           P3(<<ItgX(1, <<1, 2>>, N("dict", <<1>>, <<MI(2)>>), 1, F_(1), << <<1, 3>>, <<1, 2>> >>)>>)})

SeedSeq == JsonDeserialize("seeds.json")

Programs ==
  CASE Univ = "alg"     -> {One(g) : g \in AlgTerms}
    [] Univ = "index"   -> {One(g) : g \in IndexTerms}
    [] Univ = "cond"    -> {One(g) : g \in CondTerms}
    [] Univ = "deriv"   -> {One(g) : g \in DerivTerms}
    [] Univ = "bfo"     -> {One(g) : g \in BfoTerms}
    [] Univ = "md"      -> MdProgs
    [] Univ = "measure" -> MeasureProgs
    [] Univ = "elem"    -> ElemProgs
    [] Univ = "xm"      -> XmProgs
    [] Univ = "seeds"   -> Rng(SeedSeq)
    [] Univ = "all"     -> {One(g) : g \in AlgTerms \cup IndexTerms \cup CondTerms \cup DerivTerms \cup BfoTerms}
                           \cup MdProgs \cup MeasureProgs \cup ElemProgs \cup XmProgs

-----------------------------------------------------------------------------
VARIABLES b,      \* number of the base program
          p,      \* base program
          q,      \* current program
          kind,   \* what led from p to q: <<>> or sequence of strings
          lvl,    \* 0 base, 1 mutated, 2 renamed, 3 mutated then renamed
          rep,    \* CanonRep(q)
          prep,   \* CanonRep(p)
          renok,  \* the last renaming left Canon unchanged
          srep    \* StripRep(q)
vars == <<b, p, q, kind, lvl, rep, prep, renok, srep>>

Init ==
  LET ps == SetToSeq({x \in Programs : WellFormed(x)}) IN
  /\ b \in DOMAIN ps
  /\ p = ps[b] /\ q = p /\ kind = <<>> /\ lvl = 0
  /\ rep = CanonRep(p) /\ prep = rep /\ renok = TRUE /\ srep = StripRep(p)

Mutate ==
  /\ lvl = 0
  /\ \E c \in Cands(p) :
       /\ q' = c.q /\ kind' = c.kind /\ lvl' = 1
       /\ rep' = CanonRep(c.q) /\ renok' = TRUE /\ srep' = StripRep(c.q)
  /\ UNCHANGED <<b, p, prep>>

Rename ==
  /\ lvl = 0 \/ (lvl = 1 /\ Ren2)
  \* the class renamings of a MUTANT: only the uniform one, and only in the large configuration
  \* (Lvl = 2); they would triple the neighbourhoods for little (the base programs mix the classes)
  /\ \E c \in (IF lvl = 0 THEN Renamings(q)
               ELSE {x \in Renamings(q) : x.kind[1] \notin ClassRenamings
                                          \/ (Lvl = 2 /\ x.kind[1] = "rename-coefficient-classes-uniform")}) :
       LET r == CanonRep(c.q) IN
       /\ q' = c.q /\ kind' = kind \o c.kind /\ lvl' = lvl + 2
       /\ rep' = r /\ renok' = (r = rep) /\ srep' = StripRep(c.q)
  /\ UNCHANGED <<b, p, prep>>

Next == Mutate \/ Rename \/ (lvl >= 2 /\ UNCHANGED vars)
Spec == Init /\ [][Next]_vars

-----------------------------------------------------------------------------
(* invariants: sanity of the model *)
RenameInvisible == renok
MutKind == IF kind[1] \in {"extop-argslot", "extop-operand", "interp-operand"} THEN kind[2] ELSE kind[1]
SemanticVisible == (lvl \in {1, 3} /\ MutKind \notin OrderKinds) => rep # prep
BaseWellFormed  == WellFormed(q)
\* a mutation of a kind in OrderKinds (another coefficient / constant of the same space) is visible
\* exactly when it changes the sharing pattern or the relative order of the counts: whatever Canon
\* says about it, a renaming afterwards must not change the verdict
VerdictStable == lvl = 3 => renok

(* dump: one JSON line per state  [b, lvl, kind, program, rep, stripped rep or <<>>] *)
RECURSIVE EncT(_)
EncT(t) == <<t.op, t.a, IF t.s = <<>> THEN <<>> ELSE [i \in DOMAIN t.s |-> EncT(t.s[i])]>>
EncP(x) == [doms |-> x.doms, elems |-> x.elems, coefs |-> x.coefs, csts |-> x.csts,
            itgs |-> [j \in DOMAIN x.itgs |-> <<x.itgs[j].itype, x.itgs[j].sid, EncT(x.itgs[j].md), x.itgs[j].dom, EncT(x.itgs[j].g), x.itgs[j].xm>>]]
EncR(r) == [j \in DOMAIN r |-> <<r[j].itype, r[j].sid, EncT(r[j].md), r[j].dom, EncT(r[j].g), r[j].xm>>]
Dump == DumpOn => PrintT(ToJson(<<b, lvl, kind, EncP(q), EncR(rep), EncR(srep)>>))
=============================================================================
