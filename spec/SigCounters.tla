---------------------------- MODULE SigCounters ----------------------------
(***************************************************************************)
(* C12.  Form signatures do not depend on incidental numbering.            *)
(*                                                                         *)
(* STATE.  `ctr` holds the process-global counters of ufl, one per counted *)
(* class: Index (Counted._counter of Index), Coefficient, Constant, Label  *)
(* and Mesh (Mesh._ufl_global_id).  `store` is the list of python objects  *)
(* a user program has created so far.                                      *)
(*                                                                         *)
(* BEHAVIOUR.  The user writes a BUILD PROGRAM (script), one instruction   *)
(* per constructor call:                                                   *)
(*   mesh | const m | coef m | vcoef m | tcoef m | scoef m m' | geo m      *)
(*   | index                                                               *)
(*       (terminals: read the current counter of their class and increment *)
(*       it; vcoef / tcoef = vector / rank-2 tensor valued; scoef =        *)
(*       coefficient on the mixed space over the MeshSequence([m, m']))    *)
(*   idx a i | idx2 a i j | comp a k | grad a | sum a b | prod a b         *)
(*   | zeromul a | cond a b c | var a | integ a m                          *)
(*       idx / idx2 = the subscript a[i] / a[i, j] of ANY vector / tensor  *)
(*       valued expression, as coded in Expr.__getitem__ +                 *)
(*       create_slice_indices: an index of the subscript that is a free    *)
(*       index of `a` or occurs a second time in the subscript is summed,  *)
(*       one IndexSum per such index, nested IN THE ORDER OF THE SUBSCRIPT *)
(*       (GetItem); with grad this is a.dx(i, j) = grad(grad(a))[i, j].    *)
(*       integ = a * dx(m), the last instruction of a script: the          *)
(*       integration domain is any mesh of the script, the other meshes    *)
(*       of the integrand are numbered after it, sorted by ufl_id          *)
(*       (Form._analyze_domains).  Without it: a * dx(first mesh).         *)
(* Then a process with a PRIOR HISTORY runs it: Bump(K, n) creates and     *)
(* discards n objects of class K (every class at most once; n from        *)
(* Offsets, or a PLACEMENT: n such that a digit boundary B of Boundaries   *)
(* falls after the q-th object of class K the script itself creates, i.e.  *)
(* the counter stands at B - q when the script starts -- over all classes  *)
(* this ranges over the digit-length patterns of all numbers the reprs of  *)
(* one program embed, while the scripts range over the creation orders),   *)
(* then one Step per constructor call executes the script against the live *)
(* counters, then Finish computes the signature.                           *)
(* `sum`/`prod` order their operands with sorted_expr, i.e. with cmp_expr  *)
(* AS CODED in ufl/sorting.py: type codes, then per-type terminal          *)
(* comparators -- coefficients by count (numerically), labels and free     *)
(* indices never, and EVERYTHING ELSE BY ITS repr STRING.  The reprs of    *)
(* Constant, geometric quantities and Zero embed counter values (constant  *)
(* count, mesh ufl_id, raw index counts); the decimal strings are modelled *)
(* explicitly as character codes (DecNat, LexCmp).  Finish computes the    *)
(* form signature of `store[last] * dx(first mesh)` as coded in            *)
(* ufl/form.py + ufl/algorithms/signature.py: domain numbering, per-class  *)
(* renumbering of counted terminals by sorted count, index numbering by    *)
(* first occurrence in unique_pre_traversal order, nested (typecode,       *)
(* operand data) structure.  A Zero with free indices contributes its repr *)
(* = the RAW index counts (ZeroSig = "raw").                               *)
(*                                                                         *)
(* PROPERTY.  SigInvariant: the signature structure of a finished program  *)
(* equals the signature of the same program run from the import-time       *)
(* counters `Base` (a functional re-execution RunFn of the same Exec       *)
(* step).  Expected to FAIL for Comparator = "repr" (two constants whose   *)
(* counts straddle 9/10) and for ZeroSig = "raw"; must HOLD for the        *)
(* intended Comparator = "numeric", ZeroSig = "renumbered".                *)
(*                                                                         *)
(* With Emit = TRUE every finished behaviour is printed as JSON (program,  *)
(* offsets, signature structure, "differs from the base run") for replay   *)
(* into the real ufl.  For trace validation the harness records runs of    *)
(* the real code (script, observed counter values) and lets TLC evaluate   *)
(* SigFrom(script, counters) for exactly those values; per script the      *)
(* partition of the runs by real signature must be the partition by model  *)
(* signature (vf/checks/c12.py).                                           *)
(***************************************************************************)
EXTENDS Integers, Sequences, FiniteSets, TLC, Json

CONSTANTS TC,          \* record: class name -> _ufl_typecode_ of the real class (read by the harness)
          Base,        \* record: value of every counter right after `import ufl`
          Comparator,  \* "repr" (as coded) | "numeric" (intended) | "mixed" (per kind, see ComparatorOf)
          ComparatorOf,\* record [const, geo, zero] of "repr"/"numeric" (used when Comparator = "mixed")
          ZeroSig,     \* "raw" (as coded: repr of the Zero) | "renumbered" (intended)
          Offsets,     \* set of counter shifts, e.g. {0,1,8,9,10,90,98,99,100}
          Boundaries,  \* set of digit boundaries (10, 100, ..) placed inside the objects a script creates
          BumpKinds,   \* the counters the prior history may shift
          MaxBumped,   \* at most this many counters get a non-zero shift in one behaviour
          MaxSteps,    \* length bound of the build program
          Caps,        \* record: instruction name -> maximal number of such instructions in a script
          Need,        \* record: instruction name -> minimal number of them in a FINISHED script
          Emit         \* TRUE: print every finished behaviour

Kinds == {"Index", "Coefficient", "Constant", "Label", "Mesh"}

----------------------------------------------------------------------------
(* Terms.  One uniform record shape:                                       *)
(*   k   "mesh" "index" (handles, not expressions)                         *)
(*       "const" "coef" "geo" "mi" "fmi" "zero" "label" (terminals) "op"   *)
(*   tc  _ufl_typecode_                                                    *)
(*   n   count (const, coef, label, index) / ufl_id (mesh)                 *)
(*   d   ufl_id of the mesh (const, coef, geo)                             *)
(*   ds  ufl_ids of the component meshes (coef on a MeshSequence) / <<>>   *)
(*   sh  0 scalar / 1 vector valued / 2 mixed over a MeshSequence / 3      *)
(*       tensor valued (coef)                                              *)
(*   ix  index counts (mi: entries, zero: free indices sorted by count)    *)
(*   ops operands                                                          *)
(*   k = "form": a * dx(mesh d), ops = <<a>> (not an expression)           *)

Blank == [k |-> "", tc |-> 0, n |-> 0, d |-> 0, ds |-> << >>, sh |-> 0, ix |-> << >>, ops |-> << >>]

MeshT(id)        == [Blank EXCEPT !.k = "mesh", !.n = id]
IndexT(c)        == [Blank EXCEPT !.k = "index", !.n = c]
Const(c, m)      == [Blank EXCEPT !.k = "const", !.tc = TC.Constant, !.n = c, !.d = m]
Coef(c, m, s)    == [Blank EXCEPT !.k = "coef", !.tc = TC.Coefficient, !.n = c, !.d = m, !.sh = s]
CoefSeq(c, ms)   == [Blank EXCEPT !.k = "coef", !.tc = TC.Coefficient, !.n = c, !.ds = ms, !.sh = 2]
Geo(m)           == [Blank EXCEPT !.k = "geo", !.tc = TC.CellVolume, !.d = m]
Mi(e)            == [Blank EXCEPT !.k = "mi", !.tc = TC.MultiIndex, !.ix = e]
FMi(v)           == [Blank EXCEPT !.k = "fmi", !.tc = TC.MultiIndex, !.n = v]     \* (FixedIndex(v),)
ZeroT(fi)        == [Blank EXCEPT !.k = "zero", !.tc = TC.Zero, !.ix = fi]
Lab(c)           == [Blank EXCEPT !.k = "label", !.tc = TC.Label, !.n = c]
Op(code, o)      == [Blank EXCEPT !.k = "op", !.tc = code, !.ops = o]
FormT(a, m)      == [Blank EXCEPT !.k = "form", !.d = m, !.ops = <<a>>]

IsTerminal(t) == t.k # "op"

----------------------------------------------------------------------------
(* repr strings as character codes (only the part that differs between two *)
(* terminals of one class; the common prefix is dropped)                   *)

LP == 40  RP == 41  CM == 44  SPC == 32
RECURSIVE DecNat(_)
DecNat(m) == IF m < 10 THEN <<48 + m>> ELSE DecNat(m \div 10) \o <<48 + (m % 10)>>
RECURSIVE CommaJoin(_)
CommaJoin(s) == IF Len(s) = 1 THEN DecNat(s[1]) ELSE DecNat(s[1]) \o <<CM, SPC>> \o CommaJoin(Tail(s))
PyTuple(s) == IF Len(s) = 0 THEN <<LP, RP>>
              ELSE IF Len(s) = 1 THEN <<LP>> \o DecNat(s[1]) \o <<CM, RP>>
              ELSE <<LP>> \o CommaJoin(s) \o <<RP>>
Twos(s) == [i \in 1..Len(s) |-> 2]

\* Constant(Mesh(<el>, ID), (), COUNT)  /  CellVolume(Mesh(<el>, ID))  /  Zero((), (I1, ..), (2, ..))
Repr(t) ==
  CASE t.k = "const" -> DecNat(t.d) \o <<RP, CM, SPC, LP, RP, CM, SPC>> \o DecNat(t.n) \o <<RP>>
    [] t.k = "geo"   -> DecNat(t.d) \o <<RP, RP>>
    [] t.k = "zero"  -> PyTuple(t.ix) \o <<CM, SPC>> \o PyTuple(Twos(t.ix)) \o <<RP>>
    [] OTHER         -> << >>

\* the numbers a repr embeds, in the order they appear (intended comparator: compare these as numbers)
Nums(t) ==
  CASE t.k = "const" -> <<t.d, t.n>>
    [] t.k = "geo"   -> <<t.d>>
    [] t.k = "zero"  -> <<Len(t.ix)>> \o t.ix
    [] OTHER         -> << >>

\* python `<` on strings / on tuples of ints: -1, 0, 1
RECURSIVE LexCmp(_, _)
LexCmp(s, t) ==
  IF s = << >> THEN (IF t = << >> THEN 0 ELSE -1)
  ELSE IF t = << >> THEN 1
  ELSE IF s[1] < t[1] THEN -1
  ELSE IF s[1] > t[1] THEN 1
  ELSE LexCmp(Tail(s), Tail(t))

ModeOf(kind) == IF Comparator = "mixed" THEN ComparatorOf[kind] ELSE Comparator

----------------------------------------------------------------------------
(* cmp_expr as coded (ufl/sorting.py).  For trees without shared           *)
(* sub-objects the explicit stack of cmp_expr visits operand pairs last    *)
(* operand first, depth first, and returns at the first decision; operand  *)
(* counts are compared when the parent pair is popped.  (The one-action-   *)
(* per-iteration transcription of that loop is spec/Ordering.tla, bound to *)
(* the code by C29; here it is used as a function.)                        *)

NumCmp(x, y) == IF x < y THEN -1 ELSE IF x > y THEN 1 ELSE 0

TermCmp(x, y) ==
  CASE x.k = "coef"  -> NumCmp(x.n, y.n)                      \* _cmp_coefficient: counts
    [] x.k = "label" -> 0                                     \* _cmp_label
    [] x.k = "mi"    -> IF y.k = "fmi" THEN 1                  \* _cmp_multi_index: fixed before free,
                        ELSE NumCmp(Len(x.ix), Len(y.ix))     \* free indices never decide
    [] x.k = "fmi"   -> IF y.k = "fmi" THEN NumCmp(x.n, y.n) ELSE 0 - 1   \* fixed indices by value
    [] OTHER         -> IF ModeOf(x.k) = "repr"
                        THEN LexCmp(Repr(x), Repr(y))         \* _cmp_terminal_by_repr
                        ELSE LexCmp(Nums(x), Nums(y))

RECURSIVE Cmp(_, _)
RECURSIVE CmpOps(_, _, _)
Cmp(x, y) ==
  IF x.tc # y.tc THEN NumCmp(x.tc, y.tc)
  ELSE IF IsTerminal(x) THEN TermCmp(x, y)
  ELSE IF Len(x.ops) # Len(y.ops) THEN NumCmp(Len(x.ops), Len(y.ops))
  ELSE CmpOps(x.ops, y.ops, Len(x.ops))
CmpOps(xs, ys, i) ==
  IF i = 0 THEN 0
  ELSE LET c == Cmp(xs[i], ys[i]) IN IF c # 0 THEN c ELSE CmpOps(xs, ys, i - 1)

\* sorted_expr((a, b)): python's stable sort of two items swaps them iff cmp(b, a) < 0
Sorted2(a, b) == IF Cmp(b, a) < 0 THEN <<b, a>> ELSE <<a, b>>

----------------------------------------------------------------------------
(* The build program.  Instructions are records [op, a, b, c]; a, b, c are *)
(* positions in `store` (0 = unused).  Store entries are                   *)
(* [ty, fi, t]: ty "mesh"/"index"/"s" (scalar valued expr)/"v" (vector     *)
(* valued expr)/"t" (rank-2 tensor valued expr)/"form", fi = set of free   *)
(* index counts, t = term.                                                 *)

\* (comp: c is not a position but the component + 1)
Ins(o, x, y, z) == [op |-> o, a |-> x, b |-> y, c |-> z]
Entry(ty, fi, t) == [ty |-> ty, fi |-> fi, t |-> t]

\* set of naturals -> ascending sequence
RECURSIVE SortedSeq(_)
SortedSeq(S) == IF S = {} THEN << >>
                ELSE LET m == CHOOSE x \in S : \A y \in S : x <= y IN <<m>> \o SortedSeq(S \ {m})

ZeroScalar == ZeroT(<< >>)

\* implicit summation over repeated indices (ufl/exproperators.py:_mult), ascending count
RECURSIVE WrapSums(_, _)
WrapSums(p, ri) == IF ri = << >> THEN p
                   ELSE WrapSums(Op(TC.IndexSum, <<p, Mi(<<ri[1]>>)>>), Tail(ri))

\* a[ii] (Expr.__getitem__, ufl/exproperators.py:_getitem with create_slice_indices of
\* ufl/index_combination_utils.py; no slices): Indexed(a, ii); an index of the subscript that is a
\* free index of `a`, or that occurred earlier in the subscript, is a REPEATED index; one IndexSum
\* per repeated index is applied in the order in which they were met in the subscript
RECURSIVE RepeatedIn(_, _, _)
RepeatedIn(ii, p, fi) ==
  IF p > Len(ii) THEN << >>
  ELSE (IF ii[p] \in fi \/ (\E q \in 1..(p - 1) : ii[q] = ii[p]) THEN <<ii[p]>> ELSE << >>)
       \o RepeatedIn(ii, p + 1, fi)
SeqSet(s) == {s[j] : j \in 1..Len(s)}
GetItem(A, ii) ==
  LET rep == RepeatedIn(ii, 1, A.fi)
  IN [ty |-> "s", fi |-> (A.fi \cup SeqSet(ii)) \ SeqSet(rep),
      t |-> WrapSums(Op(TC.Indexed, <<A.t, Mi(ii)>>), rep)]
RankUp(ty) == IF ty = "s" THEN "v" ELSE "t"

\* One constructor call.  st = [store, ctr].
Exec(st, i) ==
  LET S == st.store
      C == st.ctr
      A == IF i.a > 0 THEN S[i.a] ELSE Entry("", {}, Blank)
      B == IF i.b > 0 THEN S[i.b] ELSE Entry("", {}, Blank)
      D == IF i.c > 0 THEN S[i.c] ELSE Entry("", {}, Blank)
      Put(e, c2) == [store |-> Append(S, e), ctr |-> c2]
  IN
  CASE i.op = "mesh"  -> Put(Entry("mesh", {}, MeshT(C.Mesh)), [C EXCEPT !.Mesh = @ + 1])
    [] i.op = "const" -> Put(Entry("s", {}, Const(C.Constant, A.t.n)), [C EXCEPT !.Constant = @ + 1])
    [] i.op = "coef"  -> Put(Entry("s", {}, Coef(C.Coefficient, A.t.n, 0)), [C EXCEPT !.Coefficient = @ + 1])
    [] i.op = "vcoef" -> Put(Entry("v", {}, Coef(C.Coefficient, A.t.n, 1)), [C EXCEPT !.Coefficient = @ + 1])
    [] i.op = "tcoef" -> Put(Entry("t", {}, Coef(C.Coefficient, A.t.n, 3)), [C EXCEPT !.Coefficient = @ + 1])
    [] i.op = "scoef" -> Put(Entry("v", {}, CoefSeq(C.Coefficient, <<A.t.n, B.t.n>>)),
                             [C EXCEPT !.Coefficient = @ + 1])
    [] i.op = "geo"   -> Put(Entry("s", {}, Geo(A.t.n)), C)
    [] i.op = "index" -> Put(Entry("index", {}, IndexT(C.Index)), [C EXCEPT !.Index = @ + 1])
    [] i.op = "idx"   -> Put(GetItem(A, <<B.t.n>>), C)                               \* a[i]
    [] i.op = "idx2"  -> Put(GetItem(A, <<B.t.n, D.t.n>>), C)                        \* a[i, j]
    \* grad(a) of an expression that is not cellwise constant (see WellFormed)
    [] i.op = "grad"  -> Put(Entry(RankUp(A.ty), A.fi, Op(TC.Grad, <<A.t>>)), C)
    [] i.op = "integ" -> Put(Entry("form", {}, FormT(A.t, B.t.n)), C)                \* a * dx(m)
    [] i.op = "comp"  -> Put(Entry("s", {}, Op(TC.Indexed, <<A.t, FMi(i.c - 1)>>)), C)       \* a[c - 1]
    [] i.op = "sum"   -> Put(Entry("s", A.fi, Op(TC.Sum, Sorted2(A.t, B.t))), C)
    [] i.op = "prod"  -> Put(Entry("s", (A.fi \cup B.fi) \ (A.fi \cap B.fi),
                                   WrapSums(Op(TC.Product, Sorted2(A.t, B.t)), SortedSeq(A.fi \cap B.fi))), C)
    [] i.op = "zeromul" -> Put(Entry("s", A.fi, ZeroT(SortedSeq(A.fi))), C)          \* 0*a
    [] i.op = "cond"  -> Put(Entry("s", B.fi,                                       \* conditional(a < 0, b, c)
                                   Op(TC.Conditional, <<Op(TC.LT, <<A.t, ZeroScalar>>), B.t, D.t>>)), C)
    [] i.op = "var"   -> Put(Entry("s", {}, Op(TC.Variable, <<A.t, Lab(C.Label)>>)),  \* variable(a)
                             [C EXCEPT !.Label = @ + 1])

RECURSIVE Terminals(_)      \* all terminals of a term (set)
Terminals(t) == IF IsTerminal(t) THEN {t} ELSE UNION {Terminals(t.ops[j]) : j \in 1..Len(t.ops)}

\* ---- which instructions are well formed (typing of the real constructors) ----
Rank(o) == CASE o = "mesh" -> 1 [] o = "const" -> 2 [] o = "coef" -> 3 [] o = "vcoef" -> 4
             [] o = "tcoef" -> 5 [] o = "scoef" -> 6 [] o = "geo" -> 7 [] o = "index" -> 8 [] OTHER -> 9
CountOps(p, o) == Cardinality({j \in 1..Len(p) : p[j].op = o})

IsExpr(e)   == e.ty \in {"s", "v", "t"}
IsZero(e)   == e.t.k = "zero"
Scalar(e)   == e.ty = "s"

WellFormed(S, p, i) ==
  LET n == Len(S)
      ok(x) == x \in 1..n
      A == S[i.a]  B == S[i.b]  D == S[i.c]
  IN
  /\ CountOps(p, i.op) < Caps[i.op]
  /\ CountOps(p, "integ") = 0                 \* a * dx(m) ends the script
  \* declarations in a canonical order of classes (the counters are per class, so interleaving
  \* declarations of different classes changes nothing)
  /\ \A j \in 1..Len(p) : Rank(p[j].op) <= Rank(i.op)
  /\ CASE i.op = "mesh"  -> i.a = 0 /\ i.b = 0 /\ i.c = 0
       [] i.op \in {"const", "coef", "vcoef", "tcoef", "geo"} -> ok(i.a) /\ A.ty = "mesh" /\ i.b = 0 /\ i.c = 0
       [] i.op = "scoef" -> ok(i.a) /\ ok(i.b) /\ i.c = 0 /\ A.ty = "mesh" /\ B.ty = "mesh" /\ i.a # i.b
       [] i.op = "index" -> i.a = 0 /\ i.b = 0 /\ i.c = 0
       [] i.op = "comp"  -> ok(i.a) /\ i.b = 0 /\ i.c \in {1, 2} /\ A.ty = "v" /\ A.t.k = "coef"
       \* a[i], a[i, j]: any vector / tensor valued expression; no index more than twice
       [] i.op = "idx"   -> ok(i.a) /\ ok(i.b) /\ i.c = 0 /\ A.ty = "v" /\ B.ty = "index"
       [] i.op = "idx2"  -> ok(i.a) /\ ok(i.b) /\ ok(i.c) /\ A.ty = "t" /\ B.ty = "index" /\ D.ty = "index"
                            /\ (i.b = i.c => B.t.n \notin A.fi)
       \* grad(a): a is not cellwise constant (else ufl returns a Zero): it has a coefficient (P1 / P2)
       \* among its terminals; single-domain coefficients only
       [] i.op = "grad"  -> ok(i.a) /\ i.b = 0 /\ i.c = 0 /\ A.ty \in {"s", "v"} /\ ~IsZero(A)
                            /\ (\E x \in Terminals(A.t) : x.k = "coef")
                            /\ (\A x \in Terminals(A.t) : x.ds = << >>)
       \* a * dx(m); an integrand with a coefficient on a MeshSequence is integrated over one of
       \* the component meshes
       [] i.op = "integ" -> ok(i.a) /\ ok(i.b) /\ i.c = 0 /\ Scalar(A) /\ A.fi = {} /\ ~IsZero(A)
                            /\ B.ty = "mesh"
                            /\ (\A x \in Terminals(A.t) : x.ds # << >> => B.t.n \in SeqSet(x.ds))
       \* a + b, a * b: the order in which the two operands are written matters only for ties of
       \* cmp_expr, and ties do not depend on counters: operands in store order
       [] i.op = "sum"   -> ok(i.a) /\ ok(i.b) /\ i.c = 0 /\ i.a < i.b /\ Scalar(A) /\ Scalar(B)
                            /\ ~IsZero(A) /\ ~IsZero(B) /\ A.fi = B.fi
       [] i.op = "prod"  -> ok(i.a) /\ ok(i.b) /\ i.c = 0 /\ i.a < i.b /\ Scalar(A) /\ Scalar(B)
                            /\ ~IsZero(A) /\ ~IsZero(B)
       [] i.op = "zeromul" -> ok(i.a) /\ i.b = 0 /\ i.c = 0 /\ Scalar(A) /\ ~IsZero(A) /\ A.fi # {}
       [] i.op = "cond"  -> ok(i.a) /\ ok(i.b) /\ ok(i.c) /\ Scalar(A) /\ Scalar(B) /\ Scalar(D)
                            /\ A.fi = {} /\ ~IsZero(A) /\ B.fi = D.fi /\ B.t # D.t
       [] i.op = "var"   -> ok(i.a) /\ i.b = 0 /\ i.c = 0 /\ Scalar(A) /\ A.fi = {} /\ ~IsZero(A)
       [] OTHER -> FALSE

\* every created object is used by a later instruction (objects that are created and dropped only
\* shift counters: that is what Bump does)
Used(p, j) == \E q \in (j + 1)..Len(p) : p[q].a = j \/ p[q].b = j \/ (p[q].c = j /\ p[q].op # "comp")
NUnused(p) == Cardinality({j \in 1..Len(p) : ~Used(p, j)})
Closed(S, p) ==
  /\ Len(S) > 0
  /\ S[1].ty = "mesh"
  /\ \/ S[Len(S)].ty = "form"
     \/ /\ Scalar(S[Len(S)]) /\ S[Len(S)].fi = {} /\ ~IsZero(S[Len(S)])
        \* integrated over the first mesh (see `integ`)
        /\ \A x \in Terminals(S[Len(S)].t) : x.ds # << >> => S[1].t.n \in SeqSet(x.ds)
  /\ NUnused(p) = 1
  /\ \A o \in DOMAIN Need : CountOps(p, o) >= Need[o]

\* the counters a script reads
Reads(o, K) ==
    CASE K = "Mesh"        -> o = "mesh"
      [] K = "Constant"    -> o = "const"
      [] K = "Coefficient" -> o \in {"coef", "vcoef", "tcoef", "scoef"}
      [] K = "Index"       -> o = "index"
      [] K = "Label"       -> o = "var"
UsesKind(p, K) == \E j \in 1..Len(p) : Reads(p[j].op, K)
\* how many objects of class K one run of the script creates
Created(p, K) == Cardinality({j \in 1..Len(p) : Reads(p[j].op, K)})
\* placements: the counter of K stands at B - q when the script starts, so that its first q objects
\* of class K get numbers below the digit boundary B and the others numbers from B on
PlacedOffsets(p, K) ==
  {n \in {B - q - Base[K] : B \in Boundaries, q \in 0..(Created(p, K) - 1)} : n > 0}

----------------------------------------------------------------------------
(* The signature of  store[last] * dx(store[1])  as coded.                 *)

RankIn(x, S) == Cardinality({y \in S : y < x})

\* unique_pre_traversal (ufl/corealg/traversal.py): explicit lifo, `visited` by ==;
\* returns the terminals in visiting order
RECURSIVE PushOps(_, _, _, _)
PushOps(ops, j, lifo, visited) ==       \* for op in expr.ufl_operands: if op not in visited: push, mark
  IF j > Len(ops) THEN [lifo |-> lifo, visited |-> visited]
  ELSE IF ops[j] \in visited THEN PushOps(ops, j + 1, lifo, visited)
  ELSE PushOps(ops, j + 1, Append(lifo, ops[j]), visited \cup {ops[j]})
RECURSIVE Trav(_, _, _)
Trav(lifo, visited, out) ==
  IF lifo = << >> THEN out
  ELSE LET e == lifo[Len(lifo)]
           r == PushOps(e.ops, 1, SubSeq(lifo, 1, Len(lifo) - 1), visited)
       IN Trav(r.lifo, r.visited, IF IsTerminal(e) THEN Append(out, e) ELSE out)
TermOrder(t) == Trav(<<t>>, {t}, << >>)

\* index numbering: first occurrence, -(len + 1)   (compute_multiindex_hashdata); with
\* ZeroSig = "renumbered" the free indices of a Zero take part in the same numbering
RECURSIVE NumberSeq(_, _)
NumberSeq(cs, num) ==                   \* num: sequence of index counts, position p <-> number -p
  IF cs = << >> THEN num
  ELSE IF \E p \in 1..Len(num) : num[p] = cs[1] THEN NumberSeq(Tail(cs), num)
  ELSE NumberSeq(Tail(cs), Append(num, cs[1]))
RECURSIVE IndexNumbering(_, _)
IndexNumbering(ts, num) ==
  IF ts = << >> THEN num
  ELSE LET t == ts[1]
           takes == t.k = "mi" \/ (t.k = "zero" /\ ZeroSig = "renumbered")
       IN IndexNumbering(Tail(ts), IF takes THEN NumberSeq(t.ix, num) ELSE num)
NumberOf(c, num) == 0 - (CHOOSE p \in 1..Len(num) : num[p] = c)

SigRec(code, data, ops) == [tc |-> code, data |-> data, ops |-> ops]

FormSig(t, dom) ==
  LET terms   == Terminals(t)
      coefs   == {x.n : x \in {y \in terms : y.k = "coef"}}
      consts  == {x.n : x \in {y \in terms : y.k = "const"}}
      labels  == {x.n : x \in {y \in terms : y.k = "label"}}
      MeshesOf(x) == IF x.ds # << >> THEN {x.ds[j] : j \in 1..Len(x.ds)} ELSE {x.d}
      \* (the component meshes of a MeshSequence count as domains of the integrand)
      others  == UNION {MeshesOf(x) : x \in {y \in terms : y.k \in {"coef", "const", "geo"}}} \ {dom}
      \* Form._analyze_domains: integration domains first, then the others sorted by ufl_id
      DomNum(m) == IF m = dom THEN 0 ELSE 1 + RankIn(m, others)
      num     == IndexNumbering(TermOrder(t), << >>)
      Data(x) ==
        CASE x.k = "const" -> <<DomNum(x.d), RankIn(x.n, consts)>>
          [] x.k = "coef"  -> IF x.ds # << >>       \* MeshSequence._ufl_signature_data_: renumbered components
                              THEN <<RankIn(x.n, coefs)>> \o [j \in 1..Len(x.ds) |-> DomNum(x.ds[j])] \o <<x.sh>>
                              ELSE <<RankIn(x.n, coefs), DomNum(x.d), x.sh>>
          [] x.k = "geo"   -> <<DomNum(x.d)>>
          [] x.k = "label" -> <<RankIn(x.n, labels)>>
          [] x.k = "mi"    -> [j \in 1..Len(x.ix) |-> NumberOf(x.ix[j], num)]
          [] x.k = "fmi"   -> <<x.n>>
          [] x.k = "zero"  -> IF ZeroSig = "raw" THEN x.ix              \* repr(Zero): raw counts
                              ELSE SortedSeq({0 - NumberOf(x.ix[j], num) : j \in 1..Len(x.ix)})
      \* compute_expression_hashdata: terminal -> its data, operator -> (typecode, operand data...)
      RECURSIVE H(_)
      H(x) == IF IsTerminal(x) THEN SigRec(x.tc, << >> \o Data(x), << >>)
              ELSE SigRec(x.tc, << >>, [j \in 1..Len(x.ops) |-> H(x.ops[j])])
  \* domain: ("Mesh", renumbering[integration domain] = 0, coordinate element)
  IN [integrand |-> H(t), domain |-> 0]

----------------------------------------------------------------------------
(* Functional execution of a script from given counters                    *)

RECURSIVE RunFn(_, _, _)
RunFn(p, j, st) == IF j > Len(p) THEN st ELSE RunFn(p, j + 1, Exec(st, p[j]))
SigOfStore(S) == LET e == S[Len(S)]
                 IN IF e.ty = "form" THEN FormSig(e.t.ops[1], e.t.d) ELSE FormSig(e.t, S[1].t.n)
SigFrom(p, c0) == SigOfStore(RunFn(p, 1, [store |-> << >>, ctr |-> c0]).store)

----------------------------------------------------------------------------
(* The state machine.                                                      *)
(*   phase "script":  the user writes the build program (Write); `store`   *)
(*                    is a dry run from the import-time counters, used for *)
(*                    the typing of the next instruction only              *)
(*   phase "history": the process the script is going to run in creates    *)
(*                    and drops objects: Bump(K, n)                        *)
(*   phase "run":     the script runs, one constructor call per step       *)
(*   phase "done":    sig = signature of the form                          *)

VARIABLES ctr, off, phase, prog, store, pc, sig
vars == <<ctr, off, phase, prog, store, pc, sig>>

NoSig == [integrand |-> SigRec(0, << >>, << >>), domain |-> 0 - 1]
ZeroOff == [K \in Kinds |-> 0]
NBumped(o) == Cardinality({K \in Kinds : o[K] # 0})

Init == /\ ctr = Base /\ off = ZeroOff /\ phase = "script"
        /\ prog = << >> /\ store = << >> /\ pc = 0 /\ sig = NoSig

Write(i) ==
  /\ phase = "script"
  /\ Len(prog) < MaxSteps
  /\ WellFormed(store, prog, i)
  /\ LET r == Exec([store |-> store, ctr |-> ctr], i)
         p2 == Append(prog, i)
     IN /\ store' = r.store /\ ctr' = r.ctr /\ prog' = p2
        \* what is still unused must be consumable by the remaining instructions
        /\ NUnused(p2) <= 1 + 2 * (MaxSteps - Len(p2))
  /\ UNCHANGED <<off, phase, pc, sig>>

\* the script is complete: a fresh process (import-time counters) starts its history
Close ==
  /\ phase = "script" /\ Closed(store, prog)
  /\ phase' = "history" /\ ctr' = Base /\ store' = << >>
  /\ UNCHANGED <<off, prog, pc, sig>>

\* prior history: n objects of class K are created and dropped (classes in a fixed order, so
\* that one offset vector is one behaviour prefix; only counters the script reads)
KindPos(K) == CASE K = "Index" -> 1 [] K = "Coefficient" -> 2 [] K = "Constant" -> 3
                [] K = "Label" -> 4 [] K = "Mesh" -> 5
Bump(K, n) ==
  /\ phase = "history" /\ n > 0 /\ K \in BumpKinds /\ UsesKind(prog, K)
  /\ \A L \in Kinds : off[L] # 0 => KindPos(L) < KindPos(K)
  /\ NBumped(off) < MaxBumped
  /\ ctr' = [ctr EXCEPT ![K] = @ + n]
  /\ off' = [off EXCEPT ![K] = n]
  /\ UNCHANGED <<phase, prog, store, pc, sig>>

Start ==
  /\ phase = "history"
  /\ phase' = "run" /\ pc' = 1
  /\ UNCHANGED <<ctr, off, prog, store, sig>>

Step ==
  /\ phase = "run" /\ pc <= Len(prog)
  /\ LET r == Exec([store |-> store, ctr |-> ctr], prog[pc])
     IN store' = r.store /\ ctr' = r.ctr
  /\ pc' = pc + 1
  /\ UNCHANGED <<off, phase, prog, sig>>

Finish ==
  /\ phase = "run" /\ pc > Len(prog)
  /\ phase' = "done"
  /\ sig' = SigOfStore(store)
  /\ UNCHANGED <<ctr, off, prog, store, pc>>

\* the instructions of a set that the caps still allow (evaluated once per state: the guards that do
\* not depend on the operands come before the enumeration of the operands)
Open(O) == {o \in O : CountOps(prog, o) < Caps[o]}
Pos == 1..Len(store)

Next == \/ /\ phase = "script" /\ Len(prog) < MaxSteps /\ CountOps(prog, "integ") = 0
           /\ \/ \E o \in Open({"mesh", "index"}) : Write(Ins(o, 0, 0, 0))
              \/ \E o \in Open({"const", "coef", "vcoef", "tcoef", "geo", "zeromul", "var", "grad"}), x \in Pos :
                    Write(Ins(o, x, 0, 0))
              \/ \E o \in Open({"scoef", "idx", "sum", "prod", "integ"}), x \in Pos, y \in Pos :
                    Write(Ins(o, x, y, 0))
              \/ \E o \in Open({"cond", "idx2"}), x \in Pos, y \in Pos, z \in Pos : Write(Ins(o, x, y, z))
              \/ \E o \in Open({"comp"}), x \in Pos, z \in {1, 2} : Write(Ins(o, x, 0, z))
        \/ Close
        \/ /\ phase = "history"
           /\ \E K \in Kinds : \E n \in Offsets \cup PlacedOffsets(prog, K) : Bump(K, n)
        \/ Start \/ Step \/ Finish

Spec == Init /\ [][Next]_vars

----------------------------------------------------------------------------
\* THE PROPERTY: the signature does not depend on the prior history
SigInvariant == phase = "done" => sig = SigFrom(prog, Base)

\* the step-by-step run and the functional run are the same computation
RunAgrees == phase = "done" => sig = SigFrom(prog, [K \in Kinds |-> Base[K] + off[K]])

TypeOK == /\ phase \in {"script", "history", "run", "done"}
          /\ \A K \in Kinds : ctr[K] >= Base[K] + off[K]
          /\ Len(prog) <= MaxSteps
          /\ phase \in {"run", "done"} => Len(store) = pc - 1

OffSeq == <<off.Index, off.Coefficient, off.Constant, off.Label, off.Mesh>>
EmitInv == (Emit /\ phase = "done") =>
             PrintT(ToJson([prog |-> prog, off |-> OffSeq, sig |-> sig,
                            differs |-> sig # SigFrom(prog, Base)]))
=============================================================================
