------------------------------ MODULE CellGeom ------------------------------
(***************************************************************************)
(* C07.  The geometric quantities of an affine simplex cell, defined from  *)
(* FIRST PRINCIPLES: from the vertex coordinates only, independently of    *)
(* the formulas of ufl/algorithms/apply_geometry_lowering.py.              *)
(*                                                                         *)
(* A cell of topological dimension D in R^G (1 <= D <= G <= 3) is given by *)
(* D+1 integer vertices v_0 .. v_D.  Cells are enumerated modulo           *)
(* translation: the state machine picks the RELATIVE vertices v_k - v_0    *)
(* one at a time from a bounded box (PickVertex, the last one by PickCell  *)
(* which computes the cell's data once), keeping only affinely independent *)
(* ones, and the cell is placed at v_0 = Off (non-zero, so that a dropped  *)
(* origin is visible).  PickOrientation(o): for an immersed cell (D < G)   *)
(* the orientation co in {+1,-1} is part of the cell (input data of the    *)
(* mesh, see the docstring of CellOrientation); for D = G it is the sign   *)
(* of det J, so both orientations occur through the order of the vertices. *)
(* PickFacet(f) / PickRidge(r) select a sub-entity, PickQuantity(q) one    *)
(* quantity; `val` is then the oracle value of q.  The kind (D, G) is a    *)
(* constant of the run.                                                    *)
(*                                                                         *)
(* CONVENTIONS (those of the UFC / FIAT / basix reference simplices that   *)
(* FFCx and TSFC supply; ufl/geometry.py fixes the meaning of each         *)
(* terminal but not the numbering):                                        *)
(*  - reference vertices: vertex 0 = origin, vertex k = e_k;               *)
(*  - facet i of a triangle / tetrahedron is opposite vertex i; facet i of *)
(*    an interval IS vertex i (reference normal -1 at X = 0, +1 at X = 1); *)
(*  - edges: interval 0:(0,1); triangle 0:(1,2) 1:(0,2) 2:(0,1);           *)
(*    tetrahedron 0:(2,3) 1:(1,3) 2:(1,2) 3:(0,3) 4:(0,2) 5:(0,1), edge    *)
(*    vector = v_b - v_a for (a,b), a < b (under this numbering edge e and *)
(*    edge 5-e of a tetrahedron are opposite: ASSUME OppositeEdges);       *)
(*  - ridges of a tetrahedron are its edges with the same numbering;       *)
(*  - the vertices of a sub-entity are listed in ascending order and the   *)
(*    reference sub-entity is mapped affinely so that its vertex j goes to *)
(*    the j-th listed vertex: CellFacetJacobian / CellRidgeJacobian have   *)
(*    the columns X_{f_j} - X_{f_0};                                       *)
(*  - J = dx/dX has the columns v_k - v_0; K is the inverse, or the        *)
(*    Moore-Penrose left inverse when D < G; detJ is the signed            *)
(*    determinant for D = G and co * sqrt(det J^T J) for D < G (the        *)
(*    "signed pseudo-determinant" of the lowering, DESIGN.md App. B);      *)
(*  - the facet normal is the unit vector IN THE TANGENT SPACE of the cell *)
(*    orthogonal to the facet and pointing away from the opposite vertex;  *)
(*  - the cell normal of a codimension-1 cell is co times the unit normal  *)
(*    n with det[J | n] > 0 ("up for a line pointing to the right", right  *)
(*    hand rule for a surface);                                            *)
(*  - the "area" of a vertex (facet of an interval) is 1 (counting         *)
(*    measure; Gram determinant of the empty matrix).                      *)
(*                                                                         *)
(* NUMBERS.  All arithmetic is exact integer arithmetic (fractions are     *)
(* kept as numerator / common denominator).  A value is printed as         *)
(* <<n, d, t>> in lowest terms: t = 2 means the rational n/d, t in         *)
(* {-1,0,1} means t * sqrt(n/d) - the exact pair (value^2, sign), so no    *)
(* square root is ever taken.  TLC reports any 32-bit overflow as an       *)
(* error, so a completed run is exact.  The two invariants that need       *)
(* sums of squared fractions (RadiusIsDistance, UnitNormal) use CQ's       *)
(* rationals and are vacuous where CQ's range LIM is exceeded; their       *)
(* integer forms (Equidistant, VolumeIsAreaTimesHeight) always hold.       *)
(***************************************************************************)
EXTENDS CQ, FiniteSets, TLC, Json

CONSTANTS D, G,           \* topological and geometric dimension
          BL, BH,         \* relative vertices 1 .. D-1: every coordinate in -BL .. BH
          XL, XH,         \* the last relative vertex v_D - v_0: every coordinate in -XL .. XH
          NShards, Shard, \* this run handles the cells whose sharding key is Shard modulo NShards
          Emit            \* TRUE: print the oracle table of every cell

ASSUME D \in 1..3 /\ G \in D..3 /\ Shard \in 0..(NShards - 1)

\* ---- small exact linear algebra over the integers (vectors and matrices are tuples) ----
SumTo(n, F(_)) == CASE n = 0 -> 0 [] n = 1 -> F(1) [] n = 2 -> F(1) + F(2) [] n = 3 -> F(1) + F(2) + F(3)
Mk(n, F(_)) == CASE n = 0 -> << >>
                 [] n = 1 -> <<F(1)>>
                 [] n = 2 -> <<F(1), F(2)>>
                 [] n = 3 -> <<F(1), F(2), F(3)>>
                 [] n = 4 -> <<F(1), F(2), F(3), F(4)>>
                 [] n = 5 -> <<F(1), F(2), F(3), F(4), F(5)>>
                 [] n = 6 -> <<F(1), F(2), F(3), F(4), F(5), F(6)>>
Sign(x) == IF x > 0 THEN 1 ELSE IF x < 0 THEN -1 ELSE 0
Dot(a, b) == SumTo(Len(a), LAMBDA i : a[i] * b[i])
VSub(a, b) == Mk(Len(a), LAMBDA i : a[i] - b[i])
Norm2(a) == Dot(a, a)
Gram(T) == Mk(Len(T), LAMBDA a : Mk(Len(T), LAMBDA b : Dot(T[a], T[b])))
Drop(s, i) == Mk(Len(s) - 1, LAMBDA k : IF k < i THEN s[k] ELSE s[k + 1])
Minor(M, i, j) == Mk(Len(M) - 1, LAMBDA r : Drop(M[IF r < i THEN r ELSE r + 1], j))
\* determinant by Laplace expansion along the first row; the determinant of the empty matrix is 1
RECURSIVE Det(_)
Det(M) == IF Len(M) = 0 THEN 1
          ELSE IF Len(M) = 1 THEN M[1][1]
          ELSE SumTo(Len(M), LAMBDA j : (IF j % 2 = 1 THEN 1 ELSE -1) * M[1][j] * Det(Minor(M, 1, j)))
\* adjugate: M * Adj(M) = Det(M) * I   (checked as invariant AdjugateLaw wherever it is used)
Adj(M) == Mk(Len(M), LAMBDA i : Mk(Len(M), LAMBDA j : (IF (i + j) % 2 = 0 THEN 1 ELSE -1) * Det(Minor(M, j, i))))
RECURSIVE Flat(_)
Flat(M) == IF Len(M) = 0 THEN << >> ELSE Head(M) \o Flat(Tail(M))
RECURSIVE MinOf(_)
MinOf(s) == IF Len(s) = 1 THEN s[1] ELSE LET m == MinOf(Tail(s)) IN IF s[1] < m THEN s[1] ELSE m
RECURSIVE MaxOf(_)
MaxOf(s) == IF Len(s) = 1 THEN s[1] ELSE LET m == MaxOf(Tail(s)) IN IF s[1] > m THEN s[1] ELSE m
Fact(n) == CASE n = 0 -> 1 [] n = 1 -> 1 [] n = 2 -> 2 [] n = 3 -> 6

\* ---- printed numbers ----
WN(n, d) == LET g == GCD(AbsI(n), AbsI(d)) IN <<n \div g, d \div g>>       \* d > 0; no range limit
Rat(n, d) == LET q == WN(n, d) IN <<q[1], q[2], 2>>                          \* the rational n/d
IntV(k) == <<k, 1, 2>>
Root(n, d, s) == LET q == WN(n, d) IN <<q[1], q[2], IF n = 0 THEN 0 ELSE s>>  \* s * sqrt(n/d), n >= 0
UnitVec(h) == LET h2 == Norm2(h) IN [i \in 1..Len(h) |-> Root(h[i] * h[i], h2, Sign(h[i]))]
MapSeq(s, F(_)) == [i \in 1..Len(s) |-> F(s[i])]

\* ---- conventions: reference simplex, sub-entity tables ----
Off == <<2, -1, 3>>                                     \* position of vertex 0
OffG == Mk(G, LAMBDA i : Off[i])
ZeroG == Mk(G, LAMBDA i : 0)
Edges == CASE D = 1 -> << <<0, 1>> >>
           [] D = 2 -> << <<1, 2>>, <<0, 2>>, <<0, 1>> >>
           [] D = 3 -> << <<2, 3>>, <<1, 3>>, <<1, 2>>, <<0, 3>>, <<0, 2>>, <<0, 1>> >>
NE == Len(Edges)
FacetLocalEdges == << <<1, 2>>, <<0, 2>>, <<0, 1>> >>  \* edges of a triangular facet, in its own vertex numbers
FacetVerts(f) == IF D = 1 THEN <<f>> ELSE Mk(D, LAMBDA j : IF j - 1 < f THEN j - 1 ELSE j)
Opp(f) == IF D = 1 THEN 1 - f ELSE f
\* vertex lists W are 1-based: W[m + 1] is vertex m
RefW == Mk(D + 1, LAMBDA m : Mk(D, LAMBDA i : IF i = m - 1 THEN 1 ELSE 0))
XN == <<3, 4, 2>>                                       \* the reference point X = (1/4, 1/3, 1/6)[1..D]
XD == 12

\* every pair of vertices is exactly one edge; opposite-edge pairing of the tetrahedron
ASSUME EdgeTable == /\ \A e \in 1..NE : Edges[e][1] < Edges[e][2] /\ Edges[e][2] <= D
                    /\ \A a \in 0..D : \A b \in (a + 1)..D : Cardinality({e \in 1..NE : Edges[e] = <<a, b>>}) = 1
                    /\ NE * 2 = (D + 1) * D
ASSUME OppositeEdges == D = 3 => \A e \in 1..3 : {Edges[e][1], Edges[e][2]} \cap {Edges[7 - e][1], Edges[7 - e][2]} = {}
\* Euler relation of the tables: (D+1) vertices, NE edges, and for D = 3 four triangular facets
ASSUME Euler == (D = 3 => (D + 1) - NE + 4 = 2) /\ (D = 2 => (D + 1) - NE = 0)
\* a facet of a triangle / tetrahedron consists of the vertices different from the opposite one
ASSUME FacetTable == \A f \in 0..D : /\ Len(FacetVerts(f)) = (IF D = 1 THEN 1 ELSE D)
                                     /\ \A j \in 1..Len(FacetVerts(f)) : FacetVerts(f)[j] \in 0..D /\ (D > 1 => FacetVerts(f)[j] # f)
                                     /\ \A j \in 1..(Len(FacetVerts(f)) - 1) : FacetVerts(f)[j] < FacetVerts(f)[j + 1]

\* ---- sub-entity geometry of an arbitrary simplex given by its vertex list W ----
FTan(W, f) == LET fv == FacetVerts(f) IN Mk(D - 1, LAMBDA j : VSub(W[fv[j + 1] + 1], W[fv[1] + 1]))
FAway(W, f) == VSub(W[FacetVerts(f)[1] + 1], W[Opp(f) + 1])   \* facet vertex minus opposite vertex
\* fgram * (component of FAway orthogonal to the facet): w - FT^T (FT FT^T)^-1 FT w, scaled by det(FT FT^T)
FNormalDir(W, f) ==
  LET FT == FTan(W, f)
      w == FAway(W, f)
      FG == Gram(FT)
      fg == Det(FG)
      A == Adj(FG)
      coef == Mk(D - 1, LAMBDA a : SumTo(D - 1, LAMBDA b : A[a][b] * Dot(FT[b], w)))
  IN Mk(Len(w), LAMBDA i : fg * w[i] - SumTo(D - 1, LAMBDA a : FT[a][i] * coef[a]))
EdgeVec(W, e) == VSub(W[Edges[e][2] + 1], W[Edges[e][1] + 1])
FacetEdgeVec(W, f, e) == LET fv == FacetVerts(f) IN VSub(W[fv[FacetLocalEdges[e][2] + 1] + 1], W[fv[FacetLocalEdges[e][1] + 1] + 1])

\* ---- everything about one cell (T = relative vertices = columns of J, o = orientation) ----
FacetData(W, T, f) ==
  LET FT == FTan(W, f)
      FG == Gram(FT)
      fg == Det(FG)
      A  == Adj(FG)
      w  == FAway(W, f)
      coef == Mk(D - 1, LAMBDA a : SumTo(D - 1, LAMBDA b : A[a][b] * Dot(FT[b], w)))
      h  == Mk(G, LAMBDA i : fg * w[i] - SumTo(D - 1, LAMBDA a : FT[a][i] * coef[a]))    \* = FNormalDir(W, f)
      fe2 == IF D = 3 THEN Mk(3, LAMBDA e : Norm2(FacetEdgeVec(W, f, e))) ELSE << >>
  IN [FT |-> FT, FG |-> FG, fg |-> fg, A |-> A, h |-> h, h2 |-> Norm2(h), w |-> w,
      Pf |-> Mk(D - 1, LAMBDA a : Mk(G, LAMBDA i : SumTo(D - 1, LAMBDA b : A[a][b] * FT[b][i]))),   \* FK = Pf / fg
      fe2 |-> fe2]

CellData(T) ==
  LET W  == <<ZeroG>> \o T
      Gm == Gram(T)
      gr == Det(Gm)
      A  == Adj(Gm)
      JM == Mk(G, LAMBDA i : Mk(D, LAMBDA k : T[k][i]))                      \* rows of J
      bb == Mk(D, LAMBDA a : Gm[a][a])
      U  == Mk(D, LAMBDA a : SumTo(D, LAMBDA b : A[a][b] * bb[b]))          \* Gm u = bb / 2,  u = U / (2 gr)
      e2 == Mk(NE, LAMBDA e : Norm2(EdgeVec(W, e)))
  IN [T |-> T, W |-> W, Gm |-> Gm, gr |-> gr, A |-> A, JM |-> JM,
      dj |-> IF G = D THEN Det(JM) ELSE 0,
      Pn |-> Mk(D, LAMBDA a : Mk(G, LAMBDA i : SumTo(D, LAMBDA b : A[a][b] * T[b][i]))),       \* K = Pn / gr
      bb |-> bb, U |-> U,
      Cn |-> Mk(G, LAMBDA i : SumTo(D, LAMBDA a : T[a][i] * U[a])),                              \* c - v_0 = Cn / (2 gr)
      RN |-> SumTo(D, LAMBDA a : bb[a] * U[a]),                                                  \* R^2 = |J u|^2 = u.bb/2 = RN / (4 gr)
      e2 |-> e2,
      diam2 |-> MaxOf(Flat(Mk(D + 1, LAMBDA a : Mk(D + 1, LAMBDA b : Norm2(VSub(W[a], W[b])))))),
      \* codimension 1: the vector n with n.t_k = 0 and det[J | n] = |n|^2 > 0 (cofactors of the appended column)
      cn |-> IF G = D + 1 THEN Mk(G, LAMBDA i : (IF (i + G) % 2 = 0 THEN 1 ELSE -1) * Det(Drop(JM, i))) ELSE << >>,
      fs |-> Mk(D + 1, LAMBDA f : FacetData(W, T, f - 1))]

\* reference data (the same constructions applied to the reference simplex)
RefNormalDir(f) == FNormalDir(RefW, f)
RefFTan(f) == FTan(RefW, f)
RefEdge(e) == EdgeVec(RefW, e)

\* ---- the state machine ----
VARIABLES phase,   \* "build", "shape", "cell", "facet", "ridge", "quantity"
          verts,   \* relative vertices picked so far
          cell,    \* CellData of the complete cell (<< >> while building)
          co,      \* orientation of the cell (0 while building)
          ent,     \* selected facet / ridge number, -1 if none
          qn,      \* selected quantity ("" if none)
          val      \* its oracle value: sequence of <<n, d, t>> in row-major order
vars == <<phase, verts, cell, co, ent, qn, val>>

Range(lo, hi) == (0 - lo)..hi
Vecs(lo, hi) == {Mk(G, LAMBDA i : p[i]) : p \in [1..G -> Range(lo, hi)]}
Key(p) == SumTo(G, LAMBDA i : (p[i] + 7) * (CASE i = 1 -> 1 [] i = 2 -> 17 [] i = 3 -> 289))
\* sharding on a PREFIX (first vertex, or first two when there are at least two): other shards are pruned early;
\* the key is an injective code of the prefix, scrambled so that shards have similar sizes
InShard(vs) == LET k == IF Len(vs) = 1 THEN Key(vs[1]) ELSE Key(vs[1]) * 4327 + Key(vs[2])
               IN ((k % 9973) * 7919 + (k \div 9973)) % NShards = Shard
ShardDepth == IF D = 1 THEN 1 ELSE 2
Independent(vs) == Det(Gram(vs)) > 0

Init == phase = "build" /\ verts = << >> /\ cell = << >> /\ co = 0 /\ ent = -1 /\ qn = "" /\ val = << >>

PickVertex(p) ==
  /\ phase = "build" /\ Len(verts) < D - 1
  /\ LET vs == Append(verts, p) IN
       /\ Independent(vs)
       /\ (Len(vs) = ShardDepth => InShard(vs))
       /\ verts' = vs
  /\ UNCHANGED <<phase, cell, co, ent, qn, val>>

\* the last vertex completes the shape of the cell (kind = (D, G), vertices) ...
PickCell(p) ==
  /\ phase = "build" /\ Len(verts) = D - 1
  /\ LET vs == Append(verts, p) IN
       /\ Independent(vs)                       \* non-degenerate cells only
       /\ (Len(vs) = ShardDepth => InShard(vs))
       /\ verts' = vs
       /\ cell' = CellData(vs)
  /\ phase' = "shape"
  /\ UNCHANGED <<co, ent, qn, val>>
\* ... and the orientation completes the cell: the sign of det J when D = G, mesh input data otherwise
PickOrientation(o) ==
  /\ phase = "shape" /\ (G = D => o = Sign(cell.dj))
  /\ phase' = "cell" /\ co' = o
  /\ UNCHANGED <<verts, cell, ent, qn, val>>

PickFacet(f) == phase = "cell" /\ phase' = "facet" /\ ent' = f /\ UNCHANGED <<verts, cell, co, qn, val>>
PickRidge(r) == phase = "cell" /\ D = 3 /\ phase' = "ridge" /\ ent' = r /\ UNCHANGED <<verts, cell, co, qn, val>>

\* ---- oracle values ----
CellQs == {"Jacobian", "JacobianInverse", "JacobianDeterminant", "SpatialCoordinate", "CellCoordinate", "CellVolume",
           "Circumradius", "CellDiameter", "MinCellEdgeLength", "MaxCellEdgeLength"}
          \cup (IF G = D + 1 THEN {"CellNormal"} ELSE {})
FacetQs == {"FacetNormal", "FacetArea"}
           \cup (IF D >= 2 THEN {"FacetJacobian", "FacetJacobianInverse", "FacetJacobianDeterminant"} ELSE {})
           \cup (IF D = 3 THEN {"MinFacetEdgeLength", "MaxFacetEdgeLength"} ELSE {})
RidgeQs == IF D = 3 THEN {"RidgeJacobian", "RidgeJacobianInverse", "RidgeJacobianDeterminant"} ELSE {}

CellVal(c, q) ==
  CASE q = "Jacobian" -> MapSeq(Flat(c.JM), IntV)
    [] q = "JacobianInverse" -> MapSeq(Flat(c.Pn), LAMBDA n : Rat(n, c.gr))
    [] q = "JacobianDeterminant" -> IF G = D THEN <<IntV(c.dj)>> ELSE <<Root(c.gr, 1, co)>>
    [] q = "SpatialCoordinate" -> [i \in 1..G |-> Rat(XD * OffG[i] + SumTo(D, LAMBDA k : c.T[k][i] * XN[k]), XD)]   \* x = v_0 + J X
    [] q = "CellCoordinate" -> [k \in 1..D |-> Rat(XN[k], XD)]
    [] q = "CellVolume" -> <<Root(c.gr, Fact(D) * Fact(D), 1)>>                 \* sqrt(det J^T J) / D!
    [] q = "Circumradius" -> <<Root(c.RN, 4 * c.gr, 1)>>
    [] q = "CellDiameter" -> <<Root(c.diam2, 1, 1)>>                            \* largest distance of two vertices
    [] q = "MinCellEdgeLength" -> <<Root(MinOf(c.e2), 1, 1)>>
    [] q = "MaxCellEdgeLength" -> <<Root(MaxOf(c.e2), 1, 1)>>
    [] q = "CellNormal" -> LET u == UnitVec(c.cn) IN [i \in 1..G |-> <<u[i][1], u[i][2], co * u[i][3]>>]

FacetVal(c, f, q) ==
  LET F == c.fs[f + 1] IN
  CASE q = "FacetNormal" -> UnitVec(F.h)
    [] q = "FacetArea" -> <<Root(F.fg, Fact(D - 1) * Fact(D - 1), 1)>>
    [] q = "FacetJacobian" -> MapSeq(Flat(Mk(G, LAMBDA i : Mk(D - 1, LAMBDA j : F.FT[j][i]))), IntV)
    [] q = "FacetJacobianInverse" -> MapSeq(Flat(F.Pf), LAMBDA n : Rat(n, F.fg))
    [] q = "FacetJacobianDeterminant" -> <<Root(F.fg, 1, 1)>>
    [] q = "MinFacetEdgeLength" -> <<Root(MinOf(F.fe2), 1, 1)>>
    [] q = "MaxFacetEdgeLength" -> <<Root(MaxOf(F.fe2), 1, 1)>>

RidgeVal(c, r, q) ==
  LET e == EdgeVec(c.W, r + 1)  l2 == c.e2[r + 1] IN
  CASE q = "RidgeJacobian" -> MapSeq(e, IntV)                                   \* G x 1
    [] q = "RidgeJacobianInverse" -> MapSeq(e, LAMBDA n : Rat(n, l2))          \* 1 x G: e^T / |e|^2
    [] q = "RidgeJacobianDeterminant" -> <<Root(l2, 1, 1)>>

PickQuantity(q) ==
  /\ \/ phase = "cell" /\ q \in CellQs /\ val' = CellVal(cell, q)
     \/ phase = "facet" /\ q \in FacetQs /\ val' = FacetVal(cell, ent, q)
     \/ phase = "ridge" /\ q \in RidgeQs /\ val' = RidgeVal(cell, ent, q)
  /\ phase' = "quantity" /\ qn' = q
  /\ UNCHANGED <<verts, cell, co, ent>>

Next == \/ phase = "build" /\ Len(verts) < D - 1 /\ \E p \in Vecs(BL, BH) : PickVertex(p)
        \/ phase = "build" /\ Len(verts) = D - 1 /\ \E p \in Vecs(XL, XH) : PickCell(p)
        \/ phase = "shape" /\ \E o \in {1, -1} : PickOrientation(o)
        \/ phase = "cell" /\ \E f \in 0..D : PickFacet(f)
        \/ phase = "cell" /\ \E r \in 0..5 : PickRidge(r)
        \/ phase = "cell" /\ \E q \in CellQs : PickQuantity(q)
        \/ phase = "facet" /\ \E q \in FacetQs : PickQuantity(q)
        \/ phase = "ridge" /\ \E q \in RidgeQs : PickQuantity(q)
Spec == Init /\ [][Next]_vars

\* ==== oracle self-consistency: the theorems that characterise each quantity ====
IsCell == phase = "cell"
IsFacet == phase = "facet"
\* the adjugates used above really are adjugates:  Gm A = gr I
AdjugateLaw == IsCell => \A a \in 1..D : \A b \in 1..D :
                 SumTo(D, LAMBDA k : cell.Gm[a][k] * cell.A[k][b]) = (IF a = b THEN cell.gr ELSE 0)
\* K J = I   (K = Pn / gr)
KJIsIdentity == IsCell => \A a \in 1..D : \A b \in 1..D :
                  SumTo(G, LAMBDA i : cell.Pn[a][i] * cell.T[b][i]) = (IF a = b THEN cell.gr ELSE 0)
\* J K is the ORTHOGONAL projector onto the tangent space (symmetric, and J K J = J); J K = I when D = G
JKM(i, j) == SumTo(D, LAMBDA a : cell.T[a][i] * cell.Pn[a][j])               \* gr * (J K)[i][j]
JKProjector == IsCell => /\ \A i \in 1..G : \A j \in 1..G : JKM(i, j) = JKM(j, i)
                         /\ \A i \in 1..G : \A b \in 1..D : SumTo(G, LAMBDA j : JKM(i, j) * cell.T[b][j]) = cell.gr * cell.T[b][i]
                         /\ (G = D => \A i \in 1..G : \A j \in 1..G : JKM(i, j) = (IF i = j THEN cell.gr ELSE 0))
\* the Gram determinant is the square of the determinant; it is positive (non-degenerate)
GramIsDetSquared == IsCell => cell.gr > 0 /\ (G = D => cell.dj * cell.dj = cell.gr /\ Sign(cell.dj) = co)
\* circumcentre c = v_0 + Cn / (2 gr): it lies in the affine hull by construction and is equidistant from all
\* vertices:  |c - v_m|^2 = |c - v_0|^2  <=>  2 t_m . (c - v_0) = |t_m|^2
Equidistant == IsCell => \A m \in 1..D : Dot(cell.T[m], cell.Cn) = cell.gr * cell.bb[m]
\* and the printed R^2 is its squared distance from every vertex (rational arithmetic, vacuous outside CQ's range)
CcQ(i) == QN(cell.Cn[i], 2 * cell.gr)
Dist2(m) == LET df(i) == QSub(CcQ(i), QI(cell.W[m + 1][i]))
                sq(i) == QMul(df(i), df(i))
            IN IF G = 1 THEN sq(1) ELSE IF G = 2 THEN QAdd(sq(1), sq(2)) ELSE QAdd(QAdd(sq(1), sq(2)), sq(3))
RadiusIsDistance == IsCell => \A m \in 0..D : LET d2 == Dist2(m) r2 == QN(cell.RN, 4 * cell.gr) IN
                      (QDef(d2) /\ QDef(r2)) => d2 = r2
\* law of sines for triangles: R = abc / (4 area)   <=>  RN = a^2 b^2 c^2
TriangleRadius == (IsCell /\ D = 2) => cell.RN = cell.e2[1] * cell.e2[2] * cell.e2[3]
\* every pair of vertices of a simplex is an edge: diameter = longest edge
DiameterIsLongestEdge == IsCell => cell.diam2 = MaxOf(cell.e2) /\ MinOf(cell.e2) > 0
\* cell normal: orthogonal to the tangents, det[J | n] > 0, |n|^2 = Gram determinant
CellNormalLaw == (IsCell /\ G = D + 1) =>
                   /\ \A a \in 1..D : Dot(cell.cn, cell.T[a]) = 0
                   /\ Det(Mk(G, LAMBDA i : cell.JM[i] \o <<cell.cn[i]>>)) > 0
                   /\ Norm2(cell.cn) = cell.gr
\* x = v_0 + J X and X = K (x - v_0)
CoordinateLaw == IsCell => \A k \in 1..D :
                   SumTo(G, LAMBDA i : cell.Pn[k][i] * SumTo(D, LAMBDA l : cell.T[l][i] * XN[l])) = cell.gr * XN[k]

FD == cell.fs[ent + 1]
\* facet normal direction h: orthogonal to the facet, pointing away from the opposite vertex, inside the
\* tangent space of the cell (J K h = h)
FacetNormalLaw == IsFacet =>
                    /\ \A a \in 1..(D - 1) : Dot(FD.h, FD.FT[a]) = 0
                    /\ Dot(FD.h, FD.w) > 0
                    /\ \A i \in 1..G : SumTo(G, LAMBDA j : JKM(i, j) * FD.h[j]) = cell.gr * FD.h[i]
\* |n|^2 = 1 in squared form
UnitNormal == IsFacet => LET u == UnitVec(FD.h)
                             s(i) == QN(u[i][1], u[i][2])
                             t == IF G = 1 THEN s(1) ELSE IF G = 2 THEN QAdd(s(1), s(2)) ELSE QAdd(QAdd(s(1), s(2)), s(3))
                         IN QDef(t) => t = Q1
\* volume = facet area * height / D, squared:  gr / D!^2 = (fg / (D-1)!^2) * (h2 / fg^2) / D^2
VolumeIsAreaTimesHeight == IsFacet => cell.gr * FD.fg = FD.h2 /\ FD.fg > 0
\* FK FJ = I and the facet adjugate law
FacetInverseLaw == IsFacet => \A a \in 1..(D - 1) : \A b \in 1..(D - 1) :
                     SumTo(G, LAMBDA i : FD.Pf[a][i] * FD.FT[b][i]) = (IF a = b THEN FD.fg ELSE 0)
\* binding of the reference data: FacetJacobian = J * CellFacetJacobian, and the covariant Piola image K^T N of the
\* reference normal N is a positive multiple of the facet normal
FacetJacobianIsJTimesCFJ == IsFacet => \A j \in 1..(D - 1) : \A i \in 1..G :
                              SumTo(D, LAMBDA k : cell.T[k][i] * RefFTan(ent)[j][k]) = FD.FT[j][i]
PiolaNormal == IsFacet => LET N == RefNormalDir(ent)
                              m == Mk(G, LAMBDA i : SumTo(D, LAMBDA a : cell.Pn[a][i] * N[a]))
                          IN /\ \A i \in 1..G : \A j \in 1..G : m[i] * FD.h[j] = m[j] * FD.h[i]
                             /\ Dot(m, FD.h) > 0
\* ridge (edge) vectors are the images of the reference edge vectors
RidgeIsJTimesCRJ == (phase = "ridge") => \A i \in 1..G :
                      SumTo(D, LAMBDA k : cell.T[k][i] * RefEdge(ent + 1)[k]) = EdgeVec(cell.W, ent + 1)[i]
\* a selected quantity has a printable value with the number of components of its shape
ValueShape == (phase = "quantity") => Len(val) > 0 /\ \A i \in 1..Len(val) : val[i][2] > 0 /\ val[i][3] \in {-1, 0, 1, 2}

\* ==== the table handed to the conformance check (one line per cell) ====
Named(S, F(_)) == LET RECURSIVE go(_)
                      go(R) == IF R = {} THEN << >> ELSE LET x == CHOOSE y \in R : TRUE IN <<[n |-> x, v |-> F(x)]>> \o go(R \ {x})
                  IN go(S)
Dump == [k |-> <<D, G>>, v |-> cell.T, off |-> OffG, co |-> co,
         c |-> Named(CellQs, LAMBDA q : CellVal(cell, q)),
         f |-> Mk(D + 1, LAMBDA f : Named(FacetQs, LAMBDA q : FacetVal(cell, f - 1, q))),
         r |-> IF D = 3 THEN Mk(6, LAMBDA r : Named(RidgeQs, LAMBDA q : RidgeVal(cell, r - 1, q))) ELSE << >>]
EmitCell == (IsCell /\ Emit) => PrintT(ToJson(Dump))

\* reference data and tables, printed once
RefDump == [k |-> <<D, G>>, edges |-> Edges, facetverts |-> Mk(D + 1, LAMBDA f : FacetVerts(f - 1)),
            opp |-> Mk(D + 1, LAMBDA f : Opp(f - 1)),
            refnormal |-> Mk(D + 1, LAMBDA f : UnitVec(RefNormalDir(f - 1))),
            cfj |-> Mk(D + 1, LAMBDA f : Mk(D, LAMBDA i : Mk(D - 1, LAMBDA j : RefFTan(f - 1)[j][i]))),
            refedges |-> Mk(NE, LAMBDA e : RefEdge(e)),
            refvol |-> <<1, Fact(D)>>, reffacetvol |-> <<1, Fact(D - 1)>>,
            X |-> Mk(D, LAMBDA k : <<XN[k], XD>>), off |-> OffG, ref |-> "ref"]
ASSUME PrintT(ToJson(RefDump))
=============================================================================
