------------------------------- MODULE EqShare -------------------------------
(***************************************************************************)
(* C13.  Structural equality, hashing and repr of UFL expression objects,  *)
(* with the eager operand sharing performed by ufl/exprequals.py.          *)
(*                                                                         *)
(* HEAP MODE.  The state is a heap of N expression objects (every heap of  *)
(* fewer objects is a sub-heap of one of them, and objects that are not    *)
(* touched by a call do not influence it).                                 *)
(*                                                                         *)
(*   obj[i]  immutable part of object i:  [c, at, ops]                     *)
(*             c   class code: T (terminal with two constructor            *)
(*                 attributes), L (Label terminal, one attribute),         *)
(*                 U (unary operator), B (binary operator),                *)
(*                 V (ufl.variable.Variable: operands <<expression, label>>*)
(*                 with its own __eq__), X (operator with an attribute,     *)
(*                 only when WithX; see below)                              *)
(*             at  attribute tuple (terminals), << >> for operators        *)
(*             ops the operand tuple the object was CONSTRUCTED with       *)
(*                 (object ids); tuples are immutable Python objects and   *)
(*                 "tuple i" names the tuple object i was built with       *)
(*   tup[i]  which tuple object  i.ufl_operands  points to NOW             *)
(*           (tup[i] = i initially; expr_equals overwrites it)             *)
(*   hv[i]   the lazily cached  i._hash  (NoHash = not yet computed)       *)
(*   hist    recorded history of API calls with the predicted results      *)
(*           (only when MaxHist > 0: generation of behaviours that are     *)
(*           replayed on real ufl objects by vf/checks/c13.py)             *)
(*                                                                         *)
(* Actions = the API calls  a == b  (Compare; a != b and                    *)
(* Integral(a) == Integral(b) are the same call: != negates the answer,    *)
(* Integral.__eq__ compares the integrands with ==),  hash(a)  (Hash),     *)
(* repr(a)  (Repr), and  Form([..a..]).equals(Form([..b..]))  (CompareForms:*)
(* first hashes both integrands, then compares the integrals).  The replay *)
(* picks the concrete surface syntax for every recorded call.              *)
(*                                                                         *)
(* Compare models ufl/exprequals.py line by line:                          *)
(*   1. type(a) is not type(b)            -> False  (nothing is hashed)    *)
(*   2. hash(a) != hash(b)                -> False  (both sub-DAGs are now *)
(*                                           hashed: compute_expr_hash     *)
(*                                           caches _hash on every node    *)
(*                                           that had none)                *)
(*   3. a is b or a.ops is b.ops          -> True   (no pointer written)   *)
(*   4. pairwise walk over operand tuples (skipping pairs whose tuples are *)
(*      the same object, comparing terminals with the terminal class's own *)
(*      __eq__); any mismatch              -> False                        *)
(*   5. a.ufl_operands = b.ufl_operands   (ONLY the pointer of the left    *)
(*      root a is overwritten, with the tuple object of the right root b)  *)
(*                                         -> True                         *)
(* Terminal classes override __eq__ (no hashing, no side effect); the      *)
(* attributes their coded __eq__ / hash / repr read are the projections    *)
(* EqProjT / HashProjT / ReprProjT.  Variable.__eq__ compares the labels   *)
(* and then the wrapped expressions with == (which may re-point the left   *)
(* expression), never hashing or re-pointing the Variable itself.          *)
(* Class X (WithX) is an operator that carries state besides its operands  *)
(* (ufl BaseFormOperator: ExternalOperator.derivatives, function space,    *)
(* argument slots; Interpolate's target space).  Its own __eq__ compares   *)
(* operands with == and then the attribute (XEq); its hash is the generic   *)
(* Operator hash over the operands only (XHash = FALSE); and when an X     *)
(* object occurs BELOW the compared roots, step 4 of expr_equals sees only *)
(* its type code and operand tuple (XWalk = FALSE).  Intended: all TRUE.   *)
(*                                                                         *)
(* The INTENDED relation is StructEq: same class, all attributes equal,    *)
(* operands StructEq, i.e. equality of the structural unfolding Value.     *)
(*                                                                         *)
(* TABLE MODE.  ProjTable holds one row per real terminal class with the   *)
(* projections exported from the real code by single-attribute probing     *)
(* (generated MC module).  The state is a row and two attribute vectors;   *)
(* the invariants are the same laws on the projection table.  A            *)
(* counterexample is a concrete (class, attribute vector pair).            *)
(*                                                                         *)
(* LITERAL MODE.  The universe of CONSTRUCTOR CALLS of scalar literals     *)
(* (ufl/constantvalue.py): which API is called with which Python type of   *)
(* argument and which number, of the other classes with a flyweight cache  *)
(* (Zero by shape, MultiIndex by fixed indices; with free indices they are *)
(* not cached), and of pickle / eval(repr) ROUND TRIPS of objects returned *)
(* earlier (unpickling = __new__ on __getnewargs__() through the caches,    *)
(* then the saved slots are written onto whatever __new__ returned).       *)
(* The state is the sequence of calls made so far with the object each one *)
(* returned, the flyweight caches and the current content of every object. *)
(* See the section "Literal mode" below.                                   *)
(***************************************************************************)
EXTENDS Integers, Sequences, FiniteSets, TLC, Json, SequencesExt

CONSTANTS Mode,        \* "heap" or "table"
          N,           \* heap mode: number of heap objects
          MaxTerm,     \* heap mode: at most this many terminals (they come first)
          EqProjT,     \* attributes (subset of {1,2}) of class T read by the coded __eq__
          HashProjT,   \*   ... by the coded hash
          ReprProjT,   \*   ... by the coded repr
          MaxHist,     \* 0: model checking of the laws; > 0: record histories of this length
          Wrappers,    \* TRUE: Integral/Form wrapper comparisons are actions too
          WithX,       \* TRUE: heaps may contain attributed operators (class X, see below)
          XEq,         \* the __eq__ of class X reads the attribute      (ExternalOperator.__eq__: TRUE)
          XHash,       \* the hash of an X object reads the attribute    (Operator._ufl_compute_hash_: FALSE)
          XWalk,       \* step 4 of expr_equals reads the attribute of X operands (as coded: FALSE)
          ProjTable,   \* table mode: sequence of rows [cls, n, eq, eqr, hash, repr, sig, obs]
          LitMax,      \* literal mode: number of constructor calls of a behaviour
          LitFocus,    \* literal mode: TRUE = all calls of a behaviour are about the same number
          LitCoerce,   \* literal mode: the literal classes whose constructor converts the value it stores to
                       \*   the Python type the class wraps (as coded and intended: all three)
          LitNewArgs,  \* literal mode: the classes whose __getnewargs__ hands ALL constructor arguments to
                       \*   __new__ when an object is unpickled / copied (as coded and intended: all)
          LitShapes    \* literal mode: shapes / fixed-index tuples 0..LitShapes of the flyweight classes

VARIABLES obj, tup, hv, hist, pr, px, py, lit
vars == <<obj, tup, hv, hist, pr, px, py, lit>>

CT == 1  CL == 2  CU == 3  CB == 4  CV == 5  CX == 6
NoHash == << >>
Fuel == N + 2

-----------------------------------------------------------------------------
(* Heaps: terminals first (every DAG has such a topological order), operands *)
(* point to earlier objects.  Labels occur only as second operand of a V.    *)

TermRecs == {[c |-> CT, at |-> <<x, y>>, ops |-> << >>] : x \in 0..1, y \in 0..1}
              \cup {[c |-> CL, at |-> <<x>>, ops |-> << >>] : x \in 0..1}

Exprs(h)  == {i \in DOMAIN h : h[i].c # CL}
Labels(h) == {i \in DOMAIN h : h[i].c = CL}

\* (heaps with attributed operators are built from unary operators only, to keep them few)
OpRecs(h) ==
  {[c |-> CU, at |-> << >>, ops |-> <<x>>] : x \in Exprs(h)}
  \cup (IF WithX THEN {[c |-> CX, at |-> <<x>>, ops |-> <<k>>] : x \in 0..1, k \in Exprs(h)}
        ELSE {[c |-> CB, at |-> << >>, ops |-> <<x, y>>] : x \in Exprs(h), y \in Exprs(h)}
             \cup {[c |-> CV, at |-> << >>, ops |-> <<x, l>>] : x \in Exprs(h), l \in Labels(h)})

\* order on terminal records, to enumerate multisets of terminals only once
Key(r) == IF r.c = CT THEN 2 * r.at[1] + r.at[2] ELSE 4 + r.at[1]

RECURSIVE TermHeaps(_)
TermHeaps(k) ==
  IF k = 0 THEN {<< >>}
  ELSE LET S == TermHeaps(k - 1) IN
       S \cup {Append(h, r) : h \in {g \in S : Len(g) = k - 1},
                              r \in TermRecs}

SortedTerms(h) == \A i \in 1..(Len(h) - 1) : Key(h[i]) <= Key(h[i + 1])
\* the two values of an attribute are interchangeable: the first object of a class has value 0
\* in every position (the projections distinguish positions, never values)
FirstIsZero(h) ==
  \A i \in DOMAIN h : (\A j \in 1..(i - 1) : h[j].c # h[i].c) => \A k \in DOMAIN h[i].at : h[i].at[k] = 0

RECURSIVE GrowTo(_)
\* all heaps of exactly N objects whose first t objects are the terminals
GrowTo(h) == IF Len(h) = N THEN {h}
             ELSE UNION {GrowTo(Append(h, r)) : r \in {q \in OpRecs(h) : FirstIsZero(Append(h, q))}}

Heaps ==
  UNION {GrowTo(h) : h \in {g \in TermHeaps(IF MaxTerm < N THEN MaxTerm ELSE N) :
                              Len(g) >= 1 /\ SortedTerms(g) /\ FirstIsZero(g)}}

-----------------------------------------------------------------------------
(* Structure of the current state *)

Ids == DOMAIN obj
IsTerm(h, i) == h[i].c \in {CT, CL}
Ops(h, t, i) == h[t[i]].ops            \* the tuple i.ufl_operands points to now

EqProjOf(c)   == IF c = CT THEN EqProjT   ELSE {1}
HashProjOf(c) == IF c = CT THEN HashProjT ELSE IF c = CX /\ ~XHash THEN {} ELSE {1}
ReprProjOf(c) == IF c = CT THEN ReprProjT ELSE {1}
Mask(at, proj) == [k \in DOMAIN at |-> IF k \in proj THEN at[k] ELSE 9]

\* coded __eq__ of the terminal classes
TermEq(ra, rb) == ra.c = rb.c /\ \A k \in EqProjOf(ra.c) : ra.at[k] = rb.at[k]

Kids(F(_), s) == IF s = << >> THEN << >> ELSE [k \in DOMAIN s |-> F(s[k])]

\* structural unfolding (the denotation) -- all attributes
RECURSIVE Val(_, _, _, _)
Val(h, t, i, fuel) ==
  IF fuel = 0 THEN <<0, << >>, << >>>>
  ELSE LET K(j) == Val(h, t, j, fuel - 1) IN <<h[i].c, h[i].at, Kids(K, Ops(h, t, i))>>

\* repr string: class name, attributes the coded repr prints, reprs of the current operands
RECURSIVE Rep(_, _, _, _)
Rep(h, t, i, fuel) ==
  IF fuel = 0 THEN <<0, << >>, << >>>>
  ELSE LET K(j) == Rep(h, t, j, fuel - 1) IN
       <<h[i].c, Mask(h[i].at, ReprProjOf(h[i].c)), Kids(K, Ops(h, t, i))>>

\* value hash(i) returns given the caches c (compute_expr_hash stops at cached nodes)
RECURSIVE HV(_, _, _, _, _)
HV(h, t, c, i, fuel) ==
  IF c[i] # NoHash THEN c[i]
  ELSE IF fuel = 0 THEN <<0, << >>, << >>>>
  ELSE LET K(j) == HV(h, t, c, j, fuel - 1) IN
       <<h[i].c, Mask(h[i].at, HashProjOf(h[i].c)), Kids(K, Ops(h, t, i))>>

\* nodes whose _hash gets assigned by hash(i): reachable through uncached nodes
RECURSIVE Touch(_, _, _, _, _)
Touch(h, t, c, i, fuel) ==
  IF c[i] # NoHash \/ fuel = 0 THEN {}
  ELSE {i} \cup UNION {Touch(h, t, c, Ops(h, t, i)[k], fuel - 1) : k \in DOMAIN Ops(h, t, i)}

DoHash(h, t, c, a) ==
  LET T == Touch(h, t, c, a, Fuel) IN
  [i \in DOMAIN c |-> IF i \in T THEN HV(h, t, c, i, Fuel) ELSE c[i]]

\* step 4 of expr_equals; precondition h[s].c = h[o].c
RECURSIVE Walk(_, _, _, _, _)
Walk(h, t, s, o, fuel) ==
  IF fuel = 0 THEN FALSE
  ELSE IF IsTerm(h, s) THEN TermEq(h[s], h[o])
  ELSE \/ t[s] = t[o]
       \/ LET so == Ops(h, t, s)  oo == Ops(h, t, o) IN
          /\ (h[s].c = CX /\ XWalk) => h[s].at = h[o].at
          /\ Len(so) = Len(oo)
          /\ \A k \in DOMAIN so :
               /\ h[so[k]].c = h[oo[k]].c
               /\ (so[k] = oo[k] \/ Walk(h, t, so[k], oo[k], fuel - 1))

\* a == b as coded; returns the result and the new pointers / caches
RECURSIVE Cmp(_, _, _, _, _, _)
Cmp(h, t, c, a, b, fuel) ==
  LET no == [res |-> FALSE, t |-> t, c |-> c] IN
  IF fuel = 0 THEN no
  ELSE IF IsTerm(h, a) THEN [no EXCEPT !.res = TermEq(h[a], h[b])]
  ELSE IF h[a].c = CV THEN                       \* Variable.__eq__
    IF h[b].c # CV THEN no
    ELSE IF ~TermEq(h[Ops(h, t, a)[2]], h[Ops(h, t, b)[2]]) THEN no
    ELSE Cmp(h, t, c, Ops(h, t, a)[1], Ops(h, t, b)[1], fuel - 1)
  ELSE IF h[a].c = CX THEN                       \* ExternalOperator.__eq__ / Interpolate.__eq__
    IF a = b THEN [no EXCEPT !.res = TRUE]
    ELSE IF h[b].c # CX THEN no
    ELSE LET r == Cmp(h, t, c, Ops(h, t, a)[1], Ops(h, t, b)[1], fuel - 1) IN
         [r EXCEPT !.res = r.res /\ (XEq => h[a].at = h[b].at)]
  ELSE                                            \* expr_equals
    IF h[a].c # h[b].c THEN no
    ELSE LET c2 == DoHash(h, t, DoHash(h, t, c, a), b) IN
         IF c2[a] # c2[b] THEN [res |-> FALSE, t |-> t, c |-> c2]
         ELSE IF a = b \/ t[a] = t[b] THEN [res |-> TRUE, t |-> t, c |-> c2]
         ELSE IF Walk(h, t, a, b, Fuel)
              THEN [res |-> TRUE, t |-> [t EXCEPT ![a] = t[b]], c |-> c2]
              ELSE [res |-> FALSE, t |-> t, c |-> c2]

\* Form([Integral(a)]).equals(Form([Integral(b)])): hash both forms (= hash both
\* integrands), then compare the integrals (= compare the integrands with ==)
FormCmp(h, t, c, a, b) ==
  LET c2 == DoHash(h, t, DoHash(h, t, c, a), b) IN
  IF c2[a] # c2[b] THEN [res |-> FALSE, t |-> t, c |-> c2]
  ELSE Cmp(h, t, c2, a, b, Fuel)

-----------------------------------------------------------------------------
(* The state machine *)

Flags(c) == [i \in DOMAIN c |-> c[i] # NoHash]
Rec(op, a, b, r) ==
  IF MaxHist = 0 THEN hist
  ELSE Append(hist, [op |-> op, a |-> a, b |-> b, res |-> r.res, t |-> r.t, hc |-> Flags(r.c)])
Room == MaxHist = 0 \/ Len(hist) < MaxHist

HeapInit ==
  /\ obj \in Heaps
  /\ tup = [i \in DOMAIN obj |-> i]
  /\ hv = [i \in DOMAIN obj |-> NoHash]
  /\ hist = << >>
  /\ pr = 0 /\ px = << >> /\ py = << >>
  /\ lit = << >>

Compare(a, b) ==
  /\ Room
  /\ LET r == Cmp(obj, tup, hv, a, b, Fuel) IN
     /\ tup' = r.t /\ hv' = r.c
     /\ hist' = Rec("eq", a, b, r)
  /\ UNCHANGED <<obj, pr, px, py, lit>>

CompareForms(a, b) ==
  /\ Room /\ Wrappers
  /\ LET r == FormCmp(obj, tup, hv, a, b) IN
     /\ tup' = r.t /\ hv' = r.c
     /\ hist' = Rec("feq", a, b, r)
  /\ UNCHANGED <<obj, pr, px, py, lit>>

Hash(a) ==
  /\ Room
  /\ hv' = DoHash(obj, tup, hv, a)
  /\ hist' = Rec("hash", a, a, [res |-> TRUE, t |-> tup, c |-> hv'])
  /\ UNCHANGED <<obj, tup, pr, px, py, lit>>

Repr(a) ==
  /\ Room /\ MaxHist > 0           \* repr reads, never writes: only recorded in histories
  /\ hist' = Rec("repr", a, a, [res |-> TRUE, t |-> tup, c |-> hv])
  /\ UNCHANGED <<obj, tup, hv, pr, px, py, lit>>

HeapNext ==
  \/ \E a \in Ids, b \in Ids : Compare(a, b) \/ CompareForms(a, b)
  \/ \E a \in Ids : Hash(a) \/ Repr(a)

-----------------------------------------------------------------------------
(* Table mode *)

Bits(n) == [1..n -> 0..1]
TabInit ==
  /\ obj = << >> /\ tup = << >> /\ hv = << >> /\ hist = << >> /\ lit = << >>
  /\ pr \in DOMAIN ProjTable
  /\ px \in Bits(ProjTable[pr].n) /\ py \in Bits(ProjTable[pr].n)

Agree(S) == \A k \in S : px[k] = py[k]
Row == ProjTable[pr]
\* what the probed code answers for the pair (px, py) of objects of class Row.cls
TabEq   == Agree(Row.eq)        \* x == y
TabEqR  == Agree(Row.eqr)       \* y == x
TabHash == Agree(Row.hash)      \* hash(x) = hash(y)
TabRepr == Agree(Row.repr)      \* repr(x) = repr(y)
TabSig  == Agree(Row.sig)       \* signature data equal
TabObs  == Agree(Row.obs)       \* shape / free indices / str equal
TabStruct == px = py            \* the intended relation

TabSymmetric        == Mode = "table" => (TabEq <=> TabEqR)
TabEqIsStructEq     == Mode = "table" => (TabEq <=> TabStruct)
TabEqImpliesHash    == Mode = "table" => (TabEq => TabHash)
TabEqImpliesRepr    == Mode = "table" => (TabEq => TabRepr)
TabEqImpliesSig     == Mode = "table" => (TabEq => TabSig)
TabEqImpliesObs     == Mode = "table" => (TabEq => TabObs)

\* complete list of single-attribute defects of the table (handed to the replay on real classes)
TabDefectSet ==
  UNION {LET R == ProjTable[r] IN
         {[row |-> r, attr |-> k, kind |-> "hash"] : k \in R.hash \ R.eq}
         \cup {[row |-> r, attr |-> k, kind |-> "repr"] : k \in R.repr \ R.eq}
         \cup {[row |-> r, attr |-> k, kind |-> "sig"] : k \in R.sig \ R.eq}
         \cup {[row |-> r, attr |-> k, kind |-> "obs"] : k \in R.obs \ R.eq}
         \cup {[row |-> r, attr |-> k, kind |-> "sym"] : k \in (R.eq \ R.eqr) \cup (R.eqr \ R.eq)}
         : r \in DOMAIN ProjTable}
TabDefects == SetToSeq(TabDefectSet)
TabExport == Mode = "table" => PrintT(ToJson(TabDefects))

-----------------------------------------------------------------------------
(* Literal mode *)
(*                                                                         *)
(* A call is [api, src, slot, im, sh, fi, of].  CONSTRUCTOR CALLS OF SCALAR *)
(* LITERALS (sh = fi = of = 0):                                            *)
(*   api   the function called: the classes IntValue, FloatValue,          *)
(*         ComplexValue, or as_ufl (what every operator overload applies   *)
(*         to a non-UFL operand)                                           *)
(*   src   the Python type of the argument: int, bool, a numpy integer,    *)
(*         float, a numpy float, complex, a numpy complex                  *)
(*   slot  which real number: LZ zero, LONE one (the only non-zero bool),  *)
(*         LS an integer with 0 < |n| < 100 (below the flyweight bound),   *)
(*         LL, LL2 two different integers with |n| >= 100, LH a number     *)
(*         with fractional part 1/2.  The replay chooses concrete numbers  *)
(*         (both signs, 99/100 at the bound) and numpy dtypes.             *)
(*   im    1: a non-zero imaginary part is added (complex arguments only)  *)
(* CONSTRUCTOR CALLS OF THE OTHER FLYWEIGHT CLASSES (api in FlyClasses,    *)
(* src = "shape", slot = LZ, of = 0): Zero(shape, free indices, index      *)
(* dimensions) and MultiIndex(fixed indices ++ free indices):              *)
(*   sh    which shape (Zero) / tuple of fixed indices (MultiIndex):       *)
(*         0 = the empty one, 1.. = different non-empty ones               *)
(*   fi    which free indices: 0 = none, 1, 2 = two different non-empty    *)
(*         sets (the replay makes them differ in an index, in an index     *)
(*         dimension only, or in their number)                             *)
(* ROUND TRIPS (api in LitTrips, src = "obj", of = k > 0): the object      *)
(* returned by step k is sent through pickle (the replay picks the         *)
(* protocol, or copy.copy / copy.deepcopy, which use the same              *)
(* __reduce_ex__ protocol) or through eval(repr(.)); slot is that of step k.*)
(* LitValid = the calls the API accepts.                                   *)
(*                                                                         *)
(* Semantics as coded: as_ufl dispatches on numbers.Integral / Real /      *)
(* Complex; every __new__ returns the scalar Zero for 0; ComplexValue      *)
(* hands a real argument over to FloatValue(value.real); IntValue keeps    *)
(* one object per value with |value| < 100 (whoever asks first creates     *)
(* it, everybody later gets that object); the constructors store           *)
(* int(value) / float(value) / complex(value)  (LitCoerce).                *)
(* Zero.__new__ keeps one object per shape for the zeros WITHOUT free      *)
(* indices (Zero._cache), MultiIndex.__new__ one per tuple of fixed        *)
(* indices for the multi-indices WITHOUT free indices (MultiIndex._cache); *)
(* with free indices every call creates an object.                         *)
(* An object is [cls, slot, im, vt, sh, fi], vt = Python type of the       *)
(* stored value.                                                            *)
(* ScalarValue.__eq__ : same class and numerically equal values;           *)
(* Zero.__eq__ / MultiIndex.__eq__: same class, shape / fixed indices and  *)
(* free indices.                                                            *)
(* repr: class name and repr of the stored value (FloatValue formats       *)
(* float(value)) resp. of shape and indices; hash = hash(repr).            *)
(* Unpickling (copyreg.__newobj__ + __setstate__) is                       *)
(*   y = cls.__new__(cls, *x.__getnewargs__());  then every saved slot of  *)
(*   x (value / shape / indices / cached _hash) is WRITTEN onto y.         *)
(* __new__ goes through the flyweight caches, so y may be a shared object: *)
(* the write is only harmless when __getnewargs__ hands over ALL arguments *)
(* of the constructor (LitNewArgs: the classes for which it does; as coded *)
(* and intended all of them; for a class outside it the free indices are   *)
(* left out).  eval(repr(x)) is the constructor call that repr prints.     *)
(*                                                                         *)
(* lit = [steps, cache, heap]: steps[k] = [call, o, id] (o: the object AS  *)
(* RETURNED; id: its identity: k if the call created it, else the id of    *)
(* the cached object); heap[id] = what object id looks like NOW;           *)
(* cache[key] = id of the flyweight, 0 = none yet (a behaviour starts with *)
(* the small integers it uses not yet created, as in a fresh interpreter,  *)
(* and with the flyweight zeros / fixed multi-indices of all its shapes    *)
(* existing: the AMBIENT objects, ids AmbId(cls, sh), the scalar Zero      *)
(* being ZeroId).                                                           *)

LZ == 0  LONE == 1  LS == 2  LL == 3  LL2 == 4  LH == 5
LitSlots  == LZ..LH
LitSmall  == {LONE, LS}
IntLike   == {"int", "bool", "npint"}
FloatLike == {"float", "npfloat"}
CplxLike  == {"complex", "npcomplex"}
LitApis   == {"IntValue", "FloatValue", "ComplexValue", "as_ufl"}
FlyClasses == {"Zero", "MultiIndex"}
LitTrips  == {"pickle", "evalrepr"}
ZeroId    == 99
AmbId(cls, sh) == (IF cls = "Zero" THEN ZeroId ELSE ZeroId + 20) + sh
FlyObj(cls, sh, fi) == [cls |-> cls, slot |-> LZ, im |-> 0, vt |-> "none", sh |-> sh, fi |-> fi]
NoObj == [cls |-> "none", slot |-> LZ, im |-> 0, vt |-> "none", sh |-> 0, fi |-> 0]
AmbObjs == {FlyObj(c, s, 0) : c \in FlyClasses, s \in 0..LitShapes}
AmbIds  == {AmbId(o.cls, o.sh) : o \in AmbObjs}
AmbObj(a) == CHOOSE o \in AmbObjs : AmbId(o.cls, o.sh) = a

LitValid(c) ==
  /\ c.src = "bool" => c.slot \in {LZ, LONE}
  /\ c.slot = LH => c.src \notin IntLike
  /\ c.im = 1 => c.src \in CplxLike
  /\ c.api = "IntValue" => c.src \notin CplxLike /\ c.slot # LH    \* integers, also given as integral floats
  /\ c.api = "FloatValue" => c.src \notin CplxLike
  /\ c.api = "ComplexValue" => c.src \in CplxLike

LitCalls ==
  {c \in [api : LitApis, src : IntLike \cup FloatLike \cup CplxLike, slot : LitSlots, im : 0..1,
          sh : {0}, fi : {0}, of : {0}] : LitValid(c)}
  \cup [api : FlyClasses, src : {"shape"}, slot : {LZ}, im : {0}, sh : 0..LitShapes, fi : 0..2, of : {0}]

LitRoute(c) ==
  IF c.api # "as_ufl" THEN c.api
  ELSE IF c.src \in IntLike THEN "IntValue"
  ELSE IF c.src \in FloatLike THEN "FloatValue" ELSE "ComplexValue"

RealSrc(s) == IF s = "complex" THEN "float" ELSE IF s = "npcomplex" THEN "npfloat" ELSE s
Wraps(cls) == IF cls = "IntValue" THEN "int" ELSE IF cls = "FloatValue" THEN "float"
              ELSE IF cls = "ComplexValue" THEN "complex" ELSE "none"

\* the object a call denotes when it creates one
LitNew(c) ==
  IF c.api \in FlyClasses THEN FlyObj(c.api, c.sh, c.fi)
  ELSE
  LET r   == LitRoute(c)
      viaF == r = "ComplexValue" /\ c.im = 0
      cls == IF c.im = 0 /\ c.slot = LZ THEN "Zero" ELSE IF viaF THEN "FloatValue" ELSE r
      src == IF viaF THEN RealSrc(c.src) ELSE c.src
  IN [cls |-> cls, slot |-> c.slot, im |-> c.im,
      vt |-> IF cls = "Zero" \/ cls \in LitCoerce THEN Wraps(cls) ELSE src, sh |-> 0, fi |-> 0]

LitInit ==
  /\ obj = << >> /\ tup = << >> /\ hv = << >> /\ hist = << >>
  /\ pr = 0 /\ px = << >> /\ py = << >>
  /\ lit = [steps |-> << >>,
            cache |-> [s \in LitSmall \cup AmbIds |-> IF s \in AmbIds THEN s ELSE 0],
            heap  |-> [i \in (1..LitMax) \cup AmbIds |-> IF i \in AmbIds THEN AmbObj(i) ELSE NoObj]]

\* what the code answers
LitEq(a, b)   == a.cls = b.cls /\ a.slot = b.slot /\ a.im = b.im /\ a.sh = b.sh /\ a.fi = b.fi
LitRepr(a)    == <<a.cls, IF a.cls = "FloatValue" THEN "float" ELSE a.vt, a.slot, a.im, a.sh, a.fi>>
LitValue(a)   == <<a.vt, a.slot, a.im, a.sh, a.fi>>
Builtin       == {"none", "int", "bool", "float", "complex"}

LitO(k) == lit.heap[lit.steps[k].id]          \* the object returned by step k as it is NOW
LitIds == DOMAIN lit.steps

\* cls.__new__(cls, <the arguments that denote n>) in step i: through the flyweight caches
LitKey(n) == IF n.cls = "IntValue" /\ n.slot \in LitSmall THEN n.slot
             ELSE IF n.cls \in FlyClasses /\ n.fi = 0 THEN AmbId(n.cls, n.sh) ELSE 0
LitMake(n, i) ==
  LET key == LitKey(n)
      hit == key # 0 /\ lit.cache[key] # 0
  IN [id    |-> IF hit THEN lit.cache[key] ELSE i,
      heap  |-> IF hit THEN lit.heap ELSE [lit.heap EXCEPT ![i] = n],
      cache |-> IF key # 0 /\ ~hit THEN [lit.cache EXCEPT ![key] = i] ELSE lit.cache]

LitCreate(c) ==
  /\ Len(lit.steps) < LitMax
  /\ LitFocus => \A k \in DOMAIN lit.steps : lit.steps[k].call.slot = c.slot
  \* LL and LL2 are interchangeable: the first large number of a behaviour is LL; likewise the free index
  \* sets 1, 2 and the non-empty shapes
  /\ c.slot = LL2 => \E k \in DOMAIN lit.steps : lit.steps[k].call.slot = LL
  /\ c.fi = 2 => \E k \in DOMAIN lit.steps : lit.steps[k].call.fi = 1
  /\ c.sh > 1 => \E k \in DOMAIN lit.steps : lit.steps[k].call.sh = c.sh - 1
  /\ LET m == LitMake(LitNew(c), Len(lit.steps) + 1)
     IN lit' = [steps |-> Append(lit.steps, [call |-> c, o |-> m.heap[m.id], id |-> m.id]),
                cache |-> m.cache, heap |-> m.heap]
  /\ UNCHANGED <<obj, tup, hv, hist, pr, px, py>>

\* round trip of the object returned by step k
LitTrip(t, k) ==
  /\ Len(lit.steps) < LitMax
  /\ LET o    == LitO(k)
         args == IF t = "pickle" THEN (IF o.cls \in LitNewArgs THEN o ELSE [o EXCEPT !.fi = 0])
                 ELSE [o EXCEPT !.vt = LitRepr(o)[2]]
         m    == LitMake(args, Len(lit.steps) + 1)
         h2   == IF t = "pickle" THEN [m.heap EXCEPT ![m.id] = o] ELSE m.heap     \* __setstate__
         c    == [api |-> t, src |-> "obj", slot |-> lit.steps[k].call.slot, im |-> 0, sh |-> 0, fi |-> 0, of |-> k]
     IN /\ t = "evalrepr" => LitRepr(o)[2] \in Builtin
        /\ lit' = [steps |-> Append(lit.steps, [call |-> c, o |-> h2[m.id], id |-> m.id]),
                   cache |-> m.cache, heap |-> h2]
  /\ UNCHANGED <<obj, tup, hv, hist, pr, px, py>>

LitNext == \/ \E c \in LitCalls : LitCreate(c)
           \/ \E t \in LitTrips, k \in DOMAIN lit.steps : LitTrip(t, k)

\* == implies identical repr (hence hash) and the same value
LitEqImpliesRepr  == Mode = "lit" => \A a \in LitIds, b \in LitIds : LitEq(LitO(a), LitO(b)) => LitRepr(LitO(a)) = LitRepr(LitO(b))
LitEqImpliesValue == Mode = "lit" => \A a \in LitIds, b \in LitIds : LitEq(LitO(a), LitO(b)) => LitValue(LitO(a)) = LitValue(LitO(b))
\* repr is an expression over the ufl namespace (eval(repr(x)) is possible)
LitReprEvaluable  == Mode = "lit" => \A a \in LitIds : LitRepr(LitO(a))[2] \in Builtin
\* the same object is only ever handed out for calls that denote the same literal, and the objects a call
\* returned earlier (and the ambient flyweights) are not changed by later calls
LitIdentitySound  == Mode = "lit" => \A a \in LitIds, b \in LitIds : lit.steps[a].id = lit.steps[b].id => lit.steps[a].o = lit.steps[b].o
LitAsReturned     == Mode = "lit" => /\ \A k \in LitIds : LitO(k) = lit.steps[k].o
                                     /\ \A a \in AmbIds : lit.heap[a] = AmbObj(a)
\* a round trip returns an object equal to the one sent
LitTripEqual      == Mode = "lit" => \A k \in LitIds : lit.steps[k].call.of # 0 => LitEq(LitO(k), LitO(lit.steps[k].call.of))
LitStable == [][Mode = "lit" => /\ \A k \in DOMAIN lit.steps : lit'.steps[k] = lit.steps[k]
                                /\ \A i \in DOMAIN lit.heap : lit.heap[i] # NoObj => lit'.heap[i] = lit.heap[i]]_vars
LitLaws == LitEqImpliesRepr /\ LitEqImpliesValue /\ LitReprEvaluable /\ LitIdentitySound /\ LitAsReturned /\ LitTripEqual

\* export: one JSON line per complete behaviour; eqc = first earlier object the code calls == (the predicted
\* equality classes), cls / vt / id = predicted class, stored type and identity of the returned object
LitEqc(k) == CHOOSE j \in 1..k : LitEq(LitO(j), LitO(k)) /\ \A m \in 1..(j - 1) : ~LitEq(LitO(m), LitO(k))
LitDoc ==
  [steps |-> [k \in DOMAIN lit.steps |->
     [api |-> lit.steps[k].call.api, src |-> lit.steps[k].call.src, slot |-> lit.steps[k].call.slot,
      im |-> lit.steps[k].call.im, sh |-> lit.steps[k].call.sh, fi |-> lit.steps[k].call.fi, of |-> lit.steps[k].call.of,
      cls |-> LitO(k).cls, vt |-> LitO(k).vt, osh |-> LitO(k).sh, ofi |-> LitO(k).fi,
      id |-> lit.steps[k].id, eqc |-> LitEqc(k)]]]
LitExport == (Mode = "lit" /\ Len(lit.steps) = LitMax) => PrintT(ToJson(LitDoc))
\* the laws, printing the behaviour that violates them (model of the code AS PROBED, see c13.py)
LitLawsCex == LitLaws \/ (PrintT(ToJson(LitDoc)) /\ FALSE)

-----------------------------------------------------------------------------
Init == IF Mode = "heap" THEN HeapInit ELSE IF Mode = "lit" THEN LitInit ELSE TabInit
Next == IF Mode = "heap" THEN HeapNext ELSE IF Mode = "lit" THEN LitNext ELSE UNCHANGED vars
Spec == Init /\ [][Next]_vars

-----------------------------------------------------------------------------
(* Heap-mode laws.  E is the table of answers of == in the current state. *)

CodedEq(a, b) == Cmp(obj, tup, hv, a, b, Fuel).res
StructEq(a, b) == Val(obj, tup, a, Fuel) = Val(obj, tup, b, Fuel)
HashNow(a) == HV(obj, tup, hv, a, Fuel)
ReprNow(a) == Rep(obj, tup, a, Fuel)
ValNow(a)  == Val(obj, tup, a, Fuel)
Idt == [i \in DOMAIN obj |-> i]
NoCache == [i \in DOMAIN obj |-> NoHash]

EqReflexive  == \A a \in Ids : CodedEq(a, a)
EqSymmetric  == \A a \in Ids, b \in Ids : CodedEq(a, b) <=> CodedEq(b, a)
EqTransitive ==
  LET E == [p \in Ids \X Ids |-> CodedEq(p[1], p[2])] IN
  \A a \in Ids, b \in Ids, c \in Ids : E[<<a, b>>] /\ E[<<b, c>>] => E[<<a, c>>]
EqIsStructEq == \A a \in Ids, b \in Ids : CodedEq(a, b) <=> StructEq(a, b)
EqImpliesHashRepr ==
  \A a \in Ids, b \in Ids : CodedEq(a, b) => HashNow(a) = HashNow(b) /\ ReprNow(a) = ReprNow(b)
\* equal objects are interchangeable: same denotation (shape, indices, signature are functions of it)
EqImpliesValue == \A a \in Ids, b \in Ids : CodedEq(a, b) => ValNow(a) = ValNow(b)
\* a cached hash never goes stale
HashCacheSound == \A a \in Ids : hv[a] # NoHash => hv[a] = HV(obj, tup, NoCache, a, Fuel)

RECURSIVE Desc(_, _, _, _)
Desc(h, t, i, fuel) ==
  IF fuel = 0 THEN {}
  ELSE LET s == Ops(h, t, i) IN
       {s[k] : k \in DOMAIN s} \cup UNION {Desc(h, t, s[k], fuel - 1) : k \in DOMAIN s}
Acyclic == \A a \in Ids : a \notin Desc(obj, tup, a, N)

\* relative to the heap as constructed
ValueAsBuilt == \A a \in Ids : ValNow(a) = Val(obj, Idt, a, Fuel) /\ ReprNow(a) = Rep(obj, Idt, a, Fuel)
\* sharing only ever points to the tuple of a structurally equal object
SharingSound == \A a \in Ids : StructEq(a, tup[a])

\* all state laws with one evaluation of the answer table (fast path; the individual
\* invariants above name the law that fails)
AllLaws ==
  LET E == [p \in Ids \X Ids |-> CodedEq(p[1], p[2])]
      VV == [a \in Ids |-> ValNow(a)]
      HH == [a \in Ids |-> HashNow(a)]
      RR == [a \in Ids |-> ReprNow(a)]
  IN /\ \A a \in Ids : E[<<a, a>>]
     /\ \A a \in Ids, b \in Ids :
          /\ E[<<a, b>>] <=> E[<<b, a>>]
          /\ E[<<a, b>>] <=> (VV[a] = VV[b])
          /\ E[<<a, b>>] => HH[a] = HH[b] /\ RR[a] = RR[b]
          /\ \A c \in Ids : E[<<a, b>>] /\ E[<<b, c>>] => E[<<a, c>>]
     /\ HashCacheSound /\ Acyclic /\ ValueAsBuilt /\ SharingSound

\* no API call changes repr, hash or denotation of ANY object
Stable ==
  [][(tup' # tup \/ hv' # hv) =>
       \A a \in Ids : /\ ReprNow(a)' = ReprNow(a)
                      /\ HashNow(a)' = HashNow(a)
                      /\ ValNow(a)' = ValNow(a)]_vars

\* witnesses (expected to be VIOLATED: they show that the model is not vacuous)
NoSharing   == \A a \in Ids : tup[a] = a                 \* some == re-points an operand tuple
NoForeignOp == \A a \in Ids : \A k \in DOMAIN Ops(obj, tup, a) : Ops(obj, tup, a)[k] < a
                                                        \* ... to operands created later

\* export of behaviours (MaxHist > 0): one JSON line per complete history
Export == (MaxHist > 0 /\ Len(hist) = MaxHist) => PrintT(ToJson([h |-> obj, hist |-> hist]))
=============================================================================
