------------------------------ MODULE Ordering ------------------------------
(***************************************************************************)
(* C29.  The canonical operand ordering of ufl/sorting.py.                 *)
(*                                                                         *)
(* PART 1 transcribes `cmp_expr(a, b)` AS CODED: the `a is b` shortcut,    *)
(* the explicit stack `left`, the set `equal_pairs`, and ONE ACTION PER    *)
(* ITERATION of `while left:` (pop a pair, compare type codes, dispatch    *)
(* the terminal comparator of the type code, push the operand pairs in     *)
(* the order the code pushes them, compare the operand counts, remember    *)
(* the pair).  The terminal comparators _cmp_multi_index, _cmp_argument,   *)
(* _cmp_coefficient, _cmp_label and _cmp_terminal_by_repr (with an         *)
(* explicit model of the `__repr__` strings as character codes) are        *)
(* transcribed branch by branch.                                           *)
(*                                                                         *)
(* PART 2 states the INTENDED meaning: `Leq(x,y) == cmp(x,y) <= 0` is a    *)
(* total preorder whose equivalence classes are exactly structural         *)
(* equality modulo the numbers of free indices and labels (`Equiv`).       *)
(* TLC checks the order laws for every pair and triple of the term         *)
(* universe of PART 3 and prints the complete predicted cmp table, which   *)
(* vf/checks/c29.py compares entry by entry with the real cmp_expr.        *)
(*                                                                         *)
(* Terms are records of one uniform shape                                  *)
(*   [k, nm, tc, n, p, d, sh, ix, fd, ops]                                 *)
(*   k   kind: "coef" "const" "arg" "int" "float" "floate" "cplx" "zero"   *)
(*             "geo" "mi" "label" (terminals) or "op" (operator)           *)
(*   nm  ufl class name                                                    *)
(*   tc  the class's _ufl_typecode_ (constant TC, read from the real       *)
(*       classes by the harness)                                           *)
(*   n   count (coef, const, label) / number (arg) / value (int) /         *)
(*       signed decimal mantissa (float, real part of cplx: value =        *)
(*       n / 10^p) / mantissa digit (floate: value = n * 10^(-p or +p))    *)
(*   p   part of an argument (NonePart = no part) / number of fraction     *)
(*       digits (float, cplx) / exponent magnitude (floate)                *)
(*   d   ufl_id of the mesh (const, geo) / floate: 0 = "e-", 1 = "e+"      *)
(*   sh  shape                                                             *)
(*   ix  multi-index entries (mi) or free-index ids (zero): an entry < 10  *)
(*       is FixedIndex(entry), an entry >= 10 is Index(count = entry-10)   *)
(*   fd  free-index dimensions (zero) / cplx: <<mantissa, fraction digits>> *)
(*       of the imaginary part                                             *)
(*   ops operands (sequence of terms)                                      *)
(***************************************************************************)
EXTENDS Integers, Sequences, FiniteSets, TLC, Json, SequencesExt

CONSTANTS TC,          \* record: class name -> _ufl_typecode_ of the real class
          Sharing,     \* TRUE: equal subterms are ONE python object (`is` = value equality);
                       \* FALSE: every occurrence is a separate object (`is` never holds)
          MILens,      \* lengths of the multi-indices present in the universe
          ReprRule,    \* "string": _cmp_terminal_by_repr compares the repr strings as python strings (pinned
                       \* tree); "natural": numbers embedded in the repr are compared by value
          MiLenRule,   \* "ignore": _cmp_multi_index as coded in the pinned tree (lengths are never
                       \* compared); "after" / "before": the two one-line repairs (compare the
                       \* lengths after / before the zip loop).  The harness probes the real
                       \* function and selects the transcription that matches the code under test.
          Big,         \* larger ExprList alphabet, more literals in the slice "repr"
          Slice,       \* which part of the term universe: "main", or "repr" = the literals whose reprs
                       \* exercise every way _cmp_terminal_by_repr decides (see PART 3)
          PrintTable   \* print universe and table (once per harness run)

NonePart == -1
Raise    == 7          \* stands for "TypeError raised" (None < int); never reached, see ASSUME

----------------------------------------------------------------------------
(* Term constructors                                                       *)

Blank == [k |-> "", nm |-> "", tc |-> 0, n |-> 0, p |-> 0, d |-> 0,
          sh |-> << >>, ix |-> << >>, fd |-> << >>, ops |-> << >>]

Coef(cnt, shape)   == [Blank EXCEPT !.k = "coef", !.nm = "Coefficient", !.tc = TC.Coefficient,
                                    !.n = cnt, !.sh = shape]
Const(cnt, dom, shape) == [Blank EXCEPT !.k = "const", !.nm = "Constant", !.tc = TC.Constant,
                                    !.n = cnt, !.d = dom, !.sh = shape]
Arg(num, part)     == [Blank EXCEPT !.k = "arg", !.nm = "Argument", !.tc = TC.Argument,
                                    !.n = num, !.p = part]
IntV(v)            == [Blank EXCEPT !.k = "int", !.nm = "IntValue", !.tc = TC.IntValue, !.n = v]
\* FloatValue(m / 10^q), written by python with exactly q fraction digits ("1.05" = FloatP(105, 2))
FloatP(m, q)       == [Blank EXCEPT !.k = "float", !.nm = "FloatValue", !.tc = TC.FloatValue, !.n = m, !.p = q]
FloatV(v10)        == FloatP(v10, 1)
\* FloatValue(m * 10^-e) (up = 0, e >= 5) or FloatValue(m * 10^e) (up = 1, e >= 16): python's exponent format
FloatE(m, e, up)   == [Blank EXCEPT !.k = "floate", !.nm = "FloatValue", !.tc = TC.FloatValue, !.n = m, !.p = e, !.d = up]
\* ComplexValue(rm / 10^rq + (im / 10^iq) j)
Cplx(rm, rq, im, iq) == [Blank EXCEPT !.k = "cplx", !.nm = "ComplexValue", !.tc = TC.ComplexValue,
                                    !.n = rm, !.p = rq, !.fd = <<im, iq>>]
ZeroV(shape, fi, dims) == [Blank EXCEPT !.k = "zero", !.nm = "Zero", !.tc = TC.Zero,
                                    !.sh = shape, !.ix = fi, !.fd = dims]
Geo(name, code, dom) == [Blank EXCEPT !.k = "geo", !.nm = name, !.tc = code, !.d = dom]
Mi(entries)        == [Blank EXCEPT !.k = "mi", !.nm = "MultiIndex", !.tc = TC.MultiIndex, !.ix = entries]
Lab(cnt)           == [Blank EXCEPT !.k = "label", !.nm = "Label", !.tc = TC.Label, !.n = cnt]
Op(name, code, operands) == [Blank EXCEPT !.k = "op", !.nm = name, !.tc = code, !.ops = operands]

IsTerminal(t) == t.k # "op"         \* a._ufl_is_terminal_

----------------------------------------------------------------------------
(* PART 1a.  Terminal comparators, as coded                                *)

Sign(x) == IF x < 0 THEN -1 ELSE IF x > 0 THEN 1 ELSE 0
MinOf(x, y) == IF x < y THEN x ELSE y

\* _cmp_multi_index: `for i, j in zip(a._indices, b._indices)`: decide on the first pair that
\* allows a decision; two free indices never decide; falling out of the zip returns 0.
RECURSIVE MiCmp(_, _, _)
MiCmp(x, y, i) ==
  IF i > MinOf(Len(x), Len(y)) THEN 0
  ELSE LET fix1 == x[i] < 10
           fix2 == y[i] < 10
       IN IF fix1 /\ fix2 THEN IF x[i] < y[i] THEN -1
                               ELSE IF x[i] > y[i] THEN 1
                               ELSE MiCmp(x, y, i + 1)
          ELSE IF fix1 THEN -1
          ELSE IF fix2 THEN 1
          ELSE MiCmp(x, y, i + 1)

MiCmpCoded(x, y) ==
  IF MiLenRule = "before" /\ Len(x) # Len(y) THEN (IF Len(x) < Len(y) THEN -1 ELSE 1)
  ELSE LET r == MiCmp(x, y, 1) IN
       IF r # 0 \/ MiLenRule = "ignore" \/ Len(x) = Len(y) THEN r
       ELSE IF Len(x) < Len(y) THEN -1 ELSE 1

\* _cmp_argument: python tuple comparison of (number, part)
ArgCmp(x, y) ==
  IF x.n < y.n THEN -1
  ELSE IF x.n > y.n THEN 1
  ELSE IF x.p = NonePart /\ y.p = NonePart THEN 0
  ELSE IF x.p = NonePart \/ y.p = NonePart THEN Raise
  ELSE IF x.p < y.p THEN -1 ELSE IF x.p > y.p THEN 1 ELSE 0

\* _cmp_coefficient: counts only
CoefCmp(x, y) == IF x.n < y.n THEN -1 ELSE IF x.n > y.n THEN 1 ELSE 0

\* _cmp_label: always 0

\* ---- model of __repr__ (character codes); the class-name prefix and the element repr are
\* ---- common to all terms of one type code and are represented by one stand-in character.
LP == 40  RP == 41  CM == 44  SPC == 32  DOT == 46  MINUS == 45  PLUS == 43  LE == 101  LJ == 106
AbsI(m) == IF m < 0 THEN 0 - m ELSE m
RECURSIVE DecNat(_)
DecNat(m) == IF m < 10 THEN <<48 + m>> ELSE DecNat(m \div 10) \o <<48 + (m % 10)>>
Dec(m) == IF m < 0 THEN <<MINUS>> \o DecNat(0 - m) ELSE DecNat(m)
RECURSIVE CommaJoin(_)
CommaJoin(s) == IF Len(s) = 1 THEN Dec(s[1]) ELSE Dec(s[1]) \o <<CM, SPC>> \o CommaJoin(Tail(s))
PyTuple(s) == IF Len(s) = 0 THEN <<LP, RP>>
              ELSE IF Len(s) = 1 THEN <<LP>> \o Dec(s[1]) \o <<CM, RP>>
              ELSE <<LP>> \o CommaJoin(s) \o <<RP>>
\* python's repr of a float with q fraction digits: the fraction is padded with zeros to q digits
RECURSIVE PadNat(_, _)
PadNat(v, q) == IF q = 0 THEN << >> ELSE PadNat(v \div 10, q - 1) \o <<48 + (v % 10)>>
Frac(m, q) == (IF m < 0 THEN <<MINUS>> ELSE << >>) \o DecNat(AbsI(m) \div (10 ^ q)) \o <<DOT>> \o PadNat(AbsI(m) % (10 ^ q), q)
ReprMesh(d) == <<77>> \o <<CM, SPC>> \o Dec(d) \o <<RP>>            \* Mesh(<element>, <ufl_id>)
Counts(ix) == [i \in 1..Len(ix) |-> ix[i] - 10]
Repr(t) ==
  CASE t.k = "const" -> ReprMesh(t.d) \o <<CM, SPC>> \o PyTuple(t.sh) \o <<CM, SPC>> \o Dec(t.n) \o <<RP>>
    [] t.k = "int"   -> Dec(t.n) \o <<RP>>
    [] t.k = "float" -> Frac(t.n, t.p) \o <<RP>>
    [] t.k = "floate" -> DecNat(t.n) \o <<LE, IF t.d = 1 THEN PLUS ELSE MINUS>> \o PadNat(t.p, 2) \o <<RP>>
    [] t.k = "cplx"  -> <<LP>> \o Frac(t.n, t.p) \o <<IF t.fd[1] < 0 THEN MINUS ELSE PLUS>>
                        \o Frac(AbsI(t.fd[1]), t.fd[2]) \o <<LJ, RP, RP>>
    [] t.k = "zero"  -> PyTuple(t.sh) \o <<CM, SPC>> \o PyTuple(Counts(t.ix)) \o <<CM, SPC>> \o PyTuple(t.fd) \o <<RP>>
    [] t.k = "geo"   -> ReprMesh(t.d) \o <<RP>>
    [] OTHER         -> << >>

\* python `x < y` on strings
RECURSIVE LexCmp(_, _)
LexCmp(s, t) ==
  IF s = << >> THEN (IF t = << >> THEN 0 ELSE -1)
  ELSE IF t = << >> THEN 1
  ELSE IF s[1] < t[1] THEN -1
  ELSE IF s[1] > t[1] THEN 1
  ELSE LexCmp(Tail(s), Tail(t))

\* Natural order ("natural" rule): python compares re.split(r"(\d+)", repr) with the digit runs
\* converted to int, i.e. lists alternating text and numbers.  The key of a repr is built directly
\* from the term, like Repr, but every decimal number becomes ONE entry (value - 10^7: below every
\* character and ordered by value), so the natural order is the lexicographic order of the keys
\* (a number against a character means the text of the first string ended earlier: smaller).
DecK(m) == IF m < 0 THEN <<MINUS, (0 - m) - 10000000>> ELSE <<m - 10000000>>
\* the digit run of the fraction is ONE number: its zero padding is invisible in the key ("1.05" ~ "1.5")
FracK(m, q) == (IF m < 0 THEN <<MINUS>> ELSE << >>) \o <<(AbsI(m) \div (10 ^ q)) - 10000000, DOT, (AbsI(m) % (10 ^ q)) - 10000000>>
RECURSIVE CommaJoinK(_)
CommaJoinK(s) == IF Len(s) = 1 THEN DecK(s[1]) ELSE DecK(s[1]) \o <<CM, SPC>> \o CommaJoinK(Tail(s))
PyTupleK(s) == IF Len(s) = 0 THEN <<LP, RP>>
               ELSE IF Len(s) = 1 THEN <<LP>> \o DecK(s[1]) \o <<CM, RP>>
               ELSE <<LP>> \o CommaJoinK(s) \o <<RP>>
KeyMesh(d) == <<77>> \o <<CM, SPC>> \o DecK(d) \o <<RP>>
ReprKey(t) ==
  CASE t.k = "const" -> KeyMesh(t.d) \o <<CM, SPC>> \o PyTupleK(t.sh) \o <<CM, SPC>> \o DecK(t.n) \o <<RP>>
    [] t.k = "int"   -> DecK(t.n) \o <<RP>>
    [] t.k = "float" -> FracK(t.n, t.p) \o <<RP>>
    [] t.k = "floate" -> DecK(t.n) \o <<LE, IF t.d = 1 THEN PLUS ELSE MINUS>> \o DecK(t.p) \o <<RP>>
    [] t.k = "cplx"  -> <<LP>> \o FracK(t.n, t.p) \o <<IF t.fd[1] < 0 THEN MINUS ELSE PLUS>>
                        \o FracK(AbsI(t.fd[1]), t.fd[2]) \o <<LJ, RP, RP>>
    [] t.k = "zero"  -> PyTupleK(t.sh) \o <<CM, SPC>> \o PyTupleK(Counts(t.ix)) \o <<CM, SPC>> \o PyTupleK(t.fd) \o <<RP>>
    [] t.k = "geo"   -> KeyMesh(t.d) \o <<RP>>
    [] OTHER         -> << >>

\* _cmp_terminal_by_repr.  "natural": `if kx != ky: return -1 if kx < ky else 1`, then the plain strings break
\* the tie of two different reprs with one key (branch "repr-tie": they differ in the zero padding of a digit run)
ReprCmp(x, y) ==
  LET kc == IF ReprRule = "natural" THEN LexCmp(ReprKey(x), ReprKey(y)) ELSE 0
      sc == LexCmp(Repr(x), Repr(y))
  IN IF kc # 0 THEN [c |-> kc, br |-> "repr"]
     ELSE [c |-> sc, br |-> IF ReprRule = "natural" THEN "repr-tie" ELSE "repr"]

\* the dispatch `if x in _terminal_cmps: ... else _cmp_terminal_by_repr`
TermCmp(x, y) ==
  IF x.tc = TC.MultiIndex       THEN [c |-> MiCmpCoded(x.ix, y.ix),  br |-> "multiindex"]
  ELSE IF x.tc = TC.Argument    THEN [c |-> ArgCmp(x, y),         br |-> "argument"]
  ELSE IF x.tc = TC.Coefficient THEN [c |-> CoefCmp(x, y),        br |-> "coefficient"]
  ELSE IF x.tc = TC.Label       THEN [c |-> 0,                    br |-> "label"]
  ELSE                               ReprCmp(x, y)

----------------------------------------------------------------------------
(* PART 1b.  The loop of cmp_expr, as coded.  A loop state is              *)
(*   [left, eqp, res, br, pc, nid, neq]                                    *)
(* left = the stack, eqp = equal_pairs, res = returned value, br = the     *)
(* branch that returned, nid/neq = how often `r is s` / `in equal_pairs`   *)
(* skipped a push (coverage of those branches).                            *)

Is(x, y) == Sharing /\ x = y                     \* python `x is y`

Start(x, y) ==
  IF Is(x, y)                                    \* if a is b: return 0
  THEN [left |-> << >>, eqp |-> {}, res |-> 0, br |-> "identical", pc |-> "done", nid |-> 0, neq |-> 0]
  ELSE [left |-> << <<x, y>> >>, eqp |-> {}, res |-> 0, br |-> "", pc |-> "loop", nid |-> 0, neq |-> 0]

Return(s, stack, value, branch) ==
  [s EXCEPT !.left = stack, !.res = value, !.br = branch, !.pc = "done"]

\* one evaluation of `while left:` plus, if the stack is not empty, one loop body
Iterate(s) ==
  LET m == Len(s.left) IN
  IF m = 0 THEN Return(s, << >>, 0, "exhausted")               \* loop ends: return 0
  ELSE
  LET pair == s.left[m]                                        \* pair = left.pop()
      rest == SubSeq(s.left, 1, m - 1)
      x == pair[1]
      y == pair[2]
  IN
  IF x.tc # y.tc THEN Return(s, rest, IF x.tc < y.tc THEN -1 ELSE 1, "typecode")
  ELSE IF IsTerminal(x) THEN
    LET r == TermCmp(x, y) IN
    IF r.c # 0 THEN Return(s, rest, r.c, r.br)
    ELSE [s EXCEPT !.left = rest, !.eqp = @ \cup {pair}]
  ELSE IF Is(x.ops, y.ops) THEN [s EXCEPT !.left = rest]       \* `continue`: pair is not recorded
  ELSE
    LET k == MinOf(Len(x.ops), Len(y.ops))                     \* zip(aops, bops)
        zipped == [i \in 1..k |-> <<x.ops[i], y.ops[i]>>]
        SameObj(q) == Is(q[1], q[2])
        Known(q) == Sharing /\ ~SameObj(q) /\ q \in s.eqp      \* (id(r), id(s)) in equal_pairs
        Keep(q) == ~SameObj(q) /\ ~Known(q)
        pushed == rest \o SelectSeq(zipped, Keep)              \* natural order; popped last-first
        s1 == [s EXCEPT !.left = pushed,
                        !.nid = @ + Len(SelectSeq(zipped, SameObj)),
                        !.neq = @ + Len(SelectSeq(zipped, Known))]
    IN IF Len(x.ops) # Len(y.ops)
       THEN Return(s1, pushed, IF Len(x.ops) < Len(y.ops) THEN -1 ELSE 1, "noperands")
       ELSE [s1 EXCEPT !.eqp = @ \cup {pair}]

\* The same loop as a function (used for the table and the laws); the state machine below
\* executes Iterate as its action and the invariant DoneAgreesWithFn ties the two together.
RECURSIVE RunLoop(_)
RunLoop(s) == IF s.pc = "done" THEN s ELSE RunLoop(Iterate(s))
CmpRun(x, y) == RunLoop(Start(x, y))

----------------------------------------------------------------------------
(* PART 3.  The term universe, in two slices (constant Slice).  "main":    *)
(* depth <= 2, plus four depth-3 terms that reach the equal_pairs branch.  *)
(* "repr": the literals compared by _cmp_terminal_by_repr (further down).  *)

f3  == Coef(3, << >>)       f12 == Coef(12, << >>)
w60 == Coef(60, <<2>>)      t20 == Coef(20, <<2, 2>>)
c7  == Const(7, 0, << >>)   c10 == Const(10, 0, << >>)   c8v == Const(8, 0, <<2>>)
l4  == Lab(4)               l9  == Lab(9)
i2  == IntV(2)

Terminals ==
  {f3, f12, w60, t20, c7, c10, c8v, Const(7, 1, << >>)}
  \cup {Arg(0, NonePart), Arg(1, 0), Arg(1, 1)}
  \cup {i2, IntV(10), IntV(-1), FloatV(25)}
  \cup {ZeroV(<< >>, << >>, << >>), ZeroV(<<2>>, << >>, << >>), ZeroV(<< >>, <<15>>, <<2>>)}
  \cup {Geo("SpatialCoordinate", TC.SpatialCoordinate, 0), Geo("SpatialCoordinate", TC.SpatialCoordinate, 1),
        Geo("FacetNormal", TC.FacetNormal, 0)}
  \cup {Mi(<<0>>), Mi(<<1>>), Mi(<<15>>), Mi(<<16>>),
        Mi(<<0, 1>>), Mi(<<0, 0>>), Mi(<<0, 15>>), Mi(<<15, 0>>), Mi(<<15, 16>>), Mi(<<16, 15>>)}
  \cup {l4, l9}

Indexeds ==
  {Op("Indexed", TC.Indexed, <<w60, Mi(e)>>) : e \in {<<0>>, <<1>>, <<15>>, <<16>>}}
  \cup {Op("Indexed", TC.Indexed, <<t20, Mi(e)>>) :
          e \in {<<0, 1>>, <<0, 0>>, <<0, 15>>, <<15, 0>>, <<15, 16>>, <<16, 15>>}}
Variables == {Op("Variable", TC.Variable, <<f3, l4>>), Op("Variable", TC.Variable, <<f3, l9>>),
              Op("Variable", TC.Variable, <<f12, l4>>)}
Divisions == {Op("Division", TC.Division, q) : q \in {<<f3, f12>>, <<f12, f3>>, <<f3, c7>>, <<c7, f3>>, <<f3, i2>>}}
Unaries   == {Op("Abs", TC.Abs, <<f3>>), Op("Abs", TC.Abs, <<f12>>),
              Op("PositiveRestricted", TC.PositiveRestricted, <<f3>>),
              Op("NegativeRestricted", TC.NegativeRestricted, <<f3>>)}
ListAlpha == {f3, Mi(<<0>>), Mi(<<0, 1>>), l4}
             \cup (IF Big THEN {f12, Mi(<<15>>), l9} ELSE {})
ExprLists == {Op("ExprList", TC.ExprList, << >>)}
             \cup {Op("ExprList", TC.ExprList, <<x>>) : x \in ListAlpha}
             \cup {Op("ExprList", TC.ExprList, <<x, y>>) : x \in ListAlpha, y \in ListAlpha}
v34 == Op("Variable", TC.Variable, <<f3, l4>>)
v39 == Op("Variable", TC.Variable, <<f3, l9>>)
v124 == Op("Variable", TC.Variable, <<f12, l4>>)
Deep == {Op("ExprList", TC.ExprList, <<v34, v34>>), Op("ExprList", TC.ExprList, <<v39, v39>>),
         Op("ExprList", TC.ExprList, <<v34, v124>>), Op("ExprList", TC.ExprList, <<v124, v34>>)}

RECURSIVE MiOK(_)
MiOK(t) == /\ (t.k = "mi" => Len(t.ix) \in MILens)
           /\ \A i \in 1..Len(t.ops) : MiOK(t.ops[i])

MainUniverse == {t \in Terminals \cup Indexeds \cup Variables \cup Divisions \cup Unaries \cup ExprLists \cup Deep : MiOK(t)}

\* ---- slice "repr": literals compared by _cmp_terminal_by_repr.  Their reprs cover: digit runs that differ
\* ---- in value with equal / different numbers of digits (natural and string order disagree: 1.5 / 1.25,
\* ---- 2.5 / 10.5), a sign against a digit, text against text ("." / "e-" / "e+", "+" / "-"), and reprs that
\* ---- differ ONLY in the zero padding of a digit run (1.5 / 1.05 / 1.005, 2.25 / 2.025, 0.5 / 0.05,
\* ---- -1.5 / -1.05, complex parts): the natural keys tie and the plain strings decide.  The exponent format
\* ---- pads too (1e-05) but never produces two reprs with one key.
F15 == FloatP(15, 1)      F105 == FloatP(105, 2)
ReprFloats == {F15, F105, FloatP(1005, 3), FloatP(125, 2), FloatP(25, 1), FloatP(105, 1),
               FloatP(225, 2), FloatP(2025, 3), FloatP(-15, 1), FloatP(-105, 2), FloatP(5, 1), FloatP(5, 2), FloatP(10, 1)}
              \cup (IF Big THEN {FloatP(10005, 4), FloatP(205, 2), FloatP(25, 2), FloatP(-1005, 3), FloatP(1005, 2)} ELSE {})
ReprExps   == {FloatE(1, 5, 0), FloatE(2, 5, 0), FloatE(1, 15, 0), FloatE(1, 16, 1)}
ReprCplx   == {Cplx(15, 1, 25, 1), Cplx(15, 1, 205, 2), Cplx(105, 2, 25, 1), Cplx(15, 1, -205, 2)}
              \cup (IF Big THEN {Cplx(-15, 1, 25, 1), Cplx(-105, 2, 25, 1), Cplx(15, 1, -25, 1)} ELSE {})
ReprTerminals == ReprFloats \cup ReprExps \cup ReprCplx \cup {i2, IntV(10), IntV(-1), IntV(-10), c7, c10, f3}
ReprOps == {Op("Division", TC.Division, q) : q \in {<<f3, F15>>, <<f3, F105>>, <<F15, f3>>, <<F105, f3>>}}
           \cup {Op("ExprList", TC.ExprList, q) : q \in {<<F105>>, <<F15, F105>>, <<F105, F15>>, <<F15, F15>>}}
ReprUniverse == ReprTerminals \cup ReprOps

Universe == IF Slice = "repr" THEN ReprUniverse ELSE MainUniverse
USeq == SetToSeq(Universe)
N == Len(USeq)

\* structural equality modulo the numbers of free indices and labels
RECURSIVE Erase(_)
Erase(t) ==
  LET ix2 == [i \in 1..Len(t.ix) |-> IF t.ix[i] >= 10 THEN 10 ELSE t.ix[i]]
      ops2 == [i \in 1..Len(t.ops) |-> Erase(t.ops[i])]
  IN [t EXCEPT !.n = IF t.k = "label" THEN 0 ELSE @, !.ix = << >> \o ix2, !.ops = << >> \o ops2]
\* the complete table, evaluated once (the concatenation forces an explicit tuple)
RowOf(i, j) == LET s == CmpRun(USeq[i], USeq[j])
               IN [i |-> i, j |-> j, c |-> s.res, br |-> s.br, nid |-> s.nid, neq |-> s.neq,
                   eq |-> Erase(USeq[i]) = Erase(USeq[j])]
TableSeq == << >> \o [q \in 1..(N * N) |-> RowOf(((q - 1) \div N) + 1, ((q - 1) % N) + 1)]
Cmp(i, j) == TableSeq[(i - 1) * N + j].c

----------------------------------------------------------------------------
(* PART 2.  Intended meaning                                               *)

ErasedSeq == << >> \o [i \in 1..N |-> Erase(USeq[i])]
Equiv(i, j) == ErasedSeq[i] = ErasedSeq[j]

Leq(i, j) == Cmp(i, j) <= 0

VARIABLES a, b, c,     \* indices into USeq
          st           \* loop state of cmp_expr(USeq[a], USeq[b])
vars == <<a, b, c, st>>

\* ---- behaviour 1: execute the loop for every ordered pair ----
InitLoop == a \in 1..N /\ b \in 1..N /\ c = 1 /\ st = Start(USeq[a], USeq[b])
Step     == st.pc = "loop" /\ st' = Iterate(st) /\ UNCHANGED <<a, b, c>>
SpecLoop == InitLoop /\ [][Step]_vars /\ WF_vars(Step)

Terminates       == <>(st.pc = "done")
StackBounded     == Len(st.left) <= 4 /\ Cardinality(st.eqp) <= 8
ResultIsSign     == st.pc = "done" => st.res \in {-1, 0, 1}
DoneAgreesWithFn == st.pc = "done" /\ st.br \notin {"laws", "pick"} =>
                      LET r == TableSeq[(a - 1) * N + b] IN r.c = st.res /\ r.br = st.br

\* ---- behaviour 2: the order laws over every triple (a chosen initially, (b, c) by one step,
\* ---- so that the N^3 triples are generated by all workers) ----
Idle     == [left |-> << >>, eqp |-> {}, res |-> 0, br |-> "laws", pc |-> "done", nid |-> 0, neq |-> 0]
InitLaws == a \in 1..N /\ b = 1 /\ c = 1 /\ st = [Idle EXCEPT !.br = "pick"]
Pick     == /\ st.br = "pick"
            /\ \E y \in 1..N, z \in 1..N : b' = y /\ c' = z
            /\ st' = Idle /\ UNCHANGED a
SpecLaws == InitLaws /\ [][Pick]_vars
Chosen   == st.br = "laws"

\* ---- both behaviours in one run ----
SpecAll  == (InitLoop \/ InitLaws) /\ [][Step \/ Pick]_vars /\ WF_vars(Step)

Reflexive        == Chosen => Cmp(a, a) = 0
Antisymmetric    == Chosen => Sign(Cmp(a, b)) = 0 - Sign(Cmp(b, a))
Transitive       == Chosen => (Leq(a, b) /\ Leq(b, c) => Leq(a, c))
Total            == Chosen => (Leq(a, b) \/ Leq(b, a))
ZeroImpliesEquiv == Chosen => (Cmp(a, b) = 0 => Equiv(a, b))      \* distinguishable terms are strictly ordered
EquivImpliesZero == Chosen => (Equiv(a, b) => Cmp(a, b) = 0)      \* the order does not look at index/label numbers
EqCongruence     == Chosen => (Cmp(a, b) = 0 => Cmp(a, c) = Cmp(b, c))

\* preconditions of the universe: counted terminals are told apart by their counts, and no
\* argument pair makes python compare None with an int
ASSUME \A x \in Terminals \cup ReprTerminals : \A y \in Terminals \cup ReprTerminals :
          /\ (x.k = "coef" /\ y.k = "coef" /\ x.n = y.n => x = y)
          /\ (x.k = "arg" /\ y.k = "arg" => ArgCmp(x, y) # Raise)
\* preconditions of the repr model of the literals: python writes a float positionally with exactly q
\* fraction digits iff the last one is not 0 (or q = 1) and 1e-4 <= |value| < 1e16; a zero value is Zero;
\* the parts of a complex value are written without ".0", so both have a fraction here
DecimalOK(m, q) == /\ q >= 1 /\ m # 0 /\ (q = 1 \/ AbsI(m) % 10 # 0) /\ AbsI(m) * 10000 >= 10 ^ q
ASSUME \A t \in Terminals \cup ReprTerminals :
          /\ (t.k = "float" => DecimalOK(t.n, t.p))
          /\ (t.k = "floate" => t.n \in 1..9 /\ t.d \in {0, 1} /\ t.p <= 99 /\ (IF t.d = 1 THEN t.p >= 16 ELSE t.p >= 5))
          /\ (t.k = "cplx" => /\ DecimalOK(t.n, t.p) /\ DecimalOK(t.fd[1], t.fd[2])
                              /\ AbsI(t.n) % (10 ^ t.p) # 0 /\ AbsI(t.fd[1]) % (10 ^ t.fd[2]) # 0)
ASSUME N = Cardinality(Universe)

ASSUME PrintTable => PrintT(ToJson([universe |-> USeq, table |-> TableSeq]))
=============================================================================
