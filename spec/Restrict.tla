------------------------------ MODULE Restrict ------------------------------
(***************************************************************************)
(* C17.  Restriction propagation on interior facets preserves the          *)
(* two-sided meaning of an integrand.                                      *)
(*                                                                         *)
(* On an interior facet every terminal has TWO values, one seen from the   *)
(* cell on side "+" and one from the cell on side "-".  An environment     *)
(* gives both; the admissible environments are the ones that satisfy the   *)
(* continuity the property assumes (ASSUME Admissible below).              *)
(*                                                                         *)
(* Terms (nested tuples, first entry = constructor):                       *)
(*   <<"T", k>>            terminal number k of the table Terms            *)
(*   <<"half">>            the literal 1/2 (used by avg)                    *)
(*   <<"grad", k>>         grad(terminal k)        (scalar form arguments)  *)
(*   <<"rv", k>>           reference_value(terminal k)                      *)
(*   <<"R", t, s>>         t(s), s in {"+", "-"}                            *)
(*   <<"var", t>>          variable(t)                                      *)
(*   <<"neg", t>>  <<"add", a, b>>  <<"mul", a, b>>  <<"div", a, b>>        *)
(*   <<"dot", a, b>>  <<"idx", a, i>>  <<"cond", p, q, a, b>> (p < q ? a : b)*)
(*   <<"jump", t>>  <<"jumpn", t>>  <<"avg", t>>   derived forms (Expand)   *)
(* Values are sequences of Gaussian rationals (module CQ): length 1 for a  *)
(* scalar, GDim for a vector in R^GDim; << >> = "no meaning".               *)
(*                                                                         *)
(* The mesh is described by what the rules and the mathematics distinguish: *)
(* degree and continuity of the coordinate field, geometric and topological *)
(* dimension.  The two facet normals are opposite exactly on an affine      *)
(* non-manifold mesh (NormalsOpposite); everywhere else (curved facets seen *)
(* through a degree >= 2 or broken coordinate field, surfaces with a kink    *)
(* at the facet: GDim > TDim) they are two independent vectors.              *)
(*                                                                         *)
(* The integral has a measure over one or several domains (meshes): the    *)
(* primary one and the intersect measures, each with its integral type.    *)
(* A domain on which the integral is an interior-facet integral is         *)
(* TWO-SIDED; on a domain where it is a cell or exterior-facet integral    *)
(* there is one cell only (ONE-SIDED): every terminal of that domain has   *)
(* one value, outside a restriction, and none below a restriction (there   *)
(* is no side "+" or "-" to speak of).  The integrand of                   *)
(* ds(mesh A) /\ dS(mesh B) is two-sided through the terminals of B.       *)
(*                                                                         *)
(*   M(t, e, c)    the meaning of the ORIGINAL integrand in environment e   *)
(*                 below restriction context c in {"0", "+", "-"}           *)
(*   P(t, c, d)    RestrictionPropagator AS CODED (one operator per         *)
(*                 handler of ufl/algorithms/apply_restrictions.py) in mode *)
(*                 d ("default": default restrictions applied, "none": just *)
(*                 propagate, "check"); returns the rewritten term or       *)
(*                 <<"reject", why>>                                        *)
(*                                                                         *)
(* The state machine builds terms bottom-up, one action per constructor    *)
(* call (the store is the construction history, operands are earlier       *)
(* entries or the atoms of the instance), then Apply(d) runs the           *)
(* propagation.  The invariants state the property for every term in the   *)
(* bound.  The dump (DumpInv) hands term, mode, verdict, predicted result   *)
(* structure and predicted values to the conformance check                  *)
(* (vf/checks/c17.py), which replays them on the real code.                 *)
(***************************************************************************)
EXTENDS Integers, Sequences, FiniteSets, TLC, Json, CQ

CONSTANTS
  MeshesC,    \* the worlds of this run: sequence of mesh kinds
              \*   [name, deg, h1, gdim, tdim]:
              \*   deg   embedded superdegree of the coordinate element of the mesh
              \*   h1    TRUE: the coordinate element is H1-conforming (continuous coordinate field)
              \*   gdim  geometric dimension (length of x, n, gradients, vector-valued functions)
              \*   tdim  topological dimension of the cells (gdim > tdim: immersed manifold)
  DomsC,      \* DomsC[w]: the domains of the integrals of world w: sequence of [mesh, it, inm]:
              \*   mesh  mesh kind of the domain (a record like those of MeshesC); DomsC[w][1].mesh = MeshesC[w]
              \*   it    integral type on that domain: "cell", "exterior_facet", "interior_facet"
              \*   inm   TRUE: the domain is in the Measure (domain 1: the primary domain; the others: its
              \*         intersect_measures); FALSE: the domain only occurs in the integrand
  TermsC,     \* TermsC[w]: the terminals of world w: sequence of [nm |-> STRING, kind |-> STRING, sh |-> 0 | 1,
              \*   dom |-> index into DomsC[w]: the domain the terminal lives on]
  TValC,      \* TValC[w][e][k] = [v |-> [p, m], g |-> [p, m], r |-> [p, m]]: value, gradient and
              \* reference value of terminal k of world w on the two sides in environment e
  NEnv,       \* number of environments
  Configs,    \* sequence of bounded instances explored in this run, each a record
              \*   [name, world, atoms, levels, maxnodes, maxdead]:
              \*   world    index into MeshesC / TermsC / TValC
              \*   atoms    sequence of terms available as operands from the start (the terminals,
              \*            and e.g. restricted terminals: results of one or two earlier calls)
              \*   levels   levels[i] = constructors allowed for the i-th call (last entry repeats)
              \*   maxnodes number of further constructor calls per term
              \*   maxdead  at most this many constructed entries may be unused at any time
  Modes       \* the propagation modes applied: subset of {"default", "none", "check"}

VARIABLES store, phase, res,
          tab    \* the constant tables, held in the state (TLC re-evaluates the definitions that
                 \* instantiate constants on every reference; a state component is read directly)
vars == <<store, phase, res, tab>>

Terms == tab.terms
TVal == tab.tval
Atoms == tab.atoms
\* the mesh kind of the instance
CoordDeg == tab.mesh.deg
CoordH1 == tab.mesh.h1
GDim == tab.mesh.gdim
TDim == tab.mesh.tdim

Envs == 1..NEnv
NT == Len(Terms)
Kind(k) == Terms[k].kind
DefaultSide == "+"          \* default_restriction_map["interior_facet"]

(* The measure.  default_restriction_map: interior-facet types -> "+", every other type -> None    *)
(* ("0" here).  FormData.__init__ builds the map domain -> default restriction from the integral    *)
(* types of the domains of the Measure; a domain that only occurs in the integrand gets the primary *)
(* integral type ("in case not all participating domains have been included in the Measure").      *)
IntegralTypes == {"cell", "exterior_facet", "interior_facet"}
InteriorFacet(it) == it = "interior_facet"
DefaultOf(it) == IF InteriorFacet(it) THEN DefaultSide ELSE "0"
EffTypeOn(ds, k) == IF ds[k].inm THEN ds[k].it ELSE ds[1].it
DefRestrOn(ds, k) == DefaultOf(EffTypeOn(ds, k))
TwoSidedOn(ds, k) == DefRestrOn(ds, k) # "0"
\* the guard of FormData.__init__ as coded: restrictions are propagated when some domain of the Measure
\* has an interior-facet integral type
PropagatesOn(ds) == \E k \in 1..Len(ds) : ds[k].inm /\ InteriorFacet(ds[k].it)
\* ... which must cover every integral with a two-sided domain (the integrals the property speaks of)
InScopeOn(ds) == \E k \in 1..Len(ds) : TwoSidedOn(ds, k)
Doms == tab.doms
Dom(k) == Terms[k].dom
MeshOf(k) == Doms[Dom(k)].mesh           \* the mesh kind of the domain of terminal k
DefRestr(k) == DefRestrOn(Doms, Dom(k))   \* default_restrictions[domain of terminal k]
OneSided(k) == DefRestr(k) = "0"

(* Terminal kinds and what the property assumes about their two values:               *)
(*   cg      coefficient of an H1 (continuous) element        v.p = v.m, r.p = r.m     *)
(*   dg      coefficient of a non-H1 element                  independent              *)
(*   arg     argument (test/trial function): the two sides address different rows or   *)
(*           columns of the facet tensor, independent whatever the element             *)
(*   x       spatial coordinate                               v.p = v.m                *)
(*   n       facet normal                              v.m = -v.p if NormalsOpposite    *)
(*   cellq   cell-wise geometric quantity (volume, cell normal, ...)  independent      *)
(*   facetq  quantity of the physical facet alone (facet area, ...)   v.p = v.m        *)
(*   sfacetq quantity of the facet as seen from the cell (reference normal: the facet  *)
(*           is a different local facet of either cell)      independent              *)
(*   const   Constant                                          v.p = v.m                *)
(*   lit     literal number                                    v.p = v.m                *)
(* Gradients (g) are independent for every kind: the gradient of a continuous          *)
(* function jumps across the facet.                                                     *)
(* On a one-sided domain every kind has one value (field p of the tables).                 *)
SingleKinds == {"cg", "x", "facetq", "const", "lit"}
ConstKinds == {"const", "lit"}
FormArg(k) == Kind(k) \in {"cg", "dg", "arg"}

(* The mathematics of the mesh kinds.  On an affine non-manifold mesh (continuous piecewise   *)
(* linear coordinates, GDim = TDim) a facet is a flat piece of a hyperplane shared by the two  *)
(* cells, and the two outward normals are opposite.  On an immersed manifold (GDim > TDim) the *)
(* facet normal is the conormal, tangent to the cell: the surface may have a kink at the       *)
(* facet, the two conormals are independent.  With a coordinate field of higher degree or a    *)
(* broken one the property assumes nothing about the two normals either.                        *)
MeshOK(ms) == /\ ms.deg \in 1..3 /\ ms.h1 \in BOOLEAN /\ ms.tdim \in 1..3 /\ ms.gdim \in ms.tdim..3
              /\ ms.gdim >= 2
OppositeOn(ms) == ms.deg <= 1 /\ ms.h1 /\ ms.gdim = ms.tdim
NormalsOpposite == OppositeOn(tab.mesh)
OppositeAt(k) == OppositeOn(MeshOf(k))     \* for the facet normal k (of whatever domain)
VLenOn(ms, sh) == IF sh = 0 THEN 1 ELSE ms.gdim

NegV(x) == [i \in 1..Len(x) |-> CNeg(x[i])]
Worlds == 1..Len(MeshesC)
DomsOK ==
  /\ Len(DomsC) = Len(MeshesC)
  /\ \A w \in Worlds : LET ds == DomsC[w] IN
       /\ Len(ds) >= 1 /\ ds[1].mesh = MeshesC[w] /\ ds[1].inm
       /\ \A k \in 1..Len(ds) : /\ MeshOK(ds[k].mesh) /\ ds[k].mesh.gdim = MeshesC[w].gdim   \* one physical space
                                 /\ ds[k].it \in IntegralTypes /\ ds[k].inm \in BOOLEAN
       /\ InScopeOn(ds)          \* interior-facet integrands only
       /\ \A k \in 1..Len(TermsC[w]) : TermsC[w][k].dom \in 1..Len(ds)
       \* (FormData._check_facet_geometry: no facet quantity on a domain with a cell integral)
       /\ \A k \in 1..Len(TermsC[w]) : TermsC[w][k].kind \in {"n", "facetq", "sfacetq"} => EffTypeOn(ds, TermsC[w][k].dom) # "cell"
ASSUME DomsOK
\* FormData's guard propagates exactly the integrals that have a two-sided domain, for every Measure
\* over up to three domains (the mesh kinds do not matter here)
MeasureShapes == UNION {[1..n -> [it : IntegralTypes, inm : BOOLEAN]] : n \in 1..3}
GuardCovers == \A ds \in MeasureShapes : ds[1].inm => (InScopeOn(ds) <=> PropagatesOn(ds))
ASSUME GuardCovers
Admissible ==
  /\ Len(TermsC) = Len(MeshesC) /\ Len(TValC) = Len(MeshesC)
  /\ \A w \in Worlds : MeshOK(MeshesC[w])
  /\ \A w \in Worlds : \A e \in Envs : \A k \in 1..Len(TermsC[w]) :
       LET ms == DomsC[w][TermsC[w][k].dom].mesh  tv == TValC[w][e][k]  kd == TermsC[w][k].kind  L == VLenOn(ms, TermsC[w][k].sh) IN
       /\ Len(tv.v.p) = L /\ Len(tv.v.m) = L
       /\ Len(tv.r.p) = L /\ Len(tv.r.m) = L
       /\ Len(tv.g.p) = ms.gdim /\ Len(tv.g.m) = ms.gdim
       /\ kd \in SingleKinds => tv.v.p = tv.v.m
       /\ kd = "cg" => tv.r.p = tv.r.m
       /\ (kd = "n" /\ OppositeOn(ms)) => tv.v.m = NegV(tv.v.p)
ASSUME Admissible
\* the environments must not assume more than the property grants: wherever the two normals are
\* independent, some environment gives them values that are not opposite (otherwise a rewrite
\* n('-') -> -n('+') would go unnoticed)
Discriminating ==
  \A w \in Worlds : \A k \in 1..Len(TermsC[w]) : (TermsC[w][k].kind = "n" /\ ~OppositeOn(DomsC[w][TermsC[w][k].dom].mesh)) =>
     \E e \in Envs : \A i \in 1..MeshesC[w].gdim : TValC[w][e][k].v.m[i] # CNeg(TValC[w][e][k].v.p[i])
ASSUME Discriminating

-----------------------------------------------------------------------------
(* Values *)
NoM == << >>
Side(pm, c) == IF c = "+" THEN pm.p ELSE pm.m
Add2(x, y) == [i \in 1..Len(x) |-> CAdd(x[i], y[i])]
Mul2(x, y) == IF Len(x) = 1 THEN [i \in 1..Len(y) |-> CMul(x[1], y[i])]
              ELSE [i \in 1..Len(x) |-> CMul(x[i], y[1])]
Div2(x, y) == [i \in 1..Len(x) |-> CDiv(x[i], y[1])]
RECURSIVE DotTo(_, _, _)
DotTo(x, y, n) == IF n = 1 THEN CMul(x[1], y[1]) ELSE CAdd(DotTo(x, y, n - 1), CMul(x[n], y[n]))
Dot2(x, y) == <<DotTo(x, y, Len(x))>>
Und(n) == [i \in 1..n |-> CU]
Cond2(p, q, a, b) == IF ~CCmpDef(p[1], q[1]) THEN Und(Len(a))
                     ELSE IF CLt(p[1], q[1]) THEN a ELSE b

-----------------------------------------------------------------------------
(* Shapes and the derived forms of ufl/operators.py *)
RECURSIVE Sh(_)
Sh(t) ==
  LET op == t[1] IN
  CASE op = "T" -> Terms[t[2]].sh
    [] op = "half" -> 0
    [] op = "grad" -> 1
    [] op = "rv" -> Terms[t[2]].sh
    [] op \in {"R", "var", "neg", "add", "div", "jump", "avg"} -> Sh(t[2])
    [] op = "mul" -> IF Sh(t[2]) = 0 THEN Sh(t[3]) ELSE Sh(t[2])
    [] op \in {"dot", "idx"} -> 0
    [] op = "cond" -> Sh(t[4])
    [] op = "jumpn" -> IF Sh(t[2]) = 0 THEN 1 ELSE 0

\* jump(v, n) is built with the facet normal named "n" (the one of the primary domain)
HasNormal == \E k \in 1..NT : Kind(k) = "n" /\ Terms[k].nm = "n"
NIdx == CHOOSE k \in 1..NT : Kind(k) = "n" /\ Terms[k].nm = "n"
Rz(t, s) == <<"R", t, s>>
\* jump(v) = v('+') - v('-');  avg(v) = 0.5*(v('+') + v('-'));
\* jump(v, n) = v('+')*n('+') + v('-')*n('-')  (scalar v)  |  dot(v('+'), n('+')) + dot(v('-'), n('-'))
Expand(t) ==
  CASE t[1] = "jump" -> <<"add", Rz(t[2], "+"), <<"neg", Rz(t[2], "-")>>>>
    [] t[1] = "avg" -> <<"mul", <<"half">>, <<"add", Rz(t[2], "+"), Rz(t[2], "-")>>>>
    [] t[1] = "jumpn" ->
         LET n == <<"T", NIdx>>
             op == IF Sh(t[2]) = 0 THEN "mul" ELSE "dot"
         IN <<"add", <<op, Rz(t[2], "+"), Rz(n, "+")>>, <<op, Rz(t[2], "-"), Rz(n, "-")>>>>
Derived == {"jump", "avg", "jumpn"}

-----------------------------------------------------------------------------
(* (a) The meaning of the original integrand.  Below a restriction every terminal takes the  *)
(* value of that side; outside, only a terminal whose two values agree has a value; a       *)
(* restriction inside a restriction has no meaning.  "No meaning" is strict.  A terminal of a *)
(* one-sided domain has its one value outside a restriction and none below one (a constant   *)
(* is a number and has its value everywhere).                                                 *)
RECURSIVE M(_, _, _)
M(t, e, c) ==
  LET op == t[1] IN
  CASE op = "T" ->
         LET pm == TVal[e][t[2]].v IN
         IF OneSided(t[2]) THEN (IF c = "0" \/ Kind(t[2]) \in ConstKinds THEN pm.p ELSE NoM)
         ELSE IF c = "0" THEN (IF Kind(t[2]) \in SingleKinds THEN pm.p ELSE NoM) ELSE Side(pm, c)
    [] op = "half" -> <<CQ2(1, 2)>>
    [] op = "grad" -> IF OneSided(t[2]) THEN (IF c = "0" THEN TVal[e][t[2]].g.p ELSE NoM)
                      ELSE IF c = "0" THEN NoM ELSE Side(TVal[e][t[2]].g, c)
    [] op = "rv" ->
         LET pm == TVal[e][t[2]].r IN
         IF OneSided(t[2]) THEN (IF c = "0" THEN pm.p ELSE NoM)
         ELSE IF c = "0" THEN (IF Kind(t[2]) = "cg" THEN pm.p ELSE NoM) ELSE Side(pm, c)
    [] op = "R" -> IF c # "0" THEN NoM ELSE M(t[2], e, t[3])
    [] op = "var" -> M(t[2], e, c)
    [] op = "neg" -> LET x == M(t[2], e, c) IN IF Len(x) = 0 THEN NoM ELSE NegV(x)
    [] op \in {"add", "mul", "div", "dot"} ->
         LET x == M(t[2], e, c)
             y == M(t[3], e, c)
         IN IF Len(x) = 0 \/ Len(y) = 0 THEN NoM
            ELSE (CASE op = "add" -> Add2(x, y)
                    [] op = "mul" -> Mul2(x, y)
                    [] op = "div" -> Div2(x, y)
                    [] op = "dot" -> Dot2(x, y))
    [] op = "idx" -> LET x == M(t[2], e, c) IN IF Len(x) = 0 THEN NoM ELSE <<x[t[3] + 1]>>
    [] op = "cond" ->
         LET p == M(t[2], e, c)
             q == M(t[3], e, c)
             a == M(t[4], e, c)
             b == M(t[5], e, c)
         IN IF Len(p) = 0 \/ Len(q) = 0 \/ Len(a) = 0 \/ Len(b) = 0 THEN NoM ELSE Cond2(p, q, a, b)
    [] op \in Derived -> M(Expand(t), e, c)

(* The same notion, structurally: every side-dependent terminal below exactly one restriction. *)
RECURSIVE Valid(_, _)
Valid(t, c) ==
  LET op == t[1] IN
  CASE op = "T" -> IF OneSided(t[2]) THEN c = "0" \/ Kind(t[2]) \in ConstKinds
                   ELSE c # "0" \/ Kind(t[2]) \in SingleKinds
    [] op = "half" -> TRUE
    [] op = "grad" -> IF OneSided(t[2]) THEN c = "0" ELSE c # "0"
    [] op = "rv" -> IF OneSided(t[2]) THEN c = "0" ELSE c # "0" \/ Kind(t[2]) = "cg"
    [] op = "R" -> c = "0" /\ Valid(t[2], t[3])
    [] op \in {"var", "neg", "idx"} -> Valid(t[2], c)
    [] op \in {"add", "mul", "div", "dot"} -> Valid(t[2], c) /\ Valid(t[3], c)
    [] op = "cond" -> Valid(t[2], c) /\ Valid(t[3], c) /\ Valid(t[4], c) /\ Valid(t[5], c)
    [] op \in Derived -> Valid(Expand(t), c)

\* a restriction below a restriction
RECURSIVE Nested(_, _)
Nested(t, inR) ==
  LET op == t[1] IN
  CASE op \in {"T", "half", "grad", "rv"} -> FALSE
    [] op = "R" -> inR \/ Nested(t[2], TRUE)
    [] op \in {"var", "neg", "idx"} -> Nested(t[2], inR)
    [] op \in {"add", "mul", "div", "dot"} -> Nested(t[2], inR) \/ Nested(t[3], inR)
    [] op = "cond" -> Nested(t[2], inR) \/ Nested(t[3], inR) \/ Nested(t[4], inR) \/ Nested(t[5], inR)
    [] op \in Derived -> Nested(Expand(t), inR)

\* the kinds of the terminals that lack a restriction (for the report)
RECURSIVE MissingKinds(_, _)
MissingKinds(t, c) ==
  LET op == t[1] IN
  CASE op = "T" -> IF c = "0" /\ ~OneSided(t[2]) /\ Kind(t[2]) \notin SingleKinds THEN {Kind(t[2])} ELSE {}
    [] op = "half" -> {}
    [] op = "grad" -> IF c = "0" /\ ~OneSided(t[2]) THEN {"grad"} ELSE {}
    [] op = "rv" -> IF c = "0" /\ ~OneSided(t[2]) /\ Kind(t[2]) # "cg" THEN {"rv-" \o Kind(t[2])} ELSE {}
    [] op = "R" -> MissingKinds(t[2], t[3])
    [] op \in {"var", "neg", "idx"} -> MissingKinds(t[2], c)
    [] op \in {"add", "mul", "div", "dot"} -> MissingKinds(t[2], c) \cup MissingKinds(t[3], c)
    [] op = "cond" -> MissingKinds(t[2], c) \cup MissingKinds(t[3], c) \cup MissingKinds(t[4], c) \cup MissingKinds(t[5], c)
    [] op \in Derived -> MissingKinds(Expand(t), c)

\* the kinds of the terminals of a one-sided domain that stand below a restriction (the third way
\* an integrand can fail to have a meaning)
RECURSIVE OneSidedRestricted(_, _)
OneSidedRestricted(t, c) ==
  LET op == t[1] IN
  CASE op = "T" -> IF c # "0" /\ OneSided(t[2]) /\ Kind(t[2]) \notin ConstKinds THEN {Kind(t[2])} ELSE {}
    [] op = "half" -> {}
    [] op = "grad" -> IF c # "0" /\ OneSided(t[2]) THEN {"grad"} ELSE {}
    [] op = "rv" -> IF c # "0" /\ OneSided(t[2]) THEN {"rv-" \o Kind(t[2])} ELSE {}
    [] op = "R" -> OneSidedRestricted(t[2], t[3])
    [] op \in {"var", "neg", "idx"} -> OneSidedRestricted(t[2], c)
    [] op \in {"add", "mul", "div", "dot"} -> OneSidedRestricted(t[2], c) \cup OneSidedRestricted(t[3], c)
    [] op = "cond" -> OneSidedRestricted(t[2], c) \cup OneSidedRestricted(t[3], c) \cup OneSidedRestricted(t[4], c) \cup OneSidedRestricted(t[5], c)
    [] op \in Derived -> OneSidedRestricted(Expand(t), c)

-----------------------------------------------------------------------------
(* (b) RestrictionPropagator as coded.  c = current_restriction ("0" = None); d = the mode:     *)
(*   "default"  default_restrictions = {mesh: "+"}   (FormData, do_apply_default_restrictions)  *)
(*   "none"     default_restrictions = None: "just propagate restrictions", nothing is checked   *)
(*   "check"    default_restrictions = {mesh: "+"}, apply_default = False: the map is only used  *)
(*              to check (exists only in trees that carry the fix proposed for C17)              *)
Validates(d) == d # "none"
Defaults(d) == d = "default"
Rej(why) == <<"reject", why>>
IsRej(t) == t[1] = "reject"

\* _ignore_restriction
IgnoreRestriction(o, c, d) == o
\* r = default_restrictions[domain of o] (o = terminal k, grad or reference_value of terminal k): "0" = None
RestrOf(o) == DefRestr(o[2])
\* _require_restriction
RequireRestriction(o, c, d) ==
  IF ~Validates(d) THEN (IF c = "0" THEN o ELSE Rz(o, c))
  ELSE LET r == RestrOf(o) IN
       IF c = "0" THEN (IF r = "0" THEN o ELSE Rej("must-be-restricted"))
       ELSE IF r = "0" THEN Rej("inconsistent") ELSE Rz(o, c)
\* _default_restricted
DefaultRestricted(o, c, d) ==
  IF ~Validates(d) THEN (IF c = "0" THEN o ELSE Rz(o, c))
  ELSE LET r == RestrOf(o) IN
       IF c = "0" THEN (IF r = "0" \/ ~Defaults(d) THEN o ELSE Rz(o, r))
       ELSE IF r = "0" THEN Rej("inconsistent") ELSE Rz(o, c)
\* _opposite
Opposite(o, c, d) ==
  IF ~Validates(d) THEN (IF c = "0" THEN o ELSE Rz(o, c))
  ELSE LET r == RestrOf(o) IN
       IF c = "0" THEN (IF r = "0" THEN o ELSE Rej("must-be-restricted"))
       ELSE IF r = "0" THEN Rej("inconsistent")
       ELSE IF c = r THEN Rz(o, r) ELSE <<"neg", Rz(o, r)>>
\* coefficient
Coefficient(o, c, d) == IF Kind(o[2]) = "cg" THEN DefaultRestricted(o, c, d) ELSE RequireRestriction(o, c, d)
\* facet_normal: the guard as coded (degree, H1, gd == td), not NormalsOpposite: that the rewrite is
\* applied only where the normals are opposite is part of what Sound checks
\* (D = the domain of the normal: its own mesh kind)
FacetNormal(o, c, d) ==
  LET D == MeshOf(o[2]) IN
  IF D.deg <= 1 /\ D.h1 /\ D.gdim = D.tdim THEN Opposite(o, c, d) ELSE RequireRestriction(o, c, d)
\* the terminal rules
Terminal(o, c, d) ==
  LET k == Kind(o[2]) IN
  CASE k \in {"cg", "dg"} -> Coefficient(o, c, d)
    [] k = "arg" -> RequireRestriction(o, c, d)        \* argument
    [] k = "x" -> DefaultRestricted(o, c, d)           \* spatial_coordinate
    [] k = "n" -> FacetNormal(o, c, d)
    [] k = "cellq" -> RequireRestriction(o, c, d)      \* geometric_cell_quantity
    [] k = "facetq" -> DefaultRestricted(o, c, d)      \* facet_area, min/max_facet_edge_length, ...
    [] k = "sfacetq" -> RequireRestriction(o, c, d)    \* geometric_facet_quantity (reference_normal, ...)
    [] k = "const" -> IgnoreRestriction(o, c, d)       \* constant
    [] k = "lit" -> IgnoreRestriction(o, c, d)         \* constant_value
\* grad = _require_restriction: the Grad node itself is restricted, propagation stops here
Grad(o, c, d) == RequireRestriction(o, c, d)
\* reference_value: follows the rule of the underlying terminal
ReferenceValue(o, c, d) ==
  LET g == Terminal(<<"T", o[2]>>, c, d) IN
  IF IsRej(g) THEN g ELSE IF g[1] = "R" THEN Rz(o, g[3]) ELSE o

RECURSIVE P(_, _, _)
\* restricted: a second propagator for the side; only two levels
Restricted(o, c, d) == IF c # "0" THEN Rej("twice") ELSE P(o[2], o[3], d)
\* variable: stripped
Variable(o, c, d) == P(o[2], c, d)
\* operator = reuse_if_untouched: rebuilt from the propagated operands
Operator1(o, c, d) == LET a == P(o[2], c, d) IN IF IsRej(a) THEN a ELSE <<o[1], a>>
Operator2(o, c, d) ==
  LET a == P(o[2], c, d)
      b == P(o[3], c, d)
  IN IF IsRej(a) THEN a ELSE IF IsRej(b) THEN b ELSE <<o[1], a, b>>
OperatorIdx(o, c, d) == LET a == P(o[2], c, d) IN IF IsRej(a) THEN a ELSE <<"idx", a, o[3]>>
OperatorCond(o, c, d) ==
  LET p == P(o[2], c, d)
      q == P(o[3], c, d)
      a == P(o[4], c, d)
      b == P(o[5], c, d)
  IN IF IsRej(p) THEN p ELSE IF IsRej(q) THEN q ELSE IF IsRej(a) THEN a ELSE IF IsRej(b) THEN b
     ELSE <<"cond", p, q, a, b>>

P(t, c, d) ==
  LET op == t[1] IN
  CASE op = "T" -> Terminal(t, c, d)
    [] op = "half" -> IgnoreRestriction(t, c, d)
    [] op = "grad" -> Grad(t, c, d)
    [] op = "rv" -> ReferenceValue(t, c, d)
    [] op = "R" -> Restricted(t, c, d)
    [] op = "var" -> Variable(t, c, d)
    [] op = "neg" -> Operator1(t, c, d)
    [] op \in {"add", "mul", "div", "dot"} -> Operator2(t, c, d)
    [] op = "idx" -> OperatorIdx(t, c, d)
    [] op = "cond" -> OperatorCond(t, c, d)
    [] op \in Derived -> P(Expand(t), c, d)

\* FormData.__init__ (do_apply_restrictions): an integral none of whose Measure domains has an
\* interior-facet type is left alone; the others go through apply_restrictions with the map DefRestr
FormDataP(t, d) == IF PropagatesOn(Doms) THEN P(t, "0", d) ELSE t

-----------------------------------------------------------------------------
(* The shape of a correct result: restrictions wrap terminals (or grad / reference_value of a *)
(* terminal) directly, every side-dependent terminal is wrapped, constants are not; with      *)
(* defaults every non-constant terminal is wrapped and, where the two normals are opposite,  *)
(* only n('+') occurs.  The terminals of a one-sided domain are never wrapped.                *)
RECURSIVE Normal(_, _)
Normal(t, d) ==
  LET op == t[1] IN
  CASE op = "T" -> Kind(t[2]) \in ConstKinds \/ OneSided(t[2]) \/ (~Defaults(d) /\ Kind(t[2]) \in SingleKinds)
    [] op = "half" -> TRUE
    [] op = "grad" -> OneSided(t[2])
    [] op = "rv" -> OneSided(t[2]) \/ (~Defaults(d) /\ Kind(t[2]) = "cg")
    [] op = "R" ->
         LET u == t[2] IN
         /\ u[1] \in {"T", "grad", "rv"}
         /\ ~OneSided(u[2])
         /\ u[1] = "T" => Kind(u[2]) \notin ConstKinds
         /\ (Validates(d) /\ u[1] = "T" /\ Kind(u[2]) = "n" /\ OppositeAt(u[2])) => t[3] = DefaultSide
    [] op = "var" -> FALSE
    [] op \in {"neg", "idx"} -> Normal(t[2], d)
    [] op \in {"add", "mul", "div", "dot"} -> Normal(t[2], d) /\ Normal(t[3], d)
    [] op = "cond" -> Normal(t[2], d) /\ Normal(t[3], d) /\ Normal(t[4], d) /\ Normal(t[5], d)
    [] op \in Derived -> FALSE

\* summary of a result handed to the conformance check: which terminal (through which chain)
\* occurs below which restriction
RECURSIVE Leaves(_, _)
Leaves(t, c) ==
  LET op == t[1] IN
  CASE op = "T" -> IF Kind(t[2]) = "lit" THEN {} ELSE {[nm |-> Terms[t[2]].nm, ch |-> "", s |-> c]}
    [] op = "half" -> {}
    [] op = "grad" -> {[nm |-> Terms[t[2]].nm, ch |-> "grad", s |-> c]}
    [] op = "rv" -> {[nm |-> Terms[t[2]].nm, ch |-> "rv", s |-> c]}
    [] op = "R" -> Leaves(t[2], t[3])
    [] op \in {"var", "neg", "idx"} -> Leaves(t[2], c)
    [] op \in {"add", "mul", "div", "dot"} -> Leaves(t[2], c) \cup Leaves(t[3], c)
    [] op = "cond" -> Leaves(t[2], c) \cup Leaves(t[3], c) \cup Leaves(t[4], c) \cup Leaves(t[5], c)
    [] op \in Derived -> Leaves(Expand(t), c)

\* only literals below (ufl folds such expressions into one literal when they are built)
RECURSIVE LitOnly(_)
LitOnly(t) ==
  LET op == t[1] IN
  CASE op = "T" -> Kind(t[2]) = "lit"
    [] op = "half" -> TRUE
    [] op \in {"grad", "rv"} -> FALSE
    [] op \in {"R", "var", "neg", "idx", "jump", "avg"} -> LitOnly(t[2])
    [] op = "jumpn" -> FALSE
    [] op \in {"add", "mul", "div", "dot"} -> LitOnly(t[2]) /\ LitOnly(t[3])
    [] op = "cond" -> LitOnly(t[2]) /\ LitOnly(t[3]) /\ LitOnly(t[4]) /\ LitOnly(t[5])

-----------------------------------------------------------------------------
(* The state machine.  Operands are addressed by pool index: 1..NA the atoms, NA + i the     *)
(* i-th constructed entry.                                                                    *)
NA == Len(Atoms)
PoolT(i) == IF i <= NA THEN Atoms[i] ELSE store[i - NA].t
PoolSh(i) == IF i <= NA THEN tab.ash[i] ELSE store[i - NA].sh
Ids == 1..(NA + Len(store))
MaxNodes == tab.maxnodes
MaxDead == tab.maxdead
Room == Len(store) < MaxNodes
CurOps == LET k == Len(store) + 1  L == tab.levels IN L[IF k <= Len(L) THEN k ELSE Len(L)]

Dead(st) == Cardinality({i \in 1..Len(st) : \A j \in 1..Len(st) : \A a \in 1..Len(st[j].args) : st[j].args[a] # NA + i})

Push(t, sh, args) ==
  LET st == Append(store, [t |-> t, sh |-> sh, args |-> args]) IN
  /\ ~LitOnly(t)
  /\ MaxDead > 0 => Dead(st) <= MaxDead + 1          \* the new entry itself is not used yet
  /\ store' = st
  /\ UNCHANGED <<phase, res, tab>>

NoRes == [d |-> "none", out |-> <<"none">>, vals |-> << >>]
\* shapes of the atoms, computed from the constants
RECURSIVE ShC(_, _)
ShC(w, t) == CASE t[1] = "T" -> TermsC[w][t[2]].sh [] t[1] = "grad" -> 1 [] t[1] = "rv" -> TermsC[w][t[2]].sh
               [] t[1] = "R" -> ShC(w, t[2])
Init == /\ store = << >> /\ phase = "build" /\ res = NoRes
        /\ \E c \in 1..Len(Configs) : LET cf == Configs[c] IN
             tab = [world |-> cf.world, mesh |-> MeshesC[cf.world], doms |-> DomsC[cf.world], terms |-> TermsC[cf.world],
                    tval |-> TValC[cf.world], cfg |-> cf.name, atoms |-> cf.atoms,
                    ash |-> [i \in 1..Len(cf.atoms) |-> ShC(cf.world, cf.atoms[i])], levels |-> cf.levels,
                    maxnodes |-> cf.maxnodes, maxdead |-> cf.maxdead]

Use(a) == Push(Atoms[a], tab.ash[a], << >>)
DoGrad(k) == FormArg(k) /\ Terms[k].sh = 0 /\ Push(<<"grad", k>>, 1, << >>)
DoRefVal(k) == FormArg(k) /\ Push(<<"rv", k>>, Terms[k].sh, << >>)
DoRestrict(a, s) == Push(Rz(PoolT(a), s), PoolSh(a), <<a>>)
DoVar(a) == PoolT(a)[1] # "var" /\ Push(<<"var", PoolT(a)>>, PoolSh(a), <<a>>)
DoNeg(a) == Push(<<"neg", PoolT(a)>>, PoolSh(a), <<a>>)
\* a + b and b + a are the same object in ufl (operands are sorted): one order is enough
DoAdd(a, b) == a <= b /\ PoolSh(a) = PoolSh(b) /\ Push(<<"add", PoolT(a), PoolT(b)>>, PoolSh(a), <<a, b>>)
DoMul(a, b) == (PoolSh(a) = 0 \/ PoolSh(b) = 0)
               /\ Push(<<"mul", PoolT(a), PoolT(b)>>, IF PoolSh(a) = 0 THEN PoolSh(b) ELSE PoolSh(a), <<a, b>>)
DoDiv(a, b) == PoolSh(b) = 0 /\ Push(<<"div", PoolT(a), PoolT(b)>>, PoolSh(a), <<a, b>>)
DoDot(a, b) == PoolSh(a) = 1 /\ PoolSh(b) = 1 /\ Push(<<"dot", PoolT(a), PoolT(b)>>, 0, <<a, b>>)
DoIdx(a, i) == PoolSh(a) = 1 /\ Push(<<"idx", PoolT(a), i>>, 0, <<a>>)
\* conditional(lt(p, q), a, b); ufl returns a itself when the branches are equal
DoCond(p, q, a, b) ==
  /\ PoolSh(p) = 0 /\ PoolSh(q) = 0 /\ PoolSh(a) = PoolSh(b) /\ PoolT(a) # PoolT(b)
  /\ Push(<<"cond", PoolT(p), PoolT(q), PoolT(a), PoolT(b)>>, PoolSh(a), <<p, q, a, b>>)
\* (jump of an expression without a domain is folded to zero by ufl: literal operands excluded)
DoJump(a) == ~LitOnly(PoolT(a)) /\ Push(<<"jump", PoolT(a)>>, PoolSh(a), <<a>>)
DoAvg(a) == ~LitOnly(PoolT(a)) /\ Push(<<"avg", PoolT(a)>>, PoolSh(a), <<a>>)
DoJumpN(a) == HasNormal /\ ~LitOnly(PoolT(a)) /\ Push(<<"jumpn", PoolT(a)>>, IF PoolSh(a) = 0 THEN 1 ELSE 0, <<a>>)

Applied == phase = "applied"
Top == store[Len(store)].t
Apply(d) ==
  /\ Len(store) >= 1
  \* vals: the meaning of the original integrand in every environment (computed once, read by the
  \* invariants and the dump)
  /\ res' = [d |-> d, out |-> FormDataP(Top, d), vals |-> [e \in Envs |-> M(Top, e, "0")]]
  /\ phase' = "applied"
  /\ UNCHANGED <<store, tab>>

\* MaxDead = 0: every call must use the previous result (terms are combs over the atoms)
LastId == NA + Len(store)
Comb1(a) == MaxDead > 0 \/ Len(store) = 0 \/ a = LastId
Comb2(a, b) == MaxDead > 0 \/ Len(store) = 0 \/ a = LastId \/ b = LastId
Comb4(p, q, a, b) == MaxDead > 0 \/ Len(store) = 0 \/ p = LastId \/ q = LastId \/ a = LastId \/ b = LastId

Build ==
  /\ Room
  /\ LET ops == CurOps IN
     \/ "use" \in ops /\ Comb1(0) /\ \E a \in 1..NA : Use(a)
     \/ \E k \in 1..NT : Comb1(0) /\
          \/ "grad" \in ops /\ DoGrad(k)
          \/ "rv" \in ops /\ DoRefVal(k)
     \/ \E a \in Ids : Comb1(a) /\
          \/ "R" \in ops /\ \E s \in {"+", "-"} : DoRestrict(a, s)
          \/ "var" \in ops /\ DoVar(a)
          \/ "neg" \in ops /\ DoNeg(a)
          \/ "idx" \in ops /\ \E i \in 0..(GDim - 1) : DoIdx(a, i)
          \/ "jump" \in ops /\ DoJump(a)
          \/ "avg" \in ops /\ DoAvg(a)
          \/ "jumpn" \in ops /\ DoJumpN(a)
     \/ \E a \in Ids : \E b \in Ids : Comb2(a, b) /\
          \/ "add" \in ops /\ DoAdd(a, b)
          \/ "mul" \in ops /\ DoMul(a, b)
          \/ "div" \in ops /\ DoDiv(a, b)
          \/ "dot" \in ops /\ DoDot(a, b)
     \/ "cond" \in ops /\ \E a \in Ids : \E b \in Ids : \E p \in Ids : \E q \in Ids :
          Comb4(p, q, a, b) /\ DoCond(p, q, a, b)

Next == phase = "build" /\ (Build \/ \E d \in Modes : Apply(d))
Spec == Init /\ [][Next]_vars

-----------------------------------------------------------------------------
(* The property, for every term in the bound *)
Accepted == ~IsRej(res.out)

\* the two definitions of "has a two-sided meaning" agree
MeaningIffValid ==
  Applied => \A e \in Envs : (Len(res.vals[e]) > 0) <=> Valid(Top, "0")

\* an accepted valid integrand keeps its value in every admissible environment, and the result
\* has every side-dependent terminal directly below exactly one restriction
Sound ==
  (Applied /\ Accepted /\ Valid(Top, "0")) =>
     /\ \A e \in Envs : M(res.out, e, "0") = res.vals[e]
     /\ Normal(res.out, res.d)
     /\ Valid(res.out, "0") /\ ~Nested(res.out, FALSE)

\* in the checking modes the propagator accepts exactly the integrands that have a meaning
RejectsExactlyInvalid == (Applied /\ Validates(res.d)) => (Accepted <=> Valid(Top, "0"))
\* a double restriction is rejected in every mode
RejectsDouble == (Applied /\ Nested(Top, FALSE)) => ~Accepted
\* "just propagate" (mode "none", documented as such) rejects nothing else: an integrand with an
\* unrestricted side-dependent terminal PASSES.  Whether anything in the pipeline rejects it is
\* judged by the conformance check on compute_form_data (these terms carry dev = TRUE in the dump).
PropagateOnlyAsCoded == (Applied /\ ~Validates(res.d)) => (Accepted <=> ~Nested(Top, FALSE))
Deviation == Applied /\ Accepted /\ ~Valid(Top, "0")
DeviationOnlyWithoutDefaults == Deviation => res.d = "none"
\* what is accepted without a meaning is returned without a meaning (nothing is invented)
DeviationKeepsMissing == Deviation => \A e \in Envs : Len(M(res.out, e, "0")) = 0

TypeOK ==
  /\ phase \in {"build", "applied"} /\ res.d \in {"default", "none", "check"}
  /\ tab.world \in Worlds /\ tab.mesh = MeshesC[tab.world] /\ tab.doms = DomsC[tab.world]
  /\ tab.terms = TermsC[tab.world] /\ tab.tval = TValC[tab.world]
  /\ \A i \in 1..Len(store) : store[i].sh = Sh(store[i].t)
  /\ Len(store) <= MaxNodes

-----------------------------------------------------------------------------
(* Dump for the conformance check: one record per applied, live term *)
RECURSIVE Anc(_, _)
Anc(i, acc) ==
  IF i <= NA \/ i \in acc THEN acc
  ELSE LET as == store[i - NA].args
           RECURSIVE Go(_, _)
           Go(k, s) == IF k > Len(as) THEN s ELSE Go(k + 1, Anc(as[k], s))
       IN Go(1, acc \cup {i})
Live == Len(store) >= 1 /\ (NA + 1)..(NA + Len(store)) \subseteq Anc(NA + Len(store), {})

RECURSIVE SetToSeq(_)
SetToSeq(S) == IF S = {} THEN << >> ELSE LET x == CHOOSE y \in S : TRUE IN <<x>> \o SetToSeq(S \ {x})
DumpRec ==
  [cfg |-> tab.cfg, mesh |-> tab.mesh.name, term |-> Top, sh |-> store[Len(store)].sh, d |-> res.d,
   verdict |-> IF Accepted THEN "accept" ELSE "reject",
   why |-> IF Accepted THEN "" ELSE res.out[2],
   out |-> IF Accepted THEN res.out ELSE <<"none">>,
   leaves |-> IF Accepted THEN SetToSeq(Leaves(res.out, "0")) ELSE << >>,
   inleaves |-> SetToSeq(Leaves(Top, "0")),
   valid |-> Valid(Top, "0"), nested |-> Nested(Top, FALSE),
   missing |-> SetToSeq(MissingKinds(Top, "0")),
   onesided |-> SetToSeq(OneSidedRestricted(Top, "0")),
   dev |-> Deviation, opp |-> NormalsOpposite,
   \* the terminals of a one-sided domain; the facet normals whose two values are opposite
   os |-> SetToSeq({Terms[k].nm : k \in {j \in 1..NT : OneSided(j)}}),
   oppn |-> SetToSeq({Terms[k].nm : k \in {j \in 1..NT : Kind(j) = "n" /\ OppositeAt(j)}}),
   prop |-> PropagatesOn(Doms),
   vals |-> res.vals]
DumpInv == (Applied /\ Live) => PrintT(ToJson(DumpRec))
=============================================================================
