------------------------------- MODULE Degree -------------------------------
(***************************************************************************)
(* C18.  The estimated polynomial degree never underestimates the true     *)
(* degree (ufl/algorithms/estimate_degrees.py, SumDegreeEstimator), for    *)
(* integrands that are polynomials in the spatial coordinates on affine    *)
(* simplex cells.                                                          *)
(*                                                                         *)
(* The module has four parts.                                              *)
(*                                                                         *)
(*  ELEMENTS  records [kind, degree, refsize, physsize, subs, bshape, map]; *)
(*            the TRUE degree of a PHYSICAL component is defined from      *)
(*            first principles: CompDeg walks the sub-elements with their  *)
(*            PHYSICAL sizes (a Piola map on an affine cell is a constant  *)
(*            matrix, it does not change polynomial degrees).  Mixed and   *)
(*            symmetric elements nest freely; the sub-elements of a        *)
(*            symmetric element may be vector / tensor valued, Piola       *)
(*            mapped or composite, with any block shape and symmetry map.  *)
(*  TERMS     a term algebra for polynomial integrands (one node per UFL   *)
(*            expression node) with shapes and free indices, built step by *)
(*            step: one action per constructor of the public API.          *)
(*  MEANING   TD(t, component, index values) = degree of the generic       *)
(*            polynomial denoted by that scalar component (ZERO = the zero *)
(*            polynomial); TrueDeg(t) = its maximum.  The compositional    *)
(*            rules are themselves validated against brute-force           *)
(*            arithmetic: PV evaluates the same term to a polynomial in    *)
(*            two variables (coefficient maps over the rationals of CQ,    *)
(*            form-argument components = full polynomials with positive    *)
(*            prime coefficients), PolyDeg reads off its degree.           *)
(*  ESTIMATE  Est = SumDegreeEstimator AS CODED, one operator H_<handler>  *)
(*            per handler, including the component walk of `indexed` that  *)
(*            uses REFERENCE value sizes (IndexedRule = "reference").      *)
(*            IndexedRule = "physical" is the intended rule.               *)
(*                                                                         *)
(* Invariants: EstSafe (Est >= TrueDeg) -- fails as coded when a mixed     *)
(* element has a sub-element whose physical and reference sizes differ or  *)
(* for the flattened component of a symmetric element, holds with the      *)
(* physical rule; AsCodedSafe / RulesAgreeOnPlainPools (the as-coded rule  *)
(* is right where the sizes agree); PolyRules (the degree rules are sound, *)
(* and exact for generic data).  Checked = all of them in one evaluation   *)
(* per term + the JSON line handed to the conformance check.               *)
(*                                                                         *)
(* Encoding.  A term is a record [op, n, mi, args]:                        *)
(*   "coef"  n = index into Elems               (Coefficient)              *)
(*   "arg"   n = index into Elems, mi = <<number>>  (Argument)             *)
(*   "x"     SpatialCoordinate, "X" CellCoordinate                         *)
(*   "lit"   n = value (IntValue), "zero" mi = shape (Zero)                *)
(*   "sum" "prod" "inner" "dot" "outer"  two operands                      *)
(*   "pow"   n = literal non-negative integer exponent                     *)
(*   "indexed" mi = multi-index: entries < 10 fixed, >= 10 index names     *)
(*   "ctensor" mi = the indices mapped to axes (ComponentTensor)           *)
(*   "isum"  mi = <<index name, dimension>>  (IndexSum)                    *)
(*   "list"  ListTensor, "grad" Grad, "transposed" Transposed              *)
(*   "conj"  Conj (ufl writes inner(f, v) as conj(inner(v, f)))            *)
(*   "ident" n = dimension (Identity; made by apply_derivatives)           *)
(*   "const" a scalar Constant on the mesh (offered through Coords)        *)
(*   "variable" Variable (ufl.variable(e): e with a label)                 *)
(* FORM OPERATIONS on a finished scalar integrand t (roots; nothing is     *)
(* built on top of them):                                                  *)
(*   "gderiv" mi = <<k, number>>: derivative(t*dx, tuple DerivTuples[k] of *)
(*           Coefficients) -- the direction is a new Argument `number`, on *)
(*           the space of the coefficient or, for a tuple of >= 2, on the  *)
(*           mixed element that derivative() builds from their elements    *)
(*           (element index Len(Elems) + k, see ElemAt)                    *)
(*   "cderiv" mi = <<n, number>>: derivative(t*dx, SpatialCoordinate, V),  *)
(*           the shape derivative in the direction V = Argument `number`   *)
(*           on Elems[n] (a vector element of GDim components)             *)
(* (TLC cannot mix strings and integers in one set, hence the integer      *)
(* encoding of multi-index entries.)                                       *)
(***************************************************************************)
EXTENDS CQ, FiniteSets, TLC, Json

CONSTANTS GDim,        \* geometric dimension of the (affine simplex) mesh
          TDim,        \* topological dimension (TDim < GDim: immersed manifold)
          Elems,       \* the element pool: sequence of element records
          CoefElems,   \* indices into Elems offered as Coefficient terminals
          ArgSlots,    \* pairs <<index into Elems, argument number>> offered as Arguments
          Coords,      \* subset of {"x", "X", "const"}
          Lits,        \* integer literals offered (>= 1)
          Pows,        \* exponents offered (>= 0)
          Ops,         \* enabled constructors
          MaxDepth,    \* maximal depth of a term (0: nothing is built, Seeds only)
          RightDepth,  \* maximal depth of the second operand of a binary constructor
          IdxNames,    \* index names offered, subset of 10..17
          IndexedRule, \* "reference" = as coded, "physical" = intended
          WithPoly,    \* TRUE: also evaluate every term by polynomial arithmetic (GDim = TDim = 2)
          PolyMax,     \* polynomials are kept up to this total degree
          AsCodedHolds,\* TRUE: the as-coded rule is expected to be safe on this pool (checked by Checked)
          DumpOn,      \* TRUE: print every term with its estimates and true degree as JSON
          Seeds,       \* initial stacks: {<< >>} = enumerate; a set of <<t>> = evaluate given terms
          DerivTuples, \* sequence of tuples (sequences of distinct indices into Elems, of Coefficients)
                       \* offered to derivative(form, tuple) ("gderiv")
          DirSlots     \* indices into Elems (vector elements of GDim components, identity pullback)
                       \* offered as direction space of a shape derivative ("cderiv")

ZERO == -1                      \* "degree" of the zero polynomial
Max2(a, b) == IF a >= b THEN a ELSE b
SetMax(S) == IF S = {} THEN ZERO ELSE CHOOSE x \in S : \A y \in S : y <= x
RECURSIVE SeqSumI(_)
SeqSumI(s) == IF s = <<>> THEN 0 ELSE Head(s) + SeqSumI(Tail(s))
SeqMaxI(s) == SetMax({s[i] : i \in DOMAIN s})
Front(s) == SubSeq(s, 1, Len(s) - 1)
Rev(s) == [k \in DOMAIN s |-> s[Len(s) + 1 - k]]

-----------------------------------------------------------------------------
(* ELEMENTS *)

\* records [kind, degree, refsize, physsize, subs, bshape, map]; bshape / map only for symmetric
El(k, d, r, p, ss, bs, m) ==
  [kind |-> k, degree |-> d, refsize |-> r, physsize |-> p, subs |-> ss, bshape |-> bs, map |-> m]
P(d)       == El("P", d, 1, 1, <<>>, <<>>, <<>>)
VecP(d, n) == El("vecP", d, n, n, <<>>, <<>>, <<>>)
\* a vector element with a (co/contra)variant Piola map: TDim reference, GDim physical components
RT(d)      == El("RT-like", d, TDim, GDim, <<>>, <<>>, <<>>)
\* embedded_superdegree of a mixed / symmetric element = max over the sub-elements
SubMaxDeg(ss) == SeqMaxI([i \in DOMAIN ss |-> ss[i].degree])
SubRefSum(ss) == SeqSumI([i \in DOMAIN ss |-> ss[i].refsize])
\* the physical value of a mixed element is the concatenation of the FLATTENED physical values
\* of its sub-elements (MixedPullback.physical_value_shape)
Mixed(ss)  == El("mixed", SubMaxDeg(ss), SubRefSum(ss),
                 SeqSumI([i \in DOMAIN ss |-> ss[i].physsize]), ss, <<>>, <<>>)
\* symmetric element (SymmetricPullback): a block of shape bshape whose entry with row-major
\* position b (0-based) IS the sub-element map[b + 1] -- a sub-element INDEX, 1-based here.  All
\* sub-elements have the same reference value shape; they may be vector / tensor valued, Piola
\* mapped or themselves composite: the physical shape is bshape \o (physical shape of a
\* sub-element) (SymmetricPullback.physical_value_shape), physical component (block, c) is
\* component c of sub-element map[block].  The reference value is the concatenation of the
\* sub-elements' reference values.
RECURSIVE SeqProdI(_)
SeqProdI(s) == IF s = <<>> THEN 1 ELSE Head(s) * SeqProdI(Tail(s))
SymG(bs, m, ss) == El("symmetric", SubMaxDeg(ss), SubRefSum(ss), SeqProdI(bs) * ss[1].physsize, ss, bs, m)
\* the usual symmetric 2x2 tensor of three sub-elements
SymMap == <<1, 2, 2, 3>>
Sym(ss)    == SymG(<<2, 2>>, SymMap, ss)

RECURSIVE PhysShape(_)
PhysShape(e) == CASE e.kind = "P" -> <<>>
                  [] e.kind = "symmetric" -> e.bshape \o PhysShape(e.subs[1])
                  [] OTHER -> <<e.physsize>>

\* well-formed pool elements (what ufl accepts)
RECURSIVE ElemOK(_)
ElemOK(e) ==
  /\ \A i \in DOMAIN e.subs : ElemOK(e.subs[i])
  /\ e.kind \in {"mixed", "symmetric"} => Len(e.subs) >= 1
  /\ e.kind = "symmetric" =>
        /\ Len(e.map) = SeqProdI(e.bshape)
        /\ \A b \in DOMAIN e.map : e.map[b] \in DOMAIN e.subs
        /\ \A i \in DOMAIN e.subs : /\ e.subs[i].refsize = e.subs[1].refsize
                                     /\ PhysShape(e.subs[i]) = PhysShape(e.subs[1])
                                     /\ e.subs[i].physsize = e.subs[1].physsize
ASSUME PoolOK == \A i \in DOMAIN Elems : ElemOK(Elems[i])

\* The element of a form argument.  Indices beyond the pool denote the elements that
\* derivative(form, (f1, .., fm)) BUILDS for its direction (formoperators._MixedElement): a mixed
\* element of the coefficients' elements in the order of the tuple (physical value = concatenation of
\* the flattened physical values; embedded_superdegree = max over the sub-elements).  For a single
\* coefficient the direction lives on the coefficient's own space.
DerivElem(W) == IF Len(W) = 1 THEN Elems[W[1]] ELSE Mixed([j \in DOMAIN W |-> Elems[W[j]]])
ElemAt(n) == IF n <= Len(Elems) THEN Elems[n] ELSE DerivElem(DerivTuples[n - Len(Elems)])
DerivArgElem(k) == IF Len(DerivTuples[k]) = 1 THEN DerivTuples[k][1] ELSE Len(Elems) + k
ASSUME DerivOK ==
  /\ \A k \in DOMAIN DerivTuples :
        LET W == DerivTuples[k] IN /\ Len(W) >= 1
                                   /\ \A j \in DOMAIN W : W[j] \in DOMAIN Elems
                                   /\ \A i, j \in DOMAIN W : i # j => W[i] # W[j]
  /\ \A n \in DirSlots : n \in DOMAIN Elems /\ Elems[n].kind = "vecP" /\ Elems[n].physsize = GDim
RECURSIVE HasPiola(_)
HasPiola(e) == e.kind = "RT-like" \/ \E i \in DOMAIN e.subs : HasPiola(e.subs[i])

\* row-major flattening of a fixed multi-index (flatten_multiindex / shape_to_strides)
RECURSIVE Flat(_, _)
Flat(c, sh) == IF c = <<>> THEN 0
               ELSE c[Len(c)] + sh[Len(sh)] * Flat(Front(c), Front(sh))

\* walk the sub-elements in order; <<i, offset>> of the one covering flat component c when every
\* sub-element occupies `refsize` ("reference") or `physsize` ("physical") slots; <<0, 0>> if none
RECURSIVE Walk(_, _, _, _, _)
Walk(subs, c, i, off, by) ==
  IF i > Len(subs) THEN <<0, 0>>
  ELSE LET sz == IF by = "reference" THEN subs[i].refsize ELSE subs[i].physsize IN
       IF c < off + sz THEN <<i, off>> ELSE Walk(subs, c, i + 1, off + sz, by)

\* TRUE degree of physical flat component c of an element
RECURSIVE CompDeg(_, _)
CompDeg(e, c) ==
  CASE e.kind = "mixed" -> LET w == Walk(e.subs, c, 1, 0, "physical") IN
                           CompDeg(e.subs[w[1]], c - w[2])
    [] e.kind = "symmetric" -> LET ps == e.subs[1].physsize IN
                               CompDeg(e.subs[e.map[(c \div ps) + 1]], c % ps)
    [] OTHER -> e.degree

\* the position of physical flat component c among the INDEPENDENT components of the element
\* (components of a symmetric element that are the same function get the same position)
IndepComp(e, c) == IF e.kind = "symmetric"
                   THEN LET ps == e.subs[1].physsize IN e.map[(c \div ps) + 1] * ps + (c % ps)
                   ELSE c

-----------------------------------------------------------------------------
(* TERMS *)

N(op, n, mi, args) == [op |-> op, n |-> n, mi |-> mi, args |-> args]
Terminals == {"coef", "arg", "x", "X", "lit", "zero", "ident", "const"}
FormOps == {"gderiv", "cderiv"}
IsName(k) == k >= 10
IdxDom == 10..17
Env0 == [k \in IdxDom |-> 0]

RECURSIVE Shape(_), Free(_), Depth(_), ArgNums(_), HasDomain(_), HasCoord(_), HasCoef(_, _)

\* Free(t): set of <<index name, dimension>>
Names(F) == {p[1] : p \in F}
DimOf(F, k) == (CHOOSE p \in F : p[1] = k)[2]

Shape(t) ==
  LET a == t.args IN
  CASE t.op \in {"coef", "arg"} -> PhysShape(ElemAt(t.n))
    [] t.op = "ident" -> <<t.n, t.n>>
    [] t.op \in FormOps -> <<>>
    [] t.op = "x" -> <<GDim>>
    [] t.op = "X" -> <<TDim>>
    [] t.op \in {"lit", "const"} -> <<>>
    [] t.op = "zero" -> t.mi
    [] t.op \in {"sum", "isum", "conj", "variable"} -> Shape(a[1])
    [] t.op \in {"prod", "pow", "indexed", "inner"} -> <<>>
    [] t.op = "ctensor" -> LET F == Free(a[1]) IN [k \in DOMAIN t.mi |-> DimOf(F, t.mi[k])]
    [] t.op = "list" -> <<Len(a)>> \o Shape(a[1])
    [] t.op = "grad" -> Shape(a[1]) \o <<GDim>>
    [] t.op = "dot" -> Front(Shape(a[1])) \o Tail(Shape(a[2]))
    [] t.op = "outer" -> Shape(a[1]) \o Shape(a[2])
    [] t.op = "transposed" -> Rev(Shape(a[1]))

Free(t) ==
  LET a == t.args IN
  CASE t.op \in Terminals \cup FormOps -> {}
    [] t.op \in {"sum", "pow", "list", "grad", "transposed", "conj", "variable"} -> Free(a[1])
    [] t.op \in {"prod", "inner", "dot", "outer"} -> Free(a[1]) \cup Free(a[2])
    [] t.op = "indexed" -> LET sh == Shape(a[1]) IN
         Free(a[1]) \cup {<<t.mi[k], sh[k]>> : k \in {j \in DOMAIN t.mi : IsName(t.mi[j])}}
    [] t.op = "ctensor" -> {p \in Free(a[1]) : \A k \in DOMAIN t.mi : t.mi[k] # p[1]}
    [] t.op = "isum" -> {p \in Free(a[1]) : p[1] # t.mi[1]}

\* an IndexSum is created implicitly by a product with a repeated index: it does not count
Depth(t) == IF t.args = <<>> THEN 0
            ELSE IF t.op \in {"isum"} \cup FormOps THEN Depth(t.args[1])   \* (nor does a form operation)
            ELSE 1 + SeqMaxI([k \in DOMAIN t.args |-> Depth(t.args[k])])
ArgNums(t) == IF t.op = "arg" THEN {t.mi[1]}
              ELSE (IF t.op \in FormOps THEN {t.mi[2]} ELSE {}) \cup UNION {ArgNums(t.args[k]) : k \in DOMAIN t.args}
HasCoef(t, n) == (t.op = "coef" /\ t.n = n) \/ \E k \in DOMAIN t.args : HasCoef(t.args[k], n)
HasDomain(t) == t.op \in {"coef", "arg", "x", "X", "const"} \cup FormOps \/ \E k \in DOMAIN t.args : HasDomain(t.args[k])
HasCoord(t) == t.op \in {"x", "X"} \/ \E k \in DOMAIN t.args : HasCoord(t.args[k])
Rank(t) == Len(Shape(t))

\* all component tuples of a shape
RECURSIVE Comps(_)
Comps(sh) == IF sh = <<>> THEN {<<>>}
             ELSE {<<k>> \o c : k \in 0..(sh[1] - 1), c \in Comps(Tail(sh))}
\* all value assignments of a set of free indices
RECURSIVE EnvsOf(_)
EnvsOf(F) == IF F = {} THEN {Env0}
             ELSE LET p == CHOOSE q \in F : TRUE IN
                  {[e EXCEPT ![p[1]] = v] : e \in EnvsOf(F \ {p}), v \in 0..(p[2] - 1)}
Bind(env, names, vals) ==
  [k \in IdxDom |-> IF \E j \in DOMAIN names : names[j] = k
                    THEN vals[CHOOSE j \in DOMAIN names : names[j] = k] ELSE env[k]]
Resolve(mi, env) == [k \in DOMAIN mi |-> IF IsName(mi[k]) THEN env[mi[k]] ELSE mi[k]]

-----------------------------------------------------------------------------
(* MEANING 1: degrees of the generic polynomial, compositionally.                            *)
(* Degrees are ZERO (the zero polynomial) or >= 0.                                           *)
DAdd(a, b) == Max2(a, b)                                        \* generic sum
DMul(a, b) == IF a = ZERO \/ b = ZERO THEN ZERO ELSE a + b      \* product
DPow(a, n) == IF n = 0 THEN 0 ELSE IF a = ZERO THEN ZERO ELSE a * n
DGrad(a)   == IF a <= 0 THEN ZERO ELSE a - 1                    \* one spatial derivative

RECURSIVE TD(_, _, _), DG(_, _, _, _), DS(_, _, _, _)
TD(t, c, env) ==
  LET a == t.args IN
  CASE t.op \in {"coef", "arg"} -> CompDeg(ElemAt(t.n), Flat(c, PhysShape(ElemAt(t.n))))
    [] t.op \in {"x", "X"} -> 1          \* affine cell: x is affine in X and conversely
    [] t.op \in {"lit", "const"} -> 0    \* a Constant is a number (nonzero for generic data)
    [] t.op = "zero" -> ZERO
    [] t.op = "ident" -> IF c[1] = c[2] THEN 0 ELSE ZERO
    \* the integrand of derivative(t*dx, tuple of coefficients): the Gateaux derivative of t
    [] t.op = "gderiv" -> DG(a[1], <<>>, env, DerivTuples[t.mi[1]])
    \* the integrand of the shape derivative of t*dx in the direction V, on the reference cell:
    \* (t detJ)' = t' detJ + t detJ', detJ' = detJ div V
    [] t.op = "cderiv" -> DAdd(DS(a[1], <<>>, env, t.mi[1]),
                               DMul(TD(a[1], <<>>, env), DGrad(ElemAt(t.mi[1]).degree)))
    [] t.op = "sum" -> DAdd(TD(a[1], c, env), TD(a[2], c, env))
    [] t.op = "prod" -> DMul(TD(a[1], <<>>, env), TD(a[2], <<>>, env))
    [] t.op = "pow" -> DPow(TD(a[1], <<>>, env), t.n)
    [] t.op = "indexed" -> TD(a[1], Resolve(t.mi, env), env)
    [] t.op = "ctensor" -> TD(a[1], <<>>, Bind(env, t.mi, c))
    [] t.op = "isum" -> SetMax({TD(a[1], c, [env EXCEPT ![t.mi[1]] = v]) : v \in 0..(t.mi[2] - 1)})
    [] t.op = "list" -> TD(a[c[1] + 1], Tail(c), env)
    [] t.op = "grad" -> DGrad(TD(a[1], Front(c), env))
    [] t.op = "inner" -> SetMax({DMul(TD(a[1], cc, env), TD(a[2], cc, env)) : cc \in Comps(Shape(a[1]))})
    [] t.op = "dot" -> LET ra == Rank(a[1])
                           ca == SubSeq(c, 1, ra - 1)
                           cb == SubSeq(c, ra, Len(c))
                           kd == Shape(a[2])[1] IN
                       SetMax({DMul(TD(a[1], ca \o <<k>>, env), TD(a[2], <<k>> \o cb, env)) : k \in 0..(kd - 1)})
    [] t.op = "outer" -> LET ra == Rank(a[1]) IN
                         DMul(TD(a[1], SubSeq(c, 1, ra), env), TD(a[2], SubSeq(c, ra + 1, Len(c)), env))
    [] t.op = "transposed" -> TD(a[1], Rev(c), env)
    [] t.op \in {"conj", "variable"} -> TD(a[1], c, env)          \* real polynomials; a label changes nothing

\* Degree of the Gateaux derivative of component c of t w.r.t. the coefficients on the elements W
\* (a tuple) in a generic direction: the increment of a coefficient is a generic member of the same
\* space; Leibniz.  Exact for generic data (all coefficients positive: nothing cancels).
DProd2(ta, da, tb, db) == DAdd(DMul(da, tb), DMul(ta, db))        \* (a b)' = a' b + a b'
DG(t, c, env, W) ==
  LET a == t.args IN
  CASE t.op = "coef" -> IF \E j \in DOMAIN W : W[j] = t.n
                        THEN CompDeg(Elems[t.n], Flat(c, PhysShape(Elems[t.n]))) ELSE ZERO
    [] t.op \in Terminals \ {"coef"} -> ZERO
    [] t.op = "sum" -> DAdd(DG(a[1], c, env, W), DG(a[2], c, env, W))
    [] t.op = "prod" -> DProd2(TD(a[1], <<>>, env), DG(a[1], <<>>, env, W), TD(a[2], <<>>, env), DG(a[2], <<>>, env, W))
    [] t.op = "pow" -> IF t.n = 0 THEN ZERO
                       ELSE DMul(DPow(TD(a[1], <<>>, env), t.n - 1), DG(a[1], <<>>, env, W))
    [] t.op = "indexed" -> DG(a[1], Resolve(t.mi, env), env, W)
    [] t.op = "ctensor" -> DG(a[1], <<>>, Bind(env, t.mi, c), W)
    [] t.op = "isum" -> SetMax({DG(a[1], c, [env EXCEPT ![t.mi[1]] = v], W) : v \in 0..(t.mi[2] - 1)})
    [] t.op = "list" -> DG(a[c[1] + 1], Tail(c), env, W)
    [] t.op = "grad" -> DGrad(DG(a[1], Front(c), env, W))
    [] t.op = "inner" -> SetMax({DProd2(TD(a[1], cc, env), DG(a[1], cc, env, W), TD(a[2], cc, env), DG(a[2], cc, env, W)) : cc \in Comps(Shape(a[1]))})
    [] t.op = "dot" -> LET ra == Rank(a[1])
                           ca == SubSeq(c, 1, ra - 1)
                           cb == SubSeq(c, ra, Len(c))
                           kd == Shape(a[2])[1] IN
                       SetMax({DProd2(TD(a[1], ca \o <<k>>, env), DG(a[1], ca \o <<k>>, env, W),
                                      TD(a[2], <<k>> \o cb, env), DG(a[2], <<k>> \o cb, env, W)) : k \in 0..(kd - 1)})
    [] t.op = "outer" -> LET ra == Rank(a[1])  c1 == SubSeq(c, 1, ra)  c2 == SubSeq(c, ra + 1, Len(c)) IN
                         DProd2(TD(a[1], c1, env), DG(a[1], c1, env, W), TD(a[2], c2, env), DG(a[2], c2, env, W))
    [] t.op = "transposed" -> DG(a[1], Rev(c), env, W)
    [] t.op \in {"conj", "variable"} -> DG(a[1], c, env, W)

\* Degree of the MATERIAL derivative of component c of t under a deformation of the mesh in the
\* direction V (Argument on Elems[n], degree kd) -- an UPPER BOUND (exact cancellations occur, e.g.
\* grad(x) = I is not moved at all, and on an interval everything cancels):
\*   x' = V;  X, literals and the reference values of form arguments do not move;  a Piola mapped
\*   argument is (a constant matrix made of J) * reference value, J' = grad_X V of degree kd - 1;
\*   grad(g) = grad_X(g) K:  grad(g)' = grad(g') - grad(g) grad(V).
DS(t, c, env, n) ==
  LET a == t.args
      kd == ElemAt(n).degree IN
  CASE t.op \in {"coef", "arg"} -> IF HasPiola(ElemAt(t.n))
                                    THEN DMul(CompDeg(ElemAt(t.n), Flat(c, PhysShape(ElemAt(t.n)))), DGrad(kd))
                                    ELSE ZERO
    [] t.op = "x" -> CompDeg(ElemAt(n), c[1])
    [] t.op \in Terminals \ {"coef", "arg", "x"} -> ZERO
    [] t.op = "sum" -> DAdd(DS(a[1], c, env, n), DS(a[2], c, env, n))
    [] t.op = "prod" -> DProd2(TD(a[1], <<>>, env), DS(a[1], <<>>, env, n), TD(a[2], <<>>, env), DS(a[2], <<>>, env, n))
    [] t.op = "pow" -> IF t.n = 0 THEN ZERO
                       ELSE DMul(DPow(TD(a[1], <<>>, env), t.n - 1), DS(a[1], <<>>, env, n))
    [] t.op = "indexed" -> DS(a[1], Resolve(t.mi, env), env, n)
    [] t.op = "ctensor" -> DS(a[1], <<>>, Bind(env, t.mi, c), n)
    [] t.op = "isum" -> SetMax({DS(a[1], c, [env EXCEPT ![t.mi[1]] = v], n) : v \in 0..(t.mi[2] - 1)})
    [] t.op = "list" -> DS(a[c[1] + 1], Tail(c), env, n)
    [] t.op = "grad" -> DAdd(DGrad(DS(a[1], Front(c), env, n)),
                             DMul(DGrad(TD(a[1], Front(c), env)), DGrad(kd)))
    [] t.op = "inner" -> SetMax({DProd2(TD(a[1], cc, env), DS(a[1], cc, env, n), TD(a[2], cc, env), DS(a[2], cc, env, n)) : cc \in Comps(Shape(a[1]))})
    [] t.op = "dot" -> LET ra == Rank(a[1])
                           ca == SubSeq(c, 1, ra - 1)
                           cb == SubSeq(c, ra, Len(c))
                           kk == Shape(a[2])[1] IN
                       SetMax({DProd2(TD(a[1], ca \o <<k>>, env), DS(a[1], ca \o <<k>>, env, n),
                                      TD(a[2], <<k>> \o cb, env), DS(a[2], <<k>> \o cb, env, n)) : k \in 0..(kk - 1)})
    [] t.op = "outer" -> LET ra == Rank(a[1])  c1 == SubSeq(c, 1, ra)  c2 == SubSeq(c, ra + 1, Len(c)) IN
                         DProd2(TD(a[1], c1, env), DS(a[1], c1, env, n), TD(a[2], c2, env), DS(a[2], c2, env, n))
    [] t.op = "transposed" -> DS(a[1], Rev(c), env, n)
    [] t.op \in {"conj", "variable"} -> DS(a[1], c, env, n)

TrueDeg(t) == Max2(0, SetMax({TD(t, c, env) : c \in Comps(Shape(t)), env \in EnvsOf(Free(t))}))

-----------------------------------------------------------------------------
(* MEANING 2: brute force.  Polynomials in two variables as coefficient maps over the        *)
(* rationals of CQ, [ok, c]: ok = FALSE when a coefficient left the range of CQ or the       *)
(* degree left PolyMax (then nothing is claimed).                                            *)
Mon == {m \in (0..PolyMax) \X (0..PolyMax) : m[1] + m[2] <= PolyMax}
Primes == <<2, 3, 5, 7>>
\* (TLCEval forces a function to be evaluated once; TLC would otherwise re-evaluate the lazy
\* function body at every application)
PK(c0) == LET c == TLCEval(c0) IN [ok |-> \A m \in Mon : QDef(c[m]), c |-> c]
PDegC(c) == SetMax({m[1] + m[2] : m \in {mm \in Mon : ~QIsZero(c[mm])}})
PDeg(p) == PDegC(p.c)
PZero == PK([m \in Mon |-> Q0])
PConst(n) == PK([m \in Mon |-> IF m = <<0, 0>> THEN QI(n) ELSE Q0])
PVar(j) == PK([m \in Mon |-> IF m = (IF j = 0 THEN <<1, 0>> ELSE <<0, 1>>) THEN Q1 ELSE Q0])
\* a FULL polynomial of degree d with positive (prime) coefficients; `salt` varies them.
\* Sums, products and derivatives of such polynomials have non-negative coefficients, so no
\* leading term can cancel: this is what "generic" means here.
PFull(d, salt) ==
  PK([m \in Mon |-> IF m[1] + m[2] <= d THEN QI(Primes[((salt + 2 * m[1] + 3 * m[2]) % 4) + 1]) ELSE Q0])
PAdd(p, q) == LET r == PK([m \in Mon |-> QAdd(p.c[m], q.c[m])]) IN
              [ok |-> p.ok /\ q.ok /\ r.ok, c |-> r.c]
\* coefficient of monomial m in the product: sum over a <= m[1], b <= m[2]
RECURSIVE ConvB(_, _, _, _, _), ConvA(_, _, _, _)
ConvB(pc, qc, m, a, b) ==
  IF b > m[2] THEN Q0
  ELSE IF QIsZero(pc[<<a, b>>]) THEN ConvB(pc, qc, m, a, b + 1)
  ELSE QAdd(QMul(pc[<<a, b>>], qc[<<m[1] - a, m[2] - b>>]), ConvB(pc, qc, m, a, b + 1))
ConvA(pc, qc, m, a) == IF a > m[1] THEN Q0 ELSE QAdd(ConvB(pc, qc, m, a, 0), ConvA(pc, qc, m, a + 1))
PMul(p, q) ==
  LET r == PK([m \in Mon |-> ConvA(p.c, q.c, m, 0)])
      dp == PDeg(p)  dq == PDeg(q) IN
  [ok |-> p.ok /\ q.ok /\ r.ok /\ (dp = ZERO \/ dq = ZERO \/ dp + dq <= PolyMax), c |-> r.c]
RECURSIVE PPow(_, _)
PPow(p, n) == IF n = 0 THEN PConst(1) ELSE PMul(p, PPow(p, n - 1))
PDer(p, j) ==
  LET up(m) == IF j = 0 THEN <<m[1] + 1, m[2]>> ELSE <<m[1], m[2] + 1>>
      r == PK([m \in Mon |-> IF up(m) \in Mon THEN QMul(QI(up(m)[j + 1]), p.c[up(m)]) ELSE Q0]) IN
  [ok |-> p.ok /\ r.ok, c |-> r.c]
\* sum of the polynomials f[s], s \in S (f a function)
RECURSIVE PSumSet(_, _)
PSumSet(S, f) == IF S = {} THEN PZero
                 ELSE LET s == CHOOSE s0 \in S : TRUE IN PAdd(f[s], PSumSet(S \ {s}, f))

\* terminals: physical component c of a form argument on element e = a full polynomial of
\* its TRUE degree (components of a symmetric element share the polynomial of their
\* sub-element); x_j = the variable; X_j = a positive affine function of x
TermPoly(t, c) ==
  CASE t.op \in {"coef", "arg"} ->
         LET e == ElemAt(t.n)  fc == Flat(c, PhysShape(e)) IN
         PFull(CompDeg(e, fc), 5 * t.n + (IF t.op = "arg" THEN 3 + t.mi[1] ELSE 0) + IndepComp(e, fc))
    [] t.op = "x" -> PVar(c[1])
    [] t.op = "X" -> PFull(1, c[1])
    [] t.op = "lit" -> PConst(t.n)
    [] t.op = "const" -> PConst(3)
    [] t.op = "zero" -> PZero
    [] t.op = "ident" -> IF c[1] = c[2] THEN PConst(1) ELSE PZero

RECURSIVE PV(_, _, _)
PV(t, c, env) ==
  LET a == t.args IN
  CASE t.op \in Terminals -> TermPoly(t, c)
    [] t.op = "sum" -> PAdd(PV(a[1], c, env), PV(a[2], c, env))
    [] t.op = "prod" -> PMul(PV(a[1], <<>>, env), PV(a[2], <<>>, env))
    [] t.op = "pow" -> PPow(PV(a[1], <<>>, env), t.n)
    [] t.op = "indexed" -> PV(a[1], Resolve(t.mi, env), env)
    [] t.op = "ctensor" -> PV(a[1], <<>>, Bind(env, t.mi, c))
    [] t.op = "isum" -> LET S == 0..(t.mi[2] - 1) IN
                        PSumSet(S, [v \in S |-> PV(a[1], c, [env EXCEPT ![t.mi[1]] = v])])
    [] t.op = "list" -> PV(a[c[1] + 1], Tail(c), env)
    [] t.op = "grad" -> PDer(PV(a[1], Front(c), env), c[Len(c)])
    [] t.op = "inner" -> LET S == Comps(Shape(a[1])) IN
                         PSumSet(S, [cc \in S |-> PMul(PV(a[1], cc, env), PV(a[2], cc, env))])
    [] t.op = "dot" -> LET ra == Rank(a[1])
                           ca == SubSeq(c, 1, ra - 1)
                           cb == SubSeq(c, ra, Len(c))
                           S == 0..(Shape(a[2])[1] - 1) IN
                       PSumSet(S, [k \in S |-> PMul(PV(a[1], ca \o <<k>>, env), PV(a[2], <<k>> \o cb, env))])
    [] t.op = "outer" -> LET ra == Rank(a[1]) IN
                         PMul(PV(a[1], SubSeq(c, 1, ra), env), PV(a[2], SubSeq(c, ra + 1, Len(c)), env))
    [] t.op = "transposed" -> PV(a[1], Rev(c), env)
    [] t.op \in {"conj", "variable"} -> PV(a[1], c, env)

PolyAll(t) == {PV(t, c, env) : c \in Comps(Shape(t)), env \in EnvsOf(Free(t))}

-----------------------------------------------------------------------------
(* ESTIMATE: SumDegreeEstimator as coded, one operator per handler.  Operands arrive as the   *)
(* already computed degrees of the operands (map_expr_dags, post-order).                      *)
CoordDegree == 1                          \* embedded_superdegree of the affine coordinate element
MaxDegrees(s) == Max2(SeqMaxI(s), 0)      \* _max_degrees: max(ops + (0,))
AddDegrees(s) == SeqSumI(s)               \* _add_degrees
ReduceDegree(f) == Max2(f - 1, 0)         \* _reduce_degree on simplices

H_constant_value == 0
H_spatial_coordinate == CoordDegree
H_cell_coordinate == 1
H_coefficient(e) == e.degree              \* embedded_superdegree (mixed: max over sub-elements)
H_argument(e) == e.degree
H_sum(a, b) == MaxDegrees(<<a, b>>)
H_product(a, b) == AddDegrees(<<a, b>>)
H_inner(a, b) == AddDegrees(<<a, b>>)
H_dot(a, b) == AddDegrees(<<a, b>>)
H_outer(a, b) == AddDegrees(<<a, b>>)
H_power(a, n) == a * n                    \* exponent is an IntValue >= 0
H_grad(f) == ReduceDegree(f)
H_component_tensor(A) == A
H_index_sum(A) == A
H_transposed(A) == A
H_conj(a) == a
H_constant == 0                           \* constant(v)
H_variable(e) == e                        \* variable(v, e, label): the label has no degree (None)
H_list_tensor(s) == MaxDegrees(s)
H_expr_list(s) == MaxDegrees(s)
H_expr_mapping(s) == MaxDegrees(s)
\* coordinate_derivative(v, integrand, coordinates, direction, coordinate derivatives): "a shape
\* derivative in direction V introduces terms V and grad(V) into the integrand": integrand + direction
H_coordinate_derivative(i, b, dir, d) == AddDegrees(<<i, dir>>)
\* `derivative = _not_handled`: the estimator raises on an unexpanded Gateaux derivative; it is
\* applied to what apply_derivatives makes of it (the conformance check reads that DAG back and
\* hands it to this module as a given term)
NotHandled == -2
Estimable(t) == t.op # "gderiv"

\* indexed(v, A, ii): a fully fixed-indexed Coefficient / Argument on an element with
\* sub-elements is refined to the degree of the sub-element that covers the flattened component.
\*   "reference": AS CODED -- the flattened PHYSICAL component is compared with offsets that
\*                advance by sub_element.reference_value_size; when no sub-element is found
\*                (component beyond the reference size) the code falls through to A.
\*   "physical":  INTENDED -- offsets advance by the physical value size; a symmetric element
\*                maps the leading (block) part of the component through its symmetry to a
\*                sub-element INDEX (the trailing part selects a component of that vector /
\*                tensor valued sub-element and plays no role).
H_indexed(t, A, rule) ==
  LET op == t.args[1] IN
  IF op.op \in {"coef", "arg"} /\ \A k \in DOMAIN t.mi : ~IsName(t.mi[k])
  THEN LET e == ElemAt(op.n) IN
       IF e.subs # <<>> /\ Len(t.mi) = Len(PhysShape(e))
       THEN LET comp == Flat(t.mi, PhysShape(e)) IN
            IF rule = "physical" /\ e.kind = "symmetric"
            THEN LET block == SubSeq(t.mi, 1, Len(e.bshape)) IN      \* component[: len(block_shape)]
                 e.subs[e.map[Flat(block, e.bshape) + 1]].degree     \* sub_elements[symmetry[block]]
            ELSE LET w == Walk(e.subs, comp, 1, 0, rule) IN
                 IF w[1] = 0 THEN A ELSE e.subs[w[1]].degree
       ELSE A
  ELSE A

RECURSIVE EstR(_, _)
EstR(t, rule) ==
  LET a == t.args IN
  CASE t.op = "coef" -> H_coefficient(ElemAt(t.n))
    [] t.op = "arg" -> H_argument(ElemAt(t.n))
    [] t.op = "ident" -> H_constant_value
    [] t.op = "const" -> H_constant
    [] t.op = "variable" -> H_variable(EstR(a[1], rule))
    [] t.op = "gderiv" -> NotHandled
    [] t.op = "cderiv" -> H_coordinate_derivative(EstR(a[1], rule), H_expr_list(<<H_spatial_coordinate>>),
                                                  H_expr_list(<<H_argument(ElemAt(t.mi[1]))>>), H_expr_mapping(<<>>))
    [] t.op = "x" -> H_spatial_coordinate
    [] t.op = "X" -> H_cell_coordinate
    [] t.op \in {"lit", "zero"} -> H_constant_value
    [] t.op = "sum" -> H_sum(EstR(a[1], rule), EstR(a[2], rule))
    [] t.op = "prod" -> H_product(EstR(a[1], rule), EstR(a[2], rule))
    [] t.op = "inner" -> H_inner(EstR(a[1], rule), EstR(a[2], rule))
    [] t.op = "dot" -> H_dot(EstR(a[1], rule), EstR(a[2], rule))
    [] t.op = "outer" -> H_outer(EstR(a[1], rule), EstR(a[2], rule))
    [] t.op = "pow" -> H_power(EstR(a[1], rule), t.n)
    [] t.op = "indexed" -> H_indexed(t, EstR(a[1], rule), rule)
    [] t.op = "ctensor" -> H_component_tensor(EstR(a[1], rule))
    [] t.op = "isum" -> H_index_sum(EstR(a[1], rule))
    [] t.op = "transposed" -> H_transposed(EstR(a[1], rule))
    [] t.op = "conj" -> H_conj(EstR(a[1], rule))
    [] t.op = "list" -> H_list_tensor([k \in DOMAIN a |-> EstR(a[k], rule)])
    [] t.op = "grad" -> H_grad(EstR(a[1], rule))
Est(t) == EstR(t, IndexedRule)

-----------------------------------------------------------------------------
(* THE BUILDER: a stack of at most two terms; one action per constructor of the public API.   *)
(* A stack entry carries the term and its synthesised attributes (shape, free indices, depth, *)
(* argument numbers, has-a-domain), computed by each constructor from those of its operands   *)
(* the way the ufl constructors compute ufl_shape / ufl_free_indices; TypeOK checks them      *)
(* against the recursive definitions above.                                                   *)
VARIABLE stack
vars == <<stack>>

Entry(t, sh, fr, dp, an, dm) == [t |-> t, sh |-> sh, fr |-> fr, dp |-> dp, an |-> an, dm |-> dm]
EntryOf(t) == Entry(t, Shape(t), Free(t), Depth(t), ArgNums(t), HasDomain(t))

Top == stack[Len(stack)]
\* the depth allowed for a term at the top of the stack
Budget == IF Len(stack) = 2 THEN RightDepth ELSE MaxDepth
\* nothing is built on top of a form operation
Open(e) == e.t.op \notin FormOps
CanPush == Len(stack) = 0 \/ (Len(stack) = 1 /\ stack[1].dp < MaxDepth /\ Open(stack[1]))
Push(e) == stack' = Append(stack, e)
ReplaceTop(e) == stack' = [stack EXCEPT ![Len(stack)] = e]
Unary(op) == op \in Ops /\ Len(stack) >= 1 /\ Top.dp < Budget /\ Open(Top)
Binary(op) == op \in Ops /\ Len(stack) = 2 /\ 1 + Max2(stack[1].dp, stack[2].dp) <= MaxDepth

PushCoef == CanPush /\ \E n \in CoefElems :
              Push(Entry(N("coef", n, <<>>, <<>>), PhysShape(Elems[n]), {}, 0, {}, TRUE))
PushArg == CanPush /\ \E s \in ArgSlots :
              Push(Entry(N("arg", s[1], <<s[2]>>, <<>>), PhysShape(Elems[s[1]]), {}, 0, {s[2]}, TRUE))
PushCoord == CanPush /\ \E w \in Coords :
              Push(Entry(N(w, 0, <<>>, <<>>), IF w = "x" THEN <<GDim>> ELSE IF w = "X" THEN <<TDim>> ELSE <<>>, {}, 0, {}, TRUE))
PushLit == CanPush /\ \E v \in Lits : Push(Entry(N("lit", v, <<>>, <<>>), <<>>, {}, 0, {}, FALSE))

\* A[ii]: every position a fixed component or a fresh index name (no repeated name)
MultiIndices(sh, used) ==
  {mi \in [DOMAIN sh -> (0..(SeqMaxI(sh) - 1)) \cup IdxNames] :
     /\ \A k \in DOMAIN sh : IsName(mi[k]) \/ mi[k] < sh[k]
     /\ \A k \in DOMAIN sh : IsName(mi[k]) => mi[k] \notin used
     /\ \A j, k \in DOMAIN sh : (j # k /\ IsName(mi[j])) => mi[j] # mi[k]}
DoIndexed ==
  /\ Unary("indexed") /\ Len(Top.sh) >= 1
  /\ LET e == Top IN
     \E mi \in MultiIndices(e.sh, Names(e.fr)) :
        ReplaceTop(Entry(N("indexed", 0, mi, <<e.t>>), <<>>,
                         e.fr \cup {<<mi[k], e.sh[k]>> : k \in {j \in DOMAIN mi : IsName(mi[j])}},
                         e.dp + 1, e.an, e.dm))

\* as_tensor(A, ii): ii a non-empty sequence of distinct free indices of the scalar A
DoCTensor ==
  /\ Unary("ctensor") /\ Top.sh = <<>>
  /\ LET e == Top  nm == Names(e.fr) IN
     \E ii \in {<<k>> : k \in nm} \cup {<<j, k>> : j, k \in nm} :
        /\ (Len(ii) = 2 => ii[1] # ii[2])
        /\ ReplaceTop(Entry(N("ctensor", 0, ii, <<e.t>>), [k \in DOMAIN ii |-> DimOf(e.fr, ii[k])],
                            {p \in e.fr : \A k \in DOMAIN ii : ii[k] # p[1]}, e.dp + 1, e.an, e.dm))

\* a ** n: ufl takes powers of true scalars only (no free indices)
DoPow ==
  /\ Unary("pow") /\ Top.sh = <<>> /\ Top.fr = {}
  /\ LET e == Top IN
     \E n \in Pows : /\ (n >= 2 => e.an = {})
                     /\ ReplaceTop(Entry(N("pow", n, <<>>, <<e.t>>), <<>>, {}, e.dp + 1, e.an, e.dm))

\* grad(f): f must live on a domain; rank <= 1 keeps ranks <= 2 (a tensor-valued form argument
\* itself may be differentiated: rank 3)
DoGrad == /\ Unary("grad") /\ Top.dm
          /\ (Len(Top.sh) <= 1 \/ Top.t.op \in {"coef", "arg"})
          /\ LET e == Top IN
             ReplaceTop(Entry(N("grad", 0, <<>>, <<e.t>>), e.sh \o <<GDim>>, e.fr, e.dp + 1, e.an, e.dm))

\* ufl.variable(e): an expression without free indices, labelled
DoVariable == /\ Unary("variable") /\ Top.fr = {}
              /\ LET e == Top IN
                 ReplaceTop(Entry(N("variable", 0, <<>>, <<e.t>>), e.sh, e.fr, e.dp + 1, e.an, e.dm))

DoTransposed == /\ Unary("transposed") /\ Len(Top.sh) = 2 /\ Top.fr = {}
                /\ LET e == Top IN
                   ReplaceTop(Entry(N("transposed", 0, <<>>, <<e.t>>), Rev(e.sh), {}, e.dp + 1, e.an, e.dm))

L == stack[1]
R == stack[2]
\* the result of a binary constructor replaces both operands
Combine(t, sh, fr) == stack' = <<Entry(t, sh, fr, 1 + Max2(L.dp, R.dp), L.an \cup R.an, L.dm \/ R.dm)>>
\* a * b of scalars: indices free in both are summed (IndexSum around the Product)
RECURSIVE WrapSums(_, _)
WrapSums(t, F) == IF F = {} THEN t
                  ELSE LET p == CHOOSE q \in F : \A r \in F : q[1] <= r[1] IN
                       WrapSums(N("isum", 0, <<p[1], p[2]>>, <<t>>), F \ {p})
DoProd ==
  /\ Binary("prod") /\ L.sh = <<>> /\ R.sh = <<>> /\ L.an \cap R.an = {}
  /\ \A p \in L.fr, q \in R.fr : p[1] = q[1] => p[2] = q[2]
  /\ Combine(WrapSums(N("prod", 0, <<>>, <<L.t, R.t>>), L.fr \cap R.fr), <<>>,
             (L.fr \cup R.fr) \ (L.fr \cap R.fr))
DoSum ==
  /\ Binary("sum") /\ L.sh = R.sh /\ L.fr = R.fr /\ L.an = R.an
  /\ Combine(N("sum", 0, <<>>, <<L.t, R.t>>), L.sh, L.fr)
DoList ==
  /\ Binary("list") /\ L.sh = R.sh /\ Len(L.sh) <= 1 /\ L.fr = R.fr /\ L.an = R.an
  /\ Combine(N("list", 0, <<>>, <<L.t, R.t>>), <<2>> \o L.sh, L.fr)
NoFree2 == L.fr = {} /\ R.fr = {}
DoInner ==
  /\ Binary("inner") /\ Len(L.sh) >= 1 /\ L.sh = R.sh /\ NoFree2 /\ L.an \cap R.an = {}
  /\ Combine(N("inner", 0, <<>>, <<L.t, R.t>>), <<>>, {})
DoDot ==
  /\ Binary("dot") /\ Len(L.sh) >= 1 /\ Len(R.sh) >= 1 /\ Len(L.sh) + Len(R.sh) <= 4 /\ NoFree2
  /\ L.sh[Len(L.sh)] = R.sh[1] /\ L.an \cap R.an = {}
  /\ Combine(N("dot", 0, <<>>, <<L.t, R.t>>), Front(L.sh) \o Tail(R.sh), {})
DoOuter ==
  /\ Binary("outer") /\ Len(L.sh) = 1 /\ Len(R.sh) = 1 /\ NoFree2 /\ L.an \cap R.an = {}
  /\ Combine(N("outer", 0, <<>>, <<L.t, R.t>>), L.sh \o R.sh, {})

\* FORM OPERATIONS on a finished integrand (a true scalar on a domain); the new Argument gets the
\* next free number (the integrand's own arguments must be numbered from 0 for a valid form)
Integrand == Len(stack) = 1 /\ Open(Top) /\ Top.sh = <<>> /\ Top.fr = {} /\ Top.dm
             /\ Top.an \in {{}, {0}}
NewNumber == Cardinality(Top.an)
\* derivative(t*dx, tuple of Coefficients), at least one of which occurs in t
DoGateaux ==
  /\ "gderiv" \in Ops /\ Integrand
  /\ LET e == Top IN
     \E k \in DOMAIN DerivTuples :
        /\ \E j \in DOMAIN DerivTuples[k] : HasCoef(e.t, DerivTuples[k][j])
        /\ ReplaceTop(Entry(N("gderiv", 0, <<k, NewNumber>>, <<e.t>>), <<>>, {}, e.dp, e.an \cup {NewNumber}, TRUE))
\* derivative(t*dx, SpatialCoordinate(mesh), V)
DoShape ==
  /\ "cderiv" \in Ops /\ Integrand
  /\ LET e == Top IN
     \E n \in DirSlots :
        ReplaceTop(Entry(N("cderiv", 0, <<n, NewNumber>>, <<e.t>>), <<>>, {}, e.dp, e.an \cup {NewNumber}, TRUE))

\* Seeds = {<< >>}: start from the empty stack; Seeds = a set of <<t>>: one given term each
Init == stack \in {IF s = <<>> THEN <<>> ELSE <<EntryOf(s[1])>> : s \in Seeds}
Next == \/ PushCoef \/ PushArg \/ PushCoord \/ PushLit
        \/ DoIndexed \/ DoCTensor \/ DoPow \/ DoGrad \/ DoTransposed
        \/ DoProd \/ DoSum \/ DoList \/ DoInner \/ DoDot \/ DoOuter
        \/ DoGateaux \/ DoShape \/ DoVariable
Spec == Init /\ [][Next]_vars

-----------------------------------------------------------------------------
(* INVARIANTS, on every finished term (a stack holding exactly one term) *)
Done == Len(stack) = 1
T == stack[1].t

\* the attributes synthesised by the constructors are those of the recursive definitions
TypeOK == /\ Len(stack) <= 2
          /\ \A i \in DOMAIN stack : stack[i] = EntryOf(stack[i].t)
          /\ \A i \in DOMAIN stack : stack[i].dp <= (IF Seeds = {<<>>} THEN MaxDepth ELSE 99)
          /\ \A i \in DOMAIN stack : Len(stack[i].sh) <= 4 /\ Cardinality(stack[i].an) <= 2

\* a pool on which reference and physical value sizes agree everywhere
PlainPool == \A i \in DOMAIN Elems : /\ Elems[i].kind # "symmetric"
                                      /\ Elems[i].refsize = Elems[i].physsize
                                      /\ \A j \in DOMAIN Elems[i].subs : Elems[i].subs[j].refsize = Elems[i].subs[j].physsize

\* THE PROPERTY at model level
EstSafe == (Done /\ Estimable(T)) => Est(T) >= TrueDeg(T)
\* the as-coded rule, checked in the same run on pools where it is expected to be safe
AsCodedSafe == (Done /\ Estimable(T)) => EstR(T, "reference") >= TrueDeg(T)
\* the as-coded rule must coincide with the intended one wherever reference and physical sizes agree
RulesAgreeOnPlainPools == (Done /\ PlainPool) => EstR(T, "reference") = EstR(T, "physical")

\* the degree rules against brute-force polynomial arithmetic: sound always (PolyDeg <= TrueDeg),
\* exact when no coordinate terminal occurs (every component is then zero or a full polynomial
\* with positive coefficients).  PolyInfo = <<defined, degree>>, the polynomials evaluated once.
PolyInfo(t) == LET S == TLCEval(PolyAll(t)) IN
               <<\A p \in S : p.ok, Max2(0, SetMax({PDeg(p) : p \in S}))>>
PolyRulesOn(t, info, td) == info[1] => /\ info[2] <= td
                                       /\ (~HasCoord(t) => info[2] = td)
PolyRules == (Done /\ WithPoly) => PolyRulesOn(T, PolyInfo(T), TrueDeg(T))

-----------------------------------------------------------------------------
(* All of the above in one evaluation per term (TLC does not share work between invariants),
   and the table handed to the conformance check: one JSON line per term,
     [term, Est as coded, Est intended, TrueDeg, PolyDeg or -2 (not evaluated / out of range)]
   term = [op, n, mi, [operands]].
   AsCodedHolds: the pool is one on which the as-coded rule is expected to be safe as well. *)
RECURSIVE Enc(_)
Enc(t) == <<t.op, t.n, t.mi, [k \in DOMAIN t.args |-> Enc(t.args[k])]>>
Checked ==
  Done => LET er == EstR(T, "reference")
              ep == EstR(T, "physical")
              td == TrueDeg(T)
              info == IF WithPoly THEN PolyInfo(T) ELSE <<FALSE, 0>>
          IN /\ (Estimable(T) => (IF IndexedRule = "reference" THEN er ELSE ep) >= td)     \* EstSafe
             /\ ((AsCodedHolds /\ Estimable(T)) => er >= td)                            \* AsCodedSafe
             /\ (PlainPool => er = ep)                                   \* RulesAgreeOnPlainPools
             /\ (WithPoly => PolyRulesOn(T, info, td))                   \* PolyRules
             /\ (DumpOn => PrintT(ToJson(<<Enc(T), er, ep, td, IF info[1] THEN info[2] ELSE -2>>)))
=============================================================================
